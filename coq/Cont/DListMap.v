(* DListMap - map interface of dlinked_list.c: the pointer-level model refines ContSpec's
   map_step exactly (the chain spells the strictly ascending association list, every item holds
   a pair of COPIES). *)
From LV Require Import Cont.ContSpec Cont.ContKey Cont.ListProofs Cont.MapProofs
  Cont.DListModel Cont.DListStore Cont.DListOps Cont.DListPure Cont.DListProofs.
From Coq Require Import Sorting.Sorted.
Local Open Scope Z_scope.

Notation pcell := (nat * option pair)%type.

Definition ktest (k : key) (c : pcell) : bool :=
  match snd c with Some p => is_eq (key_cmp (fst p) k) | None => false end.

Definition plain (cs : list pcell) : Prop := forall c, In c cs -> snd c <> None.

Lemma plain_vals : forall (cs : list pcell) m, vals cs = map Some m -> plain cs.
Proof.
  intros cs m H c Hc Hn. apply (in_map snd) in Hc. fold (vals cs) in Hc. rewrite H, Hn in Hc.
  apply in_map_iff in Hc. destruct Hc as (x & Hx & _). discriminate.
Qed.

(* ---------------------------------------------------------------------------------------- *)
(* map_remove on the store *)
Lemma mrem_scan_spec : forall (t : list pcell) (st : store pair) p c fuel k,
  dlseg st p (c :: t) None -> (length t < fuel)%nat -> plain t ->
  mrem_scan fuel st (Some (fst c)) k = Ok (lastp (fst (split_at (ktest k) t)) (Some (fst c))).
Proof.
  induction t as [|y t' IH]; intros st p c fuel k Hs Hf Hpl.
  - destruct fuel; [cbn in Hf; lia|]. destruct Hs as [Hc _]. cbn [mrem_scan].
    rewrite (rd_some _ _ _ _ Hc). cbn. auto.
  - destruct fuel; [cbn in Hf; lia|]. destruct Hs as [Hc Hs']. cbn [mrem_scan].
    rewrite (rd_some _ _ _ _ Hc). cbn [bind nnext hdp].
    pose proof Hs' as [Hy _]. rewrite (rd_some _ _ _ _ Hy). cbn [bind ndata split_at].
    destruct (snd y) as [py|] eqn:Ey; [|exfalso; apply (Hpl y); [left; auto|auto]].
    cbn [pair_vs_key bind]. unfold ktest at 1. rewrite Ey.
    destruct (is_eq (key_cmp (fst py) k)).
    + cbn. auto.
    + rewrite (IH st (Some (fst c)) y fuel k); auto; [|cbn in Hf; lia|intros z Hz; apply Hpl; right; auto].
      destruct (split_at (ktest k) t'). cbn. auto.
Qed.

Lemma dl_map_remove_inv : forall (st : store pair) o cs k, Inv st o cs -> plain cs ->
  match snd (split_at (ktest k) cs) with
  | [] => dl_map_remove st o k = Ok (st, o, None)
  | c :: b => exists st' o', dl_map_remove st o k = Ok (st', o', snd c) /\
                             Inv st' o' (fst (split_at (ktest k) cs) ++ b)
  end.
Proof.
  intros st o cs k HI Hpl. pose proof HI as [Hsh Hlive]. pose proof (shape_fuel _ _ _ _ Hsh) as Hfuel.
  destruct Hsh as [Hs Hn Hh Ht Hl]. unfold dl_map_remove. rewrite Hh.
  destruct cs as [|h t]; [cbn; auto|]. cbn [hdp].
  pose proof Hs as [Hhd Hst]. rewrite (rd_some _ _ _ _ Hhd). cbn [bind ndata nnext].
  destruct (snd h) as [ph|] eqn:Eh; [|exfalso; apply (Hpl h); [left; auto|auto]].
  cbn [pair_vs_key bind split_at].
  assert (Hkt : ktest k h = is_eq (key_cmp (fst ph) k)) by (unfold ktest; rewrite Eh; auto).
  rewrite Hkt. inversion Hn as [|? ? Hnh Hnt]; subst.
  destruct (is_eq (key_cmp (fst ph) k)) eqn:Ek; cbn [fst snd app dhead dlen dtail].
  - (* the head *)
    assert (Hfin : forall (st2 : store pair) tl, dlseg st2 None t None ->
              (forall j, ~ In j (ids t) -> lookup st2 j = lookup st j) -> same_live st st2 -> tl = lastp t None ->
              exists st' o',
                (nt <- rd st2 (Some (fst h));; st1 <- set_data st2 (Some (fst h)) None;;
                 st3 <- item_del st1 (Some (fst h));; Ok (st3, dec_len (mkDl (dlen o) (hdp t None) tl), ndata nt))
                = Ok (st', o', snd h) /\ Inv st' o' t).
    { intros st2 tl Hs2 Hfr2 Hsl2 ->.
      assert (Hh2 : lookup st2 (fst h) = Some (mkNode (Some ph) None (hdp t None))) by (rewrite Hfr2; auto).
      exec. do 2 eexists. split; [rewrite Eh; reflexivity|]. split.
      + constructor; cbn [dec_len dlen dhead dtail]; auto.
        * apply dlseg_upd_other; auto.
        * rewrite Hl. cbn [length]. lia.
      + eapply live_in_free with (L := ids (h :: t)).
        * eapply same_live_in; eauto.
        * intros x [Hx | Hx] Hne; [congruence | auto]. }
    destruct t as [|t0 t'].
    + cbn [hdp is_null bind]. apply Hfin; auto using same_live_refl.
    + destruct (dlseg_set_first_prev _ _ _ _ _ Hst Hnt ltac:(discriminate)) as (nb & nd & Hb1 & Hin & Hlk & Hnx & Hset).
      rewrite Hb1. cbn [is_null]. unfold set_prev at 1. rewrite (modify_some _ _ _ _ _ Hlk). cbn [bind is_null].
      rewrite <- Hb1. apply Hfin.
      * apply Hset.
      * intros j Hj. apply lookup_upd_other. intro; subst; auto.
      * eapply same_live_upd; eauto.
      * rewrite Ht. auto.
  - (* further down: scan for the item before the match *)
    rewrite (mrem_scan_spec t st None h (fuel_of st) k); auto; [|cbn in Hfuel; lia|intros z Hz; apply Hpl; right; auto].
    cbn [bind]. pose proof (split_at_app _ (ktest k) t) as Happ.
    destruct (split_at (ktest k) t) as [t1 t2]. cbn [fst snd] in *.
    set (A := h :: t1). change (lastp t1 (Some (fst h))) with (lastp A None).
    assert (HAB : h :: t = A ++ t2) by (subst A; rewrite Happ; auto).
    assert (HAne : A <> []) by (subst A; discriminate).
    rewrite HAB in *. clearbody A. clear Happ.
    apply dlseg_app in Hs. destruct Hs as [HsA HsB].
    pose proof (nodup_app_l _ _ _ Hn) as HnA.
    destruct (dlseg_set_last_next _ _ _ _ _ HsA HnA HAne) as (pa & nd & Hpa & HinA & Hlk & Hnx & HsetA).
    rewrite Hpa in *. rewrite (rd_some _ _ _ _ Hlk). cbn [bind]. rewrite Hnx.
    destruct t2 as [|c b]; [cbn; auto|]. cbn [hdp is_null].
    destruct HsB as [Hc Hb].
    destruct (nodup_mid _ _ _ _ Hn) as (Hca & Hcb & Hnab).
    pose proof (nodup_app_r _ _ _ Hnab) as Hnb.
    assert (Hpac : pa <> fst c) by (intro; subst; auto).
    exec.
    set (st1 := upd st pa (Some (mkNode (ndata nd) (nprev nd) (hdp b None)))).
    assert (HsA1 : dlseg st1 None A (hdp b None)) by (subst st1; apply HsetA).
    assert (Hb1 : dlseg st1 (Some (fst c)) b None).
    { subst st1. apply dlseg_upd_other; auto. intro. eapply (nodup_app_disj _ A b); eauto. }
    assert (Hsl1 : same_live st st1) by (subst st1; eapply same_live_upd; eauto).
    assert (Hc1 : lookup st1 (fst c) = Some (mkNode (snd c) (Some pa) (hdp b None))) by (subst st1; lk_solve).
    assert (Hhd' : hdp (A ++ c :: b) None = Some (fst h)) by (rewrite <- HAB; auto).
    assert (Hfin : forall (st2 : store pair) o2, dlseg st2 (Some pa) b None ->
              (forall j, ~ In j (ids b) -> lookup st2 j = lookup st1 j) -> same_live st1 st2 ->
              dlen o2 = dlen o -> dhead o2 = Some (fst h) -> dtail o2 = lastp b (Some pa) ->
              exists st' o',
                (nt <- rd st2 (Some (fst c));;
                 st3 <- modify st2 (Some (fst c)) (fun nd0 => mkNode None (nprev nd0) (nnext nd0));;
                 st4 <- item_del st3 (Some (fst c));; Ok (st4, dec_len o2, ndata nt))
                = Ok (st', o', snd c) /\ Inv st' o' (A ++ b)).
    { intros st2 o2 Hs2 Hfr2 Hsl2 Ho1 Ho2 Ho3.
      assert (Hc2 : lookup st2 (fst c) = Some (mkNode (snd c) (Some pa) (hdp b None))) by (rewrite Hfr2; auto).
      exec. do 2 eexists. split; [reflexivity|]. split.
      + constructor; cbn [dec_len dlen dhead dtail]; auto.
        * apply dlseg_app. split.
          -- apply dlseg_upd_other; auto. apply dlseg_frame with st1; auto.
             intros j Hj. apply Hfr2. intro. eapply (nodup_app_disj _ A b); eauto.
          -- rewrite Hpa. apply dlseg_upd_other; auto.
        * rewrite Ho2, !hdp_app. rewrite hdp_app in Hhd'. destruct A; [congruence|auto].
        * rewrite lastp_app, Hpa. auto.
        * rewrite Ho1, Hl, !app_length. cbn [length]. lia.
      + eapply live_in_free with (L := ids (A ++ c :: b)).
        * eapply same_live_in; [|eauto]. eapply same_live_trans; eauto.
        * intros x Hx Hne. rewrite ids_app in *. cbn in Hx. apply in_app_or in Hx. apply in_or_app.
          destruct Hx as [|[|]]; auto. congruence. }
    destruct b as [|b0 b'].
    + cbn [hdp is_null bind]. apply Hfin; auto using same_live_refl.
    + destruct (dlseg_set_first_prev _ _ _ _ _ Hb1 Hnb ltac:(discriminate)) as (nb & ndb & Hbb & Hin & Hlkb & Hnxb & Hsetb).
      rewrite Hbb. cbn [is_null]. rewrite (modify_some _ _ _ _ _ Hlkb). cbn [bind is_null].
      apply Hfin; auto.
      * intros j Hj. apply lookup_upd_other. intro; subst; auto.
      * eapply same_live_upd; eauto.
      * rewrite Hh. auto.
      * rewrite Ht, !lastp_app. cbn [lastp]. auto.
Qed.

(* ---------------------------------------------------------------------------------------- *)
(* pure facts about the ideal dictionary *)
Definition ptest (k : key) (p : pair) : bool := key_eqb k (fst p).

Lemma ktest_split : forall k (cs : list pcell) m, vals cs = map Some m ->
  vals (fst (split_at (ktest k) cs)) = map Some (fst (split_at (ptest k) m)) /\
  vals (snd (split_at (ktest k) cs)) = map Some (snd (split_at (ptest k) m)).
Proof.
  intros k cs m Hv.
  set (f' := fun d : option pair => match d with Some p => is_eq (key_cmp (fst p) k) | None => false end).
  assert (Hsp : split_at f' (vals cs) = (map Some (fst (split_at (ptest k) m)), map Some (snd (split_at (ptest k) m)))).
  { rewrite Hv, split_at_map. rewrite (split_at_ext _ (fun x => f' (Some x)) (ptest k)); auto.
    intros p. unfold f', ptest. rewrite key_eqb_sym. unfold key_eqb, is_eq. destruct key_cmp; auto. }
  unfold vals in Hsp. rewrite split_at_map in Hsp. inversion Hsp as [[H1 H2]].
  change (fun x : pcell => f' (snd x)) with (ktest k) in *. split; auto.
Qed.

Lemma m_remove_split : forall k m,
  m_remove k m = (fst (split_at (ptest k) m) ++ tl (snd (split_at (ptest k) m)),
                  match snd (split_at (ptest k) m) with [] => None | p :: _ => Some p end).
Proof.
  induction m as [|[k' v'] t IH]; cbn [m_remove split_at]; auto.
  change (ptest k (k', v')) with (key_eqb k k').
  destruct (key_eqb k k'); cbn [fst snd tl app]; auto. rewrite IH.
  destruct (split_at (ptest k) t) as [a r]; cbn [fst snd]. destruct r; auto.
Qed.

Lemma msorted_kle : forall m, msorted m -> StronglySorted (kle fst) m.
Proof.
  unfold msorted. induction m as [|p t IH]; cbn; intros H; constructor; inversion H; subst; auto.
  rewrite Forall_map in H3. eapply Forall_impl; [|exact H3]. intros q Hq. apply key_lt_le. auto.
Qed.

Lemma msorted_app_lt : forall ma p mb, msorted (ma ++ p :: mb) -> Forall (fun q => key_lt (fst q) (fst p)) ma.
Proof.
  unfold msorted. induction ma as [|a t IH]; intros p mb H; constructor; cbn in H; inversion H; subst.
  - rewrite map_app, Forall_app in H3. destruct H3 as [_ H3]. inversion H3; auto.
  - eapply IH; eauto.
Qed.

Lemma m_set_present : forall k v ma k' v' mb, Forall (fun q => key_lt (fst q) k) ma -> k' = k ->
  m_set k v (ma ++ (k', v') :: mb) = (ma ++ (k', v) :: mb, true).
Proof.
  induction ma as [|[ka va] t IH]; intros k' v' mb Hlt ->; cbn.
  - rewrite key_cmp_refl. auto.
  - inversion Hlt; subst. cbn in H1. apply key_cmp_gt_lt in H1. rewrite H1. rewrite IH; auto.
Qed.

Lemma split_ptest_fst : forall k m p, In p (fst (split_at (ptest k) m)) -> fst p <> k.
Proof.
  intros k m p H. apply split_at_fst in H. unfold ptest in H. apply key_eqb_neq in H. congruence.
Qed.

Lemma m_get_above : forall k m, Forall (fun q => key_lt k (fst q)) m -> m_get m k = None.
Proof.
  induction 1 as [|[k' v'] t H _ IH]; cbn; auto. cbn in H. unfold key_eqb. unfold key_lt in H. rewrite H. auto.
Qed.

Lemma ord_find_mget : forall k m, msorted m ->
  match ord_find (mget_act k) (map Some m) with Some p => Some (snd p) | None => None end = m_get m k.
Proof.
  unfold msorted. induction m as [|[k' v'] t IH]; intros Hs; cbn; auto. inversion Hs as [|? ? Hst Hall]; subst.
  rewrite (key_cmp_antisym k k'). unfold key_eqb. destruct (key_cmp k k') eqn:Ec; cbn; auto.
  symmetry. apply m_get_above. rewrite Forall_map in Hall. eapply Forall_impl; [|exact Hall].
  intros q Hq. cbn in Hq. eapply key_lt_trans; eauto.
Qed.

Lemma existsb_split : forall A (f : A -> bool) l,
  existsb f l = match snd (split_at f l) with [] => false | _ => true end.
Proof.
  induction l as [|x t IH]; cbn; auto. destruct (f x); cbn; auto. rewrite IH. destruct (split_at f t); auto.
Qed.

Lemma all_some_map : forall A (l : list A), all_some (map Some l) = Some l.
Proof. induction l; cbn; auto. rewrite IHl. auto. Qed.

Lemma collect_spec : forall (b : list pcell) (st : store pair) p fuel m, dlseg st p b None ->
  (length b < fuel)%nat -> vals b = map Some m -> collect fuel st (hdp b None) = Ok m.
Proof.
  induction b as [|c t IH]; intros st p fuel m Hs Hf Hv.
  - destruct fuel; [cbn in Hf; lia|]. destruct m; [auto|discriminate].
  - destruct fuel; [cbn in Hf; lia|]. destruct m as [|q m']; [discriminate|]. cbn in Hv. inversion Hv as [[Hc Ht]].
    destruct Hs as [Hlk Hs']. cbn [collect hdp]. rewrite (rd_some _ _ _ _ Hlk). cbn [bind ndata nnext]. rewrite Hc.
    rewrite (IH st (Some (fst c)) fuel m'); auto. cbn in Hf. lia.
Qed.

Definition lift_test (f : pair -> bool) (c : pcell) : bool := match snd c with Some p => f p | None => false end.

Lemma lift_split : forall f (cs : list pcell) m, vals cs = map Some m ->
  vals (fst (split_at (lift_test f) cs)) = map Some (fst (split_at f m)) /\
  vals (snd (split_at (lift_test f) cs)) = map Some (snd (split_at f m)).
Proof.
  intros f cs m Hv.
  set (f' := fun d : option pair => match d with Some p => f p | None => false end).
  assert (Hsp : split_at f' (vals cs) = (map Some (fst (split_at f m)), map Some (snd (split_at f m)))).
  { rewrite Hv, split_at_map. rewrite (split_at_ext _ (fun x => f' (Some x)) f); auto. }
  unfold vals in Hsp. rewrite split_at_map in Hsp. inversion Hsp as [[H1 H2]].
  change (fun x : pcell => f' (snd x)) with (lift_test f) in *. split; auto.
Qed.

Definition mop_pre (m : mstate) (op : mop) : Prop := Z.of_nat (length (fst (map_step m op))) <= INT_MAX.

Lemma std_ins_length : forall E (kf : E -> key) e ys, length (std_ins kf e ys) = S (length ys).
Proof. induction ys; cbn; auto. destruct key_gtb; cbn; auto. Qed.

(* ---------------------------------------------------------------------------------------- *)
(* one step of the map interface *)
Section MapStep.
Variables (st : store pair) (o : dl) (m : mstate).
Hypothesis HR : Repr st o (map Some m).
Hypothesis Hsorted : msorted m.

Lemma mstep_set : forall k v, Z.of_nat (length (fst (m_set k v m))) <= INT_MAX ->
  exists st' o', dl_set st o k v = Ok (st', o', snd (m_set k v m)) /\ Repr st' o' (map Some (fst (m_set k v m))).
Proof.
  intros k v Hb. pose proof (repr_len _ _ _ _ HR) as Hlen. rewrite map_length in Hlen.
  destruct HR as (cs & Hv & HI). pose proof HI as [Hsh Hlive].
  pose proof (plain_vals _ _ Hv) as Hpl. pose proof (shape_fuel _ _ _ _ Hsh) as Hf.
  unfold dl_set. rewrite (sh_head _ _ _ _ Hsh).
  rewrite (scan_spec _ cs st None (fuel_of st) (key_stop k)
             (fun d => match d with Some p => is_eq (key_cmp (fst p) k) | None => false end) 0
             (sh_seg _ _ _ _ Hsh) Hf).
  2:{ intros c Hc. destruct (snd c) eqn:Ec; [reflexivity|]. exfalso. eapply Hpl; eauto. }
  cbn [bind]. change (fun c : pcell => match snd c with Some p => is_eq (key_cmp (fst p) k) | None => false end) with (ktest k).
  destruct (ktest_split k cs m Hv) as [H1 H2].
  pose proof (split_at_app _ (ktest k) cs) as Happ. pose proof (split_at_app _ (ptest k) m) as Happm.
  pose proof (split_at_snd _ (ptest k) m) as Hsnd. pose proof (split_ptest_fst k m) as Hfst.
  destruct (split_at (ktest k) cs) as [a r]. destruct (split_at (ptest k) m) as [ma mr]. cbn [fst snd] in *.
  destruct r as [|c b].
  - (* absent: a new pair goes in *)
    destruct mr; [|discriminate]. rewrite app_nil_r in *. subst ma.
    assert (Habs : forall p, In p m -> fst p <> k) by auto.
    rewrite (m_set_absent k v m Habs) in *. cbn [fst snd hdp is_null] in *. rewrite std_ins_length in Hb.
    destruct (dl_insert_inv _ pcmp st o cs (Some (k, v)) HI ltac:(lia)) as (st' & o' & E & HI').
    rewrite E. cbn [bind]. do 2 eexists. split; [reflexivity|]. eexists. split; [|exact HI'].
    rewrite (ins_cells_keyed pair fst cs m _ (k, v) Hv). f_equal.
    apply cls_ins_exact; [apply msorted_kle; auto|]. destruct m as [|h t]; auto. cbn. apply Habs. left; auto.
  - (* present: the value of the stored pair is replaced *)
    destruct mr as [|[k' v'] mb]; [discriminate|]. cbn in H2. inversion H2 as [[Hc Hb2]].
    assert (Hk : k' = k). { specialize (Hsnd _ _ eq_refl). unfold ptest in Hsnd. cbn in Hsnd. apply key_eqb_eq in Hsnd. auto. }
    cbn [hdp is_null]. rewrite Happ in HI, Hsh.
    pose proof (sh_seg _ _ _ _ Hsh) as Hs. apply dlseg_app in Hs. destruct Hs as [_ [Hlk _]].
    rewrite (rd_some _ _ _ _ Hlk). cbn [bind ndata]. rewrite Hc. cbn [fst].
    destruct (set_data_inv _ st o a c b (Some (k', v)) HI) as (st' & E & HI').
    rewrite E. cbn [bind]. rewrite Happm.
    rewrite (m_set_present k v ma k' v' mb); auto.
    2:{ rewrite Happm in Hsorted. pose proof (msorted_app_lt _ _ _ Hsorted) as HH. cbn in HH. rewrite Hk in HH. auto. }
    cbn [fst snd]. do 2 eexists. split; [reflexivity|]. eexists. split; [|exact HI'].
    rewrite vals_app, map_app. unfold vals in *. cbn [map snd]. rewrite H1, Hb2. auto.
Qed.

Lemma mstep_get : forall k, dl_map_get st o k = Ok (m_get m k).
Proof.
  intros k. destruct HR as (cs & Hv & [Hsh Hlive]). unfold dl_map_get.
  rewrite (sh_head _ _ _ _ Hsh), (scan_ord_spec _ cs st None); auto using (sh_seg _ _ _ _ Hsh), (shape_fuel _ _ _ _ Hsh).
  cbn [bind]. rewrite Hv, ord_find_mget; auto.
Qed.

Lemma mstep_remove : forall k,
  exists st' o', dl_map_remove st o k = Ok (st', o', snd (m_remove k m)) /\ Repr st' o' (map Some (fst (m_remove k m))).
Proof.
  intros k. destruct HR as (cs & Hv & HI). pose proof (plain_vals _ _ Hv) as Hpl.
  pose proof (dl_map_remove_inv st o cs k HI Hpl) as H. rewrite m_remove_split. cbn [fst snd].
  destruct (ktest_split k cs m Hv) as [H1 H2]. pose proof (split_at_app _ (ktest k) cs) as Happ.
  destruct (split_at (ktest k) cs) as [a r]. destruct (split_at (ptest k) m) as [ma mr]. cbn [fst snd] in *.
  destruct r as [|c b].
  - destruct mr; [|discriminate]. rewrite app_nil_r in *. exists st, o. split; auto. exists cs. split; auto. congruence.
  - destruct mr as [|p mb]; [discriminate|]. cbn in H2. inversion H2 as [[Hc Hb2]].
    destruct H as (st' & o' & E & HI'). exists st', o'. rewrite E, Hc. split; auto.
    eexists. split; [|exact HI']. rewrite vals_app, map_app, H1. cbn [tl]. f_equal. auto.
Qed.

Lemma mstep_has_value : forall v, dl_has_value st o v = Ok (m_has_value m v).
Proof.
  intros v. destruct HR as (cs & Hv & [Hsh Hlive]). pose proof (plain_vals _ _ Hv) as Hpl.
  unfold dl_has_value. rewrite (sh_head _ _ _ _ Hsh).
  rewrite (scan_spec _ cs st None (fuel_of st) (value_stop v)
             (fun d => match d with Some p => is_eq (key_cmp (snd p) v) | None => false end) 0
             (sh_seg _ _ _ _ Hsh) (shape_fuel _ _ _ _ Hsh)).
  2:{ intros c Hc. destruct (snd c) eqn:Ec; [reflexivity|]. exfalso. eapply Hpl; eauto. }
  cbn [bind]. change (fun c : pcell => match snd c with Some p => is_eq (key_cmp (snd p) v) | None => false end)
    with (lift_test (fun p => is_eq (key_cmp (snd p) v))).
  destruct (lift_split (fun p => is_eq (key_cmp (snd p) v)) cs m Hv) as [_ H2].
  unfold m_has_value. rewrite existsb_split.
  rewrite (split_at_ext _ (fun p : key * key => key_eqb (snd p) v) (fun p => is_eq (key_cmp (snd p) v))) by auto.
  destruct (snd (split_at (lift_test _) cs)), (snd (split_at _ m)); try discriminate; auto.
Qed.

Lemma mstep_pairs : dl_get_pairs st o = Ok m.
Proof.
  destruct HR as (cs & Hv & [Hsh Hlive]). unfold dl_get_pairs. rewrite (sh_head _ _ _ _ Hsh).
  eapply collect_spec; eauto using (sh_seg _ _ _ _ Hsh), (shape_fuel _ _ _ _ Hsh).
Qed.

End MapStep.

Lemma dl_map_step_refines : forall (st : store pair) o m op, Repr st o (map Some m) -> msorted m -> mop_pre m op ->
  exists st' o', dl_map_step (st, o) op = Ok ((st', o'), snd (map_step m op)) /\
                 Repr st' o' (map Some (fst (map_step m op))).
Proof.
  intros st o m op HR Hs Hb. pose proof (repr_len _ _ _ _ HR) as Hl. rewrite map_length in Hl.
  unfold mop_pre in Hb.
  destruct op; cbn [dl_map_step map_step fst snd] in *; try (do 2 eexists; split; [reflexivity|exact HR]).
  - destruct (m_set k v m) as [m' r] eqn:Es.
    pose proof (mstep_set st o m HR Hs k v) as H. rewrite Es in H. cbn [fst snd] in *.
    destruct (H Hb) as (st' & o' & E & HR'). rewrite E. cbn. eauto.
  - rewrite (mstep_get st o m HR Hs). cbn. eauto.
  - destruct (m_remove k m) as [m' r] eqn:Es.
    pose proof (mstep_remove st o m HR k) as H. rewrite Es in H. cbn [fst snd] in *.
    destruct H as (st' & o' & E & HR'). rewrite E. cbn. eauto.
  - unfold dl_has_key. rewrite (mstep_get st o m HR Hs). cbn. eauto.
  - rewrite (mstep_has_value st o m HR). cbn. eauto.
  - rewrite Hl. eauto.
  - rewrite (mstep_pairs st o m HR). cbn. eauto.
  - rewrite (mstep_pairs st o m HR). cbn. eauto.
  - rewrite (mstep_pairs st o m HR). cbn. eauto.
  - destruct HR as (cs & Hv & [Hsh Hlive]). rewrite (dl_iterate_spec _ st o cs Hsh). cbn [bind].
    rewrite Hv, all_some_map, it_sweep_exact by lia. cbn [fst].
    do 2 eexists. split; [reflexivity|]. exists cs. split; auto. split; auto.
Qed.

(* ---------------------------------------------------------------------------------------- *)
(* histories *)
Lemma dl_map_run_refines : forall ops (st : store pair) o m, Repr st o (map Some m) -> msorted m ->
  hist_pre mop_pre map_step m ops ->
  exists st' o', run_model dl_map_step (st, o) ops = Ok ((st', o'), outs map_step m ops) /\
    Repr st' o' (map Some (final map_step m ops)).
Proof.
  induction ops as [|op t IH]; intros st o m HR Hs Hpre.
  - cbn. exists st, o. auto.
  - destruct Hpre as [Hp Hpre].
    destruct (dl_map_step_refines st o m op HR Hs Hp) as (st1 & o1 & E1 & HR1).
    destruct (IH st1 o1 _ HR1 (map_step_sorted m op Hs) Hpre) as (st' & o' & E & HR').
    exists st', o'. cbn [run_model outs final fold_left]. rewrite E1. cbn [bind]. rewrite E. cbn [bind]. auto.
Qed.

Theorem dlinked_list_map_refines : forall ops, hist_pre mop_pre map_step [] ops ->
  exists st o, run_model dl_map_step m_init ops = Ok ((st, o), outs map_step [] ops) /\
    Repr st o (map Some (final map_step [] ops)).
Proof.
  intros ops Hpre. apply dl_map_run_refines; auto.
  - apply repr_empty.
  - constructor.
Qed.
