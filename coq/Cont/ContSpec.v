(* ContSpec - the IDEAL objects behind the three container interfaces of libast
   (list_if.h / vector_if.h / map_if.h, iterator_if.h), executable, no proofs in this file.

   Stage 1 of C02 (list), C03 (map), C04 (vector): the correspondence check runs every
   generated history through THIS spec (extracted, driver/cont_main.ml) and through the real
   classes array / linked_list / dlinked_list (harness/cont.c); every difference is a level-A
   failure of the implementation.  Stage 2 adds pointer-level models of the three .c files and
   proves that each refines this spec (for every history: same outputs, and the heap
   structure represents the spec state).

   ------------------------------------------------------------------------------------------
   ELEMENTS.  An element is (eid, ekey): eid = identity = creation order within one history,
   ekey = its text, compared as strcmp compares NUL-free byte strings (key_cmp).  "Returns the
   stored element" is a statement about eid, "equal by comparison" one about ekey.  The harness
   uses spif_str objects; SPIF_OBJ_COMP on them is spif_str_cmp = sign of strcmp.

   STATES.
     lstate = list (option elem)   list interface; None = NULL placeholder made by insert_at
     vstate = list elem            vector interface; kept ascending by key
     mstate = list (key * key)     map interface; (key, value) texts, keys strictly ascending;
                                   the map holds COPIES, so caller objects never appear here

   OPERATIONS (datatypes lop / vop / mop below) and their results (datatype out):
     list   append prepend insert reverse            OBool true
            insert_at idx e                           OBool false iff idx normalises below 0
            remove p / find p                         OElem (stored element with p's key, or None)
            remove_at idx / get idx                   OElem (None when refused or placeholder)
            contains p                                OBool      index p  OInt (-1 if absent)
            count                                     OInt       to_array / iterate  OElems
            dup                                       ODup len keys keys  (texts of the copy)
     vector insert OBool true; remove/find OElem; contains OBool; count OInt;
            iterate / to_array OElems (as Some _)
     map    set OBool (true iff it replaced); get OText; remove OPair; has_key/has_value OBool;
            count OInt; get_keys/get_values OTexts; get_pairs/iterate OPairs;
            mutk/mutv/delk/delv/newpair (caller-object operations) OUnit, state unchanged
   Index normalisation: idx < 0 means idx + len.  insert_at past the end pads with None.
   get / remove_at are refused (None, unchanged) below 0 and at or after len.

   STEP / RUN.   list_step : lstate -> lop -> lstate * out     (vec_step, map_step alike)
                 final step s ops = fold_left (fun s op => fst (step s op)) ops s
                 outs  step s ops = the outputs in order;  run step s ops = (final, outs)

   PRECONDITIONS the stage-2 refinement may assume (the generator respects them; they are where
   the property text leaves the classes free or where C16 is responsible):
     - element arguments of append/prepend/insert/insert_at/index are non-NULL (probes of
       remove/find/contains may be NULL = None and are then refused);
     - list `insert` (ordered insert) is only issued while the sequence is ascending, free of
       placeholders and its first key differs from the new key: the classes place an element
       among EQUAL keys differently (array: before all equal ones; linked lists: after an equal
       head; dlinked: appended when above the tail) and on unsorted sequences they differ more;
     - vector results are compared by key; which of several equal-key elements find/remove
       returns is the class's choice (this spec: the first).  See vec_key_* in ContProofs.v.

   The textual case format and output format are documented in harness/cont.c. *)
From LV Require Export Base.Res.
Local Open Scope Z_scope.

(* ---------------------------------------------------------------------------------------- *)
(* keys and elements *)
Definition key := list Z.                    (* bytes 1..255 of the text, no NUL *)
Record elem : Set := mkElem { eid : nat; ekey : key }.

Fixpoint key_cmp (a b : key) : comparison :=
  match a, b with
  | [], [] => Eq
  | [], _ :: _ => Lt
  | _ :: _, [] => Gt
  | x :: a', y :: b' => match Z.compare x y with Eq => key_cmp a' b' | c => c end
  end.
Definition key_eqb (a b : key) : bool := match key_cmp a b with Eq => true | _ => false end.
Definition key_ltb (a b : key) : bool := match key_cmp a b with Lt => true | _ => false end.
Definition key_gtb (a b : key) : bool := match key_cmp a b with Gt => true | _ => false end.
Definition key_leb (a b : key) : bool := negb (key_gtb a b).

(* ---------------------------------------------------------------------------------------- *)
(* results *)
Inductive out : Type :=
| OBool (b : bool)
| OInt (z : Z)
| OElem (e : option elem)
| OElems (l : list (option elem))
| ODup (n : Z) (swept : list (option key)) (got : list (option key))
| OText (t : option key)
| OPair (p : option (key * key))
| OTexts (l : list key)
| OPairs (l : list (key * key))
| OUnit.

(* ---------------------------------------------------------------------------------------- *)
(* iterators (iterator_if.h): has_next / next over the remaining elements *)
Definition iter (A : Type) := list A.
Definition it_new {A} (xs : list A) : iter A := xs.
Definition it_has_next {A} (it : iter A) : bool := match it with [] => false | _ => true end.
Definition it_next {A} (it : iter A) : option A * iter A :=
  match it with [] => (None, []) | x :: t => (Some x, t) end.
(* what a client loop `while (has_next) next` collects, at most `fuel` rounds; the flag says
   whether has_next had become false *)
Fixpoint it_sweep {A} (fuel : nat) (it : iter A) : list A * bool :=
  match fuel with
  | O => ([], negb (it_has_next it))
  | S f =>
    if it_has_next it then
      match it_next it with
      | (Some x, it') => let (l, b) := it_sweep f it' in (x :: l, b)
      | (None, _) => ([], false)
      end
    else ([], true)
  end.
(* has_next after k calls of next *)
Fixpoint it_after {A} (k : nat) (it : iter A) : iter A :=
  match k with O => it | S k' => it_after k' (snd (it_next it)) end.

(* ---------------------------------------------------------------------------------------- *)
(* LIST interface *)
Definition lstate := list (option elem).

(* e > slot ?  a NULL slot is below every object (SPIF_OBJ_COMP_CHECK_NULL) *)
Definition gt_slot (e : elem) (s : option elem) : bool :=
  match s with None => true | Some x => key_gtb (ekey e) (ekey x) end.
Definition eq_slot (p : key) (s : option elem) : bool :=
  match s with None => false | Some x => key_eqb p (ekey x) end.

Definition llen (xs : lstate) : Z := Z.of_nat (length xs).
Definition norm_idx (len idx : Z) : Z := if idx <? 0 then idx + len else idx.

Fixpoint ins_ordered (e : elem) (xs : lstate) : lstate :=
  match xs with
  | [] => [Some e]
  | s :: t => if gt_slot e s then s :: ins_ordered e t else Some e :: xs
  end.

(* insert at position n, padding with None when the list is shorter *)
Fixpoint ins_at (n : nat) (e : elem) (xs : lstate) : lstate :=
  match n, xs with
  | O, _ => Some e :: xs
  | S n', [] => None :: ins_at n' e []
  | S n', s :: t => s :: ins_at n' e t
  end.

Definition l_insert_at (xs : lstate) (idx : Z) (e : elem) : lstate * bool :=
  let i := norm_idx (llen xs) idx in
  if i <? 0 then (xs, false) else (ins_at (Z.to_nat i) e xs, true).

Fixpoint rem_first (p : key) (xs : lstate) : lstate * option elem :=
  match xs with
  | [] => ([], None)
  | s :: t => if eq_slot p s then (t, s)
              else let (t', r) := rem_first p t in (s :: t', r)
  end.

Fixpoint rem_nth {A} (n : nat) (xs : list A) : list A :=
  match n, xs with
  | _, [] => []
  | O, _ :: t => t
  | S n', x :: t => x :: rem_nth n' t
  end.

Definition slot_at (xs : lstate) (n : nat) : option elem :=
  match nth_error xs n with Some s => s | None => None end.

Definition in_range (xs : lstate) (idx : Z) : option nat :=
  let i := norm_idx (llen xs) idx in
  if (i <? 0) || (llen xs <=? i) then None else Some (Z.to_nat i).

Definition l_get (xs : lstate) (idx : Z) : option elem :=
  match in_range xs idx with Some n => slot_at xs n | None => None end.

Definition l_remove_at (xs : lstate) (idx : Z) : lstate * option elem :=
  match in_range xs idx with
  | Some n => (rem_nth n xs, slot_at xs n)
  | None => (xs, None)
  end.

Fixpoint index_from (p : key) (xs : lstate) (i : Z) : Z :=
  match xs with
  | [] => -1
  | s :: t => if eq_slot p s then i else index_from p t (i + 1)
  end.
Definition l_index (xs : lstate) (p : key) : Z := index_from p xs 0.

Fixpoint l_find (xs : lstate) (p : key) : option elem :=
  match xs with
  | [] => None
  | s :: t => if eq_slot p s then s else l_find t p
  end.

Definition slot_key (s : option elem) : option key :=
  match s with Some x => Some (ekey x) | None => None end.

Inductive lop : Type :=
| LAppend (e : elem)
| LPrepend (e : elem)
| LInsert (e : elem)
| LInsertAt (idx : Z) (e : elem)
| LRemove (p : option elem)          (* None = NULL argument: refused *)
| LRemoveAt (idx : Z)
| LGet (idx : Z)
| LIndex (p : elem)
| LFind (p : option elem)
| LContains (p : option elem)
| LCount
| LReverse
| LToArray
| LIterate
| LDup.

Definition is_some {A} (o : option A) : bool := match o with Some _ => true | None => false end.

Definition list_step (xs : lstate) (op : lop) : lstate * out :=
  match op with
  | LAppend e => (xs ++ [Some e], OBool true)
  | LPrepend e => (Some e :: xs, OBool true)
  | LInsert e => (ins_ordered e xs, OBool true)
  | LInsertAt idx e => let (xs', ok) := l_insert_at xs idx e in (xs', OBool ok)
  | LRemove None => (xs, OElem None)
  | LRemove (Some p) => let (xs', r) := rem_first (ekey p) xs in (xs', OElem r)
  | LRemoveAt idx => let (xs', r) := l_remove_at xs idx in (xs', OElem r)
  | LGet idx => (xs, OElem (l_get xs idx))
  | LIndex p => (xs, OInt (l_index xs (ekey p)))
  | LFind None => (xs, OElem None)
  | LFind (Some p) => (xs, OElem (l_find xs (ekey p)))
  | LContains None => (xs, OBool false)
  | LContains (Some p) => (xs, OBool (is_some (l_find xs (ekey p))))
  | LCount => (xs, OInt (llen xs))
  | LReverse => (rev xs, OBool true)
  | LToArray => (xs, OElems xs)
  | LIterate => (xs, OElems (fst (it_sweep (S (length xs)) (it_new xs))))
  | LDup => (xs, ODup (llen xs) (map slot_key xs) (map slot_key xs))
  end.

(* ---------------------------------------------------------------------------------------- *)
(* VECTOR interface: ascending multiset *)
Definition vstate := list elem.

Fixpoint v_ins (e : elem) (xs : vstate) : vstate :=
  match xs with
  | [] => [e]
  | x :: t => if key_gtb (ekey e) (ekey x) then x :: v_ins e t else e :: xs
  end.
Fixpoint v_rem (p : key) (xs : vstate) : vstate * option elem :=
  match xs with
  | [] => ([], None)
  | x :: t => if key_eqb p (ekey x) then (t, Some x)
              else let (t', r) := v_rem p t in (x :: t', r)
  end.
Fixpoint v_find (xs : vstate) (p : key) : option elem :=
  match xs with
  | [] => None
  | x :: t => if key_eqb p (ekey x) then Some x else v_find t p
  end.

Inductive vop : Type :=
| VInsert (e : elem)
| VRemove (p : elem)
| VFind (p : elem)
| VContains (p : elem)
| VCount
| VIterate
| VToArray.

Definition vec_step (xs : vstate) (op : vop) : vstate * out :=
  match op with
  | VInsert e => (v_ins e xs, OBool true)
  | VRemove p => let (xs', r) := v_rem (ekey p) xs in (xs', OElem r)
  | VFind p => (xs, OElem (v_find xs (ekey p)))
  | VContains p => (xs, OBool (is_some (v_find xs (ekey p))))
  | VCount => (xs, OInt (Z.of_nat (length xs)))
  | VIterate => (xs, OElems (map Some (fst (it_sweep (S (length xs)) (it_new xs)))))
  | VToArray => (xs, OElems (map Some xs))
  end.

(* ---------------------------------------------------------------------------------------- *)
(* MAP interface: dictionary as strictly ascending association list *)
Definition mstate := list (key * key).

Fixpoint m_set (k v : key) (m : mstate) : mstate * bool :=
  match m with
  | [] => ([(k, v)], false)
  | (k', v') :: t =>
    match key_cmp k k' with
    | Eq => ((k', v) :: t, true)
    | Lt => ((k, v) :: m, false)
    | Gt => let (t', r) := m_set k v t in ((k', v') :: t', r)
    end
  end.
Fixpoint m_get (m : mstate) (k : key) : option key :=
  match m with
  | [] => None
  | (k', v') :: t => if key_eqb k k' then Some v' else m_get t k
  end.
Fixpoint m_remove (k : key) (m : mstate) : mstate * option (key * key) :=
  match m with
  | [] => ([], None)
  | (k', v') :: t => if key_eqb k k' then (t, Some (k', v'))
                     else let (t', r) := m_remove k t in ((k', v') :: t', r)
  end.
Definition m_has_value (m : mstate) (v : key) : bool := existsb (fun p => key_eqb (snd p) v) m.

Inductive mop : Type :=
| MSet (k v : key)
| MGet (k : key)
| MRemove (k : key)
| MHasKey (k : key)
| MHasValue (v : key)
| MCount
| MGetKeys
| MGetValues
| MGetPairs
| MIterate
| MMutK (t : key)        (* the caller changes the text of the key object it passed to set *)
| MMutV (t : key)
| MDelK                  (* the caller deletes its key object *)
| MDelV
| MNewPair.              (* the caller makes an empty objpair (spif_objpair_new) and deletes it again *)

Definition map_step (m : mstate) (op : mop) : mstate * out :=
  match op with
  | MSet k v => let (m', r) := m_set k v m in (m', OBool r)
  | MGet k => (m, OText (m_get m k))
  | MRemove k => let (m', r) := m_remove k m in (m', OPair r)
  | MHasKey k => (m, OBool (is_some (m_get m k)))
  | MHasValue v => (m, OBool (m_has_value m v))
  | MCount => (m, OInt (Z.of_nat (length m)))
  | MGetKeys => (m, OTexts (map fst m))
  | MGetValues => (m, OTexts (map snd m))
  | MGetPairs => (m, OPairs m)
  | MIterate => (m, OPairs (fst (it_sweep (S (length m)) (it_new m))))
  | MMutK _ | MMutV _ | MDelK | MDelV | MNewPair => (m, OUnit)
  end.

(* ---------------------------------------------------------------------------------------- *)
(* histories *)
Definition final {S O} (step : S -> O -> S * out) (s : S) (ops : list O) : S :=
  fold_left (fun s op => fst (step s op)) ops s.
Fixpoint outs {S O} (step : S -> O -> S * out) (s : S) (ops : list O) : list out :=
  match ops with
  | [] => []
  | op :: t => snd (step s op) :: outs step (fst (step s op)) t
  end.
Definition run {S O} (step : S -> O -> S * out) (s : S) (ops : list O) : S * list out :=
  (final step s ops, outs step s ops).

Definition list_run := run list_step.
Definition vec_run := run vec_step.
Definition map_run := run map_step.

(* what the read-back of the harness shows for a state (level A), used by the driver *)
Definition list_readback (xs : lstate) : Z * list (option elem) * list (option elem) :=
  let n := llen xs in
  (n, map (fun i => l_get xs (Z.of_nat i - n - 1)) (seq 0 (2 * length xs + 2)),
   fst (it_sweep (S (length xs)) (it_new xs))).
