(* The three implementing classes are observationally interchangeable: corollaries of the
   per-class refinement theorems (each class's output stream equals the ideal object's). *)
From LV Require Import Cont.ContSpec.
From LV Require Cont.ArrayModel Cont.ArrayProofs Cont.ArrayRefine.
From LV Require Cont.LListModel Cont.LListProofs Cont.LListMapProofs.
From LV Require Cont.DListModel Cont.DListProofs Cont.DListMap.

Lemma list_classes_interchangeable : forall ops,
  ArrayRefine.run_fits list_step (@length _) [] ops ->
  LListProofs.lpre_run [] ops ->
  DListProofs.hist_pre DListProofs.lop_pre list_step [] ops ->
  exists a sl ol sd od,
    ArrayModel.arr_list_run ops = Ok (a, outs list_step [] ops) /\
    LListModel.run_model LListModel.ll_list_step LListModel.lst0 ops = Ok ((sl, ol), outs list_step [] ops) /\
    DListModel.run_model DListModel.dl_list_step DListModel.e_init ops = Ok ((sd, od), outs list_step [] ops).
Proof.
  intros ops Ha Hl Hd.
  destruct (ArrayRefine.array_list_refines ops Ha) as (a & Ea & _).
  destruct (LListProofs.linked_list_list_refines ops Hl) as (sl & ol & El & _).
  destruct (DListProofs.dlinked_list_list_refines ops Hd) as (sd & od & Ed & _).
  exists a, sl, ol, sd, od. repeat split; assumption.
Qed.

Lemma map_classes_interchangeable : forall ops,
  ArrayRefine.run_fits map_step (@length _) [] ops ->
  DListProofs.hist_pre DListMap.mop_pre map_step [] ops ->
  exists a sl ol sd od,
    ArrayModel.arr_map_run ops = Ok (a, outs map_step [] ops) /\
    LListModel.run_model LListModel.ll_map_step LListModel.mst0 ops = Ok ((sl, ol), outs map_step [] ops) /\
    DListModel.run_model DListModel.dl_map_step DListModel.m_init ops = Ok ((sd, od), outs map_step [] ops).
Proof.
  intros ops Ha Hd.
  destruct (ArrayRefine.array_map_refines ops Ha) as (a & Ea & _).
  destruct (LListMapProofs.linked_list_map_refines ops) as (sl & ol & El & _).
  destruct (DListMap.dlinked_list_map_refines ops Hd) as (sd & od & Ed & _).
  exists a, sl, ol, sd, od. repeat split; assumption.
Qed.
