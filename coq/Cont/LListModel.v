(* LListModel - pointer-level executable model of src/linked_list.c (after repairs), for the three
   interfaces the class implements: list (C02), vector (C04), map (C03).  No proofs in this file.

   HEAP.  Items (spif_linked_list_item_t) live in a store : list (option node); the id of an item
   is its index, SPIF_ALLOC appends a cell, SPIF_DEALLOC turns the cell into None.  Reading or
   writing through NULL is Fault Null_deref, through a freed / unknown id Fault Use_after_free,
   freeing such an id Fault Bad_free.  The list object {len; head} is the record llist (one object
   per history; a dup makes a second one over the same store).  Every `x->next = y` and
   `x->data = y` is a store update.  Loops that follow ->next run on explicit fuel
   (S (length store)); running out is Fault Out_of_fuel - the theorems exclude it via acyclicity.

   DATA.  ndata is the item's data pointer: None = NULL (placeholder made by insert_at),
   Some d = an object.  The section is generic in the object type D: D = elem (identity + key
   text) for lists and vectors, D = key * key for maps (the objpair made by
   spif_objpair_new_from_both, which holds its own DUPLICATES of key and value - so the pair is a
   pair of texts).  dkey d is the text object comparison looks at (spif_str_cmp for strings,
   spif_objpair_comp compares pair->key).  ddup is SPIF_OBJ_DUP on D.

   Each function below names the C function it mirrors; statements appear in source order.
   ASSERT_RVAL(!ISNULL(self)) guards on the list object itself are not modelled (self is never
   NULL here, that is C16). *)
From LV Require Export Base.Res Cont.ContSpec.
Local Open Scope Z_scope.

Definition cmp_eq (c : comparison) : bool := match c with Eq => true | _ => false end.
Definition cmp_lt (c : comparison) : bool := match c with Lt => true | _ => false end.
Definition cmp_gt (c : comparison) : bool := match c with Gt => true | _ => false end.

Section LL.
Variable D : Type.
Variable dkey : D -> key.
Variable ddup : D -> D.

Record node : Type := mkNode { ndata : option D; nnext : option nat }.
Definition store := list (option node).
Record llist : Type := mkLL { ll_len : Z; ll_head : option nat }.

(* ---- memory ------------------------------------------------------------------------------ *)
Definition rd (s : store) (p : option nat) : res node :=
  match p with
  | None => Fault Null_deref
  | Some i => match nth_error s i with Some (Some n) => Ok n | _ => Fault Use_after_free end
  end.

Fixpoint upd (s : store) (i : nat) (v : option node) : store :=
  match s, i with
  | [], _ => []
  | _ :: t, O => v :: t
  | x :: t, S i' => x :: upd t i' v
  end.

Definition wr (s : store) (p : option nat) (n : node) : res store :=
  _ <- rd s p;;
  match p with Some i => Ok (upd s i (Some n)) | None => Fault Null_deref end.

(* p->next = y *)
Definition set_next (s : store) (p : option nat) (y : option nat) : res store :=
  n <- rd s p;; wr s p (mkNode (ndata n) y).
(* p->data = d *)
Definition set_data (s : store) (p : option nat) (d : option D) : res store :=
  n <- rd s p;; wr s p (mkNode d (nnext n)).

(* spif_linked_list_item_new: SPIF_ALLOC + init (data = NULL, next = NULL) *)
Definition item_new (s : store) : store * option nat :=
  (s ++ [Some (mkNode None None)], Some (length s)).

(* spif_linked_list_item_set_data (SPIF_DEFINE_PROPERTY_FUNC): a previous object would be deleted
   first; objects are not heap cells in this model and every caller passes a fresh item *)
Definition item_set_data (s : store) (p : option nat) (d : D) : res store := set_data s p (Some d).

(* SPIF_DEALLOC *)
Definition item_free (s : store) (p : option nat) : res store :=
  match p with
  | None => Fault Bad_free
  | Some i => match nth_error s i with Some (Some _) => Ok (upd s i None) | _ => Fault Bad_free end
  end.

(* spif_linked_list_item_del: done (deletes the data object if any; data = next = NULL), DEALLOC *)
Definition item_del (s : store) (p : option nat) : res store :=
  s1 <- wr s p (mkNode None None);; item_free s1 p.

(* SPIF_OBJ_COMP(obj, data) with a non-NULL string/probe obj: spif_str_comp checks other == NULL *)
Definition comp_probe_data (pk : key) (d : option D) : res comparison :=
  Ok (match d with None => Gt | Some x => key_cmp pk (dkey x) end).
(* SPIF_OBJ_COMP(data, obj): calls through data's class pointer *)
Definition comp_data_probe (pk : key) (d : option D) : res comparison :=
  match d with None => Fault Null_deref | Some x => Ok (key_cmp (dkey x) pk) end.

(* spif_linked_list_item_comp(self, other) *)
Definition item_comp (s : store) (a b : option nat) : res comparison :=
  match a, b with
  | None, None => Ok Eq
  | None, Some _ => Ok Lt
  | Some _, None => Ok Gt
  | Some _, Some _ =>
    na <- rd s a;; nb <- rd s b;;
    Ok (match ndata na, ndata nb with
        | None, None => Eq
        | None, Some _ => Lt
        | Some _, None => Gt
        | Some x, Some y => key_cmp (dkey x) (dkey y)
        end)
  end.

Definition fuel_of (s : store) : nat := S (length s).

(* ---- construction ------------------------------------------------------------------------ *)
(* spif_linked_list_new / _vector_new / _map_new + init *)
Definition ll_new : llist := mkLL 0 None.

(* spif_linked_list_prepend *)
Definition ll_prepend (s : store) (o : llist) (d : D) : res (store * llist * bool) :=
  let (s1, item) := item_new s in
  s2 <- item_set_data s1 item d;;
  let current := ll_head o in
  let o1 := mkLL (ll_len o) item in
  s3 <- set_next s2 item current;;
  Ok (s3, mkLL (ll_len o1 + 1) (ll_head o1), true).

(* for (current = self->head; current->next; current = current->next); *)
Fixpoint walk_last (fuel : nat) (s : store) (cur : option nat) : res (option nat) :=
  match fuel with
  | O => Fault Out_of_fuel
  | S f =>
    n <- rd s cur;;
    match nnext n with None => Ok cur | Some _ => walk_last f s (nnext n) end
  end.

(* spif_linked_list_append *)
Definition ll_append (s : store) (o : llist) (d : D) : res (store * llist * bool) :=
  let (s1, item) := item_new s in
  s2 <- item_set_data s1 item d;;
  match ll_head o with
  | Some _ =>
    current <- walk_last (fuel_of s2) s2 (ll_head o);;
    s3 <- set_next s2 current item;;
    Ok (s3, mkLL (ll_len o + 1) (ll_head o), true)
  | None => Ok (s2, mkLL (ll_len o + 1) item, true)
  end.

(* for (current = head; current->next && GREATER(item_comp(item, current->next)); current = current->next); *)
Fixpoint insert_loop (fuel : nat) (s : store) (item cur : option nat) : res (option nat) :=
  match fuel with
  | O => Fault Out_of_fuel
  | S f =>
    n <- rd s cur;;
    match nnext n with
    | None => Ok cur
    | Some _ =>
      c <- item_comp s item (nnext n);;
      if cmp_gt c then insert_loop f s item (nnext n) else Ok cur
    end
  end.

(* spif_linked_list_insert (list interface `insert`, vector `insert`, and the insertion of map `set`) *)
Definition ll_insert (s : store) (o : llist) (d : D) : res (store * llist * bool) :=
  let (s1, item) := item_new s in
  s2 <- item_set_data s1 item d;;
  match ll_head o with
  | None => Ok (s2, mkLL (ll_len o + 1) item, true)
  | Some _ =>
    c <- item_comp s2 item (ll_head o);;
    if cmp_lt c then
      s3 <- set_next s2 item (ll_head o);;
      Ok (s3, mkLL (ll_len o + 1) item, true)
    else
      current <- insert_loop (fuel_of s2) s2 item (ll_head o);;
      cn <- rd s2 current;;
      s3 <- set_next s2 item (nnext cn);;
      s4 <- set_next s3 current item;;
      Ok (s4, mkLL (ll_len o + 1) (ll_head o), true)
  end.

(* for (current = head, i = 1; current->next && i < idx; i++, current = current->next); *)
Fixpoint at_walk (fuel : nat) (s : store) (cur : option nat) (i idx : Z) : res (option nat * Z) :=
  match fuel with
  | O => Fault Out_of_fuel
  | S f =>
    n <- rd s cur;;
    match nnext n with
    | None => Ok (cur, i)
    | Some _ => if i <? idx then at_walk f s (nnext n) (i + 1) idx else Ok (cur, i)
    end
  end.

(* for (; i < idx; i++, current = current->next) { current->next = item_new(); self->len++; }
   k = number of rounds = idx - i *)
Fixpoint pad_loop (k : nat) (s : store) (o : llist) (cur : option nat) : res (store * llist * option nat) :=
  match k with
  | O => Ok (s, o, cur)
  | S k' =>
    let (s1, it) := item_new s in
    s2 <- set_next s1 cur it;;
    n <- rd s2 cur;;
    pad_loop k' s2 (mkLL (ll_len o + 1) (ll_head o)) (nnext n)
  end.

(* the closing statements of spif_linked_list_insert_at:
   item = item_new(); set_data(item, obj); item->next = current->next; current->next = item; len++ *)
Definition link_after (s : store) (o : llist) (current : option nat) (d : D) : res (store * llist * bool) :=
  let (s2, item) := item_new s in
  s3 <- item_set_data s2 item d;;
  cn <- rd s3 current;;
  s4 <- set_next s3 item (nnext cn);;
  s5 <- set_next s4 current item;;
  Ok (s5, mkLL (ll_len o + 1) (ll_head o), true).

(* spif_linked_list_insert_at from the first loop on (the list has a head by now, idx >= 1) *)
Definition insert_at_walk (s0 : store) (o0 : llist) (d : D) (idx : Z) : res (store * llist * bool) :=
  '(current, i) <- at_walk (fuel_of s0) s0 (ll_head o0) 1 idx;;
  '(s1, o1, current) <- pad_loop (Z.to_nat (idx - i)) s0 o0 current;;
  link_after s1 o1 current d.

(* spif_linked_list_insert_at *)
Definition ll_insert_at (s : store) (o : llist) (d : D) (idx : Z) : res (store * llist * bool) :=
  let idx := if idx <? 0 then idx + ll_len o else idx in
  if negb (idx >=? 0) then Ok (s, o, false) else
  if idx =? 0 then ll_prepend s o d else
  match ll_head o with
  | None =>
    (* Empty list:  position 0 becomes the first NULL placeholder. *)
    let (s0, h) := item_new s in
    insert_at_walk s0 (mkLL (ll_len o + 1) h) d idx
  | Some _ => insert_at_walk s o d idx
  end.

(* ---- queries ----------------------------------------------------------------------------- *)
(* spif_linked_list_count *)
Definition ll_count (o : llist) : Z := ll_len o.

(* for (current = head; current; current = current->next) if (EQUAL(COMP(obj, current->data))) return current->data; *)
Fixpoint find_loop (fuel : nat) (s : store) (pk : key) (cur : option nat) : res (option D) :=
  match cur with
  | None => Ok None
  | Some _ =>
    match fuel with
    | O => Fault Out_of_fuel
    | S f =>
      n <- rd s cur;;
      c <- comp_probe_data pk (ndata n);;
      if cmp_eq c then Ok (ndata n) else find_loop f s pk (nnext n)
    end
  end.

(* spif_linked_list_find; obj = None is the NULL argument (REQUIRE_RVAL) *)
Definition ll_find (s : store) (o : llist) (obj : option key) : res (option D) :=
  match obj with
  | None => Ok None
  | Some pk => find_loop (fuel_of s) s pk (ll_head o)
  end.

(* spif_linked_list_contains *)
Definition ll_contains (s : store) (o : llist) (obj : option key) : res bool :=
  r <- ll_find s o obj;; Ok (is_some r).

(* for (current = head; current; current = next) { ASSERT(data); c = COMP(current->data, obj); EQUAL -> return data; GREATER -> break } *)
Fixpoint vfind_loop (fuel : nat) (s : store) (pk : key) (cur : option nat) : res (option D) :=
  match cur with
  | None => Ok None
  | Some _ =>
    match fuel with
    | O => Fault Out_of_fuel
    | S f =>
      n <- rd s cur;;
      match ndata n with
      | None => Fault Abort                  (* ASSERT_RVAL(!SPIF_OBJ_ISNULL(current->data), NULL) *)
      | Some x =>
        match key_cmp (dkey x) pk with
        | Eq => Ok (ndata n)
        | Gt => Ok None
        | Lt => vfind_loop f s pk (nnext n)
        end
      end
    end
  end.

(* spif_linked_list_vector_find (and the search of spif_linked_list_map_get) *)
Definition ll_vector_find (s : store) (o : llist) (obj : option key) : res (option D) :=
  match obj with
  | None => Ok None
  | Some pk => vfind_loop (fuel_of s) s pk (ll_head o)
  end.

(* spif_linked_list_vector_contains *)
Definition ll_vector_contains (s : store) (o : llist) (obj : option key) : res bool :=
  r <- ll_vector_find s o obj;; Ok (is_some r).

(* for (current = head, i = 0; current && i < idx; i++, current = current->next); *)
Fixpoint get_loop (fuel : nat) (s : store) (cur : option nat) (i idx : Z) : res (option nat) :=
  match cur with
  | None => Ok None
  | Some _ =>
    if i <? idx then
      match fuel with
      | O => Fault Out_of_fuel
      | S f => n <- rd s cur;; get_loop f s (nnext n) (i + 1) idx
      end
    else Ok cur
  end.

(* spif_linked_list_get *)
Definition ll_get (s : store) (o : llist) (idx : Z) : res (option D) :=
  let idx := if idx <? 0 then idx + ll_len o else idx in
  if negb (idx >=? 0) then Ok None else
  if negb (idx <? ll_len o) then Ok None else
  current <- get_loop (fuel_of s) s (ll_head o) 0 idx;;
  match current with
  | None => Ok None
  | Some _ => n <- rd s current;; Ok (ndata n)
  end.

(* for (current = head, i = 0; current && !EQUAL(COMP(obj, current->data)); i++, current = current->next); *)
Fixpoint index_loop (fuel : nat) (s : store) (pk : key) (cur : option nat) (i : Z) : res (option nat * Z) :=
  match cur with
  | None => Ok (None, i)
  | Some _ =>
    match fuel with
    | O => Fault Out_of_fuel
    | S f =>
      n <- rd s cur;;
      c <- comp_probe_data pk (ndata n);;
      if cmp_eq c then Ok (cur, i) else index_loop f s pk (nnext n) (i + 1)
    end
  end.

(* spif_linked_list_index *)
Definition ll_index (s : store) (o : llist) (pk : key) : res Z :=
  '(current, i) <- index_loop (fuel_of s) s pk (ll_head o) 0;;
  Ok (match current with Some _ => i | None => -1 end).

(* for (i = 0, current = head; i < len; current = current->next, i++) tmp[i] = item_get_data(current); *)
Fixpoint toarr_loop (k : nat) (s : store) (cur : option nat) : res (list (option D)) :=
  match k with
  | O => Ok []
  | S k' => n <- rd s cur;; rest <- toarr_loop k' s (nnext n);; Ok (ndata n :: rest)
  end.

(* spif_linked_list_to_array: the block of len slots, as a list *)
Definition ll_to_array (s : store) (o : llist) : res (list (option D)) :=
  toarr_loop (Z.to_nat (ll_len o)) s (ll_head o).

(* ---- removal ----------------------------------------------------------------------------- *)
(* for (current = head; current->next && !EQUAL(cmpf(item, current->next->data)); current = current->next); *)
Fixpoint remove_loop (fuel : nat) (cmpf : key -> option D -> res comparison) (s : store) (pk : key)
         (cur : option nat) : res (option nat) :=
  match fuel with
  | O => Fault Out_of_fuel
  | S f =>
    n <- rd s cur;;
    match nnext n with
    | None => Ok cur
    | Some _ =>
      nn <- rd s (nnext n);;
      c <- cmpf pk (ndata nn);;
      if cmp_eq c then Ok cur else remove_loop f cmpf s pk (nnext n)
    end
  end.

(* item = tmp->data; tmp->data = NULL; item_del(tmp); len--; return item *)
Definition unlink_finish (s : store) (o : llist) (tmp : option nat) : res (store * llist * option D) :=
  tn <- rd s tmp;;
  let item := ndata tn in
  s1 <- set_data s tmp None;;
  s2 <- item_del s1 tmp;;
  Ok (s2, mkLL (ll_len o - 1) (ll_head o), item).

(* spif_linked_list_remove (cmpf = comp_probe_data: COMP(item, data))
   spif_linked_list_map_remove (cmpf = comp_data_probe: COMP(data, item)) *)
Definition ll_remove_gen (cmpf : key -> option D -> res comparison) (s : store) (o : llist)
           (item : option key) : res (store * llist * option D) :=
  match item with
  | None => Ok (s, o, None)
  | Some pk =>
    match ll_head o with
    | None => Ok (s, o, None)
    | Some _ =>
      hn <- rd s (ll_head o);;
      c <- cmpf pk (ndata hn);;
      if cmp_eq c then
        let tmp := ll_head o in
        unlink_finish s (mkLL (ll_len o) (nnext hn)) tmp
      else
        current <- remove_loop (fuel_of s) cmpf s pk (ll_head o);;
        cn <- rd s current;;
        match nnext cn with
        | Some _ =>
          let tmp := nnext cn in
          tn <- rd s tmp;;
          s1 <- set_next s current (nnext tn);;
          unlink_finish s1 o tmp
        | None => Ok (s, o, None)
        end
    end
  end.
Definition ll_remove := ll_remove_gen comp_probe_data.
Definition ll_map_remove := ll_remove_gen comp_data_probe.

(* spif_linked_list_remove_at *)
Definition ll_remove_at (s : store) (o : llist) (idx : Z) : res (store * llist * option D) :=
  let idx := if idx <? 0 then idx + ll_len o else idx in
  if negb (idx >=? 0) then Ok (s, o, None) else
  if negb (idx <? ll_len o) then Ok (s, o, None) else
  match ll_head o with
  | None => Ok (s, o, None)
  | Some _ =>
    if idx =? 0 then
      let item := ll_head o in
      hn <- rd s item;;
      let o1 := mkLL (ll_len o) (nnext hn) in
      (* len--; tmp = get_data(item); item->data = NULL; item_del(item) *)
      let o2 := mkLL (ll_len o1 - 1) (ll_head o1) in
      tn <- rd s item;;
      s1 <- set_data s item None;;
      s2 <- item_del s1 item;;
      Ok (s2, o2, ndata tn)
    else
      '(current, i) <- at_walk (fuel_of s) s (ll_head o) 1 idx;;
      if negb (i =? idx) then Ok (s, o, None) else
      cn <- rd s current;;
      let item := nnext cn in
      inode <- rd s item;;
      s1 <- set_next s current (nnext inode);;
      let o2 := mkLL (ll_len o - 1) (ll_head o) in
      tn <- rd s1 item;;
      s2 <- set_data s1 item None;;
      s3 <- item_del s2 item;;
      Ok (s3, o2, ndata tn)
  end.

(* ---- reverse ----------------------------------------------------------------------------- *)
(* for (previous = NULL, current = head; current; previous = tmp) { tmp = current; current = current->next; tmp->next = previous; } *)
Fixpoint reverse_loop (fuel : nat) (s : store) (previous current : option nat) : res (store * option nat) :=
  match current with
  | None => Ok (s, previous)
  | Some _ =>
    match fuel with
    | O => Fault Out_of_fuel
    | S f =>
      let tmp := current in
      n <- rd s current;;
      s1 <- set_next s tmp previous;;
      reverse_loop f s1 tmp (nnext n)
    end
  end.

(* spif_linked_list_reverse *)
Definition ll_reverse (s : store) (o : llist) : res (store * llist * bool) :=
  '(s1, previous) <- reverse_loop (fuel_of s) s None (ll_head o);;
  Ok (s1, mkLL (ll_len o) previous, true).

(* ---- iterator ---------------------------------------------------------------------------- *)
(* spif_linked_list_iterator_t: subject (only ever tested against NULL after init) and current *)
Record liter : Type := mkIt { li_subject : bool; li_current : option nat }.

(* spif_linked_list_iterator + iterator_new + iterator_init *)
Definition ll_iterator (o : llist) : liter := mkIt true (ll_head o).
(* spif_linked_list_iterator_has_next *)
Definition li_has_next (it : liter) : bool :=
  if negb (li_subject it) then false else is_some (li_current it).
(* spif_linked_list_iterator_next *)
Definition li_next (s : store) (it : liter) : res (option D * liter) :=
  if negb (li_subject it) then Ok (None, it) else
  match li_current it with
  | None => Ok (None, it)
  | Some _ => n <- rd s (li_current it);; Ok (ndata n, mkIt (li_subject it) (nnext n))
  end.
(* the client loop `while (HAS_NEXT(it)) collect NEXT(it)` *)
Fixpoint li_sweep (fuel : nat) (s : store) (it : liter) : res (list (option D)) :=
  if li_has_next it then
    match fuel with
    | O => Fault Out_of_fuel
    | S f => '(x, it') <- li_next s it;; rest <- li_sweep f s it';; Ok (x :: rest)
    end
  else Ok [].
Definition ll_iterate (s : store) (o : llist) : res (list (option D)) :=
  li_sweep (fuel_of s) s (ll_iterator o).

(* ---- dup / del --------------------------------------------------------------------------- *)
(* spif_linked_list_item_dup *)
Definition item_dup (s : store) (p : option nat) : res (store * option nat) :=
  n <- rd s p;;
  let (s1, tmp) := item_new s in
  match ndata n with
  | Some d => s2 <- set_data s1 tmp (Some (ddup d));; Ok (s2, tmp)
  | None => Ok (s1, tmp)
  end.

(* for (src = head, dest = tmp->head; src->next; src = src->next, dest = dest->next) dest->next = item_dup(src->next); *)
Fixpoint dup_loop (fuel : nat) (s : store) (src dest : option nat) : res (store * option nat) :=
  match fuel with
  | O => Fault Out_of_fuel
  | S f =>
    sn <- rd s src;;
    match nnext sn with
    | None => Ok (s, dest)
    | Some _ =>
      '(s1, c) <- item_dup s (nnext sn);;
      s2 <- set_next s1 dest c;;
      dn <- rd s2 dest;;
      dup_loop f s2 (nnext sn) (nnext dn)
    end
  end.

(* spif_linked_list_dup (the vector and map variants differ only in the class pointer) *)
Definition ll_dup (s : store) (o : llist) : res (store * llist) :=
  let tmp := mkLL (ll_len o) (ll_head o) in          (* new + memcpy *)
  match ll_head o with
  | None => Ok (s, tmp)
  | Some _ =>
    '(s1, h) <- item_dup s (ll_head o);;
    let tmp := mkLL (ll_len tmp) h in
    '(s2, dest) <- dup_loop (fuel_of s1) s1 (ll_head o) (ll_head tmp);;
    s3 <- set_next s2 dest None;;
    Ok (s3, tmp)
  end.

(* for (current = head; current;) { tmp = current; current = current->next; item_del(tmp); } *)
Fixpoint done_loop (fuel : nat) (s : store) (cur : option nat) : res store :=
  match cur with
  | None => Ok s
  | Some _ =>
    match fuel with
    | O => Fault Out_of_fuel
    | S f =>
      n <- rd s cur;;
      s1 <- item_del s cur;;
      done_loop f s1 (nnext n)
    end
  end.

(* spif_linked_list_done *)
Definition ll_done (s : store) (o : llist) : res (store * llist) :=
  if ll_len o =? 0 then Ok (s, o) else
  s1 <- done_loop (fuel_of s) s (ll_head o);;
  Ok (s1, mkLL 0 None).
(* spif_linked_list_del (the list object itself is not a store cell) *)
Definition ll_del (s : store) (o : llist) : res store :=
  '(s1, _) <- ll_done s o;; Ok s1.

(* level-B structure dump of harness/cont.c: data along head->next *)
Fixpoint dump_loop (fuel : nat) (s : store) (cur : option nat) : res (list (option D)) :=
  match cur with
  | None => Ok []
  | Some _ =>
    match fuel with
    | O => Fault Out_of_fuel
    | S f => n <- rd s cur;; rest <- dump_loop f s (nnext n);; Ok (ndata n :: rest)
    end
  end.
Definition ll_dump (s : store) (o : llist) : res (list (option D)) := dump_loop (fuel_of s) s (ll_head o).

(* get(i), i = from .. from + k - 1, as the harness reads a list back *)
Fixpoint get_range (k : nat) (s : store) (o : llist) (from : Z) : res (list (option D)) :=
  match k with
  | O => Ok []
  | S k' => x <- ll_get s o from;; rest <- get_range k' s o (from + 1);; Ok (x :: rest)
  end.

Definition live_count (s : store) : nat :=
  length (filter (fun c => match c with Some _ => true | None => false end) s).

End LL.

Arguments mkNode {D}.
Arguments ndata {D}.
Arguments nnext {D}.

(* ---------------------------------------------------------------------------------------- *)
(* histories *)
Fixpoint run_model {S O : Type} (step : S -> O -> res (S * out)) (st : S) (ops : list O) : res (S * list out) :=
  match ops with
  | [] => Ok (st, [])
  | op :: t =>
    '(st1, r) <- step st op;;
    '(st2, rs) <- run_model step st1 t;;
    Ok (st2, r :: rs)
  end.

(* ---------------------------------------------------------------------------------------- *)
(* LIST interface: D = elem *)
Definition edup (e : elem) : elem := e.     (* spif_str_dup: equal text; only the text of a copy is ever observed *)
Notation lstore := (store elem).
Definition lst : Type := lstore * llist.
Definition lst0 : lst := ([], ll_new).

Definition ll_list_step (st : lst) (op : lop) : res (lst * out) :=
  let (s, o) := st in
  match op with
  | LAppend e => '(s', o', b) <- ll_append elem s o e;; Ok ((s', o'), OBool b)
  | LPrepend e => '(s', o', b) <- ll_prepend elem s o e;; Ok ((s', o'), OBool b)
  | LInsert e => '(s', o', b) <- ll_insert elem ekey s o e;; Ok ((s', o'), OBool b)
  | LInsertAt idx e => '(s', o', b) <- ll_insert_at elem s o e idx;; Ok ((s', o'), OBool b)
  | LRemove p => '(s', o', r) <- ll_remove elem ekey s o (option_map ekey p);; Ok ((s', o'), OElem r)
  | LRemoveAt idx => '(s', o', r) <- ll_remove_at elem s o idx;; Ok ((s', o'), OElem r)
  | LGet idx => r <- ll_get elem s o idx;; Ok (st, OElem r)
  | LIndex p => r <- ll_index elem ekey s o (ekey p);; Ok (st, OInt r)
  | LFind p => r <- ll_find elem ekey s o (option_map ekey p);; Ok (st, OElem r)
  | LContains p => r <- ll_contains elem ekey s o (option_map ekey p);; Ok (st, OBool r)
  | LCount => Ok (st, OInt (ll_count o))
  | LReverse => '(s', o', b) <- ll_reverse elem s o;; Ok ((s', o'), OBool b)
  | LToArray => r <- ll_to_array elem s o;; Ok (st, OElems r)
  | LIterate => r <- ll_iterate elem s o;; Ok (st, OElems r)
  | LDup =>
    (* d = DUP(c); n = COUNT(d); sweep of d; get(d, 0..n-1); DEL(d) *)
    '(s1, d) <- ll_dup elem edup s o;;
    let n := ll_count d in
    swept <- ll_iterate elem s1 d;;
    got <- get_range elem (Z.to_nat n) s1 d 0;;
    s2 <- ll_del elem s1 d;;
    Ok ((s2, o), ODup n (map slot_key swept) (map slot_key got))
  end.

(* the harness's read-back after every operation: count, get(-n-1 .. n), fresh iterator *)
Definition ll_list_readback (st : lst) : res (Z * list (option elem) * list (option elem)) :=
  let (s, o) := st in
  let n := ll_count o in
  g <- get_range elem (Z.to_nat (2 * n + 2)) s o (- n - 1);;
  i <- ll_iterate elem s o;;
  Ok (n, g, i).

(* ---------------------------------------------------------------------------------------- *)
(* VECTOR interface: D = elem; insert / remove / count / iterator / to_array are the list functions *)
Definition ll_vec_step (st : lst) (op : vop) : res (lst * out) :=
  let (s, o) := st in
  match op with
  | VInsert e => '(s', o', b) <- ll_insert elem ekey s o e;; Ok ((s', o'), OBool b)
  | VRemove p => '(s', o', r) <- ll_remove elem ekey s o (Some (ekey p));; Ok ((s', o'), OElem r)
  | VFind p => r <- ll_vector_find elem ekey s o (Some (ekey p));; Ok (st, OElem r)
  | VContains p => r <- ll_vector_contains elem ekey s o (Some (ekey p));; Ok (st, OBool r)
  | VCount => Ok (st, OInt (ll_count o))
  | VIterate => r <- ll_iterate elem s o;; Ok (st, OElems r)
  | VToArray => r <- ll_to_array elem s o;; Ok (st, OElems r)
  end.

Definition ll_vec_readback (st : lst) : res (Z * list (option elem) * list (option elem)) :=
  let (s, o) := st in
  i <- ll_iterate elem s o;;
  a <- ll_to_array elem s o;;
  Ok (ll_count o, i, a).

(* What the class computes on sequences (pure): the new element goes behind an equal HEAD
   (spif_linked_list_insert compares with the head by LESS, with the others by GREATER), remove
   takes the first equal element, find the first equal element. *)
Definition llv_ins (e : elem) (ys : vstate) : vstate :=
  match ys with
  | [] => [e]
  | h :: t => if key_ltb (ekey e) (ekey h) then e :: ys else h :: v_ins e t
  end.
Definition llv_step (ys : vstate) (op : vop) : vstate * out :=
  match op with
  | VInsert e => (llv_ins e ys, OBool true)
  | o => vec_step ys o
  end.

(* ---------------------------------------------------------------------------------------- *)
(* MAP interface: D = key * key (objpair of duplicates) *)
Definition pair := (key * key)%type.
Definition pdup (p : pair) : pair := p.     (* spif_objpair_dup: new pair of duplicates of key and value *)
Notation mstore := (store pair).
Definition mst : Type := mstore * llist.
Definition mst0 : mst := ([], ll_new).

(* for (current = head; current; current = current->next) if (EQUAL(COMP(current->data, key))) break; *)
Fixpoint set_loop (fuel : nat) (s : mstore) (k : key) (cur : option nat) : res (option nat) :=
  match cur with
  | None => Ok None
  | Some _ =>
    match fuel with
    | O => Fault Out_of_fuel
    | S f =>
      n <- rd pair s cur;;
      c <- comp_data_probe pair fst k (ndata n);;
      if cmp_eq c then Ok cur else set_loop f s k (nnext n)
    end
  end.

(* spif_linked_list_set with a string key and a non-NULL value *)
Definition llm_set (s : mstore) (o : llist) (k v : key) : res (mstore * llist * bool) :=
  current <- set_loop (fuel_of pair s) s k (ll_head o);;
  match current with
  | None =>
    (* insert(self, spif_objpair_new_from_both(key, value)); return FALSE *)
    '(s1, o1, _) <- ll_insert pair fst s o (k, v);;
    Ok (s1, o1, false)
  | Some _ =>
    (* spif_objpair_set_value(current->data, DUP(value)): the old value object is deleted *)
    n <- rd pair s current;;
    match ndata n with
    | None => Fault Null_deref
    | Some (k0, _) => s1 <- set_data pair s current (Some (k0, v));; Ok (s1, o, true)
    end
  end.

(* spif_linked_list_map_get: the scan of vector_find, returns pair->value *)
Definition llm_get (s : mstore) (o : llist) (k : key) : res (option key) :=
  r <- ll_vector_find pair fst s o (Some k);; Ok (option_map snd r).
(* spif_linked_list_has_key *)
Definition llm_has_key (s : mstore) (o : llist) (k : key) : res bool :=
  r <- llm_get s o k;; Ok (is_some r).

(* for (current = head; current; current = next) { pair = current->data; if (EQUAL(COMP(pair->value, value))) return TRUE; } *)
Fixpoint has_value_loop (fuel : nat) (s : mstore) (v : key) (cur : option nat) : res bool :=
  match cur with
  | None => Ok false
  | Some _ =>
    match fuel with
    | O => Fault Out_of_fuel
    | S f =>
      n <- rd pair s cur;;
      match ndata n with
      | None => Fault Null_deref
      | Some (_, v0) => if cmp_eq (key_cmp v0 v) then Ok true else has_value_loop f s v (nnext n)
      end
    end
  end.
Definition llm_has_value (s : mstore) (o : llist) (v : key) : res bool :=
  has_value_loop (fuel_of pair s) s v (ll_head o).

(* spif_linked_list_get_keys / _get_values / _get_pairs with a NULL list argument: the walk
   for (current = head; current; current = next) LIST_APPEND(result, DUP(f(current->data))).
   The result is a NEW list object of the list interface; the model hands back the sequence of
   appended duplicates (what that object holds is the list interface's business, C02). *)
Fixpoint collect_loop {A} (fuel : nat) (f : pair -> A) (s : mstore) (cur : option nat) : res (list A) :=
  match cur with
  | None => Ok []
  | Some _ =>
    match fuel with
    | O => Fault Out_of_fuel
    | S f' =>
      n <- rd pair s cur;;
      match ndata n with
      | None => Fault Null_deref
      | Some p => rest <- collect_loop f' f s (nnext n);; Ok (f p :: rest)
      end
    end
  end.
Definition llm_get_keys (s : mstore) (o : llist) : res (list key) := collect_loop (fuel_of pair s) fst s (ll_head o).
Definition llm_get_values (s : mstore) (o : llist) : res (list key) := collect_loop (fuel_of pair s) snd s (ll_head o).
Definition llm_get_pairs (s : mstore) (o : llist) : res (list pair) := collect_loop (fuel_of pair s) pdup s (ll_head o).

(* the iterator hands out the data pointers; `out` shows pairs, so a NULL one cannot be shown *)
Fixpoint all_some {A} (l : list (option A)) : res (list A) :=
  match l with
  | [] => Ok []
  | None :: _ => Fault Abort
  | Some x :: t => r <- all_some t;; Ok (x :: r)
  end.

Definition ll_map_step (st : mst) (op : mop) : res (mst * out) :=
  let (s, o) := st in
  match op with
  | MSet k v => '(s', o', b) <- llm_set s o k v;; Ok ((s', o'), OBool b)
  | MGet k => r <- llm_get s o k;; Ok (st, OText r)
  | MRemove k => '(s', o', r) <- ll_map_remove pair fst s o (Some k);; Ok ((s', o'), OPair r)
  | MHasKey k => r <- llm_has_key s o k;; Ok (st, OBool r)
  | MHasValue v => r <- llm_has_value s o v;; Ok (st, OBool r)
  | MCount => Ok (st, OInt (ll_count o))
  | MGetKeys => r <- llm_get_keys s o;; Ok (st, OTexts r)
  | MGetValues => r <- llm_get_values s o;; Ok (st, OTexts r)
  | MGetPairs => r <- llm_get_pairs s o;; Ok (st, OPairs r)
  | MIterate => l <- ll_iterate pair s o;; r <- all_some l;; Ok (st, OPairs r)
  (* the caller's own key / value objects are not in the store: the map holds duplicates *)
  | MMutK _ | MMutV _ | MDelK | MDelV | MNewPair => Ok (st, OUnit)
  end.

Definition ll_map_readback (st : mst) : res (Z * list key * list key * list pair * list pair) :=
  let (s, o) := st in
  k <- llm_get_keys s o;;
  v <- llm_get_values s o;;
  p <- llm_get_pairs s o;;
  l <- ll_iterate pair s o;;
  i <- all_some l;;
  Ok (ll_count o, k, v, p, i).
