(* Proofs about the C13 helper models: exactness, frame, absence of faults. *)
From LV Require Import Base.Buf Strings.HelpersModel.
Local Open Scope Z_scope.

(* ---------- list plumbing ---------- *)
Lemma upd_split {A} (l : list A) n v :
  (n < length l)%nat -> upd l n v = firstn n l ++ v :: skipn (S n) l.
Proof.
  revert n; induction l as [|x t IH]; intros [|n] H; simpl in *; try lia; auto.
  f_equal. apply IH. lia.
Qed.

Lemma firstn_upd_le {A} (l : list A) n k v : (k <= n)%nat -> firstn k (upd l n v) = firstn k l.
Proof.
  revert n k; induction l as [|x t IH]; intros [|n] [|k] H; simpl; auto; try lia.
  f_equal. apply IH. lia.
Qed.

Lemma firstn_S_upd {A} (l : list A) n v :
  (n < length l)%nat -> firstn (S n) (upd l n v) = firstn n l ++ [v].
Proof.
  revert n; induction l as [|x t IH]; intros [|n] H; simpl in *; try lia; auto.
  f_equal. apply IH. lia.
Qed.

Lemma skipn_upd_gt {A} (l : list A) n k v : (n < k)%nat -> skipn k (upd l n v) = skipn k l.
Proof.
  revert n k; induction l as [|x t IH]; intros [|n] [|k] H; simpl; auto; try lia.
  apply IH. lia.
Qed.

Lemma wrn_ok b i v : (i < length b)%nat -> wrn b i v = Ok (upd b i (Some v)).
Proof. intros H. unfold wrn. destruct (Nat.ltb_spec i (length b)); [reflexivity|lia]. Qed.

Lemma nz_byte_neq0 c : nz_byte c -> (c =? 0) = false.
Proof. unfold nz_byte. intros H. apply Z.eqb_neq. lia. Qed.

(* ---------- safe_strncpy ---------- *)
Lemma strncpy_loop_exact s rest :
  Forall nz_byte s ->
  forall dest i maxi, (i <= maxi)%nat -> (maxi < length dest)%nat ->
  strncpy_loop (cstr s rest) dest i maxi =
  Ok ((length s <=? maxi - i)%nat,
      firstn i dest ++ bytes (firstn (maxi - i) s) ++ Some 0 ::
      skipn (i + Nat.min (length s) (maxi - i) + 1) dest).
Proof.
  induction s as [|c s IH]; intros Hnz dest i maxi Hi Hm.
  - unfold cstr, bytes. cbn [map app strncpy_loop]. rewrite Z.eqb_refl. cbn [orb].
    rewrite wrn_ok by lia. cbn [bind]. rewrite upd_split by lia.
    rewrite firstn_nil. cbn [map app length Nat.min]. repeat f_equal; lia.
  - inversion Hnz as [|? ? Hc Hs]; subst.
    unfold cstr, bytes. cbn [map app strncpy_loop]. fold (bytes s). fold (cstr s rest).
    rewrite (nz_byte_neq0 c Hc). cbn [orb].
    destruct (Nat.ltb_spec i maxi) as [Hlt|Hge]; cbn [negb].
    + rewrite wrn_ok by lia. cbn [bind].
      rewrite IH; [|assumption|lia|rewrite upd_length; lia].
      replace (maxi - i)%nat with (S (maxi - S i)) by lia.
      rewrite firstn_cons. cbn [length]. f_equal. f_equal.
      rewrite firstn_S_upd by lia. rewrite <- app_assoc. cbn [app bytes map].
        rewrite skipn_upd_gt by lia.
        replace (S i + Nat.min (length s) (maxi - S i) + 1)%nat
          with (i + Nat.min (S (length s)) (S (maxi - S i)) + 1)%nat by lia.
        reflexivity.
    + assert (i = maxi) by lia. subst i.
      rewrite wrn_ok by lia. cbn [bind]. rewrite upd_split by lia.
      replace (maxi - maxi)%nat with O by lia. cbn [firstn bytes map app length].
      rewrite Nat.min_0_r. replace (maxi + 0 + 1)%nat with (S maxi) by lia. reflexivity.
Qed.

(* The property, first half: for every size >= 1, source string and prior destination
   content (any cells, initialised or not) of at least `size` cells: exactly cells
   [0, min(len, size-1)] are written, the text is the longest prefix that fits, it is
   NUL-terminated, the result says whether anything was cut, and every other cell of the
   destination - in particular everything at or beyond `size` - is unchanged. *)
Theorem safe_strncpy_exact s srest dest size :
  Forall nz_byte s -> 1 <= size -> size <= blen dest ->
  safe_strncpy dest (cstr s srest) size =
  Ok ((Z.of_nat (length s) <=? size - 1),
      bytes (firstn (Z.to_nat (size - 1)) s) ++ Some 0 ::
      skipn (Nat.min (length s) (Z.to_nat (size - 1)) + 1) dest).
Proof.
  intros Hnz Hs Hd. unfold safe_strncpy, safe_strncpy_at, blen in *.
  destruct (Z.leb_spec size 0); [lia|].
  rewrite strncpy_loop_exact; [|assumption|lia|lia].
  cbn [firstn app Nat.add]. rewrite Nat.sub_0_r. f_equal. f_equal.
  destruct (Nat.leb_spec (length s) (Z.to_nat (size - 1))), (Z.leb_spec (Z.of_nat (length s)) (size - 1)); auto; lia.
Qed.

Corollary safe_strncpy_refuses dest src size : size <= 0 -> safe_strncpy dest src size = Ok (false, dest).
Proof. intros H. unfold safe_strncpy, safe_strncpy_at. destruct (Z.leb_spec size 0); [reflexivity|lia]. Qed.

(* ---------- safe_strncat ---------- *)
Lemma strnlen_cstr_short d drest n :
  Forall nz_byte d -> (length d < n)%nat -> strnlen (cstr d drest) n = Ok (length d).
Proof.
  revert n; induction d as [|c d IH]; intros n Hnz Hn.
  - destruct n; [lia|]. unfold cstr. cbn. reflexivity.
  - destruct n; [simpl in Hn; lia|]. inversion Hnz as [|? ? Hc Hd]; subst.
    unfold cstr, bytes. cbn [map app strnlen]. rewrite (nz_byte_neq0 c Hc).
    fold (bytes d). fold (cstr d drest). rewrite IH; [reflexivity|assumption|simpl in Hn; lia].
Qed.

Lemma strnlen_full d tail n :
  Forall nz_byte d -> (n <= length d)%nat -> strnlen (bytes d ++ tail) n = Ok n.
Proof.
  revert n; induction d as [|c d IH]; intros n Hnz Hn.
  - simpl in Hn. assert (n = O) by lia. subst. reflexivity.
  - destruct n; [reflexivity|]. inversion Hnz as [|? ? Hc Hd]; subst.
    cbn [bytes map app strnlen]. rewrite (nz_byte_neq0 c Hc). fold (bytes d).
    rewrite IH; [reflexivity|assumption|simpl in Hn; lia].
Qed.

(* existing text d shorter than size: the source is appended after it within `size` cells *)
Theorem safe_strncat_exact d drest s srest size :
  Forall nz_byte d -> Forall nz_byte s ->
  1 <= size -> Z.of_nat (length d) < size -> size <= blen (cstr d drest) ->
  let room := (Z.to_nat (size - 1) - length d)%nat in
  safe_strncat (cstr d drest) (cstr s srest) size =
  Ok ((length s <=? room)%nat,
      bytes d ++ bytes (firstn room s) ++ Some 0 :: skipn (Nat.min (length s) room) drest).
Proof.
  intros Hd Hs H1 Hlen Hsz room. unfold safe_strncat.
  destruct (Z.leb_spec size 0); [lia|].
  rewrite strnlen_cstr_short by (assumption || lia). cbn [bind].
  destruct (Z.geb_spec (Z.of_nat (length d)) size); [lia|].
  unfold safe_strncpy_at. destruct (Z.leb_spec (size - Z.of_nat (length d)) 0); [lia|].
  unfold blen, cstr in Hsz. rewrite app_length, bytes_length in Hsz. cbn [length] in Hsz.
  rewrite strncpy_loop_exact; [|assumption|lia|unfold cstr; rewrite app_length, bytes_length; cbn [length]; lia].
  replace (length d + Z.to_nat (size - Z.of_nat (length d) - 1) - length d)%nat with room by (unfold room; lia).
  f_equal. f_equal.
  unfold cstr. rewrite firstn_app, bytes_length, Nat.sub_diag, firstn_O, app_nil_r.
  assert (Hbl : length (bytes d) = length d) by apply bytes_length.
  rewrite (firstn_all2 (bytes d)) by lia. f_equal. f_equal. f_equal.
  rewrite skipn_app, Hbl.
  rewrite (skipn_all2 (bytes d)) by lia. cbn [app].
  replace (length d + Nat.min (length s) room + 1 - length d)%nat with (S (Nat.min (length s) room)) by lia.
  reflexivity.
Qed.

(* destination already holds `size` or more characters before any NUL: refused, untouched *)
Theorem safe_strncat_full d tail src size :
  Forall nz_byte d -> 1 <= size -> size <= Z.of_nat (length d) ->
  safe_strncat (bytes d ++ tail) src size = Ok (false, bytes d ++ tail).
Proof.
  intros Hd H1 Hsz. unfold safe_strncat. destruct (Z.leb_spec size 0); [lia|].
  rewrite strnlen_full by (assumption || lia). cbn [bind].
  destruct (Z.geb_spec (Z.of_nat (Z.to_nat size)) size); [reflexivity|lia].
Qed.

(* ---------- case helpers and safe_str ---------- *)
Lemma map_str_exact f s rest :
  Forall nz_byte s -> map_str f (cstr s rest) = Ok (cstr (map f s) rest).
Proof.
  induction s as [|c s IH]; intros Hnz; [reflexivity|].
  inversion Hnz as [|? ? Hc Hs]; subst. unfold cstr, bytes. cbn [map app map_str].
  rewrite (nz_byte_neq0 c Hc). fold (bytes s). fold (cstr s rest). rewrite IH by assumption. reflexivity.
Qed.

Theorem downcase_exact s rest : Forall nz_byte s -> downcase_str (cstr s rest) = Ok (cstr (map tolower s) rest).
Proof. apply map_str_exact. Qed.
Theorem upcase_exact s rest : Forall nz_byte s -> upcase_str (cstr s rest) = Ok (cstr (map toupper s) rest).
Proof. apply map_str_exact. Qed.

Lemma tolower_nz c : nz_byte c -> nz_byte (tolower c).
Proof. unfold nz_byte, tolower, isupper. intros H. destruct (65 <=? c) eqn:E1, (c <=? 90) eqn:E2; simpl; lia. Qed.
Lemma toupper_nz c : nz_byte c -> nz_byte (toupper c).
Proof. unfold nz_byte, toupper, islower. intros H. destruct (97 <=? c) eqn:E1, (c <=? 122) eqn:E2; simpl; lia. Qed.

Theorem safe_str_exact (s : list byte) rest n :
  n = length s ->
  safe_str (bytes s ++ rest) n = Ok (bytes (map (fun c => if iscntrl c then 46 else c) s) ++ rest).
Proof.
  intros ->. induction s as [|c s IH]; [reflexivity|].
  cbn [length bytes map app safe_str]. fold (bytes s). rewrite IH. reflexivity.
Qed.

(* ---------- substr ---------- *)
Lemma read_bytes_exact (pre m post : list byte) tail :
  read_bytes (bytes (pre ++ m ++ post) ++ tail) (length pre) (length m) = Ok m.
Proof.
  revert pre. induction m as [|c m IH]; intros pre; [reflexivity|].
  cbn [length read_bytes].
  assert (Hr : rdn (bytes (pre ++ (c :: m) ++ post) ++ tail) (length pre) = Ok c).
  { rewrite rdn_app_l by (rewrite bytes_length, !app_length; simpl; lia).
    apply rdn_bytes. rewrite nth_error_app2 by lia. now rewrite Nat.sub_diag. }
  rewrite Hr. cbn [bind].
  replace (pre ++ (c :: m) ++ post) with ((pre ++ [c]) ++ m ++ post) by (rewrite <- app_assoc; reflexivity).
  replace (S (length pre)) with (length (pre ++ [c])) by (rewrite app_length; simpl; lia).
  rewrite IH. reflexivity.
Qed.

Lemma read_bytes_slice (s : list byte) tail start n :
  (start + n <= length s)%nat ->
  read_bytes (bytes s ++ tail) start n = Ok (firstn n (skipn start s)).
Proof.
  intros H.
  pose proof (read_bytes_exact (firstn start s) (firstn n (skipn start s))
                (skipn n (skipn start s)) tail) as P.
  rewrite !firstn_skipn in P.
  rewrite firstn_length, Nat.min_l in P by lia.
  rewrite firstn_length, skipn_length, Nat.min_l in P by lia.
  exact P.
Qed.

Lemma u32_small z : 0 <= z < 4294967296 -> u32 z = z.
Proof. intros H. unfold u32. apply Z.mod_small. lia. Qed.
Lemma u32_neg z : -4294967296 <= z < 0 -> u32 z = z + 4294967296.
Proof. intros H. unfold u32. symmetry. apply (Z.mod_unique _ _ (-1)); lia. Qed.

(* the part after index normalisation: 0 <= start < len *)
Lemma substr_tail s rest start cnt :
  Forall nz_byte s -> Z.of_nat (length s) < 2147483648 ->
  0 <= start < Z.of_nat (length s) -> -2147483648 <= cnt < 2147483648 ->
  let len := Z.of_nat (length s) in
  let cc := if cnt <=? 0 then u32 (len - start + cnt) else cnt in
  let cc := if cc >? len - start then len - start else cc in
  let avail := len - start in
  let sc := if cnt <=? 0 then avail + cnt else cnt in
  let sc := if (sc <? 0) || (sc >? avail) then avail else sc in
  (r <- read_bytes (cstr s rest) (Z.to_nat start) (Z.to_nat cc) ;; Ok (Some r)) =
  Ok (Some (firstn (Z.to_nat sc) (skipn (Z.to_nat start) s))).
Proof.
  intros Hnz Hlen Hst Hcnt len cc0 cc avail sc0 sc.
  assert (Hcc : cc = sc /\ 0 <= sc <= avail).
  { subst cc sc cc0 sc0 avail. fold len in Hst, Hlen.
    destruct (Z.leb_spec cnt 0).
    - destruct (Z.ltb_spec (len - start + cnt) 0).
      + rewrite u32_neg by lia. cbn [orb].
        destruct (Z.gtb_spec (len - start + cnt + 4294967296) (len - start)); lia.
      + rewrite u32_small by lia. cbn [orb].
        destruct (Z.gtb_spec (len - start + cnt) (len - start)); lia.
    - destruct (Z.ltb_spec cnt 0); [lia|]. cbn [orb].
      destruct (Z.gtb_spec cnt (len - start)); lia. }
  destruct Hcc as [-> Hsc]. unfold cstr.
  clearbody sc. subst avail len. clear cc0 sc0. rewrite read_bytes_slice by lia. reflexivity.
Qed.

Theorem substr_exact s rest idx cnt :
  Forall nz_byte s -> Z.of_nat (length s) < 2147483648 ->
  -2147483648 <= idx < 2147483648 -> -2147483648 <= cnt < 2147483648 ->
  substr (cstr s rest) idx cnt = Ok (substr_spec s idx cnt).
Proof.
  intros Hnz Hlen Hidx Hcnt. unfold substr, substr_spec.
  rewrite strlen_cstr by assumption. cbn [bind].
  set (len := Z.of_nat (length s)) in *.
  rewrite (u32_small len) by lia.
  destruct (Z.ltb_spec idx 0) as [Hneg|Hpos].
  - destruct (Z.ltb_spec (len + idx) 0) as [Hlow|Hin].
    + rewrite u32_neg by lia. cbn [orb].
      destruct (Z.ltb_spec (len + idx + 4294967296) len); [lia|]. reflexivity.
    + rewrite u32_small by lia. cbn [orb].
      destruct (Z.ltb_spec (len + idx) len); [|lia]. destruct (Z.leb_spec len (len + idx)); [lia|].
      cbn [negb]. apply substr_tail; (assumption || lia).
  - destruct (Z.ltb_spec idx 0); [lia|]. destruct (Z.ltb_spec idx len) as [Hin|Hout]; cbn [negb orb].
    + destruct (Z.leb_spec len idx); [lia|]. apply substr_tail; (assumption || lia).
    + destruct (Z.leb_spec len idx); [|lia]. reflexivity.
Qed.
