(* Executable model of the bounded / in-place helpers of src/strings.c (property C13):
   spiftool_safe_strncpy, spiftool_safe_strncat, spiftool_substr, spiftool_chomp,
   spiftool_downcase_str, spiftool_upcase_str, spiftool_condense_whitespace,
   spiftool_safe_str and strrev.  Buffers are lists of cells starting at the pointer the
   C function receives and extending to the end of the enclosing object; every access is
   checked, so "stays inside its buffer" is "does not return Fault". *)
From LV Require Export Base.Buf.
Local Open Scope Z_scope.

(* ---- spiftool_safe_strncpy (strings.c:199) ----
   for (; (c = *s) && (pbuff < max_pbuff); s++, pbuff++) *pbuff = c;   *pbuff = 0;
   i is the offset of pbuff in dest, maxi the offset of max_pbuff. *)
Fixpoint strncpy_loop (src : buf) (dest : buf) (i maxi : nat) : res (bool * buf) :=
  match src with
  | [] => Fault OOB_read
  | None :: _ => Fault Uninit_read
  | Some c :: src' =>
    if (c =? 0) || negb (i <? maxi)%nat
    then (d <- wrn dest i 0 ;; Ok (c =? 0, d))
    else (d <- wrn dest i c ;; strncpy_loop src' d (S i) maxi)
  end.

(* dest+off is the destination pointer; REQUIRE_RVAL(size > 0, FALSE) *)
Definition safe_strncpy_at (dest : buf) (off : nat) (src : buf) (size : Z) : res (bool * buf) :=
  if size <=? 0 then Ok (false, dest)
  else strncpy_loop src dest off (off + Z.to_nat (size - 1)).

Definition safe_strncpy (dest src : buf) (size : Z) : res (bool * buf) :=
  safe_strncpy_at dest O src size.

(* ---- spiftool_safe_strncat (strings.c:220) ---- *)
Definition safe_strncat (dest src : buf) (size : Z) : res (bool * buf) :=
  if size <=? 0 then Ok (false, dest)
  else
    len <- strnlen dest (Z.to_nat size) ;;
    if Z.of_nat len >=? size then Ok (false, dest)
    else safe_strncpy_at dest len src (size - Z.of_nat len).

(* ---- spiftool_substr (strings.c:240), 32-bit unsigned arithmetic explicit ---- *)
Definition u32 (z : Z) : Z := z mod 4294967296.

Fixpoint read_bytes (b : buf) (start : nat) (n : nat) : res (list byte) :=
  match n with
  | O => Ok []
  | S n' => c <- rdn b start ;; r <- read_bytes b (S start) n' ;; Ok (c :: r)
  end.

Definition substr (str : buf) (idx cnt : Z) : res (option (list byte)) :=
  l <- strlen str ;;
  let len := u32 (Z.of_nat l) in
  let start := if idx <? 0 then u32 (len + idx) else idx in
  if negb (start <? len) then Ok None
  else
    let cc := if cnt <=? 0 then u32 (len - start + cnt) else cnt in
    let cc := if cc >? len - start then len - start else cc in
    r <- read_bytes str (Z.to_nat start) (Z.to_nat cc) ;;
    Ok (Some r).

(* ---- case helpers (strings.c:608, 621): each byte up to the terminator is replaced by f of it ---- *)
Fixpoint map_str (f : byte -> byte) (b : buf) : res buf :=
  match b with
  | [] => Fault OOB_read
  | None :: _ => Fault Uninit_read
  | Some c :: t => if c =? 0 then Ok b else (t' <- map_str f t ;; Ok (Some (f c) :: t'))
  end.
Definition downcase_str := map_str tolower.
Definition upcase_str := map_str toupper.

(* ---- spiftool_safe_str (strings.c:663): the first len cells, control chars -> '.' ---- *)
Fixpoint safe_str (b : buf) (len : nat) {struct len} : res buf :=
  match len with
  | O => Ok b
  | S len' =>
    match b with
    | [] => Fault OOB_read
    | None :: _ => Fault Uninit_read
    | Some c :: t => t' <- safe_str t len' ;; Ok (Some (if iscntrl c then 46 else c) :: t')
    end
  end.

(* ---- memmove inside one buffer: n cells from src to dst, both ranges checked ---- *)
Definition sub_cells (b : buf) (start n : nat) : res (list cell) :=
  if (start + n <=? length b)%nat then Ok (firstn n (skipn start b)) else Fault OOB_read.
Definition put_cells (b : buf) (start : nat) (cs : list cell) : res buf :=
  if (start + length cs <=? length b)%nat
  then Ok (firstn start b ++ cs ++ skipn (start + length cs) b) else Fault OOB_write.
Definition memmove (b : buf) (dst src n : nat) : res buf :=
  cs <- sub_cells b src n ;; put_cells b dst cs.

(* ---- spiftool_chomp (strings.c:590) ---- *)
(* front scan: skip leading whitespace, stop at the terminator *)
Fixpoint front_scan (b : buf) : res nat :=
  match b with
  | [] => Fault OOB_read
  | None :: _ => Fault Uninit_read
  | Some c :: t => if negb (c =? 0) && isspace c then (n <- front_scan t ;; Ok (S n)) else Ok O
  end.
(* back scan: from the last character down while whitespace and above front *)
Fixpoint back_scan (b : buf) (back front : nat) : res nat :=
  match rdn b back with
  | Fault f => Fault f
  | Ok c =>
    if negb (c =? 0) && isspace c && (front <? back)%nat
    then match back with O => Ok O | S back' => back_scan b back' front end
    else Ok back
  end.

Definition chomp (s : buf) : res buf :=
  c0 <- rdn s 0 ;;
  if c0 =? 0 then Ok s
  else
    front <- front_scan s ;;
    l <- strlen s ;;
    back <- back_scan s (l - 1) front ;;
    let back := S back in
    s1 <- wrn s back 0 ;;
    if (front =? 0)%nat then Ok s1 else memmove s1 0 front (back - front + 1).

(* ---- spiftool_condense_whitespace (strings.c:634) ----
   p = offset of pbuff, rest = cells from pbuff2 on (read side), out = cells written so far
   are kept in the buffer itself: the loop reads position p2 and writes position p <= p2. *)
Fixpoint cw_loop (b : buf) (p p2 : nat) (got : bool) (fuel : nat) : res (buf * nat) :=
  match fuel with
  | O => Fault Out_of_fuel
  | S fuel' =>
    c <- rdn b p2 ;;
    if c =? 0 then Ok (b, p)
    else if isspace c then
      if got then cw_loop b p (S p2) true fuel'
      else (b' <- wrn b p 32 ;; cw_loop b' (S p) (S p2) true fuel')
    else (b' <- wrn b p c ;; cw_loop b' (S p) (S p2) false fuel')
  end.

(* fixed_guard = true models "pbuff > s" (repaired code); false models the original
   "pbuff >= s", which reads s[-1] when nothing was written. *)
Definition condense_whitespace_gen (fixed_guard : bool) (s : buf) : res buf :=
  '(b, p) <- cw_loop s 0 0 false (S (length s)) ;;
  p' <- (if fixed_guard && (p =? 0)%nat then Ok p
         else c <- rd b (Z.of_nat p - 1) ;; Ok (if isspace c then (p - 1)%nat else p)) ;;
  b' <- wrn b p' 0 ;;
  (* REALLOC(s, strlen(s) + 1): the result is an exactly sized block *)
  l <- strlen b' ;;
  Ok (firstn (S l) b').
Definition condense_whitespace := condense_whitespace_gen true.

(* ---- strrev (strings.c:152): i = strlen(str); for (j = 0, i--; i > j; i--, j++) SWAP ---- *)
Fixpoint rev_loop (b : buf) (j : nat) (i : Z) (fuel : nat) : res buf :=
  match fuel with
  | O => Fault Out_of_fuel
  | S fuel' =>
    if i >? Z.of_nat j then
      cj <- rdn b j ;; ci <- rd b i ;;
      b1 <- wrn b j ci ;; b2 <- wr b1 i cj ;;
      rev_loop b2 (S j) (i - 1) fuel'
    else Ok b
  end.
Definition strrev (s : buf) : res buf :=
  l <- strlen s ;; rev_loop s 0 (Z.of_nat l - 1) (S l).

(* ---- reference transformations (the specification side) ---- *)
Fixpoint dropwhile {A} (f : A -> bool) (l : list A) : list A :=
  match l with [] => [] | x :: t => if f x then dropwhile f t else l end.
Definition trim_ws (s : list byte) : list byte :=
  rev (dropwhile isspace (rev (dropwhile isspace s))).

(* collapse every run of whitespace to one blank *)
Fixpoint collapse (got : bool) (s : list byte) : list byte :=
  match s with
  | [] => []
  | c :: t => if isspace c then (if got then collapse true t else 32 :: collapse true t)
              else c :: collapse false t
  end.
Definition strip_last_space (s : list byte) : list byte :=
  match rev s with c :: r => if isspace c then rev r else s | [] => [] end.
Definition condense_spec (s : list byte) : list byte := strip_last_space (collapse false s).

Definition substr_spec (s : list byte) (idx cnt : Z) : option (list byte) :=
  let len := Z.of_nat (length s) in
  let start := if idx <? 0 then len + idx else idx in
  if (start <? 0) || (len <=? start) then None
  else
    let avail := len - start in
    let cc := if cnt <=? 0 then avail + cnt else cnt in
    (* a count that reaches before the start position wraps (32-bit) and is clamped, as
       the code documents no refusal for it: the whole remainder is returned *)
    let cc := if (cc <? 0) || (cc >? avail) then avail else cc in
    Some (firstn (Z.to_nat cc) (skipn (Z.to_nat start) s)).
