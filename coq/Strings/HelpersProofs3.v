(* C13, sources and destinations that END where the helper must stop looking: a source block that holds no
   terminator at all but at least `size` bytes (safe_strncpy / safe_strncat read exactly as many bytes of it as they
   have room for, never the byte behind), stated with an arbitrary `tail` -- in particular the empty one: the block
   ends right there. *)
From LV Require Import Base.Buf Strings.HelpersModel Strings.HelpersProofs.
Local Open Scope Z_scope.

Lemma strncpy_loop_unterminated s tail :
  Forall nz_byte s ->
  forall dest i maxi, (i <= maxi)%nat -> (maxi < length dest)%nat -> (maxi - i < length s)%nat ->
  strncpy_loop (bytes s ++ tail) dest i maxi =
  Ok (false, firstn i dest ++ bytes (firstn (maxi - i) s) ++ Some 0 :: skipn (maxi + 1) dest).
Proof.
  induction s as [|c s IH]; intros Hnz dest i maxi Hi Hm Hlen; [simpl in Hlen; lia|].
  inversion Hnz as [|? ? Hc Hs]; subst.
  cbn [bytes map app strncpy_loop]. fold (bytes s).
  rewrite (nz_byte_neq0 c Hc). cbn [orb].
  destruct (Nat.ltb_spec i maxi) as [Hlt|Hge]; cbn [negb].
  - rewrite wrn_ok by lia. cbn [bind].
    rewrite IH; [|assumption|lia|rewrite upd_length; lia|simpl in Hlen; lia].
    replace (maxi - i)%nat with (S (maxi - S i)) by lia.
    rewrite firstn_cons. f_equal. f_equal.
    rewrite firstn_S_upd by lia. rewrite <- app_assoc. cbn [app bytes map].
    rewrite skipn_upd_gt by lia. reflexivity.
  - assert (i = maxi) by lia. subst i.
    rewrite wrn_ok by lia. cbn [bind]. rewrite upd_split by lia.
    replace (maxi - maxi)%nat with O by lia. cbn [firstn bytes map app].
    replace (maxi + 1)%nat with (S maxi) by lia. reflexivity.
Qed.

(* safe_strncpy from a source of at least `size` bytes none of which is a NUL (nothing need follow them: tail = []):
   reads exactly `size` source bytes, writes the first size - 1 and the terminator, reports truncation, leaves
   everything at or beyond `size` alone *)
Theorem safe_strncpy_unterminated s tail dest size :
  Forall nz_byte s -> 1 <= size -> size <= blen dest -> size <= Z.of_nat (length s) ->
  safe_strncpy dest (bytes s ++ tail) size =
  Ok (false, bytes (firstn (Z.to_nat (size - 1)) s) ++ Some 0 :: skipn (Z.to_nat size) dest).
Proof.
  intros Hnz Hs Hd Hl. unfold safe_strncpy, safe_strncpy_at, blen in *.
  destruct (Z.leb_spec size 0); [lia|].
  rewrite strncpy_loop_unterminated; [|assumption|lia|lia|lia].
  cbn [firstn app Nat.add]. rewrite Nat.sub_0_r.
  replace (Z.to_nat (size - 1) + 1)%nat with (Z.to_nat size) by lia. reflexivity.
Qed.

(* safe_strncat onto existing text d (shorter than size) from such a source with at least size - |d| bytes *)
Theorem safe_strncat_unterminated d drest s tail size :
  Forall nz_byte d -> Forall nz_byte s ->
  1 <= size -> Z.of_nat (length d) < size -> size <= blen (cstr d drest) ->
  size - Z.of_nat (length d) <= Z.of_nat (length s) ->
  let room := (Z.to_nat (size - 1) - length d)%nat in
  safe_strncat (cstr d drest) (bytes s ++ tail) size =
  Ok (false, bytes d ++ bytes (firstn room s) ++ Some 0 :: skipn room drest).
Proof.
  intros Hd Hs H1 Hlen Hsz Hsrc room. unfold safe_strncat.
  destruct (Z.leb_spec size 0); [lia|].
  rewrite strnlen_cstr_short by (assumption || lia). cbn [bind].
  destruct (Z.geb_spec (Z.of_nat (length d)) size); [lia|].
  unfold safe_strncpy_at. destruct (Z.leb_spec (size - Z.of_nat (length d)) 0); [lia|].
  unfold blen, cstr in Hsz. rewrite app_length, bytes_length in Hsz. cbn [length] in Hsz.
  rewrite strncpy_loop_unterminated;
    [|assumption|lia|unfold cstr; rewrite app_length, bytes_length; cbn [length]; lia|lia].
  replace (length d + Z.to_nat (size - Z.of_nat (length d) - 1) - length d)%nat with room by (unfold room; lia).
  f_equal. f_equal.
  unfold cstr. rewrite firstn_app, bytes_length, Nat.sub_diag, firstn_O, app_nil_r.
  assert (Hbl : length (bytes d) = length d) by apply bytes_length.
  rewrite (firstn_all2 (bytes d)) by lia. f_equal. f_equal. f_equal.
  rewrite skipn_app, Hbl.
  rewrite (skipn_all2 (bytes d)) by lia. cbn [app].
  replace (length d + Z.to_nat (size - Z.of_nat (length d) - 1) + 1 - length d)%nat with (S room) by (unfold room; lia).
  reflexivity.
Qed.

(* safe_str touches exactly `len` cells: a block of exactly len bytes with no terminator anywhere is enough *)
Theorem safe_str_exact_block (s : list Z) :
  safe_str (bytes s) (length s) = Ok (bytes (map (fun c => if iscntrl c then 46 else c) s)).
Proof.
  pose proof (safe_str_exact s [] (length s) eq_refl) as H. rewrite !app_nil_r in H. exact H.
Qed.

(* safe_strncat_full with the block made explicit: the destination IS its `size` NUL-free bytes, nothing follows *)
Theorem safe_strncat_full_exact_block (d : list Z) src :
  Forall nz_byte d -> d <> [] ->
  safe_strncat (bytes d) src (Z.of_nat (length d)) = Ok (false, bytes d).
Proof.
  intros Hd Hne.
  pose proof (safe_strncat_full d [] src (Z.of_nat (length d)) Hd) as H. rewrite app_nil_r in H.
  apply H; [destruct d; [congruence | simpl; lia] | lia].
Qed.
