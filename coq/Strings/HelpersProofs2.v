(* Proofs about the C13 helper models, second part: the in-place loops
   spiftool_chomp, spiftool_condense_whitespace and strrev are exactly their reference
   transformations (trim_ws, condense_spec, rev), never fault on a NUL-terminated string,
   and leave everything beyond the old terminator alone. *)
From LV Require Import Base.Buf Strings.HelpersModel Strings.HelpersProofs.
Local Open Scope Z_scope.

(* ---------- list plumbing ---------- *)
Lemma skipn_cons_inv {A} (l : list A) n x t :
  skipn n l = x :: t -> nth_error l n = Some x /\ skipn (S n) l = t /\ (n < length l)%nat.
Proof.
  revert n; induction l as [|a l IH]; intros [|n] H; simpl in *; try discriminate.
  - inversion H; subst. repeat split; auto. lia.
  - destruct (IH n H) as (H1 & H2 & H3). repeat split; auto. lia.
Qed.

Lemma rdn_mid (a : buf) v c n : n = length a -> rdn (a ++ Some v :: c) n = Ok v.
Proof. intros ->. rewrite rdn_app_r by lia. rewrite Nat.sub_diag. reflexivity. Qed.

Lemma upd_mid {A} (a : list A) x c v n : n = length a -> upd (a ++ x :: c) n v = a ++ v :: c.
Proof. intros ->. rewrite upd_app_r by lia. rewrite Nat.sub_diag. reflexivity. Qed.

Lemma firstn_app_exact {A} (a x : list A) n : n = length a -> firstn n (a ++ x) = a.
Proof.
  intros ->. rewrite firstn_app, Nat.sub_diag, firstn_all. cbn [firstn]. apply app_nil_r.
Qed.

Lemma skipn_app_exact {A} (a x : list A) n : n = length a -> skipn n (a ++ x) = x.
Proof.
  intros ->. rewrite skipn_app, Nat.sub_diag, skipn_all. reflexivity.
Qed.

Lemma skipn_app_le {A} (a x : list A) n : (n <= length a)%nat -> skipn n (a ++ x) = skipn n a ++ x.
Proof. intros H. rewrite skipn_app. replace (n - length a)%nat with O by lia. reflexivity. Qed.

Lemma list_last_case {A} (l : list A) : l = [] \/ exists l' y, l = l' ++ [y].
Proof. induction l as [|y l' _] using rev_ind; [left; reflexivity | right; eauto]. Qed.

Lemma list_ends {A} (l : list A) : (2 <= length l)%nat -> exists x m y, l = x :: m ++ [y].
Proof.
  destruct l as [|x l]; cbn [length]; intros H; [lia|].
  destruct (list_last_case l) as [-> | (m & y & ->)]; [cbn [length] in H; lia|]. eauto.
Qed.

Lemma bytes_cons c (s : list Z) : bytes (c :: s) = Some c :: bytes s.
Proof. reflexivity. Qed.

Ltac len := repeat (rewrite ?app_length, ?bytes_length, ?upd_length, ?rev_length; cbn [length]); try lia.

(* ---------- strrev ---------- *)
Lemma rev_loop_inv : forall n (mid pre : list Z) tail fuel j i,
  (length mid <= n)%nat -> (length mid < fuel)%nat ->
  j = length pre -> i = Z.of_nat (length pre) + Z.of_nat (length mid) - 1 ->
  rev_loop (bytes pre ++ bytes mid ++ tail) j i fuel = Ok (bytes pre ++ bytes (rev mid) ++ tail).
Proof.
  induction n as [|n IH]; intros mid pre tail fuel j i Hn Hfuel -> ->;
    (destruct fuel as [|fuel]; [lia|]); cbn [rev_loop].
  - destruct mid; [|cbn [length] in Hn; lia]. cbn [length].
    destruct (Z.gtb_spec (Z.of_nat (length pre) + Z.of_nat 0 - 1) (Z.of_nat (length pre))); [lia|].
    reflexivity.
  - destruct (le_lt_dec (length mid) 1) as [Hsmall|Hbig].
    + destruct (Z.gtb_spec (Z.of_nat (length pre) + Z.of_nat (length mid) - 1) (Z.of_nat (length pre))); [lia|].
      destruct mid as [|x [|y m]]; cbn [length] in Hsmall; try lia; reflexivity.
    + destruct (list_ends mid) as (x & m & y & ->); [lia|].
      cbn [length] in *. rewrite app_length in *. cbn [length] in *.
      destruct (Z.gtb_spec (Z.of_nat (length pre) + Z.of_nat (S (length m + 1)) - 1) (Z.of_nat (length pre))); [|lia].
      assert (EB : bytes pre ++ bytes (x :: m ++ [y]) ++ tail
                   = bytes pre ++ Some x :: bytes m ++ Some y :: tail).
      { rewrite bytes_cons, bytes_app. cbn [app bytes map]. rewrite <- app_assoc. reflexivity. }
      rewrite EB.
      rewrite rdn_mid by (rewrite bytes_length; reflexivity). cbn [bind].
      unfold rd, wr.
      destruct (Z.ltb_spec (Z.of_nat (length pre) + Z.of_nat (S (length m + 1)) - 1) 0); [lia|].
      replace (Z.to_nat (Z.of_nat (length pre) + Z.of_nat (S (length m + 1)) - 1))
        with (length (bytes pre ++ Some x :: bytes m))
        by len.
      assert (EB2 : forall v, bytes pre ++ Some v :: bytes m ++ Some y :: tail
                   = (bytes pre ++ Some v :: bytes m) ++ Some y :: tail).
      { intros v. rewrite <- app_assoc. reflexivity. }
      rewrite (EB2 x), rdn_mid by reflexivity. cbn [bind].
      rewrite <- (EB2 x).
      rewrite wrn_ok by len. cbn [bind].
      rewrite upd_mid by (rewrite bytes_length; reflexivity).
      rewrite EB2.
      rewrite wrn_ok by len.
      cbn [bind].
      rewrite upd_mid by len.
      assert (EB3 : forall t, (bytes pre ++ Some y :: bytes m) ++ t
                    = bytes (pre ++ [y]) ++ bytes m ++ t).
      { intros t. rewrite bytes_app, <- !app_assoc. reflexivity. }
      rewrite EB3.
      rewrite (IH m (pre ++ [y]) (Some x :: tail) fuel);
        [|len|len|len|len].
      cbn [rev]. rewrite rev_app_distr. cbn [rev app].
      f_equal. rewrite bytes_cons, !bytes_app. cbn [bytes map app]. rewrite <- !app_assoc. cbn [app]. reflexivity.
Qed.

Theorem strrev_exact : forall (s : list Z) rest, Forall nz_byte s ->
  strrev (cstr s rest) = Ok (cstr (rev s) rest).
Proof.
  intros s rest Hnz. unfold strrev. rewrite strlen_cstr by assumption. cbn [bind].
  unfold cstr.
  apply (rev_loop_inv (length s) s [] (Some 0 :: rest) (S (length s)) O); cbn [length]; lia.
Qed.

(* ---------- spiftool_condense_whitespace ---------- *)
Lemma collapse_length got (s : list Z) : (length (collapse got s) <= length s)%nat.
Proof.
  revert got; induction s as [|c t IH]; intros got; cbn [collapse length]; [lia|].
  pose proof (IH true) as IHt. pose proof (IH false) as IHf.
  destruct (isspace c), got; cbn [length]; lia.
Qed.

Lemma collapse_nz got (s : list Z) : Forall nz_byte s -> Forall nz_byte (collapse got s).
Proof.
  revert got; induction s as [|c t IH]; intros got Hnz; cbn [collapse]; [constructor|].
  inversion Hnz as [|? ? Hc Ht]; subst.
  destruct (isspace c); [destruct got|]; auto; constructor; auto.
  unfold nz_byte; lia.
Qed.

(* The loop reads at p2 and writes at p <= p2: whatever the first p cells hold stays, the
   collapsed text of the unread part is appended to them, the length is unchanged. *)
Lemma cw_loop_inv (todo : list Z) : forall b p p2 got fuel tail,
  Forall nz_byte todo ->
  skipn p2 b = bytes todo ++ Some 0 :: tail -> (p <= p2)%nat -> (length todo < fuel)%nat ->
  exists b', cw_loop b p p2 got fuel = Ok (b', (p + length (collapse got todo))%nat) /\
    firstn (p + length (collapse got todo)) b' = firstn p b ++ bytes (collapse got todo) /\
    length b' = length b.
Proof.
  induction todo as [|c t IH]; intros b p p2 got fuel tail Hnz Hsk Hle Hfuel;
    (destruct fuel as [|fuel]; [cbn [length] in Hfuel; lia|]); cbn [cw_loop];
    cbn [bytes map app] in Hsk;
    destruct (skipn_cons_inv _ _ _ _ Hsk) as (Hnth & Hsk' & Hlt);
    unfold rdn at 1; rewrite Hnth; cbn [bind].
  - rewrite Z.eqb_refl. exists b. cbn [collapse length bytes map].
    rewrite Nat.add_0_r, app_nil_r. auto.
  - inversion Hnz as [|? ? Hc Ht]; subst. rewrite (nz_byte_neq0 c Hc).
    cbn [length] in Hfuel. cbn [collapse]. fold (bytes t) in Hsk'.
    destruct (isspace c) eqn:Esp; [destruct got|].
    + apply (IH b p (S p2) true fuel tail); auto; lia.
    + rewrite wrn_ok by lia. cbn [bind].
      destruct (IH (upd b p (Some 32)) (S p) (S p2) true fuel tail Ht) as (b' & Hrun & Hfirst & Hlen);
        [rewrite skipn_upd_gt by lia; exact Hsk'|lia|lia|].
      exists b'. cbn [length]. rewrite Nat.add_succ_r. split; [exact Hrun|]. split.
      * cbn [Nat.add] in Hfirst. rewrite Hfirst, firstn_S_upd by lia. rewrite <- app_assoc. reflexivity.
      * rewrite Hlen. apply upd_length.
    + rewrite wrn_ok by lia. cbn [bind].
      destruct (IH (upd b p (Some c)) (S p) (S p2) false fuel tail Ht) as (b' & Hrun & Hfirst & Hlen);
        [rewrite skipn_upd_gt by lia; exact Hsk'|lia|lia|].
      exists b'. cbn [length]. rewrite Nat.add_succ_r. split; [exact Hrun|]. split.
      * cbn [Nat.add] in Hfirst. rewrite Hfirst, firstn_S_upd by lia. rewrite <- app_assoc. reflexivity.
      * rewrite Hlen. apply upd_length.
Qed.

(* write the terminator after a text already in place, measure, cut to size *)
Lemma finish_exact b (spec : list Z) n :
  n = length spec -> firstn n b = bytes spec -> (n < length b)%nat -> Forall nz_byte spec ->
  (b' <- wrn b n 0 ;; l <- strlen b' ;; Ok (firstn (S l) b')) = Ok (cstr spec []).
Proof.
  intros -> Hf Hlt Hnz. rewrite wrn_ok by assumption. cbn [bind].
  assert (E : upd b (length spec) (Some 0) = cstr spec (skipn (S (length spec)) b)).
  { rewrite upd_split by assumption. rewrite Hf. reflexivity. }
  rewrite E, strlen_cstr by assumption. cbn [bind]. unfold cstr. f_equal.
  rewrite firstn_app, bytes_length.
  replace (S (length spec) - length spec)%nat with 1%nat by lia.
  rewrite firstn_all2 by (rewrite bytes_length; lia). reflexivity.
Qed.

Lemma strip_last_space_length (s : list Z) : (length (strip_last_space s) <= length s)%nat.
Proof.
  unfold strip_last_space. destruct (list_last_case s) as [-> | (l' & y & ->)]; [cbn; lia|].
  rewrite rev_app_distr. cbn [rev app]. destruct (isspace y); len.
Qed.

Theorem condense_spec_length : forall s : list Z, (length (condense_spec s) <= length s)%nat.
Proof.
  intros s. unfold condense_spec.
  pose proof (strip_last_space_length (collapse false s)). pose proof (collapse_length false s). lia.
Qed.

Theorem condense_exact : forall (s : list Z) rest, Forall nz_byte s ->
  condense_whitespace (cstr s rest) = Ok (cstr (condense_spec s) []).
Proof.
  intros s rest Hnz. unfold condense_whitespace, condense_whitespace_gen.
  destruct (cw_loop_inv s (cstr s rest) 0 0 false (S (length (cstr s rest))) rest Hnz)
    as (b' & Hrun & Hfirst & Hlen); [reflexivity|lia|unfold cstr; len|].
  rewrite Hrun. cbn [bind Nat.add firstn app] in *.
  pose proof (collapse_length false s) as Hcl. pose proof (collapse_nz false s Hnz) as Hcnz.
  unfold condense_spec.
  assert (Hb' : (length s < length b')%nat) by (rewrite Hlen; unfold cstr; len).
  remember (collapse false s) as col eqn:Ecol. clear Ecol Hrun.
  destruct (list_last_case col) as [-> | (l' & y & ->)].
  - cbn [length Nat.eqb andb bind strip_last_space rev].
    apply finish_exact; auto; lia.
  - apply Forall_app in Hcnz. destruct Hcnz as [Hl' Hy].
    rewrite app_length in *. cbn [length] in *.
    destruct (Nat.eqb_spec (length l' + 1) 0) as [E0|_]; [lia|]. cbn [andb].
    unfold rd. destruct (Z.ltb_spec (Z.of_nat (length l' + 1) - 1) 0); [lia|].
    replace (Z.to_nat (Z.of_nat (length l' + 1) - 1)) with (length l') by lia.
    assert (Eb : b' = bytes l' ++ Some y :: skipn (length l' + 1) b').
    { rewrite <- (firstn_skipn (length l' + 1) b') at 1.
      rewrite Hfirst, bytes_app, <- app_assoc. reflexivity. }
    assert (Hrd : rdn b' (length l') = Ok y).
    { rewrite Eb. apply rdn_mid. len. }
    assert (Hfl : firstn (length l') b' = bytes l').
    { rewrite Eb. apply firstn_app_exact. len. }
    rewrite Hrd. cbn [bind].
    unfold strip_last_space. rewrite rev_app_distr. cbn [rev app].
    destruct (isspace y).
    + rewrite rev_involutive. replace (length l' + 1 - 1)%nat with (length l') by lia.
      apply finish_exact; auto; lia.
    + apply finish_exact; auto; [len|lia|apply Forall_app; auto].
Qed.

Theorem condense_orig_guard_faults : forall rest,
  condense_whitespace_gen false (cstr [] rest) = Fault OOB_read.
Proof. intros rest. reflexivity. Qed.

(* ---------- spiftool_chomp ---------- *)
Definition is_sp (c : Z) : Prop := isspace c = true.

Lemma dropwhile_split {A} (f : A -> bool) l :
  exists w, l = w ++ dropwhile f l /\ Forall (fun x => f x = true) w.
Proof.
  induction l as [|x t (w & Hw & Hf)]; cbn [dropwhile].
  - exists []. split; [reflexivity|constructor].
  - destruct (f x) eqn:E.
    + exists (x :: w). split; [cbn [app]; f_equal; exact Hw | constructor; assumption].
    + exists []. split; [reflexivity|constructor].
Qed.

Lemma dropwhile_head {A} (f : A -> bool) l :
  dropwhile f l = [] \/ exists x t, dropwhile f l = x :: t /\ f x = false.
Proof.
  induction l as [|x t IH]; cbn [dropwhile]; [left; reflexivity|].
  destruct (f x) eqn:E; [exact IH | right; eauto].
Qed.

(* s = leading blanks ++ trim_ws s ++ trailing blanks; the middle part is empty (then the
   whole string is blank) or begins and ends with a non-blank *)
Lemma trim_decomp (s : list Z) :
  exists ws1 ws2, s = ws1 ++ trim_ws s ++ ws2 /\ Forall is_sp ws1 /\ Forall is_sp ws2 /\
    ((trim_ws s = [] /\ ws2 = []) \/
     ((exists x c, trim_ws s = x :: c /\ isspace x = false) /\
      (exists c y, trim_ws s = c ++ [y] /\ isspace y = false))).
Proof.
  unfold trim_ws.
  destruct (dropwhile_split isspace s) as (ws1 & Hs & Hsp1).
  pose proof (dropwhile_head isspace s) as Hhead.
  remember (dropwhile isspace s) as t eqn:Et. clear Et.
  destruct (dropwhile_split isspace (rev t)) as (w & Ht & Hw).
  pose proof (dropwhile_head isspace (rev t)) as Hhead2.
  remember (dropwhile isspace (rev t)) as d eqn:Ed. clear Ed.
  assert (Ht' : t = rev d ++ rev w).
  { rewrite <- rev_app_distr, <- Ht, rev_involutive. reflexivity. }
  assert (Hw' : Forall is_sp (rev w)) by (apply Forall_rev; exact Hw).
  exists ws1, (rev w). split; [rewrite <- Ht'; exact Hs|]. split; [exact Hsp1|]. split; [exact Hw'|].
  destruct Hhead as [Hnil | (x & t' & Hx & Hfx)].
  - left. subst t. symmetry in Ht'. apply app_eq_nil in Ht'. exact Ht'.
  - right. destruct Hhead2 as [Hdnil | (y & r & Hd & Hfy)].
    + exfalso. subst d. cbn [rev app] in Ht'. rewrite <- Ht', Hx in Hw'.
      inversion Hw' as [|? ? Hxs _]; subst. unfold is_sp in Hxs. congruence.
    + subst d. cbn [rev] in *. split; [|eauto].
      rewrite Hx in Ht'. destruct (rev r) as [|a q]; cbn [app] in *.
      * inversion Ht'; subst. eauto.
      * inversion Ht'; subst. eauto.
Qed.

Lemma front_scan_ws (ws : list Z) c tl :
  Forall is_sp ws -> Forall nz_byte ws -> negb (c =? 0) && isspace c = false ->
  front_scan (bytes ws ++ Some c :: tl) = Ok (length ws).
Proof.
  intros Hsp Hnz Hc. induction ws as [|w ws IH]; cbn [bytes map app front_scan length].
  - rewrite Hc. reflexivity.
  - inversion Hsp as [|? ? Hw Hsp']; inversion Hnz as [|? ? Hw2 Hnz']; subst.
    unfold is_sp in Hw. rewrite (nz_byte_neq0 w Hw2), Hw. cbn [negb andb].
    fold (bytes ws). rewrite IH by assumption. reflexivity.
Qed.

Lemma back_scan_eq b back front :
  back_scan b back front =
  match rdn b back with
  | Fault f => Fault f
  | Ok c =>
    if negb (c =? 0) && isspace c && (front <? back)%nat
    then match back with O => Ok O | S back' => back_scan b back' front end
    else Ok back
  end.
Proof. destruct back; reflexivity. Qed.

Lemma back_scan_ws (ws : list Z) : forall (A : buf) c tl front,
  Forall is_sp ws -> Forall nz_byte ws -> negb (c =? 0) && isspace c = false ->
  (front <= length A)%nat ->
  back_scan (A ++ Some c :: bytes ws ++ tl) (length A + length ws) front = Ok (length A).
Proof.
  induction ws as [|z w IH] using rev_ind; intros A c tl front Hsp Hnz Hc Hfr; rewrite back_scan_eq.
  - cbn [length bytes map app]. rewrite rdn_mid by lia. rewrite Hc. cbn [andb]. f_equal. lia.
  - apply Forall_app in Hsp, Hnz. destruct Hsp as [Hspw Hspz]. destruct Hnz as [Hnzw Hnzz].
    inversion Hspz as [|? ? Hz _]; inversion Hnzz as [|? ? Hz2 _]; subst. unfold is_sp in Hz.
    assert (EB : forall t, A ++ Some c :: bytes (w ++ [z]) ++ t
                 = (A ++ Some c :: bytes w) ++ Some z :: t).
    { intros t. rewrite bytes_app, <- !app_assoc. reflexivity. }
    rewrite EB. rewrite rdn_mid by len.
    rewrite (nz_byte_neq0 z Hz2), Hz. cbn [negb andb].
    rewrite app_length. cbn [length].
    destruct (Nat.ltb_spec front (length A + (length w + 1))); [|lia].
    replace (length A + (length w + 1))%nat with (S (length A + length w)) by lia.
    rewrite <- app_assoc. cbn [app]. apply IH; assumption.
Qed.

(* the terminator goes over the first trailing blank, or over the old terminator *)
Lemma write_after (P : buf) (ws2 : list Z) rest n :
  n = length P ->
  exists junk2, length junk2 = length ws2 /\
    wrn (P ++ bytes ws2 ++ Some 0 :: rest) n 0 = Ok (P ++ Some 0 :: junk2 ++ rest).
Proof.
  intros ->. destruct ws2 as [|w ws2].
  - exists []. split; [reflexivity|]. cbn [bytes map app]. rewrite wrn_ok by len.
    rewrite upd_mid by reflexivity. reflexivity.
  - exists (bytes ws2 ++ [Some 0]). split; [len|]. cbn [bytes map app]. rewrite wrn_ok by len.
    rewrite upd_mid by reflexivity. rewrite <- app_assoc. reflexivity.
Qed.

Lemma memmove_front (pre mv post : buf) f n :
  f = length pre -> n = length mv ->
  memmove (pre ++ mv ++ post) 0 f n = Ok (mv ++ skipn n (pre ++ mv ++ post)).
Proof.
  intros -> ->. unfold memmove, sub_cells.
  destruct (Nat.leb_spec (length pre + length mv) (length (pre ++ mv ++ post))) as [_|Hbad];
    [|rewrite !app_length in Hbad; lia].
  rewrite skipn_app_exact by reflexivity. rewrite firstn_app_exact by reflexivity. cbn [bind].
  unfold put_cells.
  destruct (Nat.leb_spec (0 + length mv) (length (pre ++ mv ++ post))) as [_|Hbad];
    [|rewrite !app_length in Hbad; lia].
  reflexivity.
Qed.

Lemma chomp_tail (ws1 core : list Z) (junk2 rest : buf) front back :
  front = length ws1 -> back = (length ws1 + length core)%nat ->
  exists junk, length junk = (length ws1 + length junk2)%nat /\
    (if (front =? 0)%nat then Ok (bytes ws1 ++ bytes core ++ Some 0 :: junk2 ++ rest)
     else memmove (bytes ws1 ++ bytes core ++ Some 0 :: junk2 ++ rest) 0 front (back - front + 1))
    = Ok (cstr core (junk ++ rest)).
Proof.
  intros -> ->. destruct ws1 as [|w ws1].
  - exists junk2. split; reflexivity.
  - cbn [length Nat.eqb].
    exists (skipn (length core + 1) (bytes (w :: ws1) ++ bytes core ++ Some 0 :: junk2)).
    split.
    + rewrite skipn_length. len.
    + assert (EB : bytes (w :: ws1) ++ bytes core ++ Some 0 :: junk2 ++ rest
                   = bytes (w :: ws1) ++ (bytes core ++ [Some 0]) ++ junk2 ++ rest).
      { rewrite <- !app_assoc. reflexivity. }
      rewrite EB. rewrite memmove_front by len. f_equal. unfold cstr.
      rewrite <- !app_assoc. cbn [app]. f_equal. f_equal.
      replace (S (length ws1) + length core - S (length ws1) + 1)%nat with (length core + 1)%nat by lia.
      rewrite <- skipn_app_le by len. f_equal. rewrite <- !app_assoc. reflexivity.
Qed.

(* Exact content and frame: the text becomes trim_ws s, the cells between the new
   terminator and the old one (inclusive) are left-overs, nothing beyond the old
   terminator is touched, and the buffer keeps its length. *)
Theorem chomp_exact : forall (s : list Z) rest, Forall nz_byte s ->
  exists junk, length junk = (length s - length (trim_ws s))%nat /\
    chomp (cstr s rest) = Ok (cstr (trim_ws s) (junk ++ rest)).
Proof.
  intros s rest Hnz. destruct s as [|c0 s0].
  - exists []. split; reflexivity.
  - assert (Hc0 : nz_byte c0) by (inversion Hnz; assumption).
    unfold chomp. change (rdn (cstr (c0 :: s0) rest) 0) with (Ok c0). cbn [bind].
    rewrite (nz_byte_neq0 c0 Hc0).
    assert (Hne : (1 <= length (c0 :: s0))%nat) by (cbn [length]; lia).
    remember (c0 :: s0) as s eqn:Es. clear Es c0 s0 Hc0.
    destruct (trim_decomp s) as (ws1 & ws2 & Hs & Hsp1 & Hsp2 & Hcases).
    remember (trim_ws s) as core eqn:Ecore. clear Ecore.
    assert (Hlen : length s = (length ws1 + length core + length ws2)%nat) by (rewrite Hs; len).
    assert (Hnz1 : Forall nz_byte ws1 /\ Forall nz_byte core /\ Forall nz_byte ws2).
    { rewrite Hs in Hnz. apply Forall_app in Hnz. destruct Hnz as [H1 H2].
      apply Forall_app in H2. tauto. }
    destruct Hnz1 as (Hnz1 & Hnzc & Hnz2).
    assert (Hb : cstr s rest = bytes ws1 ++ bytes core ++ bytes ws2 ++ Some 0 :: rest).
    { unfold cstr. rewrite Hs, !bytes_app, <- !app_assoc. reflexivity. }
    assert (Hfront : front_scan (cstr s rest) = Ok (length ws1)).
    { rewrite Hb. destruct Hcases as [[-> ->] | [(x & c & -> & Hx) _]].
      - apply front_scan_ws; auto.
      - apply front_scan_ws; auto. rewrite Hx. apply Bool.andb_false_r. }
    assert (Hpos : (1 <= length ws1 + length core)%nat).
    { destruct Hcases as [[-> ->] | [(x & c & -> & Hx) _]]; cbn [length] in *; lia. }
    assert (Hback : back_scan (cstr s rest) (length s - 1) (length ws1)
                    = Ok (length ws1 + length core - 1)%nat).
    { destruct Hcases as [[-> ->] | [_ (c & y & -> & Hy)]].
      - (* all blank: back starts below front and stops at once *)
        rewrite back_scan_eq. cbn [length] in *.
        destruct (nth_error s (length s - 1)) as [z|] eqn:Ez;
          [|apply nth_error_None in Ez; lia].
        unfold cstr. rewrite rdn_app_l by len. rewrite (rdn_bytes _ _ _ Ez).
        destruct (Nat.ltb_spec (length ws1) (length s - 1)); [lia|].
        rewrite Bool.andb_false_r. f_equal. lia.
      - rewrite Hb. rewrite app_length in *. cbn [length] in *.
        assert (EB : forall t, bytes ws1 ++ bytes (c ++ [y]) ++ t
                     = (bytes ws1 ++ bytes c) ++ Some y :: t).
        { intros t. rewrite bytes_app, <- !app_assoc. reflexivity. }
        rewrite EB.
        replace (length s - 1)%nat with (length (bytes ws1 ++ bytes c) + length ws2)%nat by len.
        rewrite back_scan_ws; auto; [f_equal; len| |len].
        rewrite Hy. apply Bool.andb_false_r. }
    rewrite Hfront. cbn [bind]. rewrite strlen_cstr by assumption. cbn [bind].
    rewrite Hback. cbn [bind].
    replace (S (length ws1 + length core - 1)) with (length ws1 + length core)%nat by lia.
    destruct (write_after (bytes ws1 ++ bytes core) ws2 rest (length ws1 + length core))
      as (junk2 & Hj2 & Hw); [len|].
    rewrite Hb. rewrite app_assoc. rewrite Hw. cbn [bind]. rewrite <- app_assoc.
    destruct (chomp_tail ws1 core junk2 rest (length ws1) (length ws1 + length core) eq_refl eq_refl)
      as (junk & Hj & Hres).
    exists junk. split; [unfold cell in *; lia|]. exact Hres.
Qed.
