
(** val negb : bool -> bool **)

let negb = function
| true -> false
| false -> true

type nat =
| O
| S of nat

(** val length : 'a1 list -> nat **)

let rec length = function
| [] -> O
| _ :: l' -> S (length l')

(** val app : 'a1 list -> 'a1 list -> 'a1 list **)

let rec app l m =
  match l with
  | [] -> m
  | a :: l1 -> a :: (app l1 m)

type comparison =
| Eq
| Lt
| Gt

(** val compOpp : comparison -> comparison **)

let compOpp = function
| Eq -> Eq
| Lt -> Gt
| Gt -> Lt

module Coq__1 = struct
 (** val add : nat -> nat -> nat **)
 let rec add n0 m =
   match n0 with
   | O -> m
   | S p -> S (add p m)
end
include Coq__1

(** val sub : nat -> nat -> nat **)

let rec sub n0 m =
  match n0 with
  | O -> n0
  | S k -> (match m with
            | O -> n0
            | S l -> sub k l)

module Nat =
 struct
  (** val eqb : nat -> nat -> bool **)

  let rec eqb n0 m =
    match n0 with
    | O -> (match m with
            | O -> true
            | S _ -> false)
    | S n' -> (match m with
               | O -> false
               | S m' -> eqb n' m')

  (** val leb : nat -> nat -> bool **)

  let rec leb n0 m =
    match n0 with
    | O -> true
    | S n' -> (match m with
               | O -> false
               | S m' -> leb n' m')

  (** val ltb : nat -> nat -> bool **)

  let ltb n0 m =
    leb (S n0) m
 end

(** val nth_error : 'a1 list -> nat -> 'a1 option **)

let rec nth_error l = function
| O -> (match l with
        | [] -> None
        | x :: _ -> Some x)
| S n1 -> (match l with
           | [] -> None
           | _ :: l0 -> nth_error l0 n1)

(** val firstn : nat -> 'a1 list -> 'a1 list **)

let rec firstn n0 l =
  match n0 with
  | O -> []
  | S n1 -> (match l with
             | [] -> []
             | a :: l0 -> a :: (firstn n1 l0))

(** val skipn : nat -> 'a1 list -> 'a1 list **)

let rec skipn n0 l =
  match n0 with
  | O -> l
  | S n1 -> (match l with
             | [] -> []
             | _ :: l0 -> skipn n1 l0)

type positive =
| XI of positive
| XO of positive
| XH

type n =
| N0
| Npos of positive

type z =
| Z0
| Zpos of positive
| Zneg of positive

module Pos =
 struct
  (** val succ : positive -> positive **)

  let rec succ = function
  | XI p -> XO (succ p)
  | XO p -> XI p
  | XH -> XO XH

  (** val add : positive -> positive -> positive **)

  let rec add x y =
    match x with
    | XI p ->
      (match y with
       | XI q -> XO (add_carry p q)
       | XO q -> XI (add p q)
       | XH -> XO (succ p))
    | XO p ->
      (match y with
       | XI q -> XI (add p q)
       | XO q -> XO (add p q)
       | XH -> XI p)
    | XH -> (match y with
             | XI q -> XO (succ q)
             | XO q -> XI q
             | XH -> XO XH)

  (** val add_carry : positive -> positive -> positive **)

  and add_carry x y =
    match x with
    | XI p ->
      (match y with
       | XI q -> XI (add_carry p q)
       | XO q -> XO (add_carry p q)
       | XH -> XI (succ p))
    | XO p ->
      (match y with
       | XI q -> XO (add_carry p q)
       | XO q -> XI (add p q)
       | XH -> XO (succ p))
    | XH ->
      (match y with
       | XI q -> XI (succ q)
       | XO q -> XO (succ q)
       | XH -> XI XH)

  (** val pred_double : positive -> positive **)

  let rec pred_double = function
  | XI p -> XI (XO p)
  | XO p -> XI (pred_double p)
  | XH -> XH

  (** val mul : positive -> positive -> positive **)

  let rec mul x y =
    match x with
    | XI p -> add y (XO (mul p y))
    | XO p -> XO (mul p y)
    | XH -> y

  (** val compare_cont : comparison -> positive -> positive -> comparison **)

  let rec compare_cont r x y =
    match x with
    | XI p ->
      (match y with
       | XI q -> compare_cont r p q
       | XO q -> compare_cont Gt p q
       | XH -> Gt)
    | XO p ->
      (match y with
       | XI q -> compare_cont Lt p q
       | XO q -> compare_cont r p q
       | XH -> Gt)
    | XH -> (match y with
             | XH -> r
             | _ -> Lt)

  (** val compare : positive -> positive -> comparison **)

  let compare =
    compare_cont Eq

  (** val eqb : positive -> positive -> bool **)

  let rec eqb p q =
    match p with
    | XI p0 -> (match q with
                | XI q0 -> eqb p0 q0
                | _ -> false)
    | XO p0 -> (match q with
                | XO q0 -> eqb p0 q0
                | _ -> false)
    | XH -> (match q with
             | XH -> true
             | _ -> false)

  (** val iter_op : ('a1 -> 'a1 -> 'a1) -> positive -> 'a1 -> 'a1 **)

  let rec iter_op op p a =
    match p with
    | XI p0 -> op a (iter_op op p0 (op a a))
    | XO p0 -> iter_op op p0 (op a a)
    | XH -> a

  (** val to_nat : positive -> nat **)

  let to_nat x =
    iter_op Coq__1.add x (S O)

  (** val of_succ_nat : nat -> positive **)

  let rec of_succ_nat = function
  | O -> XH
  | S x -> succ (of_succ_nat x)
 end

module Z =
 struct
  (** val double : z -> z **)

  let double = function
  | Z0 -> Z0
  | Zpos p -> Zpos (XO p)
  | Zneg p -> Zneg (XO p)

  (** val succ_double : z -> z **)

  let succ_double = function
  | Z0 -> Zpos XH
  | Zpos p -> Zpos (XI p)
  | Zneg p -> Zneg (Pos.pred_double p)

  (** val pred_double : z -> z **)

  let pred_double = function
  | Z0 -> Zneg XH
  | Zpos p -> Zpos (Pos.pred_double p)
  | Zneg p -> Zneg (XI p)

  (** val pos_sub : positive -> positive -> z **)

  let rec pos_sub x y =
    match x with
    | XI p ->
      (match y with
       | XI q -> double (pos_sub p q)
       | XO q -> succ_double (pos_sub p q)
       | XH -> Zpos (XO p))
    | XO p ->
      (match y with
       | XI q -> pred_double (pos_sub p q)
       | XO q -> double (pos_sub p q)
       | XH -> Zpos (Pos.pred_double p))
    | XH ->
      (match y with
       | XI q -> Zneg (XO q)
       | XO q -> Zneg (Pos.pred_double q)
       | XH -> Z0)

  (** val add : z -> z -> z **)

  let add x y =
    match x with
    | Z0 -> y
    | Zpos x' ->
      (match y with
       | Z0 -> x
       | Zpos y' -> Zpos (Pos.add x' y')
       | Zneg y' -> pos_sub x' y')
    | Zneg x' ->
      (match y with
       | Z0 -> x
       | Zpos y' -> pos_sub y' x'
       | Zneg y' -> Zneg (Pos.add x' y'))

  (** val opp : z -> z **)

  let opp = function
  | Z0 -> Z0
  | Zpos x0 -> Zneg x0
  | Zneg x0 -> Zpos x0

  (** val sub : z -> z -> z **)

  let sub m n0 =
    add m (opp n0)

  (** val mul : z -> z -> z **)

  let mul x y =
    match x with
    | Z0 -> Z0
    | Zpos x' ->
      (match y with
       | Z0 -> Z0
       | Zpos y' -> Zpos (Pos.mul x' y')
       | Zneg y' -> Zneg (Pos.mul x' y'))
    | Zneg x' ->
      (match y with
       | Z0 -> Z0
       | Zpos y' -> Zneg (Pos.mul x' y')
       | Zneg y' -> Zpos (Pos.mul x' y'))

  (** val compare : z -> z -> comparison **)

  let compare x y =
    match x with
    | Z0 -> (match y with
             | Z0 -> Eq
             | Zpos _ -> Lt
             | Zneg _ -> Gt)
    | Zpos x' -> (match y with
                  | Zpos y' -> Pos.compare x' y'
                  | _ -> Gt)
    | Zneg x' ->
      (match y with
       | Zneg y' -> compOpp (Pos.compare x' y')
       | _ -> Lt)

  (** val leb : z -> z -> bool **)

  let leb x y =
    match compare x y with
    | Gt -> false
    | _ -> true

  (** val ltb : z -> z -> bool **)

  let ltb x y =
    match compare x y with
    | Lt -> true
    | _ -> false

  (** val geb : z -> z -> bool **)

  let geb x y =
    match compare x y with
    | Lt -> false
    | _ -> true

  (** val gtb : z -> z -> bool **)

  let gtb x y =
    match compare x y with
    | Gt -> true
    | _ -> false

  (** val eqb : z -> z -> bool **)

  let eqb x y =
    match x with
    | Z0 -> (match y with
             | Z0 -> true
             | _ -> false)
    | Zpos p -> (match y with
                 | Zpos q -> Pos.eqb p q
                 | _ -> false)
    | Zneg p -> (match y with
                 | Zneg q -> Pos.eqb p q
                 | _ -> false)

  (** val to_nat : z -> nat **)

  let to_nat = function
  | Zpos p -> Pos.to_nat p
  | _ -> O

  (** val of_nat : nat -> z **)

  let of_nat = function
  | O -> Z0
  | S n1 -> Zpos (Pos.of_succ_nat n1)

  (** val pos_div_eucl : positive -> z -> z * z **)

  let rec pos_div_eucl a b =
    match a with
    | XI a' ->
      let (q, r) = pos_div_eucl a' b in
      let r' = add (mul (Zpos (XO XH)) r) (Zpos XH) in
      if ltb r' b
      then ((mul (Zpos (XO XH)) q), r')
      else ((add (mul (Zpos (XO XH)) q) (Zpos XH)), (sub r' b))
    | XO a' ->
      let (q, r) = pos_div_eucl a' b in
      let r' = mul (Zpos (XO XH)) r in
      if ltb r' b
      then ((mul (Zpos (XO XH)) q), r')
      else ((add (mul (Zpos (XO XH)) q) (Zpos XH)), (sub r' b))
    | XH -> if leb (Zpos (XO XH)) b then (Z0, (Zpos XH)) else ((Zpos XH), Z0)

  (** val div_eucl : z -> z -> z * z **)

  let div_eucl a b =
    match a with
    | Z0 -> (Z0, Z0)
    | Zpos a' ->
      (match b with
       | Z0 -> (Z0, a)
       | Zpos _ -> pos_div_eucl a' b
       | Zneg b' ->
         let (q, r) = pos_div_eucl a' (Zpos b') in
         (match r with
          | Z0 -> ((opp q), Z0)
          | _ -> ((opp (add q (Zpos XH))), (add b r))))
    | Zneg a' ->
      (match b with
       | Z0 -> (Z0, a)
       | Zpos _ ->
         let (q, r) = pos_div_eucl a' b in
         (match r with
          | Z0 -> ((opp q), Z0)
          | _ -> ((opp (add q (Zpos XH))), (sub b r)))
       | Zneg b' -> let (q, r) = pos_div_eucl a' (Zpos b') in (q, (opp r)))

  (** val modulo : z -> z -> z **)

  let modulo a b =
    let (_, r) = div_eucl a b in r
 end

type fault =
| OOB_read
| OOB_write
| Uninit_read
| Null_deref
| Use_after_free
| Bad_free
| Out_of_fuel
| Int_overflow
| Abort

type 'a res =
| Ok of 'a
| Fault of fault

(** val bind : 'a1 res -> ('a1 -> 'a2 res) -> 'a2 res **)

let bind r k =
  match r with
  | Ok a -> k a
  | Fault f -> Fault f

(** val num_anchor : ((nat * positive) * n) * z **)

let num_anchor =
  (((O, XH), N0), Z0)

type cell = z option

type buf = cell list

(** val rdn : buf -> nat -> z res **)

let rdn b i =
  match nth_error b i with
  | Some c -> (match c with
               | Some v -> Ok v
               | None -> Fault Uninit_read)
  | None -> Fault OOB_read

(** val upd : 'a1 list -> nat -> 'a1 -> 'a1 list **)

let rec upd l n0 v =
  match l with
  | [] -> []
  | x :: t -> (match n0 with
               | O -> v :: t
               | S n' -> x :: (upd t n' v))

(** val wrn : buf -> nat -> z -> buf res **)

let wrn b i v =
  if Nat.ltb i (length b) then Ok (upd b i (Some v)) else Fault OOB_write

(** val rd : buf -> z -> z res **)

let rd b i =
  if Z.ltb i Z0 then Fault OOB_read else rdn b (Z.to_nat i)

(** val wr : buf -> z -> z -> buf res **)

let wr b i v =
  if Z.ltb i Z0 then Fault OOB_write else wrn b (Z.to_nat i) v

(** val strlen : buf -> nat res **)

let rec strlen = function
| [] -> Fault OOB_read
| c0 :: t ->
  (match c0 with
   | Some c ->
     if Z.eqb c Z0 then Ok O else bind (strlen t) (fun n0 -> Ok (S n0))
   | None -> Fault Uninit_read)

(** val strnlen : buf -> nat -> nat res **)

let rec strnlen b = function
| O -> Ok O
| S n' ->
  (match b with
   | [] -> Fault OOB_read
   | c0 :: t ->
     (match c0 with
      | Some c ->
        if Z.eqb c Z0 then Ok O else bind (strnlen t n') (fun k -> Ok (S k))
      | None -> Fault Uninit_read))

(** val take_str : buf -> z list **)

let rec take_str = function
| [] -> []
| c0 :: t ->
  (match c0 with
   | Some c -> if Z.eqb c Z0 then [] else c :: (take_str t)
   | None -> [])

(** val isspace : z -> bool **)

let isspace c =
  (||)
    ((&&) (Z.leb (Zpos (XI (XO (XO XH)))) c)
      (Z.leb c (Zpos (XI (XO (XI XH))))))
    (Z.eqb c (Zpos (XO (XO (XO (XO (XO XH)))))))

(** val isupper : z -> bool **)

let isupper c =
  (&&) (Z.leb (Zpos (XI (XO (XO (XO (XO (XO XH))))))) c)
    (Z.leb c (Zpos (XO (XI (XO (XI (XI (XO XH))))))))

(** val islower : z -> bool **)

let islower c =
  (&&) (Z.leb (Zpos (XI (XO (XO (XO (XO (XI XH))))))) c)
    (Z.leb c (Zpos (XO (XI (XO (XI (XI (XI XH))))))))

(** val iscntrl : z -> bool **)

let iscntrl c =
  (||) ((&&) (Z.leb Z0 c) (Z.ltb c (Zpos (XO (XO (XO (XO (XO XH))))))))
    (Z.eqb c (Zpos (XI (XI (XI (XI (XI (XI XH))))))))

(** val tolower : z -> z **)

let tolower c =
  if isupper c then Z.add c (Zpos (XO (XO (XO (XO (XO XH)))))) else c

(** val toupper : z -> z **)

let toupper c =
  if islower c then Z.sub c (Zpos (XO (XO (XO (XO (XO XH)))))) else c

(** val strncpy_loop : buf -> buf -> nat -> nat -> (bool * buf) res **)

let rec strncpy_loop src dest i maxi =
  match src with
  | [] -> Fault OOB_read
  | c0 :: src' ->
    (match c0 with
     | Some c ->
       if (||) (Z.eqb c Z0) (negb (Nat.ltb i maxi))
       then bind (wrn dest i Z0) (fun d -> Ok ((Z.eqb c Z0), d))
       else bind (wrn dest i c) (fun d -> strncpy_loop src' d (S i) maxi)
     | None -> Fault Uninit_read)

(** val safe_strncpy_at : buf -> nat -> buf -> z -> (bool * buf) res **)

let safe_strncpy_at dest off src size =
  if Z.leb size Z0
  then Ok (false, dest)
  else strncpy_loop src dest off (add off (Z.to_nat (Z.sub size (Zpos XH))))

(** val safe_strncpy : buf -> buf -> z -> (bool * buf) res **)

let safe_strncpy dest src size =
  safe_strncpy_at dest O src size

(** val safe_strncat : buf -> buf -> z -> (bool * buf) res **)

let safe_strncat dest src size =
  if Z.leb size Z0
  then Ok (false, dest)
  else bind (strnlen dest (Z.to_nat size)) (fun len ->
         if Z.geb (Z.of_nat len) size
         then Ok (false, dest)
         else safe_strncpy_at dest len src (Z.sub size (Z.of_nat len)))

(** val u32 : z -> z **)

let u32 z0 =
  Z.modulo z0 (Zpos (XO (XO (XO (XO (XO (XO (XO (XO (XO (XO (XO (XO (XO (XO
    (XO (XO (XO (XO (XO (XO (XO (XO (XO (XO (XO (XO (XO (XO (XO (XO (XO (XO
    XH)))))))))))))))))))))))))))))))))

(** val read_bytes : buf -> nat -> nat -> z list res **)

let rec read_bytes b start = function
| O -> Ok []
| S n' ->
  bind (rdn b start) (fun c ->
    bind (read_bytes b (S start) n') (fun r -> Ok (c :: r)))

(** val substr : buf -> z -> z -> z list option res **)

let substr str idx cnt =
  bind (strlen str) (fun l ->
    let len = u32 (Z.of_nat l) in
    let start = if Z.ltb idx Z0 then u32 (Z.add len idx) else idx in
    if negb (Z.ltb start len)
    then Ok None
    else let cc =
           if Z.leb cnt Z0 then u32 (Z.add (Z.sub len start) cnt) else cnt
         in
         let cc0 = if Z.gtb cc (Z.sub len start) then Z.sub len start else cc
         in
         bind (read_bytes str (Z.to_nat start) (Z.to_nat cc0)) (fun r -> Ok
           (Some r)))

(** val map_str : (z -> z) -> buf -> buf res **)

let rec map_str f b = match b with
| [] -> Fault OOB_read
| c0 :: t ->
  (match c0 with
   | Some c ->
     if Z.eqb c Z0
     then Ok b
     else bind (map_str f t) (fun t' -> Ok ((Some (f c)) :: t'))
   | None -> Fault Uninit_read)

(** val downcase_str : buf -> buf res **)

let downcase_str =
  map_str tolower

(** val upcase_str : buf -> buf res **)

let upcase_str =
  map_str toupper

(** val safe_str : buf -> nat -> buf res **)

let rec safe_str b = function
| O -> Ok b
| S len' ->
  (match b with
   | [] -> Fault OOB_read
   | c0 :: t ->
     (match c0 with
      | Some c ->
        bind (safe_str t len') (fun t' -> Ok ((Some
          (if iscntrl c then Zpos (XO (XI (XI (XI (XO XH))))) else c)) :: t'))
      | None -> Fault Uninit_read))

(** val sub_cells : buf -> nat -> nat -> cell list res **)

let sub_cells b start n0 =
  if Nat.leb (add start n0) (length b)
  then Ok (firstn n0 (skipn start b))
  else Fault OOB_read

(** val put_cells : buf -> nat -> cell list -> buf res **)

let put_cells b start cs =
  if Nat.leb (add start (length cs)) (length b)
  then Ok (app (firstn start b) (app cs (skipn (add start (length cs)) b)))
  else Fault OOB_write

(** val memmove : buf -> nat -> nat -> nat -> buf res **)

let memmove b dst src n0 =
  bind (sub_cells b src n0) (fun cs -> put_cells b dst cs)

(** val front_scan : buf -> nat res **)

let rec front_scan = function
| [] -> Fault OOB_read
| c0 :: t ->
  (match c0 with
   | Some c ->
     if (&&) (negb (Z.eqb c Z0)) (isspace c)
     then bind (front_scan t) (fun n0 -> Ok (S n0))
     else Ok O
   | None -> Fault Uninit_read)

(** val back_scan : buf -> nat -> nat -> nat res **)

let rec back_scan b back front =
  match rdn b back with
  | Ok c ->
    if (&&) ((&&) (negb (Z.eqb c Z0)) (isspace c)) (Nat.ltb front back)
    then (match back with
          | O -> Ok O
          | S back' -> back_scan b back' front)
    else Ok back
  | Fault f -> Fault f

(** val chomp : buf -> buf res **)

let chomp s =
  bind (rdn s O) (fun c0 ->
    if Z.eqb c0 Z0
    then Ok s
    else bind (front_scan s) (fun front ->
           bind (strlen s) (fun l ->
             bind (back_scan s (sub l (S O)) front) (fun back ->
               let back0 = S back in
               bind (wrn s back0 Z0) (fun s1 ->
                 if Nat.eqb front O
                 then Ok s1
                 else memmove s1 O front (add (sub back0 front) (S O)))))))

(** val cw_loop : buf -> nat -> nat -> bool -> nat -> (buf * nat) res **)

let rec cw_loop b p p2 got = function
| O -> Fault Out_of_fuel
| S fuel' ->
  bind (rdn b p2) (fun c ->
    if Z.eqb c Z0
    then Ok (b, p)
    else if isspace c
         then if got
              then cw_loop b p (S p2) true fuel'
              else bind (wrn b p (Zpos (XO (XO (XO (XO (XO XH)))))))
                     (fun b' -> cw_loop b' (S p) (S p2) true fuel')
         else bind (wrn b p c) (fun b' -> cw_loop b' (S p) (S p2) false fuel'))

(** val condense_whitespace_gen : bool -> buf -> buf res **)

let condense_whitespace_gen fixed_guard s =
  bind (cw_loop s O O false (S (length s))) (fun x ->
    let (b, p) = x in
    bind
      (if (&&) fixed_guard (Nat.eqb p O)
       then Ok p
       else bind (rd b (Z.sub (Z.of_nat p) (Zpos XH))) (fun c -> Ok
              (if isspace c then sub p (S O) else p))) (fun p' ->
      bind (wrn b p' Z0) (fun b' ->
        bind (strlen b') (fun l -> Ok (firstn (S l) b')))))

(** val rev_loop : buf -> nat -> z -> nat -> buf res **)

let rec rev_loop b j i = function
| O -> Fault Out_of_fuel
| S fuel' ->
  if Z.gtb i (Z.of_nat j)
  then bind (rdn b j) (fun cj ->
         bind (rd b i) (fun ci ->
           bind (wrn b j ci) (fun b1 ->
             bind (wr b1 i cj) (fun b2 ->
               rev_loop b2 (S j) (Z.sub i (Zpos XH)) fuel'))))
  else Ok b

(** val strrev : buf -> buf res **)

let strrev s =
  bind (strlen s) (fun l -> rev_loop s O (Z.sub (Z.of_nat l) (Zpos XH)) (S l))
