(* C14 proofs, part 1: the checked scanner never faults on a NUL-terminated text and equals
   the pure parser (url_total). *)
From LV Require Import Base.Buf Strings.HelpersModel Strings.HelpersProofs Url.UrlModel.
Local Open Scope Z_scope.

Lemma Forall_skipn {A} (P : A -> Prop) n l : Forall P l -> Forall P (skipn n l).
Proof. intros H. rewrite <- (firstn_skipn n l) in H. apply Forall_app in H. tauto. Qed.
Lemma Forall_firstn {A} (P : A -> Prop) n l : Forall P l -> Forall P (firstn n l).
Proof. intros H. rewrite <- (firstn_skipn n l) in H. apply Forall_app in H. tauto. Qed.

Lemma skipn_nth_cons {A} (l : list A) p d : (p < length l)%nat -> skipn p l = nth p l d :: skipn (S p) l.
Proof.
  revert p. induction l as [|x l IH]; intros [|p] H; simpl in *; try lia; auto.
  apply IH. lia.
Qed.

Lemma skipn_cstr s start : (start <= length s)%nat -> skipn start (cstr s []) = cstr (skipn start s) [].
Proof.
  intros H. unfold cstr, bytes. rewrite skipn_app, map_length.
  replace (start - length s)%nat with O by lia. cbn [skipn]. now rewrite skipn_map.
Qed.

Lemma cstr_length s r : length (cstr s r) = S (length s + length r).
Proof. unfold cstr. rewrite app_length, bytes_length. simpl. lia. Qed.

Lemma strchr_go_find s c pos :
  Forall nz_byte s -> c <> 0 -> strchr_go (cstr s []) pos c = Ok (find_go c s pos).
Proof.
  intros Hnz Hc. revert pos. induction s as [|x s IH]; intros pos.
  - reflexivity.
  - inversion Hnz as [|? ? Hx Hs]; subst. unfold cstr, bytes. cbn [map app strchr_go find_go].
    rewrite (nz_byte_neq0 x Hx). destruct (x =? c); [reflexivity|]. apply (IH Hs).
Qed.

Lemma strchr_from_find s c start :
  Forall nz_byte s -> c <> 0 -> (start <= length s)%nat ->
  strchr_from (cstr s []) start c = Ok (find_from c s start).
Proof.
  intros Hnz Hc Hs. unfold strchr_from, find_from. rewrite cstr_length.
  destruct (Nat.leb_spec start (S (length s + length (@nil cell)))); [|simpl in *; lia].
  rewrite skipn_cstr by assumption. apply strchr_go_find; [|assumption].
  now apply Forall_skipn.
Qed.

Lemma find_go_bounds c s pos p : find_go c s pos = Some p -> (pos <= p < pos + length s)%nat.
Proof.
  revert pos. induction s as [|x s IH]; intros pos H; cbn [find_go] in H; [discriminate|].
  destruct (x =? c).
  - injection H as <-. simpl. lia.
  - apply IH in H. simpl. lia.
Qed.

Lemma find_from_bounds c s start p :
  (start <= length s)%nat -> find_from c s start = Some p -> (start <= p < length s)%nat.
Proof.
  intros Hs H. unfold find_from in H. apply find_go_bounds in H. rewrite skipn_length in H. lia.
Qed.

Lemma find_go_hit c s pos p : find_go c s pos = Some p -> nth (p - pos) s 0 = c.
Proof.
  revert pos. induction s as [|x s IH]; intros pos H; cbn [find_go] in H; [discriminate|].
  destruct (Z.eqb_spec x c).
  - injection H as <-. now rewrite Nat.sub_diag.
  - pose proof (find_go_bounds _ _ _ _ H). apply IH in H.
    replace (p - pos)%nat with (S (p - S pos)) by lia. exact H.
Qed.

(* ---- reads on a NUL-terminated text ---- *)
Lemma rdn_cstr s p : (p <= length s)%nat -> rdn (cstr s []) p = Ok (nthz s p).
Proof.
  intros H. unfold rdn, cstr, nthz.
  destruct (Nat.eq_dec p (length s)) as [->|Hne].
  - rewrite nth_error_app2 by (rewrite bytes_length; lia). rewrite bytes_length, Nat.sub_diag. cbn.
    now rewrite nth_overflow by lia.
  - rewrite nth_error_app1 by (rewrite bytes_length; lia). unfold bytes. rewrite nth_error_map.
    rewrite (nth_error_nth' s 0) by lia. reflexivity.
Qed.

Lemma read_range_cstr s start n :
  (start + n <= length s)%nat -> read_bytes (cstr s []) start n = Ok (sub s start (start + n)).
Proof.
  intros H. unfold cstr, sub. rewrite read_bytes_slice by assumption.
  now replace (start + n - start)%nat with n by lia.
Qed.

Lemma read_str_go_cstr s : Forall nz_byte s -> read_str_go (cstr s []) = Ok s.
Proof.
  induction s as [|x s IH]; intros Hnz; [reflexivity|].
  inversion Hnz as [|? ? Hx Hs]; subst. unfold cstr, bytes. cbn [map app read_str_go].
  rewrite (nz_byte_neq0 x Hx). fold (bytes s). fold (cstr s []). now rewrite IH.
Qed.

Lemma read_str_cstr s start :
  Forall nz_byte s -> (start <= length s)%nat -> read_str (cstr s []) start = Ok (skipn start s).
Proof.
  intros Hnz H. unfold read_str. rewrite cstr_length.
  destruct (Nat.leb_spec start (S (length s + length (@nil cell)))); [|simpl in *; lia].
  rewrite skipn_cstr by assumption. apply read_str_go_cstr. now apply Forall_skipn.
Qed.

Lemma strlen_skipn_cstr s start :
  Forall nz_byte s -> (start <= length s)%nat -> strlen (skipn start (cstr s [])) = Ok (length s - start)%nat.
Proof.
  intros Hnz H. rewrite skipn_cstr by assumption. rewrite strlen_cstr by now apply Forall_skipn.
  now rewrite skipn_length.
Qed.

(* the isalnum scan stops at pe exactly when the whole range is alphanumeric *)
Lemma alnum_scan_cstr s p n :
  (p + n <= length s)%nat ->
  exists stop, alnum_scan (cstr s []) p n = Ok stop /\ (p <= stop <= p + n)%nat /\
               ((stop =? p + n)%nat = forallb isalnum (sub s p (p + n))).
Proof.
  revert p. induction n as [|n IH]; intros p H.
  - exists p. cbn [alnum_scan]. unfold sub. rewrite Nat.add_0_r, Nat.sub_diag. cbn.
    rewrite Nat.eqb_refl. repeat split; lia.
  - cbn [alnum_scan]. rewrite rdn_cstr by lia. cbn [bind].
    assert (Hsub : sub s p (p + S n) = nthz s p :: sub s (S p) (S p + n)).
    { unfold sub, nthz. replace (p + S n - p)%nat with (S n) by lia.
      replace (S p + n - S p)%nat with n by lia.
      rewrite (skipn_nth_cons s p 0) by lia. reflexivity. }
    rewrite Hsub. cbn [forallb]. destruct (isalnum (nthz s p)).
    + destruct (IH (S p)) as (stop & E & B & Q); [lia|]. exists stop. rewrite E. cbn [andb].
      replace (p + S n)%nat with (S p + n)%nat by lia. repeat split; try lia. exact Q.
    + exists p. cbn [andb]. repeat split; try lia. apply Nat.eqb_neq. lia.
Qed.


Lemma nthz_nonzero_lt s p : nthz s p <> 0 -> (p < length s)%nat.
Proof.
  unfold nthz. intros H. destruct (Nat.lt_ge_cases p (length s)); [assumption|].
  rewrite nth_overflow in H by lia. congruence.
Qed.

Lemma read_range_sub s a b n :
  n = (b - a)%nat -> (a + n <= length s)%nat -> read_bytes (cstr s []) a n = Ok (sub s a b).
Proof. intros -> H. unfold cstr, sub. now rewrite read_bytes_slice by assumption. Qed.

Ltac find_bounds :=
  repeat match goal with
         | H : find_from _ ?s ?st = Some ?p |- _ =>
           lazymatch goal with
           | _ : (st <= p < length s)%nat |- _ => fail
           | _ => let B := fresh "B" in
                  assert (B : (st <= p < length s)%nat)
                    by (eapply find_from_bounds; [|exact H]; lia)
           end
         end.

Theorem url_total s lookup :
  Forall nz_byte s -> url_parse_m (cstr s []) lookup = Ok (parse_pure s lookup).
Proof.
  intros Hnz. unfold url_parse_m, url_parse_gen, parse_pure.
  assert (Hc58 : ch_colon <> 0) by (unfold ch_colon; lia).
  assert (Hc47 : ch_slash <> 0) by (unfold ch_slash; lia).
  assert (Hc63 : ch_quest <> 0) by (unfold ch_quest; lia).
  assert (Hc64 : ch_at <> 0) by (unfold ch_at; lia).
  (* stage 1: proto *)
  rewrite strchr_from_find by (assumption || lia). cbn [bind].
  set (st1 := stage1 s).
  assert (S1 : (match find_from ch_colon s 0 with
                | Some pe => stop <- alnum_scan (cstr s []) 0 pe ;;
                             (if (stop =? pe)%nat then p <- read_bytes (cstr s []) 0 pe ;; Ok (Some p, S pe) else Ok (None, O))
                | None => Ok (None, O) end) = Ok st1 /\ (snd st1 <= length s)%nat).
  { subst st1. unfold stage1. destruct (find_from ch_colon s 0) as [pe|] eqn:E0; [|split; [reflexivity|simpl; lia]].
    find_bounds.
    destruct (alnum_scan_cstr s 0 pe ltac:(lia)) as (stop & Es & Bs & Q). rewrite Es. cbn [bind].
    cbn [Nat.add] in Q. rewrite Q. destruct (forallb isalnum (sub s 0 pe)).
    - rewrite (read_range_sub s 0 pe pe) by lia. cbn [bind]. split; [reflexivity|simpl; lia].
    - split; [reflexivity|simpl; lia]. }
  destruct S1 as [S1 B1]. rewrite S1. clear S1. cbn [bind]. destruct st1 as [proto pstr1]. cbn [snd] in B1.
  (* stage 2: "//" *)
  rewrite rdn_cstr by lia. cbn [bind].
  set (pstr2 := stage2 s pstr1).
  assert (S2 : (if nthz s pstr1 =? ch_slash
                then c1 <- rdn (cstr s []) (S pstr1) ;; Ok (if c1 =? ch_slash then (pstr1 + 2)%nat else pstr1)
                else Ok pstr1) = Ok pstr2 /\ (pstr2 <= length s)%nat).
  { subst pstr2. unfold stage2. destruct (Z.eqb_spec (nthz s pstr1) ch_slash) as [E|E]; cbn [andb]; [|split; [reflexivity|lia]].
    assert (pstr1 < length s)%nat by (apply nthz_nonzero_lt; lia).
    rewrite rdn_cstr by lia. cbn [bind].
    destruct (Z.eqb_spec (nthz s (S pstr1)) ch_slash) as [E'|E']; [|split; [reflexivity|lia]].
    assert (S pstr1 < length s)%nat by (apply nthz_nonzero_lt; lia). split; [reflexivity|lia]. }
  destruct S2 as [S2 B2]. rewrite S2. clear S2. cbn [bind]. clearbody pstr2. clear B1 pstr1.
  (* stage 3: path / query *)
  rewrite strchr_from_find by (assumption || lia). cbn [bind].
  set (st3 := stage3 s pstr2).
  match goal with |- bind ?X _ = _ =>
    assert (S3 : X = Ok st3 /\ (pstr2 <= snd st3 <= length s)%nat) end.
  { subst st3. unfold stage3. destruct (find_from ch_slash s pstr2) as [pe|] eqn:E1.
    - find_bounds. rewrite strchr_from_find by (assumption || lia). cbn [bind].
      destruct (find_from ch_quest s pe) as [t|] eqn:E2.
      + find_bounds. rewrite read_str_cstr by (assumption || lia). cbn [bind].
        rewrite (read_range_sub s pe t) by lia. cbn [bind]. split; [reflexivity|simpl; lia].
      + rewrite read_str_cstr by (assumption || lia). cbn [bind]. split; [reflexivity|simpl; lia].
    - rewrite strchr_from_find by (assumption || lia). cbn [bind].
      destruct (find_from ch_quest s pstr2) as [pe|] eqn:E2.
      + find_bounds. rewrite read_str_cstr by (assumption || lia). cbn [bind]. split; [reflexivity|simpl; lia].
      + rewrite strlen_skipn_cstr by (assumption || lia). cbn [bind].
        replace (pstr2 + (length s - pstr2))%nat with (length s) by lia. split; [reflexivity|simpl; lia]. }
  destruct S3 as [S3 B3]. rewrite S3. clear S3. cbn [bind].
  destruct st3 as [[path query] pend]. cbn [snd] in B3.
  (* stage 4: user / passwd *)
  rewrite strchr_from_find by (assumption || lia). cbn [bind].
  set (st4 := stage4 s pstr2 pend).
  match goal with |- bind ?X _ = _ =>
    assert (S4 : X = Ok st4 /\ (snd st4 <= pend)%nat) end.
  { subst st4. unfold stage4. destruct (find_from ch_at s pstr2) as [pt|] eqn:E1; [|split; [reflexivity|simpl; lia]].
    find_bounds. destruct (Nat.ltb_spec pt pend); [|split; [reflexivity|simpl; lia]].
    rewrite strchr_from_find by (assumption || lia). cbn [bind].
    destruct (find_from ch_colon s pstr2) as [t|] eqn:E2.
    - find_bounds. destruct (Nat.ltb_spec t pt).
      + rewrite (read_range_sub s pstr2 t) by lia. cbn [bind].
        rewrite (read_range_sub s (S t) pt) by lia. cbn [bind]. split; [reflexivity|simpl; lia].
      + rewrite (read_range_sub s pstr2 pt) by lia. cbn [bind]. split; [reflexivity|simpl; lia].
    - rewrite (read_range_sub s pstr2 pt) by lia. cbn [bind]. split; [reflexivity|simpl; lia]. }
  destruct S4 as [S4 B4]. rewrite S4. clear S4. cbn [bind].
  destruct st4 as [[user passwd] pstr3]. cbn [snd] in B4.
  (* stage 5: host / port *)
  rewrite strchr_from_find by (assumption || lia). cbn [bind].
  set (st5 := stage5 s pstr3 pend).
  match goal with |- bind ?X _ = _ => assert (S5 : X = Ok st5) end.
  { subst st5. unfold stage5. destruct (find_from ch_colon s pstr3) as [pt|] eqn:E1.
    - find_bounds. destruct (Nat.ltb_spec pt pend).
      + rewrite (read_range_sub s pstr3 pt) by lia. cbn [bind].
        rewrite (read_range_sub s (S pt) pend) by lia. reflexivity.
      + destruct (Nat.eqb_spec pstr3 pend); [reflexivity|].
        rewrite (read_range_sub s pstr3 pend) by lia. reflexivity.
    - destruct (Nat.eqb_spec pstr3 pend); [reflexivity|].
      rewrite (read_range_sub s pstr3 pend) by lia. reflexivity. }
  rewrite S5. clear S5. cbn [bind]. destruct st5 as [host port].
  (* stage 6: service lookup *)
  unfold finish. cbn [c_port c_proto].
  destruct port as [po|]; [reflexivity|]. destruct proto as [pw|]; [|reflexivity].
  unfold resolve_port. destruct (lookup pw) as [|p ok|]; try reflexivity. destruct ok; reflexivity.
Qed.
