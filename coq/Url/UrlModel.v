(* Executable model of spif_url_parse / spif_url_unparse (src/url.c), property C14.
   [url_parse_m] mirrors the C scanner on a checked buffer (every strchr and every pstr[k]
   is a checked read; the service-database answers are an oracle value, and the fields of a
   lookup result that was not obtained are unreadable).  [parse_pure] is the same decision
   structure over a plain byte list; [render]/[unparse_text] are the specification side. *)
From LV Require Export Base.Buf Strings.HelpersModel.
Local Open Scope Z_scope.

(* ---- components ---- *)
Record comps := mkComps {
  c_proto : option (list Z); c_user : option (list Z); c_passwd : option (list Z);
  c_host : option (list Z); c_port : option (list Z); c_path : option (list Z);
  c_query : option (list Z) }.

(* ---- the lookup oracle: what getprotobyname(word) / getservbyname(word, tcp|udp) /
        getprotobyname(serv->s_proto) answer for the protocol word ---- *)
Inductive lookup_result :=
| LProto                              (* the word itself is an IP protocol name *)
| LServ (port : Z) (proto_ok : bool)  (* a service; port in host order; its protocol resolves? *)
| LNone.

Definition ch_colon := 58. Definition ch_slash := 47. Definition ch_quest := 63. Definition ch_at := 64.

(* decimal text of a port number 0..65535, as snprintf("%d") prints it *)
Definition digit (d : Z) : Z := 48 + d.
Fixpoint strip0 (l : list Z) : list Z :=
  match l with
  | [] => [0]
  | [d] => [d]
  | d :: t => if d =? 0 then strip0 t else l
  end.
Definition dec5 (n : Z) : list Z :=
  map digit (strip0 [n / 10000 mod 10; n / 1000 mod 10; n / 100 mod 10; n / 10 mod 10; n mod 10]).

(* ---- checked scanner primitives ---- *)
(* strchr(b + start, c) for c <> 0: offset (from the start of b) of the first c, None at NUL *)
Fixpoint strchr_go (b : buf) (pos : nat) (c : Z) : res (option nat) :=
  match b with
  | [] => Fault OOB_read
  | None :: _ => Fault Uninit_read
  | Some x :: t => if x =? 0 then Ok None else if x =? c then Ok (Some pos) else strchr_go t (S pos) c
  end.
Definition strchr_from (b : buf) (start : nat) (c : Z) : res (option nat) :=
  if (start <=? length b)%nat then strchr_go (skipn start b) start c else Fault OOB_read.

(* for (; pstr < pend; pstr++) if (!isalnum( *pstr)) break;  -> position where it stopped *)
Fixpoint alnum_scan (b : buf) (pstr : nat) (n : nat) : res nat :=
  match n with
  | O => Ok pstr
  | S n' => c <- rdn b pstr ;; if isalnum c then alnum_scan b (S pstr) n' else Ok pstr
  end.

(* spif_str_new_from_buff on a NUL-free range = read_bytes of Strings.HelpersModel *)
Notation read_range := read_bytes (only parsing).
(* spif_str_new_from_ptr(b + start): up to the terminator *)
Fixpoint read_str_go (b : buf) : res (list Z) :=
  match b with
  | [] => Fault OOB_read
  | None :: _ => Fault Uninit_read
  | Some x :: t => if x =? 0 then Ok [] else (r <- read_str_go t ;; Ok (x :: r))
  end.
Definition read_str (b : buf) (start : nat) : res (list Z) :=
  if (start <=? length b)%nat then read_str_go (skipn start b) else Fault OOB_read.

(* ---- the service lookup block (url.c:326-348) ----
   fixed = true: the repaired code (serv initialised to NULL, port filled only from a serv
   entry); fixed = false: the original, which formats serv->s_port although serv was never
   assigned when the word is itself a protocol name. *)
Definition resolve_port (fixed : bool) (lk : lookup_result) : res (bool * option (list Z)) :=
  match lk with
  | LProto => if fixed then Ok (true, None) else Fault Uninit_read
  | LServ port ok => if ok then Ok (true, Some (dec5 port)) else Ok (false, None)   (* REQUIRE_RVAL(proto != NULL, FALSE) *)
  | LNone => Ok (true, None)
  end.

(* ---- spif_url_parse ---- *)
Definition url_parse_gen (fixed : bool) (b : buf) (lookup : list Z -> lookup_result) : res (bool * comps) :=
  (* proto *)
  pend0 <- strchr_from b 0 ch_colon ;;
  '(proto, pstr) <-
    match pend0 with
    | Some pe =>
      stop <- alnum_scan b 0 pe ;;
      if (stop =? pe)%nat then (p <- read_range b 0 pe ;; Ok (Some p, S pe)) else Ok (None, O)
    | None => Ok (None, O)
    end ;;
  (* optional "//" *)
  c0 <- rdn b pstr ;;
  pstr <- (if c0 =? ch_slash then (c1 <- rdn b (S pstr) ;; Ok (if c1 =? ch_slash then (pstr + 2)%nat else pstr))
           else Ok pstr) ;;
  (* path and query *)
  sl <- strchr_from b pstr ch_slash ;;
  '(path, query, pend) <-
    match sl with
    | Some pe =>
      q <- strchr_from b pe ch_quest ;;
      match q with
      | Some t => qs <- read_str b (S t) ;; pa <- read_range b pe (t - pe) ;; Ok (Some pa, Some qs, pe)
      | None => pa <- read_str b pe ;; Ok (Some pa, None, pe)
      end
    | None =>
      q <- strchr_from b pstr ch_quest ;;
      match q with
      | Some pe => qs <- read_str b (S pe) ;; Ok (None, Some qs, pe)
      | None => l <- strlen (skipn pstr b) ;; Ok (None, None, (pstr + l)%nat)
      end
    end ;;
  (* user / passwd *)
  at_ <- strchr_from b pstr ch_at ;;
  '(user, passwd, pstr) <-
    match at_ with
    | Some pt =>
      if (pt <? pend)%nat then
        co <- strchr_from b pstr ch_colon ;;
        match co with
        | Some t =>
          if (t <? pt)%nat then
            u <- read_range b pstr (t - pstr) ;; pw <- read_range b (S t) (pt - t - 1) ;; Ok (Some u, Some pw, S pt)
          else (u <- read_range b pstr (pt - pstr) ;; Ok (Some u, None, S pt))
        | None => u <- read_range b pstr (pt - pstr) ;; Ok (Some u, None, S pt)
        end
      else Ok (None, None, pstr)
    | None => Ok (None, None, pstr)
    end ;;
  (* host / port *)
  co <- strchr_from b pstr ch_colon ;;
  '(host, port) <-
    match co with
    | Some pt =>
      if (pt <? pend)%nat then
        h <- read_range b pstr (pt - pstr) ;; po <- read_range b (S pt) (pend - pt - 1) ;; Ok (Some h, Some po)
      else if (pstr =? pend)%nat then Ok (None, None)
      else (h <- read_range b pstr (pend - pstr) ;; Ok (Some h, None))
    | None =>
      if (pstr =? pend)%nat then Ok (None, None)
      else (h <- read_range b pstr (pend - pstr) ;; Ok (Some h, None))
    end ;;
  (* default port from the service database *)
  match port, proto with
  | None, Some pw =>
    '(ok, po) <- resolve_port fixed (lookup pw) ;;
    Ok (ok, mkComps proto user passwd host po path query)
  | _, _ => Ok (true, mkComps proto user passwd host port path query)
  end.

Definition url_parse_m := url_parse_gen true.

(* ---- the same decisions on a plain byte list ---- *)
Fixpoint find_go (c : Z) (s : list Z) (pos : nat) : option nat :=
  match s with
  | [] => None
  | x :: t => if x =? c then Some pos else find_go c t (S pos)
  end.
Definition find_from (c : Z) (s : list Z) (start : nat) : option nat := find_go c (skipn start s) start.
Definition sub (s : list Z) (a b : nat) : list Z := firstn (b - a) (skipn a s).
Definition nthz (s : list Z) (i : nat) : Z := nth i s 0.   (* 0 = the terminator beyond the text *)

Definition stage1 (s : list Z) : option (list Z) * nat :=
  match find_from ch_colon s 0 with
  | Some pe => if forallb isalnum (sub s 0 pe) then (Some (sub s 0 pe), S pe) else (None, O)
  | None => (None, O)
  end.
Definition stage2 (s : list Z) (pstr : nat) : nat :=
  if (nthz s pstr =? ch_slash) && (nthz s (S pstr) =? ch_slash) then (pstr + 2)%nat else pstr.
Definition stage3 (s : list Z) (pstr : nat) : option (list Z) * option (list Z) * nat :=
  match find_from ch_slash s pstr with
  | Some pe =>
    match find_from ch_quest s pe with
    | Some t => (Some (sub s pe t), Some (skipn (S t) s), pe)
    | None => (Some (skipn pe s), None, pe)
    end
  | None =>
    match find_from ch_quest s pstr with
    | Some pe => (None, Some (skipn (S pe) s), pe)
    | None => (None, None, length s)
    end
  end.
Definition stage4 (s : list Z) (pstr pend : nat) : option (list Z) * option (list Z) * nat :=
  match find_from ch_at s pstr with
  | Some pt =>
    if (pt <? pend)%nat then
      match find_from ch_colon s pstr with
      | Some t => if (t <? pt)%nat then (Some (sub s pstr t), Some (sub s (S t) pt), S pt)
                  else (Some (sub s pstr pt), None, S pt)
      | None => (Some (sub s pstr pt), None, S pt)
      end
    else (None, None, pstr)
  | None => (None, None, pstr)
  end.
Definition stage5 (s : list Z) (pstr pend : nat) : option (list Z) * option (list Z) :=
  match find_from ch_colon s pstr with
  | Some pt =>
    if (pt <? pend)%nat then (Some (sub s pstr pt), Some (sub s (S pt) pend))
    else if (pstr =? pend)%nat then (None, None) else (Some (sub s pstr pend), None)
  | None => if (pstr =? pend)%nat then (None, None) else (Some (sub s pstr pend), None)
  end.
Definition finish (lookup : list Z -> lookup_result) (c : comps) : bool * comps :=
  match c_port c, c_proto c with
  | None, Some pw =>
    match lookup pw with
    | LServ p true => (true, mkComps (c_proto c) (c_user c) (c_passwd c) (c_host c) (Some (dec5 p)) (c_path c) (c_query c))
    | LServ p false => (false, c)
    | _ => (true, c)
    end
  | _, _ => (true, c)
  end.

Definition parse_pure (s : list Z) (lookup : list Z -> lookup_result) : bool * comps :=
  let '(proto, pstr) := stage1 s in
  let pstr := stage2 s pstr in
  let '(path, query, pend) := stage3 s pstr in
  let '(user, passwd, pstr) := stage4 s pstr pend in
  let '(host, port) := stage5 s pstr pend in
  finish lookup (mkComps proto user passwd host port path query).

(* ---- specification side: assembling a URL from components ---- *)
Definition opt_app (o : option (list Z)) (f : list Z -> list Z) : list Z :=
  match o with Some x => f x | None => [] end.

(* the accepted shape [proto:][//][user[:passwd]@]host[:port][/path][?query] *)
Definition render (c : comps) (slashes : bool) : list Z :=
  opt_app (c_proto c) (fun p => p ++ [ch_colon]) ++
  (if slashes then [ch_slash; ch_slash] else []) ++
  opt_app (c_user c) (fun u => u ++ opt_app (c_passwd c) (fun pw => ch_colon :: pw) ++ [ch_at]) ++
  opt_app (c_host c) (fun h => h ++ opt_app (c_port c) (fun po => ch_colon :: po)) ++
  opt_app (c_path c) (fun p => p) ++
  opt_app (c_query c) (fun q => ch_quest :: q).

(* spif_url_unparse: a port without a host gets the host "localhost"; "//" iff a host *)
Definition localhost : list Z := [108; 111; 99; 97; 108; 104; 111; 115; 116].
Definition canon (c : comps) : comps :=
  match c_port c, c_host c with
  | Some _, None => mkComps (c_proto c) (c_user c) (c_passwd c) (Some localhost) (c_port c) (c_path c) (c_query c)
  | _, _ => c
  end.
Definition unparse_text (c : comps) : list Z :=
  let c := canon c in
  opt_app (c_proto c) (fun p => p ++ [ch_colon]) ++
  (match c_host c with Some _ => [ch_slash; ch_slash] | None => [] end) ++
  opt_app (c_user c) (fun u => u ++ opt_app (c_passwd c) (fun pw => ch_colon :: pw) ++ [ch_at]) ++
  opt_app (c_host c) (fun h => h ++ opt_app (c_port c) (fun po => ch_colon :: po)) ++
  opt_app (c_path c) (fun p => p) ++
  opt_app (c_query c) (fun q => ch_quest :: q).

(* the port rule of the property: filled from the service database only when a protocol
   but no port was given *)
Definition fill_port (c : comps) (lookup : list Z -> lookup_result) : bool * comps := finish lookup c.
