(* C14 proofs, part 2: parsing the text rendered from a well-formed component tuple gives the
   components back (with the port rule), and the canonical text is a fixpoint. *)
From LV Require Import Base.Buf Strings.HelpersModel Strings.HelpersProofs Url.UrlModel Url.UrlProofs.
Local Open Scope Z_scope.

Definition notin (c : Z) (l : list Z) : Prop := Forall (fun x => x <> c) l.

Lemma notin_app c a b : notin c (a ++ b) <-> notin c a /\ notin c b.
Proof. apply Forall_app. Qed.
Lemma notin_cons c x l : notin c (x :: l) <-> x <> c /\ notin c l.
Proof. apply Forall_cons_iff. Qed.
Lemma notin_nil c : notin c [].
Proof. constructor. Qed.

(* ---------- searching in concatenations ---------- *)
Lemma find_go_skip c X Y n : notin c X -> find_go c (X ++ Y) n = find_go c Y (n + length X).
Proof.
  revert n. induction X as [|x X IH]; intros n H; cbn [app find_go length].
  - now rewrite Nat.add_0_r.
  - apply notin_cons in H as [Hx HX]. destruct (Z.eqb_spec x c); [contradiction|].
    rewrite IH by assumption. f_equal. lia.
Qed.

Lemma skipn_pre {A} (pre Y : list A) n : n = length pre -> skipn n (pre ++ Y) = Y.
Proof. intros ->. rewrite skipn_app, skipn_all, Nat.sub_diag. reflexivity. Qed.

Lemma find_hit c pre X Y n :
  n = length pre -> notin c X -> find_from c (pre ++ X ++ c :: Y) n = Some (n + length X)%nat.
Proof.
  intros Hn HX. unfold find_from. rewrite skipn_pre by assumption.
  rewrite find_go_skip by assumption. cbn [find_go]. now rewrite Z.eqb_refl.
Qed.

Lemma find_miss c pre X n : n = length pre -> notin c X -> find_from c (pre ++ X) n = None.
Proof.
  intros Hn HX. unfold find_from. rewrite skipn_pre by assumption.
  rewrite <- (app_nil_r X). rewrite find_go_skip by assumption. reflexivity.
Qed.

Lemma find_ge c pre X Y n p :
  n = length pre -> notin c X -> find_from c (pre ++ X ++ Y) n = Some p -> (n + length X <= p)%nat.
Proof.
  intros Hn HX H. unfold find_from in H. rewrite skipn_pre in H by assumption.
  rewrite find_go_skip in H by assumption. apply find_go_bounds in H. lia.
Qed.

Lemma sub_mid pre X Y n m : n = length pre -> m = (n + length X)%nat -> sub (pre ++ X ++ Y) n m = X.
Proof.
  intros Hn ->. unfold sub. rewrite skipn_pre by assumption.
  replace (n + length X - n)%nat with (length X) by lia.
  rewrite firstn_app, Nat.sub_diag, firstn_all. cbn [firstn]. now rewrite app_nil_r.
Qed.

Lemma nthz_pre pre R n k : n = length pre -> nthz (pre ++ R) (n + k) = nthz R k.
Proof. intros ->. unfold nthz. rewrite app_nth2 by lia. f_equal. lia. Qed.

Lemma nthz_pre0 pre R n : n = length pre -> nthz (pre ++ R) n = nthz R 0.
Proof. intros H. rewrite <- (nthz_pre pre R n 0 H). f_equal. lia. Qed.
Lemma nthz_pre1 pre R n : n = length pre -> nthz (pre ++ R) (S n) = nthz R 1.
Proof. intros H. rewrite <- (nthz_pre pre R n 1 H). f_equal. lia. Qed.

(* ---------- the pieces of a rendered URL ---------- *)
Definition tP (c : comps) := opt_app (c_proto c) (fun p => p ++ [ch_colon]).
Definition tSL (b : bool) := if b then [ch_slash; ch_slash] else [].
Definition tA (c : comps) := opt_app (c_user c) (fun u => u ++ opt_app (c_passwd c) (fun pw => ch_colon :: pw) ++ [ch_at]).
Definition tH (c : comps) := opt_app (c_host c) (fun h => h ++ opt_app (c_port c) (fun po => ch_colon :: po)).
Definition tPA (c : comps) := opt_app (c_path c) (fun p => p).
Definition tQ (c : comps) := opt_app (c_query c) (fun q => ch_quest :: q).

Lemma render_pieces c b : render c b = tP c ++ tSL b ++ tA c ++ tH c ++ tPA c ++ tQ c.
Proof. reflexivity. Qed.

(* "the text up to the first ':' is not purely alphanumeric" (or there is no ':') *)
Definition no_false_proto (s : list Z) : bool :=
  match find_from ch_colon s 0 with
  | Some pe => negb (forallb isalnum (sub s 0 pe))
  | None => true
  end.
Definition dslash_free (r : list Z) : bool :=
  match r with a :: b :: _ => negb ((a =? ch_slash) && (b =? ch_slash)) | _ => true end.

(* well-formed component tuples: the charset conditions the accepted shape needs *)
Record wf (c : comps) (slashes : bool) : Prop := {
  wf_proto : forall p, c_proto c = Some p -> forallb isalnum p = true;
  wf_user : forall u, c_user c = Some u -> notin ch_colon u /\ notin ch_at u /\ notin ch_slash u /\ notin ch_quest u;
  wf_passwd : forall pw, c_passwd c = Some pw -> c_user c <> None /\ notin ch_at pw /\ notin ch_slash pw /\ notin ch_quest pw;
  wf_host : forall h, c_host c = Some h -> h <> [] /\ notin ch_colon h /\ notin ch_at h /\ notin ch_slash h /\ notin ch_quest h;
  wf_port : forall po, c_port c = Some po -> c_host c <> None /\ notin ch_at po /\ notin ch_slash po /\ notin ch_quest po;
  wf_path : forall pa, c_path c = Some pa -> (exists t, pa = ch_slash :: t) /\ notin ch_quest pa;
  wf_query : forall q, c_query c = Some q -> c_path c = None -> notin ch_slash q;
  (* without "//", what follows the protocol must not itself begin with "//" *)
  wf_dslash : slashes = false -> dslash_free (tA c ++ tH c ++ tPA c ++ tQ c) = true;
  (* without a protocol, the text before the first ':' must not look like one *)
  wf_noproto : c_proto c = None -> no_false_proto (render c slashes) = true
}.

Ltac lens := repeat (rewrite app_length in * ); cbn [length] in *.
Ltac la := rewrite <- ?app_assoc; cbn [app]; rewrite <- ?app_assoc; cbn [app]; reflexivity.

(* ---------- stage lemmas ---------- *)
Lemma isalnum_not_colon p : forallb isalnum p = true -> notin ch_colon p.
Proof.
  intros H. apply Forall_forall. intros x Hx E. subst x.
  rewrite forallb_forall in H. specialize (H _ Hx). vm_compute in H. discriminate.
Qed.

Lemma stage1_render c rest :
  (forall p, c_proto c = Some p -> forallb isalnum p = true) ->
  (c_proto c = None -> no_false_proto (tP c ++ rest) = true) ->
  stage1 (tP c ++ rest) = (c_proto c, length (tP c)).
Proof.
  intros Hp Hn. unfold stage1, tP in *. destruct (c_proto c) as [p|]; cbn [opt_app] in *.
  - specialize (Hp p eq_refl). rewrite <- app_assoc. cbn [app].
    pose proof (find_hit ch_colon [] p rest 0 eq_refl (isalnum_not_colon p Hp)) as F.
    cbn [app Nat.add] in F. rewrite F.
    pose proof (sub_mid [] p (ch_colon :: rest) 0 (length p) eq_refl eq_refl) as G.
    cbn [app] in G. rewrite G. rewrite Hp. rewrite app_length. cbn [length]. f_equal. lia.
  - specialize (Hn eq_refl). unfold no_false_proto in Hn. cbn [app] in *.
    destruct (find_from ch_colon rest 0); [|reflexivity].
    destruct (forallb isalnum (sub rest 0 n)); [discriminate|reflexivity].
Qed.

Lemma stage2_render pre b R n :
  n = length pre -> (b = false -> dslash_free R = true) ->
  stage2 (pre ++ tSL b ++ R) n = (n + length (tSL b))%nat.
Proof.
  intros Hn Hd. unfold stage2, tSL. destruct b; cbn [app length].
  - rewrite nthz_pre0, nthz_pre1 by assumption.
    unfold nthz. cbn [nth]. rewrite Z.eqb_refl. cbn [andb]. lia.
  - specialize (Hd eq_refl). rewrite nthz_pre0, nthz_pre1 by assumption.
    unfold nthz, dslash_free in *. destruct R as [|a [|b' R]]; cbn [nth] in *.
    + cbn. lia.
    + destruct (a =? ch_slash); cbn; lia.
    + destruct ((a =? ch_slash) && (b' =? ch_slash)); [discriminate|lia].
Qed.

Lemma stage3_render pre AH (pa qu : option (list Z)) n :
  n = length pre -> notin ch_slash AH -> notin ch_quest AH ->
  (forall p, pa = Some p -> (exists t, p = ch_slash :: t) /\ notin ch_quest p) ->
  (forall q, qu = Some q -> pa = None -> notin ch_slash q) ->
  stage3 (pre ++ AH ++ opt_app pa (fun p => p) ++ opt_app qu (fun q => ch_quest :: q)) n =
  (pa, qu, (n + length AH)%nat).
Proof.
  intros Hn Hs Hq Hpa Hqu. unfold stage3.
  destruct pa as [p|]; cbn [opt_app].
  - destruct (Hpa p eq_refl) as [[t ->] Hpq].
    cbn [app]. rewrite (find_hit ch_slash pre AH _ n) by assumption.
    set (pe := (n + length AH)%nat).
    assert (Hpe : pe = length (pre ++ AH)) by (subst pe; rewrite app_length; lia).
    destruct qu as [q|]; cbn [opt_app].
    + replace (pre ++ AH ++ ch_slash :: t ++ ch_quest :: q)
        with ((pre ++ AH) ++ (ch_slash :: t) ++ ch_quest :: q) by la.
      rewrite (find_hit ch_quest (pre ++ AH) (ch_slash :: t) q pe) by assumption.
      rewrite (sub_mid (pre ++ AH) (ch_slash :: t) (ch_quest :: q) pe) by (assumption || reflexivity).
      replace ((pre ++ AH) ++ (ch_slash :: t) ++ ch_quest :: q)
        with (((pre ++ AH) ++ (ch_slash :: t) ++ [ch_quest]) ++ q)
        by la.
      rewrite skipn_pre by (rewrite !app_length; cbn [length]; lia). reflexivity.
    + rewrite app_nil_r.
      replace (pre ++ AH ++ ch_slash :: t) with ((pre ++ AH) ++ (ch_slash :: t)) by la.
      rewrite (find_miss ch_quest (pre ++ AH) (ch_slash :: t) pe) by assumption.
      rewrite skipn_pre by assumption. reflexivity.
  - destruct qu as [q|]; cbn [opt_app app].
    + specialize (Hqu q eq_refl eq_refl).
      rewrite (find_miss ch_slash pre (AH ++ ch_quest :: q) n); [|assumption|].
      2:{ apply notin_app. split; [assumption|]. apply notin_cons. split; [unfold ch_quest, ch_slash; lia|assumption]. }
      rewrite (find_hit ch_quest pre AH q n) by assumption.
      replace (pre ++ AH ++ ch_quest :: q) with ((pre ++ AH ++ [ch_quest]) ++ q) by la.
      rewrite skipn_pre by (rewrite !app_length; cbn [length]; lia). reflexivity.
    + rewrite app_nil_r. rewrite (find_miss ch_slash pre AH n) by assumption.
      rewrite (find_miss ch_quest pre AH n) by assumption.
      rewrite app_length. subst n. reflexivity.
Qed.

Lemma stage4_render pre (user passwd : option (list Z)) Hrest PQ n pend :
  n = length pre ->
  (forall u, user = Some u -> notin ch_colon u /\ notin ch_at u) ->
  (forall pw, passwd = Some pw -> user <> None /\ notin ch_at pw) ->
  notin ch_at Hrest ->
  let A := opt_app user (fun u => u ++ opt_app passwd (fun pw => ch_colon :: pw) ++ [ch_at]) in
  pend = (n + length A + length Hrest)%nat ->
  stage4 (pre ++ A ++ Hrest ++ PQ) n pend = (user, passwd, (n + length A)%nat).
Proof.
  intros Hn Hu Hpw Hh A Hpend. unfold stage4. subst A.
  destruct user as [u|]; cbn [opt_app] in *.
  - destruct (Hu u eq_refl) as [Huc Hua].
    destruct passwd as [pw|]; cbn [opt_app] in *.
    + destruct (Hpw pw eq_refl) as [_ Hpa].
      replace (pre ++ (u ++ (ch_colon :: pw) ++ [ch_at]) ++ Hrest ++ PQ)
        with (pre ++ (u ++ ch_colon :: pw) ++ ch_at :: Hrest ++ PQ)
        by la.
      rewrite (find_hit ch_at pre (u ++ ch_colon :: pw) _ n); [|assumption|].
      2:{ apply notin_app. split; [assumption|]. apply notin_cons. split; [unfold ch_colon, ch_at; lia|assumption]. }
      lens.
      destruct (Nat.ltb_spec (n + (length u + S (length pw))) pend); [|lia].
      rewrite <- app_assoc. cbn [app].
      rewrite (find_hit ch_colon pre u _ n) by assumption.
      destruct (Nat.ltb_spec (n + length u) (n + (length u + S (length pw)))); [|lia].
      rewrite (sub_mid pre u _ n) by (assumption || reflexivity).
      replace (pre ++ u ++ ch_colon :: pw ++ ch_at :: Hrest ++ PQ)
        with ((pre ++ u ++ [ch_colon]) ++ pw ++ ch_at :: Hrest ++ PQ)
        by la.
      rewrite (sub_mid (pre ++ u ++ [ch_colon]) pw _ (S (n + length u)))
        by (rewrite ?app_length; cbn [length]; lia).
      f_equal. lia.
    + cbn [app]. rewrite <- !app_assoc. cbn [app].
      rewrite (find_hit ch_at pre u _ n) by assumption.
      lens.
      destruct (Nat.ltb_spec (n + length u) pend); [|lia].
      rewrite (sub_mid pre u _ n) by (assumption || reflexivity).
      destruct (find_from ch_colon (pre ++ u ++ ch_at :: Hrest ++ PQ) n) as [t|] eqn:E.
      * replace (pre ++ u ++ ch_at :: Hrest ++ PQ) with (pre ++ (u ++ [ch_at]) ++ Hrest ++ PQ) in E
          by la.
        apply find_ge in E; [|assumption|].
        2:{ apply notin_app. split; [assumption|]. apply notin_cons. split; [unfold ch_colon, ch_at; lia|apply notin_nil]. }
        lens.
        destruct (Nat.ltb_spec t (n + length u)); [lia|]. f_equal. lia.
      * f_equal. lia.
  - destruct passwd as [pw|]; [destruct (Hpw pw eq_refl) as [X _]; contradiction|].
    cbn [app length] in *.
    destruct (find_from ch_at (pre ++ Hrest ++ PQ) n) as [pt|] eqn:E.
    + apply find_ge in E; [|assumption|assumption].
      destruct (Nat.ltb_spec pt pend); [lia|]. f_equal. lia.
    + f_equal. lia.
Qed.

Lemma stage5_render pre (host port : option (list Z)) PQ n pend :
  n = length pre ->
  (forall h, host = Some h -> h <> [] /\ notin ch_colon h) ->
  (forall po, port = Some po -> host <> None) ->
  let H := opt_app host (fun h => h ++ opt_app port (fun po => ch_colon :: po)) in
  pend = (n + length H)%nat ->
  stage5 (pre ++ H ++ PQ) n pend = (host, port).
Proof.
  intros Hn Hh Hpo H Hpend. unfold stage5. subst H.
  destruct host as [h|]; cbn [opt_app] in *.
  - destruct (Hh h eq_refl) as [Hne Hc].
    destruct port as [po|]; cbn [opt_app] in *.
    + rewrite <- !app_assoc. cbn [app].
      rewrite (find_hit ch_colon pre h _ n) by assumption.
      lens.
      destruct (Nat.ltb_spec (n + length h) pend); [|lia].
      rewrite (sub_mid pre h _ n) by (assumption || reflexivity).
      replace (pre ++ h ++ ch_colon :: po ++ PQ) with ((pre ++ h ++ [ch_colon]) ++ po ++ PQ)
        by la.
      rewrite (sub_mid (pre ++ h ++ [ch_colon]) po PQ (S (n + length h)))
        by (rewrite ?app_length; cbn [length]; lia).
      reflexivity.
    + rewrite app_nil_r in *.
      assert (length h <> 0)%nat by (destruct h; [congruence|simpl; lia]).
      destruct (find_from ch_colon (pre ++ h ++ PQ) n) as [pt|] eqn:E.
      * apply find_ge in E; [|assumption|assumption].
        destruct (Nat.ltb_spec pt pend); [lia|]. destruct (Nat.eqb_spec n pend); [lia|].
        rewrite (sub_mid pre h PQ n) by (assumption || lia). reflexivity.
      * destruct (Nat.eqb_spec n pend); [lia|].
        rewrite (sub_mid pre h PQ n) by (assumption || lia). reflexivity.
  - destruct port as [po|]; [specialize (Hpo po eq_refl); contradiction|].
    cbn [app length] in *. rewrite Nat.add_0_r in Hpend. subst pend.
    rewrite Nat.eqb_refl.
    destruct (find_from ch_colon (pre ++ PQ) n) as [pt|] eqn:E; [|reflexivity].
    apply find_from_bounds in E; [|rewrite app_length; lia].
    destruct (Nat.ltb_spec pt n); [lia|reflexivity].
Qed.

(* ---------- charset facts about the pieces ---------- *)
Lemma tA_notin c b x :
  wf c b -> x <> ch_colon -> x <> ch_at -> (x = ch_slash \/ x = ch_quest) -> notin x (tA c).
Proof.
  intros W Hc Ha Hx. unfold tA. destruct (c_user c) as [u|] eqn:Eu; cbn [opt_app]; [|apply notin_nil].
  destruct (wf_user c b W u Eu) as (U1 & U2 & U3 & U4).
  apply notin_app. split; [destruct Hx; subst; assumption|].
  apply notin_app. split.
  - destruct (c_passwd c) as [pw|] eqn:Ep; cbn [opt_app]; [|apply notin_nil].
    destruct (wf_passwd c b W pw Ep) as (_ & P2 & P3 & P4).
    apply notin_cons. split; [congruence|destruct Hx; subst; assumption].
  - apply notin_cons. split; [congruence|apply notin_nil].
Qed.

Lemma tH_notin c b x :
  wf c b -> x <> ch_colon -> (x = ch_slash \/ x = ch_quest \/ x = ch_at) -> notin x (tH c).
Proof.
  intros W Hc Hx. unfold tH. destruct (c_host c) as [h|] eqn:Eh; cbn [opt_app]; [|apply notin_nil].
  destruct (wf_host c b W h Eh) as (_ & H1 & H2 & H3 & H4).
  apply notin_app. split; [destruct Hx as [->|[->| ->]]; assumption|].
  destruct (c_port c) as [po|] eqn:Ep; cbn [opt_app]; [|apply notin_nil].
  destruct (wf_port c b W po Ep) as (_ & P2 & P3 & P4).
  apply notin_cons. split; [congruence|destruct Hx as [->|[->| ->]]; assumption].
Qed.

(* The round trip: for every well-formed component tuple, with or without "//", and every
   lookup answer, parsing the rendered text returns exactly the components, the port filled
   from the service database exactly when a protocol but no port was given. *)
Theorem parse_render c b lookup :
  wf c b -> parse_pure (render c b) lookup = fill_port c lookup.
Proof.
  intros W. unfold parse_pure, fill_port. rewrite render_pieces.
  rewrite (stage1_render c); [|apply (wf_proto c b W)|intros E; rewrite <- render_pieces; apply (wf_noproto c b W E)].
  set (n1 := length (tP c)).
  rewrite (stage2_render (tP c) b (tA c ++ tH c ++ tPA c ++ tQ c) n1); [|reflexivity|apply (wf_dslash c b W)].
  set (n2 := (n1 + length (tSL b))%nat).
  assert (Hn2 : n2 = length (tP c ++ tSL b)) by (subst n2 n1; now rewrite app_length).
  assert (S47 : ch_slash <> ch_colon /\ ch_slash <> ch_at) by (unfold ch_slash, ch_colon, ch_at; lia).
  assert (S63 : ch_quest <> ch_colon /\ ch_quest <> ch_at) by (unfold ch_quest, ch_colon, ch_at; lia).
  assert (S64 : ch_at <> ch_colon) by (unfold ch_colon, ch_at; lia).
  (* stage 3 *)
  replace (tP c ++ tSL b ++ tA c ++ tH c ++ tPA c ++ tQ c)
    with ((tP c ++ tSL b) ++ (tA c ++ tH c) ++ opt_app (c_path c) (fun p => p) ++ opt_app (c_query c) (fun q => ch_quest :: q))
    by (unfold tPA, tQ; la).
  rewrite (stage3_render (tP c ++ tSL b) (tA c ++ tH c) (c_path c) (c_query c) n2); try assumption.
  2:{ apply notin_app. split; [apply (tA_notin c b); tauto|apply (tH_notin c b); tauto]. }
  2:{ apply notin_app. split; [apply (tA_notin c b); tauto|apply (tH_notin c b); tauto]. }
  2:{ apply (wf_path c b W). }
  2:{ apply (wf_query c b W). }
  (* stage 4 *)
  replace ((tP c ++ tSL b) ++ (tA c ++ tH c) ++ opt_app (c_path c) (fun p => p) ++ opt_app (c_query c) (fun q => ch_quest :: q))
    with ((tP c ++ tSL b) ++ tA c ++ tH c ++ (tPA c ++ tQ c)) by (unfold tPA, tQ; la).
  unfold tA at 1.
  rewrite (stage4_render (tP c ++ tSL b) (c_user c) (c_passwd c) (tH c) (tPA c ++ tQ c) n2); try assumption.
  2:{ intros u Eu. destruct (wf_user c b W u Eu) as (U1 & U2 & _). tauto. }
  2:{ intros pw Ep. destruct (wf_passwd c b W pw Ep) as (P1 & P2 & _). tauto. }
  2:{ apply (tH_notin c b); tauto. }
  2:{ fold (tA c). rewrite app_length. lia. }
  fold (tA c).
  (* stage 5 *)
  replace ((tP c ++ tSL b) ++ tA c ++ tH c ++ tPA c ++ tQ c)
    with (((tP c ++ tSL b) ++ tA c) ++ tH c ++ (tPA c ++ tQ c)) by la.
  unfold tH at 1.
  rewrite (stage5_render ((tP c ++ tSL b) ++ tA c) (c_host c) (c_port c) (tPA c ++ tQ c) (n2 + length (tA c))).
  - destruct c; reflexivity.
  - rewrite app_length. lia.
  - intros h Eh. destruct (wf_host c b W h Eh) as (H0 & H1 & _). tauto.
  - intros po Ep. destruct (wf_port c b W po Ep) as (P1 & _). exact P1.
  - fold (tH c). rewrite app_length. lia.
Qed.

(* ---------- tie to the checked scanner ---------- *)
Corollary url_model_round_trip c b lookup :
  wf c b -> Forall nz_byte (render c b) ->
  url_parse_m (cstr (render c b) []) lookup = Ok (fill_port c lookup).
Proof. intros W Hnz. rewrite url_total by assumption. now rewrite parse_render. Qed.

(* ---------- canonical text ---------- *)
Lemma strip0_Forall (P : Z -> Prop) l : P 0 -> Forall P l -> Forall P (strip0 l).
Proof.
  intros P0. induction l as [|d t IH]; intros H; cbn [strip0]; [repeat constructor; exact P0|].
  destruct t as [|d' t']; [exact H|]. destruct (d =? 0); [|exact H].
  apply IH. now inversion H.
Qed.

Lemma dec5_digits n : Forall (fun x => 48 <= x <= 57) (dec5 n).
Proof.
  unfold dec5, digit. apply Forall_map.
  apply (strip0_Forall (fun d => 48 <= 48 + d <= 57)); [lia|].
  repeat (apply Forall_cons;
          [match goal with |- _ <= 48 + ?x mod 10 <= _ => pose proof (Z.mod_pos_bound x 10 ltac:(lia)); lia end|]).
  apply Forall_nil.
Qed.

Lemma digits_notin x n : (x < 48 \/ 57 < x) -> notin x (dec5 n).
Proof.
  intros Hx. pose proof (dec5_digits n) as D. unfold notin.
  eapply Forall_impl; [|exact D]. cbn. intros a Ha. lia.
Qed.

Lemma no_false_proto_slash rest : no_false_proto (ch_slash :: rest) = true.
Proof.
  unfold no_false_proto. destruct (find_from ch_colon (ch_slash :: rest) 0) as [pe|] eqn:E; [|reflexivity].
  unfold find_from in E. cbn [skipn find_go] in E.
  change (ch_slash =? ch_colon) with false in E.
  apply find_go_bounds in E. unfold sub. replace (pe - 0)%nat with (S (pe - 1)) by lia.
  cbn [skipn firstn forallb]. reflexivity.
Qed.

Lemma wf_true c b : wf c b -> wf c true.
Proof.
  intros W. constructor; try apply W.
  - discriminate.
  - intros E. rewrite render_pieces. unfold tP. rewrite E. cbn [opt_app tSL app].
    apply no_false_proto_slash.
Qed.

Lemma fill_port_wf c lookup : wf c true -> c_host c <> None -> wf (snd (fill_port c lookup)) true.
Proof.
  intros W Hh. unfold fill_port, finish.
  destruct (c_port c) as [po|] eqn:Ep; [exact W|].
  destruct (c_proto c) as [pw|] eqn:Epw; [|exact W].
  destruct (lookup pw) as [|p ok|]; try exact W. destruct ok; [|exact W].
  cbn [snd].
  constructor; cbn [c_proto c_user c_passwd c_host c_port c_path c_query].
  - intros p0 [= <-]. apply (wf_proto c true W). exact Epw.
  - apply (wf_user c true W).
  - apply (wf_passwd c true W).
  - apply (wf_host c true W).
  - intros po [= <-]. split; [exact Hh|].
    repeat split; apply digits_notin; unfold ch_at, ch_slash, ch_quest; lia.
  - apply (wf_path c true W).
  - apply (wf_query c true W).
  - discriminate.
  - discriminate.
Qed.

Lemma unparse_is_render c :
  c_host c <> None -> unparse_text c = render c true.
Proof.
  intros Hh. unfold unparse_text, canon, render.
  destruct (c_host c) as [h|] eqn:Eh; [|congruence].
  destruct (c_port c) eqn:Ep; cbn [c_proto c_user c_passwd c_host c_port c_path c_query]; rewrite ?Eh, ?Ep; reflexivity.
Qed.

Lemma fill_port_host c lookup : c_host (snd (fill_port c lookup)) = c_host c.
Proof.
  unfold fill_port, finish. destruct (c_port c); [reflexivity|]. destruct (c_proto c) as [pw|]; [|reflexivity].
  destruct (lookup pw) as [|p ok|]; try reflexivity. destruct ok; reflexivity.
Qed.

Lemma fill_port_idem c lookup : snd (fill_port (snd (fill_port c lookup)) lookup) = snd (fill_port c lookup).
Proof.
  unfold fill_port, finish. destruct (c_port c) eqn:Ep; cbn [snd]; [now rewrite Ep|].
  destruct (c_proto c) as [pw|] eqn:Epw; cbn [snd]; [|now rewrite Ep, Epw].
  destruct (lookup pw) as [|p ok|] eqn:El; cbn [snd]; try (now rewrite Ep, Epw, El).
  destruct ok; cbn [snd c_port c_proto]; [reflexivity|now rewrite Ep, Epw, El].
Qed.

(* unparse rebuilds the canonical text, and parsing that text again yields the same
   components: for every URL of the accepted shape that has a host *)
Theorem url_canonical_fixpoint c b lookup :
  wf c b -> c_host c <> None ->
  let c1 := snd (parse_pure (render c b) lookup) in
  snd (parse_pure (unparse_text c1) lookup) = c1.
Proof.
  intros W Hh c1. subst c1. rewrite parse_render by assumption.
  assert (W1 : wf (snd (fill_port c lookup)) true) by (apply fill_port_wf; [eapply wf_true; eassumption|assumption]).
  rewrite unparse_is_render by (rewrite fill_port_host; assumption).
  rewrite parse_render by assumption. apply fill_port_idem.
Qed.

(* bare paths (no host, hence no port): the canonical text is the rendering without "//" *)
Theorem url_bare_fixpoint c lookup :
  wf c false -> c_host c = None ->
  let c1 := snd (parse_pure (render c false) lookup) in
  snd (parse_pure (unparse_text c) lookup) = c1.
Proof.
  intros W Hh c1. subst c1.
  assert (Hp : c_port c = None).
  { destruct (c_port c) as [po|] eqn:Ep; [|reflexivity]. destruct (wf_port c false W po Ep) as [X _]. contradiction. }
  assert (E : unparse_text c = render c false).
  { unfold unparse_text, canon, render. rewrite Hp, Hh. reflexivity. }
  now rewrite E.
Qed.
