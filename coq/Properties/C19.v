(* C19 - local sockets carry bytes intact under short I/O and never leak descriptors.
   This file holds only statements, each closed by `exact`, and Print Assumptions.
   Partial in the sense of DESIGN.md: the kernel is an oracle (schedules and outcome bits are the
   quantified input), the FIFO behaviour of AF_UNIX stream sockets is the definition fifo_sched. *)
From LV Require Import Base.Buf Gen.Constants Gen.SockGen Sock.SockModel Sock.SockProofs Sock.LifeProofs.
Local Open Scope Z_scope.

(* receive loop: every schedule - any interleaving of EINTR and short reads, whatever ends it - gives
   exactly the chunks delivered before the first terminal outcome, NUL-terminated; never a fault *)
Theorem C19_recv_concat : forall inc sched, 0 < inc ->
  init_from_fd inc sched =
  Ok (mk_strv (bytes (delivered sched) ++ [Some 0]) (zlen (delivered sched)) (zlen (delivered sched) + 1)).
Proof. exact recv_concat. Qed.
Print Assumptions C19_recv_concat.

Theorem C19_recv_text : forall inc sched, 0 < inc ->
  exists r, init_from_fd inc sched = Ok r /\ sv_text r = Ok (delivered sched).
Proof. exact recv_text. Qed.
Print Assumptions C19_recv_text.

(* send: every write schedule; the bytes the kernel accepted are a prefix of the payload, TRUE only
   if all of it was accepted; a descriptor is forgotten unclosed only if it was not open *)
Theorem C19_send_all_or_false : forall fdopen data ws, Forall nz_byte data ->
  exists r, socket_send fdopen data ws = Ok r /\
    is_prefix (so_acc r) data /\
    (so_ok r = true -> so_acc r = data) /\
    (so_ok r = true -> so_eff r = FdKeep) /\
    (so_eff r = FdForgotten -> fdopen = false) /\
    (so_eff r = FdClosed -> fdopen = true).
Proof. exact send_all_or_false. Qed.
Print Assumptions C19_send_all_or_false.

(* ... and with an open descriptor and no error outcome in the schedule (short counts, EINTR and
   EAGAIN in any number and order) the send succeeds with the whole payload *)
Theorem C19_send_complete : forall data ws, data <> [] -> no_werr ws ->
  exists r, socket_send true data ws = Ok r /\ so_ok r = true /\ so_acc r = data /\ so_eff r = FdKeep.
Proof. exact send_complete. Qed.
Print Assumptions C19_send_complete.

(* the FIFO channel hands the reader exactly the queued bytes, however it is shaped *)
Theorem C19_fifo_delivered : forall shape q term,
  term = REagain \/ term = REof -> delivered (fifo_sched q shape term) = q.
Proof. exact fifo_delivered. Qed.
Print Assumptions C19_fifo_delivered.

(* pair: received = accepted, and = sent when send returned TRUE, for every pair of schedules *)
Theorem C19_pair_delivers : forall inc payload ws shape term,
  0 < inc -> Forall nz_byte payload -> term = REagain \/ term = REof ->
  exists so r, pair_xfer inc payload ws shape term = Ok (so, r) /\
    sv_text r = Ok (so_acc so) /\
    is_prefix (so_acc so) payload /\
    (so_ok so = true -> sv_text r = Ok payload).
Proof. exact pair_delivers. Qed.
Print Assumptions C19_pair_delivers.

(* descriptors: for every history (failed opens, accepts, dups, interrupted and failing closes, failing
   sends included), every descriptor choice of the kernel that is fresh, every initial open set *)
Theorem C19_fds_balanced : forall pick, fresh_pick pick -> forall inc init ops closes,
  let w := fst (run pick inc (mk_world init []) ops) in
  (forall x, In x (w_open w) <-> In x init \/ owns (w_objs w) x) /\
  (forall i j s t, get (w_objs w) i = Some s -> get (w_objs w) j = Some t ->
                   0 <= s_fd s -> s_fd s = s_fd t -> i = j) /\
  (forall i s, get (w_objs w) i = Some s -> 0 <= s_fd s -> In (s_fd s) (w_open w)) /\
  (forall x, In x (w_open (cleanup pick inc w closes)) <-> In x init).
Proof. exact fds_balanced. Qed.
Print Assumptions C19_fds_balanced.

(* the descriptor numbers the correspondence check really runs on are choices the theorem above covers:
   the lowest free number from any base (0 after the standard streams were closed, 1023/1024/1025 when
   everything below is taken) is a fresh pick *)
Theorem C19_pick_low_fresh : forall base, fresh_pick (pick_low base).
Proof. exact pick_low_fresh. Qed.
Print Assumptions C19_pick_low_fresh.

Theorem C19_close_leaves_minus1 : forall s opn n k, 0 <= s_fd s ->
  match sock_close s opn n k with (_, s', opn') => s_fd s' = -1 /\ ~ In (s_fd s) opn' end.
Proof. exact close_leaves_minus1. Qed.
Print Assumptions C19_close_leaves_minus1.

(* the constants the model takes from the source tree are the ones the proofs were made for *)
Theorem C19_constants : 0 < send_chunk /\ 0 < str_buff_inc.
Proof. split; reflexivity. Qed.
Print Assumptions C19_constants.

(* non-vacuity: the hypotheses are met and the model runs *)
Example C19_ex_pick : fresh_pick pick_max.
Proof. exact pick_max_fresh. Qed.

Example C19_ex_recv :
  (r <- init_from_fd 4 [RData [65; 66; 67; 68; 69; 70]; REintr; RData [71]; REagain; RData [72]] ;; sv_text r)
  = Ok [65; 66; 67; 68; 69; 70; 71].
Proof. vm_compute. reflexivity. Qed.

Example C19_ex_send :
  exists r, socket_send true [65; 66; 67; 68; 69] [Wrote 2; WEintr; WEagain; Wrote 1; WErr EFBIG; Wrote 1] = Ok r /\
            so_ok r = true /\ so_acc r = [65; 66; 67; 68; 69] /\ so_sel r = [(0, 10000); (0, 20000)].
Proof. eexists. vm_compute. repeat split. Qed.

Example C19_ex_send_fail :
  exists r, socket_send true [65; 66; 67] [Wrote 1; WErr EINVAL] = Ok r /\
            so_ok r = false /\ so_acc r = [65] /\ so_eff r = FdClosed.
Proof. eexists. vm_compute. repeat split. Qed.

Example C19_ex_history :
  let ops := [ONew true false; ONew false true; OOpen 0 true true true true; OOpen 1 true true false true;
              OOpen 1 true true true true; OAccept 0 1 false true; OAccept 0 2 true true; ODup 2 true;
              OSend 1 [65; 66] [WErr EPIPE]; OClose 0 2 false] in
  let w := fst (run pick_max 4096 (mk_world [0; 1; 2] []) ops) in
  w_open w = [6; 5; 0; 1; 2] /\ dangling w = [] /\
  w_open (cleanup pick_max 4096 w (fun _ => (1%nat, false))) = [0; 1; 2].
Proof. vm_compute. repeat split. Qed.

(* the same with the numbers a process without standard streams is handed: the listener gets descriptor
   0, the client 1, the accepted socket 2 (its temporary duplicate 3 is closed again), and deleting
   everything gives all of them back - 0 included *)
Example C19_ex_history_fd0 :
  let ops := [ONew true false; ONew false true; OOpen 0 true true true true; OOpen 1 true true true true;
              OAccept 0 0 true true; ODup 2 true; OClose 0 0 true; ODup 1 true] in
  let w := fst (run (pick_low 0) 4096 (mk_world [] []) ops) in
  map (fun o => match o with Some s => s_fd s | None => -2 end) (w_objs w) = [-1; 1; 2; 3; 0] /\
  dangling w = [] /\
  w_open (cleanup (pick_low 0) 4096 w (fun _ => (0%nat, true))) = [].
Proof. vm_compute. repeat split. Qed.

Example C19_ex_pick_1024 : pick_low 1024 [1025; 1024; 7] = 1026 /\ pick_low 0 [3; 1; 0] = 2.
Proof. vm_compute. split; reflexivity. Qed.
