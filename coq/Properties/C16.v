(* C16 - NULL-argument calls fail soft: documented failure value, no effect, no crash.
   This file holds only statements, each closed by `exact`, and Print Assumptions.

   [table], [named_cells], [guard_sems], [exempt] are regenerated from the source tree on every run
   (Gen/NullGuardTable.v); [cells] = named_cells + the cells reached through a delegation; the finite
   vm_compute runs over [table] ([table_size] functions) and [cells]; the quantification over the runtime
   level l : nat is discharged by the soundness theorems of Guard/GuardProofs.v, not by enumeration. *)
From LV Require Import Guard.GuardModel Guard.GuardProofs Gen.NullGuardTable Guard.GuardTable.
Local Open Scope fn_scope.

(* the translator read every anchor, every class table and every function of the seventeen files *)
Theorem C16_source_shape : table_errors = [] /\ unparsed table = [].
Proof. exact shape_checked. Qed.
Print Assumptions C16_source_shape.

(* the size of the finite domain the vm_compute ran over *)
Theorem C16_table_size : length table = table_size /\ length named_cells = named_cells_size.
Proof. exact sizes_checked. Qed.
Print Assumptions C16_table_size.

(* every listed cell names a function of the table whose prelude was read *)
Theorem C16_cells_resolve : forall c,
  In c cells -> exempted exempt c = false ->
  exists e, find_entry (c_fn c) table = Some e /\ e_parsed e = true.
Proof. exact cells_resolve. Qed.
Print Assumptions C16_cells_resolve.

(* null_fail_soft.  For every table entry e and every guarded pointer parameter p (a cell whose guard hands
   back a constant), with p NULL: at runtime level 0 the call returns the failure value of e's return type
   with no allocating call, no dereference and no use of p before it; at EVERY level l it does that or ends
   on the fatal path (again with nothing allocated first); it never dereferences the NULL parameter and never
   carries on into the function body with it. *)
Theorem C16_null_fail_soft : forall c e,
  In c cells -> exempted exempt c = false ->
  find_entry (c_fn c) table = Some e ->
  class_of table e (c_param c) = FailSoft ->
  forall l : nat,
    let r := eval guard_sems table l e (c_param c) in
    (l = 0 -> fails_soft e (c_param c) r) /\
    (fails_soft e (c_param c) r \/ fatal_path r) /\
    no_crash_no_carry r.
Proof. exact null_fail_soft. Qed.
Print Assumptions C16_null_fail_soft.

(* cells whose guard hands back a call (spif_str_init_from_ptr(self, NULL) = spif_str_init(self)) or whose
   function deals with the NULL object in a plain `if` block (the show methods): at every level the call
   returns or ends on the fatal path; it never dereferences NULL and never carries on with it *)
Theorem C16_null_alternative_safe : forall c e,
  In c cells -> exempted exempt c = false ->
  find_entry (c_fn c) table = Some e ->
  class_of table e (c_param c) <> FailSoft ->
  forall l : nat, no_crash_no_carry (eval guard_sems table l e (c_param c)).
Proof. exact null_alternative_safe. Qed.
Print Assumptions C16_null_alternative_safe.

(* slots_guard_self.  Every function installed in a class table guards its object argument or delegates it
   unchanged to one that does - before any dereference or use of it - and therefore, at every level, a call
   through the slot with a NULL object neither faults nor carries on with it. *)
Theorem C16_slots_guard_self : forall e s,
  In e table -> is_method e = true -> e_self e = Some s ->
  exempted exempt (e_name e, s) = false ->
  guards table e s = true /\
  forall l : nat, no_crash_no_carry (eval guard_sems table l e s).
Proof. exact slots_guard_self. Qed.
Print Assumptions C16_slots_guard_self.

(* the soundness lemma itself, for ANY table, ANY translation of the guard macros and every level *)
Theorem C16_checker_sound : forall M tbl c e,
  check_cell M tbl c = true ->
  find_entry (c_fn c) tbl = Some e ->
  class_of tbl e (c_param c) = FailSoft ->
  forall l : nat,
    let r := eval M tbl l e (c_param c) in
    (l = 0 -> fails_soft e (c_param c) r) /\
    (fails_soft e (c_param c) r \/ fatal_path r) /\
    no_crash_no_carry r.
Proof. exact check_cell_fail_soft. Qed.
Print Assumptions C16_checker_sound.

(* non-vacuity: the hypotheses are satisfiable and the three kinds of guard behave as the macros say *)
Example C16_ex_cell : existsb (cell_eqb ("spif_str_append", 0)) cells = true /\
                      existsb (cell_eqb ("spif_str_append", 1)) cells = true /\
                      exempted exempt ("spif_str_append", 0) = false.
Proof. vm_compute. repeat split. Qed.

Example C16_ex_assert :
  option_map (fun e => (class_of table e 0, eval guard_sems table 0 e 0, eval guard_sems table 1 e 0, eval guard_sems table 7 e 0))
             (find_entry "spif_str_append" table)
  = Some (FailSoft, (Returned RvFalse, false), (Fatal, false), (Fatal, false)).
Proof. vm_compute. reflexivity. Qed.

Example C16_ex_require :
  option_map (fun e => (eval guard_sems table 0 e 1, eval guard_sems table 3 e 1)) (find_entry "spif_str_append" table)
  = Some ((Returned RvFalse, false), (Returned RvFalse, false)).
Proof. vm_compute. reflexivity. Qed.

Example C16_ex_comp :
  option_map (fun e => (eval guard_sems table 0 e 0, eval guard_sems table 2 e 1)) (find_entry "spif_str_cmp" table)
  = Some ((Returned RvCmpLess, false), (Returned RvCmpGreater, false)).
Proof. vm_compute. reflexivity. Qed.

Example C16_ex_delegate :
  option_map (fun e => (is_method e, eval guard_sems table 0 e 0)) (find_entry "spif_str_comp" table)
  = Some (true, (Returned RvCmpLess, false)).
Proof. vm_compute. reflexivity. Qed.

(* the checker is not trivially true: a prelude that dereferences before its guard, one that allocates first,
   one whose guard hands back TRUE and one without a guard all fail *)
Example C16_ex_checker_rejects :
  let mk its := [{| e_name := "f"; e_reach := Exported; e_ret := TBool; e_params := [true]; e_self := Some 0;
                    e_slots := 1; e_parsed := true; e_prelude := its |}] in
  check_cell guard_sems (mk [Deref 0; Guard GAssert [0] RvFalse; Body]) ("f", 0) = false /\
  check_cell guard_sems (mk [Call_alloc; Guard GAssert [0] RvFalse; Body]) ("f", 0) = false /\
  check_cell guard_sems (mk [Guard GAssert [0] RvTrue; Body]) ("f", 0) = false /\
  check_cell guard_sems (mk [Body]) ("f", 0) = false /\
  check_cell guard_sems (mk [Guard GAssert [0] RvFalse; Body]) ("f", 0) = true.
Proof. vm_compute. repeat split. Qed.
