(* C03, class dlinked_list (stage 2): the map interface of the pointer-level model of
   /repo/src/dlinked_list.c (Cont/DListModel.v: set = linear probe + spif_objpair_new_from_both +
   ordered insert, or spif_objpair_set_value on overwrite; map_get with early exit; map_remove
   with its own unlinking of head / inner / tail item) refines the ideal dictionary of
   ContSpec.v for EVERY history.  Items hold pairs of COPIES (the model's data are the key and
   value texts), so operations on the caller's own objects are no-ops.  Repr as in C02: next- and
   prev-chain, head/tail, len, no other live cell - in particular after every remove, of the
   smallest, largest or only key.  Statements only; proofs in Cont/DListMap.v. *)
From LV Require Import Cont.ContSpec Cont.ContKey Cont.MapProofs
  Cont.DListModel Cont.DListStore Cont.DListOps Cont.DListPure Cont.DListProofs Cont.DListMap.
Local Open Scope Z_scope.

Theorem C03_dlinked_list_map_refines : forall ops, hist_pre mop_pre map_step [] ops ->
  exists st o, run_model dl_map_step m_init ops = Ok ((st, o), outs map_step [] ops) /\
    Repr st o (map Some (final map_step [] ops)).
Proof. exact dlinked_list_map_refines. Qed.
Print Assumptions C03_dlinked_list_map_refines.

(* one operation from ANY represented strictly ascending state *)
Theorem C03_dlinked_list_step_refines : forall (st : store (key * key)) o m op,
  Repr st o (map Some m) -> msorted m -> mop_pre m op ->
  exists st' o', dl_map_step (st, o) op = Ok ((st', o'), snd (map_step m op)) /\
                 Repr st' o' (map Some (fst (map_step m op))).
Proof. exact dl_map_step_refines. Qed.
Print Assumptions C03_dlinked_list_step_refines.

(* the map stays usable after any removal: links, tail and len are right again *)
Theorem C03_dlinked_list_usable_after_remove : forall (st : store (key * key)) o m,
  Repr st o (map Some m) -> forall k,
  exists st' o', dl_map_remove st o k = Ok (st', o', snd (m_remove k m)) /\
                 Repr st' o' (map Some (fst (m_remove k m))).
Proof. exact mstep_remove. Qed.
Print Assumptions C03_dlinked_list_usable_after_remove.

(* non-vacuity *)
Definition ka : key := [97]. Definition kb : key := [98]. Definition kc : key := [99].
Definition vx : key := [120]. Definition vy : key := [121].
Definition ex_ops : list mop :=
  [MSet kb vx; MSet ka vx; MSet kc vy; MSet kb vy; MGet kb; MRemove kc; MSet kc vx; MRemove ka; MMutK kc; MDelV;
   MHasValue vy; MRemove kb; MRemove kc; MSet ka vy; MGetPairs; MIterate].
Example C03_dlinked_list_ex_pre : hist_pre mop_pre map_step [] ex_ops.
Proof. cbv. intuition discriminate. Qed.
Example C03_dlinked_list_ex_run :
  match run_model dl_map_step m_init ex_ops with
  | Ok (_, os) => os = outs map_step [] ex_ops
  | Fault _ => False
  end.
Proof. vm_compute. reflexivity. Qed.
