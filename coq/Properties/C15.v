(* C15 - the debug memory tracker mirrors the live allocation set exactly; the tracking and
   non-tracking expansions of MALLOC/CALLOC/REALLOC/FREE/STRDUP agree on the live set.
   This file holds only statements, each closed by `exact`, and Print Assumptions.
   Model and specification: MemRec/MemRecModel.v (spec_run, mirrors, valid_history). *)
From LV Require Import Base.Res Base.Buf Gen.MemGen Strings.HelpersModel
  MemRec.MemRecModel MemRec.MemRecProofs MemRec.FnameTie.
From Coq Require Import Permutation.
Local Open Scope Z_scope.

(* After ANY valid history started with an empty table at a run-time level >= DEBUG_MEM (the
   level may change but stays >= DEBUG_MEM; calls are the five wrappers directly or, in a build
   with DEBUG >= DEBUG_MEM, through the macros; the allocator's answers are arbitrary sane
   answers) no call faults and the table mirrors the specification map: no address twice, a
   record is present exactly when the map holds (size, 20-character file name, line) under
   its address, and the allocator's live set is the tracked blocks with their recorded sizes
   plus the blocks allocated behind the tracker's back. *)
Theorem C15_tracker_mirrors : forall build lvl ops,
  debug_mem <= lvl ->
  debug_mem <= build \/ Forall direct_op ops ->
  valid_history build (init_state lvl) ops ->
  exists outs s', run build (init_state lvl) ops = Ok (outs, s') /\
                  mirrors (s_tab s') (s_heap s') (spec_run ops).
Proof. exact tracker_mirrors_thm. Qed.
Print Assumptions C15_tracker_mirrors.

(* the same as an equality of finite sets: the table is a permutation of the map's entries
   (the map has unique keys) *)
Theorem C15_tracker_mirrors_as_set : forall build lvl ops,
  debug_mem <= lvl ->
  debug_mem <= build \/ Forall direct_op ops ->
  valid_history build (init_state lvl) ops ->
  exists outs s', run build (init_state lvl) ops = Ok (outs, s') /\
                  Permutation (map entry_of (s_tab s')) (sp_map (spec_run ops)).
Proof. exact tracker_mirrors_perm_thm. Qed.
Print Assumptions C15_tracker_mirrors_as_set.

Theorem C15_spec_map_unique_keys : forall ops, NoDup (map fst (sp_map (spec_run ops))).
Proof. exact spec_run_keys. Qed.
Print Assumptions C15_spec_map_unique_keys.

(* when every allocation goes through the tracker: one record per live block and no others,
   with the block's current address and last requested size *)
Theorem C15_tracker_is_live_set : forall build lvl ops,
  debug_mem <= lvl ->
  debug_mem <= build \/ Forall direct_op ops ->
  Forall not_foreign ops ->
  valid_history build (init_state lvl) ops ->
  exists outs s', run build (init_state lvl) ops = Ok (outs, s') /\
    NoDup (map r_ptr (s_tab s')) /\
    forall p sz, h_lookup (s_heap s') p = Some sz <->
                 exists r, In r (s_tab s') /\ r_ptr r = p /\ r_size r = sz.
Proof. exact tracker_live_set_thm. Qed.
Print Assumptions C15_tracker_is_live_set.

(* freeing or reallocating a pointer that has no record (NULL included) leaves the table
   unchanged - at any level, for any table, whatever the allocator answers *)
Theorem C15_tracker_unknown_noop : forall s p,
  (forall r, In r (s_tab s) -> r_ptr r <> p) ->
  (forall s', spifmem_free s p = Ok s' -> s_tab s' = s_tab s) /\
  (forall f l sz a q s', sz <> 0 -> spifmem_realloc s f l p sz a = Ok (q, s') -> p <> 0 -> s_tab s' = s_tab s) /\
  (forall f l a q s', spifmem_realloc s f l p 0 a = Ok (q, s') -> s_tab s' = s_tab s).
Proof. exact tracker_unknown_noop_thm. Qed.
Print Assumptions C15_tracker_unknown_noop.

Theorem C15_primitives_unknown_noop : forall t f l p q sz,
  (forall r, In r t -> r_ptr r <> p) ->
  memrec_find_var t p = None /\ memrec_rem_var t p = t /\ memrec_chg_var t f l p q sz = t.
Proof.
  exact (fun t f l p q sz H => conj (find_unknown t p H) (conj (rem_unknown t p H) (chg_unknown t f l p q sz H))).
Qed.
Print Assumptions C15_primitives_unknown_noop.

(* realloc of NULL allocates (any non-zero size): it IS spifmem_malloc *)
Theorem C15_realloc_null_allocates : forall s f l sz a,
  sz <> 0 -> spifmem_realloc s f l 0 sz a = Ok (spifmem_malloc s f l sz a).
Proof. exact realloc_null_allocates_thm. Qed.
Print Assumptions C15_realloc_null_allocates.

(* ... and with size 0 it yields NULL and touches nothing (as the non-tracking REALLOC) *)
Theorem C15_realloc_null_zero : forall s f l a, spifmem_realloc s f l 0 0 a = Ok (0, s).
Proof. exact realloc_null_zero_thm. Qed.
Print Assumptions C15_realloc_null_zero.

(* realloc to size 0 frees: it IS spifmem_free, and yields NULL *)
Theorem C15_realloc_zero_frees : forall s f l p a,
  p <> 0 -> spifmem_realloc s f l p 0 a = (s' <- spifmem_free s p ;; Ok (0, s')).
Proof. exact realloc_zero_frees_thm. Qed.
Print Assumptions C15_realloc_zero_frees.

(* ... on a live tracked block: exactly its record disappears, the block is no longer live *)
Theorem C15_realloc_zero_frees_effect : forall s f l p a r,
  tracking (s_lvl s) = true -> NoDup (map r_ptr (s_tab s)) -> In r (s_tab s) -> r_ptr r = p -> p <> 0 ->
  h_live (s_heap s) p = true ->
  exists s', spifmem_realloc s f l p 0 a = Ok (0, s') /\
             (forall r', In r' (s_tab s') <-> In r' (s_tab s) /\ r_ptr r' <> p) /\
             h_live (s_heap s') p = false /\
             (forall q, q <> p -> h_lookup (s_heap s') q = h_lookup (s_heap s) q).
Proof. exact realloc_zero_frees_effect_thm. Qed.
Print Assumptions C15_realloc_zero_frees_effect.

(* MALLOC / CALLOC / REALLOC / FREE (and STRDUP of a string) hand back the same value and have
   the same effect on the allocator's live set whichever expansion is compiled in (any two
   values of DEBUG), at any run-time levels, whatever the tables hold *)
Theorem C15_macro_equivalence : forall b1 b2 s1 s2 o,
  macro_op o -> s_heap s1 = s_heap s2 -> obs (step b1 s1 o) = obs (step b2 s2 o).
Proof. exact macro_equivalence_thm. Qed.
Print Assumptions C15_macro_equivalence.

Theorem C15_macro_equivalence_history : forall b1 b2 ops s1 s2,
  Forall macro_or_neutral ops -> s_heap s1 = s_heap s2 ->
  obs_run (run b1 s1 ops) = obs_run (run b2 s2 ops).
Proof. exact macro_equivalence_history_thm. Qed.
Print Assumptions C15_macro_equivalence_history.

(* the unchanged spifmem_realloc refuted it: REALLOC(NULL, 0) (repaired in src/mem.c) *)
Theorem C15_macro_equivalence_orig_refuted :
  exists s f l a,
    obs (step_MRealloc_orig debug_mem s f l 0 0 a) <> obs (step_MRealloc_orig (debug_mem - 1) s f l 0 0 a).
Proof. exact macro_equivalence_orig_refuted_thm. Qed.
Print Assumptions C15_macro_equivalence_orig_refuted.

(* below DEBUG_MEM at run time no call touches the table *)
Theorem C15_tracker_off_frozen : forall build s o out s',
  tracking (s_lvl s) = false -> (forall l, o <> SetLevel l) ->
  step build s o = Ok (out, s') -> s_tab s' = s_tab s.
Proof. exact tracker_off_frozen_thm. Qed.
Print Assumptions C15_tracker_off_frozen.

(* the file-name member: the model's store_fname is what the C13 model of
   spiftool_safe_strncpy(p->file, filename, sizeof(p->file)) leaves as the member's text,
   whatever the member held before *)
Theorem C15_store_fname_is_strncpy : forall (name : list Z) (srest dest : buf),
  Forall nz_byte name -> blen dest = spifmem_fname_cap ->
  exists ok d, safe_strncpy dest (cstr name srest) spifmem_fname_cap = Ok (ok, d) /\
               take_str d = store_fname name /\
               ok = (Z.of_nat (length name) <=? spifmem_fname_len).
Proof. exact store_fname_is_strncpy. Qed.
Print Assumptions C15_store_fname_is_strncpy.

(* ---- non-vacuity: concrete valid histories, and the model runs on them ---- *)
Definition ex_file : option (list Z) :=
  Some [115; 114; 99; 47; 97; 95; 118; 101; 114; 121; 95; 108; 111; 110; 103; 95; 102; 105; 108; 101; 95; 110; 97; 109; 101; 46; 99].
(* malloc 1, calloc 2, foreign 3, realloc 1 -> moves to 4, free 2, malloc reuses address 2,
   realloc of the foreign block, realloc to 0, realloc of NULL, strdup, level change *)
Definition ex_history : list op :=
  [Malloc ex_file 10 8 1; Calloc None 11 3 5 2; Foreign 16 3; Realloc ex_file 12 1 64 4; Free 2;
   Malloc (Some [97]) 13 0 2; Realloc None 14 3 9 1; Realloc None 15 4 0 0; Realloc None 16 0 7 4;
   Strdup None 17 (Some [104; 105]) 5; SetLevel 6; Free 0; Dump].

Example C15_ex_valid : valid_history 4 (init_state 5) ex_history.
Proof. vm_compute. intuition (try discriminate; try congruence; try lia). Qed.

Example C15_ex_run :
  exists outs s', run 4 (init_state 5) ex_history = Ok (outs, s') /\
    map entry_of (s_tab s') =
      [(2, (0, [97], 13)); (4, (7, null_fname, 16)); (5, (3, null_fname, 17))] /\
    s_heap s' = [(5, 3); (4, 7); (1, 9); (2, 0)].
Proof. do 2 eexists. vm_compute. repeat split. Qed.

Example C15_ex_spec :
  sp_map (spec_run ex_history) = [(5, (3, null_fname, 17)); (4, (7, null_fname, 16)); (2, (0, [97], 13))] /\
  sp_foreign (spec_run ex_history) = [(1, 9)].
Proof. vm_compute. split; reflexivity. Qed.

(* the same calls through the macros, under both expansions *)
Definition ex_macros : list op :=
  [MMalloc [102] 101 8 1; MRealloc [102] 103 1 16 2; MRealloc [102] 103 0 0 3; MCalloc [102] 102 4 3 3;
   SetLevel 0; MFree 2; MStrdup [102] 105 (Some [120]) 2; MRealloc [102] 103 3 0 0].
Example C15_ex_macros_valid : valid_history 5 (init_state 5) (firstn 4 ex_macros) /\ Forall macro_or_neutral ex_macros.
Proof. split; [vm_compute; intuition (try discriminate; try congruence; try lia) | repeat constructor; discriminate]. Qed.
Example C15_ex_macros_run :
  obs_run (run 5 (init_state 5) ex_macros) = obs_run (run 4 (init_state 0) ex_macros) /\
  obs_run (run 5 (init_state 5) ex_macros) =
    Ok ([RetPtr 1; RetPtr 2; RetPtr 0; RetPtr 3; RetVoid; RetPtr 0; RetPtr 2; RetPtr 0], [(2, 2)]).
Proof. vm_compute. split; reflexivity. Qed.

(* an unknown pointer, a table with records *)
Example C15_ex_unknown :
  let t := [mkrec 1 8 [97] 3; mkrec 2 9 [98] 4] in
  (forall r, In r t -> r_ptr r <> 7) /\ memrec_rem_var t 7 = t /\ memrec_rem_var t 1 = [mkrec 2 9 [98] 4] /\
  memrec_chg_var t [99] 5 2 3 10 = [mkrec 1 8 [97] 3; mkrec 3 10 [99] 5].
Proof. vm_compute. repeat split; intros r [H|[H|[]]]; subst; discriminate. Qed.
