(* C09 - placeholder while the proofs are being written *)
From LV Require Import Conf.ConfModel.
Theorem C09_placeholder : True. Proof. exact I. Qed.
Print Assumptions C09_placeholder.
