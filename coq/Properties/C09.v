(* C09 - the config parser delivers every line once, in order, to the innermost open context.
   Statements only, each closed by `exact`, followed by Print Assumptions; non-vacuity Examples at the end.
   Model: Conf/ConfModel.v (spifconf_parse and the table functions of src/conf.c, after the repairs listed in
   checks/c09.py).  Specification: Conf/ConfSpec.v (a walk over line lists with a stack of (context, state)).
   `R` (Conf/ConfTrace.v) relates a specification state to a state of the subsystem: the context table holds the
   registered contexts, the context-state stack is the specification's stack bottom-up, the open files hold the
   remaining work list, every table index is below its capacity. *)
From LV Require Import Base.Buf Conf.ConfModel Conf.ConfSpec Conf.ConfInst Conf.ConfTables Conf.ConfLine Conf.ConfSafe.
From LV Require Import Conf.ConfLife Conf.ConfTrace Conf.ConfInstProofs Conf.ConfStacks.
Local Open Scope Z_scope.

(* From spifconf_init_subsystem through any (at most 255) registrations to spifconf_parse: for every tree of
   well-formed config files, every handler oracle and every expansion, the parser's result - the trace of
   handler calls (context, Begin | End | text, state in, state out), the return value - is the specification's;
   on return the file stack is empty, every file opened is closed, the context stack is the specification's
   stack and the variable store the specification's.  Nesting beyond 255 (TooDeep) and %preproc
   (OutOfGrammar) are outside the quantifier. *)
Theorem C09_conf_trace :
  forall (W V : Type) (handler : Z -> harg -> Z -> W -> Z * W)
         (expand : list Z -> V -> list Z * V * list (list Z)) (preproc_out fs : list Z -> option (list Z))
         (progname : list Z) (fsl : list Z -> option (list (list Z) * bool)),
    (forall n content, fs n = Some content -> Forall is_byte content) ->
    expand_fits V expand ->
    expand_keeps_include V expand ->
    (forall name,
        match fsl name with
        | Some (ls, nl) => exists hdr, wf_hdr progname hdr /\ fs name = Some (render hdr ls nl) /\ Forall wf_line ls
        | None => open_file fs progname (Some name) = Ok None
        end) ->
    forall (c0 : conf V) (w : W) (regs : list (list Z * Z)) (fuel : nat) (name : list Z),
      Z.of_nat (length regs) <= 255 ->
      exists c1 c2,
        init_subsystem V c0 = Ok c1 /\
        reg_all V c1 regs = Ok c2 /\
        (let s2 := {| s_ctxs := sreg_all [(s_null, HParseNull)] regs; s_stack := [(0, 0)];
                      s_vars := vars V c0; s_world := w |} in
         match sparse W V handler expand fsl fuel s2 name with
         | Done (s', evs, ret) =>
           exists c', parse W V handler expand preproc_out fs progname fuel c2 w name = Ok (c', s_world W V s', evs, ret) /\
                      t_idx (ftb V c') = 0 /\ nopen V c' = nopen V c0 /\
                      stack_rel (cst V c') (s_stack W V s') /\ vars V c' = s_vars W V s'
         | NoFuel => parse W V handler expand preproc_out fs progname fuel c2 w name = Fault Out_of_fuel
         | _ => True
         end).
Proof. exact conf_trace_from_init. Qed.
Print Assumptions C09_conf_trace.

(* The same for any state related to a specification state (for instance after earlier parses that left
   blocks open): the relation is kept, so the correspondence holds for every sequence of parses. *)
Theorem C09_conf_trace_any_state :
  forall (W V : Type) (handler : Z -> harg -> Z -> W -> Z * W)
         (expand : list Z -> V -> list Z * V * list (list Z)) (preproc_out fs : list Z -> option (list Z))
         (progname : list Z) (fsl : list Z -> option (list (list Z) * bool)),
    (forall n content, fs n = Some content -> Forall is_byte content) ->
    expand_fits V expand ->
    expand_keeps_include V expand ->
    (forall name,
        match fsl name with
        | Some (ls, nl) => exists hdr, wf_hdr progname hdr /\ fs name = Some (render hdr ls nl) /\ Forall wf_line ls
        | None => open_file fs progname (Some name) = Ok None
        end) ->
    forall (n0 hw : Z) (fuel : nat) (s : sstate W V) (c : conf V) (name : list Z),
      R W V n0 hw s c [] ->
      t_idx (ftb V c) = 0 ->
      match sparse W V handler expand fsl fuel s name with
      | Done (s', evs, ret) =>
        exists c', parse W V handler expand preproc_out fs progname fuel c (s_world W V s) name = Ok (c', s_world W V s', evs, ret) /\
                   R W V n0 hw s' c' [] /\ t_idx (ftb V c') = 0
      | NoFuel => parse W V handler expand preproc_out fs progname fuel c (s_world W V s) name = Fault Out_of_fuel
      | _ => True
      end.
Proof. exact conf_trace. Qed.
Print Assumptions C09_conf_trace_any_state.

(* registering a context is the specification's registration ("null" replaces entry 0 and returns 0, any
   other name is appended and returns its position) *)
Theorem C09_register_context :
  forall (W V : Type) (n0 hw : Z) (s : sstate W V) (c : conf V) (name : list Z) (h : Z),
    R W V n0 hw s c [] ->
    Z.of_nat (length (s_ctxs W V s)) <= 255 ->
    let '(ctxs', id') := sregister (s_ctxs W V s) name h in
    exists c', register_context V c name h = Ok (c', id') /\
               R W V n0 (Z.of_nat (length ctxs'))
                 {| s_ctxs := ctxs'; s_stack := s_stack W V s; s_vars := s_vars W V s; s_world := s_world W V s |} c' [] /\
               bit V c' = bit V c.
Proof. exact register_R. Qed.
Print Assumptions C09_register_context.

(* when parsing returns all files are closed, the file stack is where it started, and the context stack is
   deeper by exactly the number of Begin calls minus the number of End calls of the trace - back at its
   entry value for input whose blocks are balanced *)
Theorem C09_conf_stacks_restored :
  forall (W V : Type) (handler : Z -> harg -> Z -> W -> Z * W)
         (expand : list Z -> V -> list Z * V * list (list Z)) (preproc_out fs : list Z -> option (list Z))
         (progname : list Z) (fsl : list Z -> option (list (list Z) * bool)),
    (forall n content, fs n = Some content -> Forall is_byte content) ->
    expand_fits V expand ->
    expand_keeps_include V expand ->
    (forall name,
        match fsl name with
        | Some (ls, nl) => exists hdr, wf_hdr progname hdr /\ fs name = Some (render hdr ls nl) /\ Forall wf_line ls
        | None => open_file fs progname (Some name) = Ok None
        end) ->
    forall n0 hw fuel (s : sstate W V) (c : conf V) name s' evs ret,
      R W V n0 hw s c [] -> t_idx (ftb V c) = 0 ->
      sparse W V handler expand fsl fuel s name = Done (s', evs, ret) ->
      exists c', parse W V handler expand preproc_out fs progname fuel c (s_world W V s) name = Ok (c', s_world W V s', evs, ret) /\
                 t_idx (ftb V c') = t_idx (ftb V c) /\ nopen V c' = nopen V c /\
                 t_idx (cst V c') = t_idx (cst V c) + begins evs - ends evs.
Proof. exact conf_stacks_restored. Qed.
Print Assumptions C09_conf_stacks_restored.

(* the arithmetic of the 8-bit indices and their capacities, with the widths and initial capacities found in
   the source tree: after any number of pushes (the index wraps to 0 after 2^8 - 1) the index is below the
   capacity, and the capacity never passes 2^9 - across every doubling *)
Theorem C09_conf_index_below_capacity : forall n : nat,
  (let '(i, c) := bump_n ctx_idx_bits ctx_cnt_bits n 0 ctx_cnt_init in 0 <= i < c /\ c <= 2 ^ (ctx_idx_bits + 1)) /\
  (let '(i, c) := bump_n ctx_state_idx_bits ctx_state_cnt_bits n 0 ctx_state_cnt_init in 0 <= i < c /\ c <= 2 ^ (ctx_state_idx_bits + 1)) /\
  (let '(i, c) := bump_n fstate_idx_bits fstate_cnt_bits n 0 fstate_cnt_init in 0 <= i < c /\ c <= 2 ^ (fstate_idx_bits + 1)) /\
  (let '(i, c) := bump_n builtin_idx_bits builtin_cnt_bits n 0 builtin_cnt_init in 0 <= i < c /\ c <= 2 ^ (builtin_idx_bits + 1)).
Proof. exact tables_never_wrap. Qed.
Print Assumptions C09_conf_index_below_capacity.

(* in the model a push is exactly this arithmetic followed by a checked store: the store succeeds, the block
   is as long as the capacity says, and no other slot below the old capacity changes *)
Theorem C09_push_in_bounds :
  forall (A : Type) (ib cb : Z) (t : table A) (a : A),
    0 <= ib -> ib + 1 < cb -> tab_ok ib t ->
    let t1 := t_bump ib cb t in
    exists t', t_set t1 (t_idx t1) a = Ok t' /\ tab_ok ib t' /\
               t_idx t' = (t_idx t + 1) mod 2 ^ ib /\ t_cnt t <= t_cnt t' /\
               slot t' (t_idx t') = Some (Some a) /\
               (forall j, j <> t_idx t' -> 0 <= j < t_cnt t -> slot t' j = slot t j) /\
               blk (t_mem t1) = blk (t_mem t).
Proof. exact @t_bump_store. Qed.
Print Assumptions C09_push_in_bounds.

(* ---------------- non-vacuity ---------------- *)
(* the assumptions about the expansion are satisfiable (the identity satisfies them) *)
Example C09_expand_assumptions_satisfiable :
  expand_fits unit (@expand_id unit) /\ expand_keeps_include unit (@expand_id unit).
Proof. split; [apply expand_id_fits|apply expand_id_keeps]. Qed.

(* a run of the model: file "a" = "<lv-1.0>\nbegin foo\n x y \nend\nz" (no final newline), context "foo"
   registered with handler 0; the handler sees Begin, "x y", End with the states threaded; the last line goes
   to the null context *)
Definition ex_file : list Z :=
  [60;108;118;45;49;46;48;62;10; 98;101;103;105;110;32;102;111;111;10; 32;120;32;121;32;10; 101;110;100;10; 122].
Example C09_sample_run :
  match irun [([97], ex_file)] true [108;118] [OInit; ORegCtx [102;111;111] 0; OParse 100 [97]] with
  | Ok (_, [RUnit; RId 1; RParse evs true]) =>
    evs = [EvCall (HUser 0) HBegin 0 1; EvCall (HUser 0) (HText [120;32;121]) 1 2; EvCall (HUser 0) HEnd 2 3;
           EvCall HParseNull (HText [122]) 3 3]
  | _ => False
  end.
Proof. vm_compute. reflexivity. Qed.

(* the specification on the same input (lines after the header, no final newline) gives the same trace *)
Example C09_sample_spec :
  match sparse Z vstore fresh_handler expand_simple
          (fun n => if list_eqb n [97] then Some ([[98;101;103;105;110;32;102;111;111]; [32;120;32;121;32]; [101;110;100]; [122]], false) else None)
          100 {| s_ctxs := [(s_null, HParseNull); ([102;111;111], HUser 0)]; s_stack := [(0, 0)]; s_vars := []; s_world := 0 |} [97] with
  | Done (_, evs, true) =>
    evs = [EvCall (HUser 0) HBegin 0 1; EvCall (HUser 0) (HText [120;32;121]) 1 2; EvCall (HUser 0) HEnd 2 3;
           EvCall HParseNull (HText [122]) 3 3]
  | _ => False
  end.
Proof. vm_compute. reflexivity. Qed.

(* the relation R holds after init (so the hypotheses of the general theorems are reachable) *)
Example C09_R_reachable : forall (c : conf unit) (w : unit),
  exists c', init_subsystem unit c = Ok c' /\ R unit unit (nopen unit c) 1 (sinit unit unit (vars unit c) w) c' [] /\ binv (bit unit c').
Proof. exact (init_R unit unit). Qed.
