(* C20 - debug output and assertions are gated exactly by the compile-time and the runtime level.
   Statements only; every theorem is about [behaviour], the interpretation of the ladder that
   tools/gen_c20.py regenerates from include/libast.h on every run, for ALL integers c (value of DEBUG,
   [e_c e]) and r (DEBUG_LEVEL, [r_level s]), both compiler flags the header tests ([e_fileline],
   [e_gnuc]), silent flag, program name set or NULL, and condition value.

   Vocabulary (Debug/DebugModel.v, Debug/DebugFacts.v):
     printed o        some text reached stderr (debug text, warning, error or fatal message)
     o_args o         how often the parenthesised argument list of a D_X / DPRINTFn statement was evaluated
     o_cond / o_val   how often the condition / the return-value argument was evaluated
     o_ctl o          Fall (next statement runs) | Ret with_value (enclosing function returns) | Exit (process exits)
     gate_holds o g s prints <-> g and not silenced and program name set; argument list evaluated once if g,
                      not at all otherwise; no warning/error/fatal text; control falls through
     warns_and_returns o rv s / is_fatal o s   the two outcomes of a failed assertion *)
From LV Require Import Debug.DebugModel Debug.DebugProofs Debug.DebugFacts.
Local Open Scope Z_scope.
Local Open Scope mn_scope.

(* the translator's output is a sound reading: in every compile-time environment exactly one #define of
   each macro is reached, and every macro of the three blocks is held to a specification *)
Theorem C20_alternatives_partition : forall m, In m ladder -> forall e, reached e m = 1%nat.
Proof. exact alternatives_partition. Qed.
Print Assumptions C20_alternatives_partition.

Theorem C20_families_cover : forall m, In m ladder -> exists k, In (m_name m, k) classified.
Proof. exact families_cover. Qed.
Print Assumptions C20_families_cover.

(* D_X of documented level L: output iff c >= L and r >= L (and not silenced); arguments evaluated only then *)
Theorem C20_d_family_gate : forall d, In d d_family -> forall e s,
  gate_holds (behaviour (d_name d) e s) (e_c e >= d_doc d /\ r_level s >= d_doc d) s.
Proof. exact d_family_gate. Qed.
Print Assumptions C20_d_family_gate.

(* the prefix form D_X_IF runs the guarded statement under the same gate and prints nothing itself *)
Theorem C20_d_if_gate : forall d, In d d_family -> forall e s,
  let o := behaviour (d_if d) e s in
  let g := e_c e >= d_doc d /\ r_level s >= d_doc d in
  (o_mark o = 1%nat <-> g) /\ (o_mark o = 0%nat <-> ~ g) /\ printed o = false /\ o_ctl o = Fall.
Proof. exact d_if_gate. Qed.
Print Assumptions C20_d_if_gate.

(* the DEBUG_X constants have the values their documentation states *)
Theorem C20_d_levels_documented : forall d, In d d_family -> d_define d = d_doc d.
Proof. exact d_levels_documented. Qed.
Print Assumptions C20_d_levels_documented.

(* DPRINTFn: output iff debugging is compiled in and r >= n *)
Theorem C20_dprintf_gate : forall n k, In (n, k) dprintf_family -> forall e s,
  gate_holds (behaviour n e s) (e_c e >= 1 /\ r_level s >= k) s.
Proof. exact dprintf_gate. Qed.
Print Assumptions C20_dprintf_gate.

Theorem C20_dprintf_plain_gate : forall n, In n dprintf_plain_family -> forall e s,
  gate_holds (behaviour n e s) (e_c e >= 1) s.
Proof. exact dprintf_plain_gate. Qed.
Print Assumptions C20_dprintf_plain_gate.

Theorem C20_d_never_quiet : forall n, In n never_family -> forall e s, behaviour n e s = quiet.
Proof. exact d_never_quiet. Qed.
Print Assumptions C20_d_never_quiet.

(* the location header __DEBUG() is subject to the silent flag like every other output *)
Theorem C20_header_gate : forall n, In n hdr_family -> forall e s,
  let o := behaviour n e s in
  (printed o = true <-> e_fileline e = true /\ r_silent s = false /\ r_name s = true) /\ o_ctl o = Fall.
Proof. exact hdr_gate. Qed.
Print Assumptions C20_header_gate.

(* with output silenced nothing is printed: by any macro of the ladder, at any levels ... *)
Theorem C20_silent_prints_nothing : forall m, In m ladder -> forall e s,
  r_silent s = true -> printed (behaviour (m_name m) e s) = false.
Proof. exact silent_prints_nothing. Qed.
Print Assumptions C20_silent_prints_nothing.

(* ... nor by the four output functions of msgs.c themselves *)
Theorem C20_primitives_silent : forall p s,
  p <> PRaw -> r_silent s = true -> printed (prim_behaviour p s) = false.
Proof. exact primitives_silent. Qed.
Print Assumptions C20_primitives_silent.

Theorem C20_primitives_exact : forall p s, prim_behaviour p s = spec_prim p s.
Proof. exact prim_behaviour_spec. Qed.
Print Assumptions C20_primitives_exact.

Theorem C20_nameless_prints_nothing : forall m, In m ladder -> forall e s,
  r_name s = false -> printed (behaviour (m_name m) e s) = false.
Proof. exact nameless_prints_nothing. Qed.
Print Assumptions C20_nameless_prints_nothing.

(* ASSERT / ASSERT_RVAL with debugging compiled in: the condition is evaluated once; if it fails the
   statement warns and returns (the stated value) at runtime level 0 and is fatal at level >= 1 *)
Theorem C20_assert_semantics : forall n rv, In (n, rv) assert_family -> forall e s,
  e_c e >= 1 ->
  let o := behaviour n e s in
  o_cond o = 1%nat /\ o_args o = 0%nat /\
  (r_cond s = true -> printed o = false /\ o_val o = 0%nat /\ o_ctl o = Fall) /\
  (r_cond s = false -> r_level s < 1 -> warns_and_returns o rv s) /\
  (r_cond s = false -> r_level s >= 1 -> is_fatal o s).
Proof. exact assert_semantics. Qed.
Print Assumptions C20_assert_semantics.

(* ... and compiled out they vanish: nothing is evaluated, printed or returned *)
Theorem C20_assert_vanishes : forall n rv, In (n, rv) assert_family -> forall e s,
  e_c e < 1 -> behaviour n e s = quiet.
Proof. exact assert_vanishes. Qed.
Print Assumptions C20_assert_vanishes.

(* ASSERT_NOTREACHED(_RVAL): an assertion that always fails; compiled out (or without __FILE__) a bare return *)
Theorem C20_notreached_semantics : forall n rv, In (n, rv) notreached_family -> forall e s,
  let o := behaviour n e s in
  (e_c e >= 1 -> e_fileline e = true -> r_level s < 1 -> warns_and_returns o rv s) /\
  (e_c e >= 1 -> e_fileline e = true -> r_level s >= 1 -> is_fatal o s) /\
  (e_c e < 1 \/ e_fileline e = false -> o = bare_return rv) /\
  o_cond o = 0%nat /\ o_args o = 0%nat.
Proof. exact notreached_semantics. Qed.
Print Assumptions C20_notreached_semantics.

(* REQUIRE / REQUIRE_RVAL: a failed condition only returns (the value); it logs iff debugging is compiled
   in and r >= 1; for c < 1 this is the bare return *)
Theorem C20_require_semantics : forall n rv, In (n, rv) require_family -> forall e s,
  let o := behaviour n e s in
  o_cond o = 1%nat /\ o_args o = 0%nat /\ o_warn o = false /\ o_err o = false /\ o_fatal o = false /\
  (r_cond s = true -> printed o = false /\ o_val o = 0%nat /\ o_ctl o = Fall) /\
  (r_cond s = false ->
     o_ctl o = Ret rv /\ o_val o = b2n rv /\
     (o_dbg o = true <-> e_c e >= 1 /\ r_level s >= 1 /\ r_silent s = false /\ r_name s = true)).
Proof. exact require_semantics. Qed.
Print Assumptions C20_require_semantics.

Theorem C20_abort_fatal : forall n, In n abort_family -> forall e s, is_fatal (behaviour n e s) s.
Proof. exact abort_fatal. Qed.
Print Assumptions C20_abort_fatal.

(* the interpretation never runs into an undefined macro or the depth bound *)
Theorem C20_never_stuck : forall m, In m ladder -> forall e s, o_ctl (behaviour (m_name m) e s) <> Stuck.
Proof. exact never_stuck. Qed.
Print Assumptions C20_never_stuck.

(* the checker is sound for ANY ladder (this is what lifts the vm_compute sweeps to all c and r) *)
Theorem C20_checker_sound : forall l cl,
  check_all l cl = true -> forall n k, In (n, k) cl -> forall e s, behaviour_in l n e s = spec k e s.
Proof. exact check_all_sound. Qed.
Print Assumptions C20_checker_sound.

(* non-vacuity: the families are inhabited and the model computes *)
Example C20_ex_families :
  (List.length d_family >= 1 /\ List.length dprintf_family >= 1 /\ List.length assert_family >= 1 /\
   List.length require_family >= 1 /\ List.length notreached_family >= 1)%nat.
Proof. vm_compute. repeat split; repeat constructor. Qed.
Example C20_ex_d_prints :
  exists d, In d d_family /\
  printed (behaviour (d_name d) (mk_env (d_doc d) true true) (mk_rt (d_doc d) false true true)) = true /\
  printed (behaviour (d_name d) (mk_env (d_doc d) true true) (mk_rt (d_doc d - 1) false true true)) = false /\
  printed (behaviour (d_name d) (mk_env (d_doc d - 1) true true) (mk_rt (d_doc d) false true true)) = false.
Proof. eexists. split; [left; reflexivity|]. vm_compute. auto. Qed.
Example C20_ex_assert_fatal :
  exists n rv, In (n, rv) assert_family /\
  o_ctl (behaviour n (mk_env 1 true true) (mk_rt 1 false true false)) = Exit /\
  o_ctl (behaviour n (mk_env 1 true true) (mk_rt 0 false true false)) = Ret rv /\
  o_ctl (behaviour n (mk_env 0 true true) (mk_rt 0 false true false)) = Fall.
Proof. do 2 eexists. split; [left; reflexivity|]. vm_compute. auto. Qed.
