(* C10 - config value expansion is a pure function of line, environment and variable store.
   Statements only, each closed by `exact`, followed by Print Assumptions; non-vacuity Examples
   at the end.

   Reading guide.  shell_expand genv pn pv xo dl fuel obj st is the model of spifconf_shell_expand(obj)
   (coq/Expand/ExpandModel.v) with getenv = genv, program name / version pn / pv, the variable
   store st; obj is the object that holds the input: `cstr s rest` = the characters s, the
   terminator, then the cells `rest` (every cell access is checked: a read behind the object, or
   of a cell nobody wrote, is a Fault).  shell_expand_reads is the part of the function that reads
   its argument (everything before the final strcpy back into obj).  CB = CONFIG_BUFF as a nat,
   maxj = CONFIG_BUFF - 1.  val_ok v: v has no NUL byte and is shorter than 4 GB;
   store_ok st: names and values NUL-free and short, names strictly ascending.  expand_spec is
   the specification (coq/Expand/ExpandSpec.v).
   xo and dl are the answers of the outside world to %exec(command) (not followed / refused / the
   bytes the command wrote into the temporary file) and to %dirscan(directory) (not followed /
   opendir fails / the names of the regular files in readdir order): parameters like genv, over
   which every theorem quantifies; a command's output is a list of bytes shorter than 4 GB, file
   names are NUL-free.
   ex and uf are the functions the application registered with spifconf_register_builtin: ex lists
   (name, code) in registration order - the function table that the scan for a %name( walks is the
   library's own entries (Gen/ExpandGen.v, from spifconf_init_subsystem) followed by ex, ANY number of
   them -, uf code arg is what the function answers (NULL or a string) for arg = NULL or the text of
   its expanded argument: parameters like genv; names are C strings, answers are C strings shorter
   than 4 GB.  That the table in memory really ends in a NULL name after any number of registrations is
   C11_builtins_terminated (model of spifconf_register_builtin) and, on the implementation side, the
   registered-function stratum of the correspondence check. *)
From LV Require Import Base.Buf Strings.HelpersModel Split.SplitModel
  Expand.ExpandModel Expand.ExpandSpec Expand.ExpandLemmas Expand.StoreProofs
  Expand.ExpandProofs Expand.ExpandTheorems.
Local Open Scope Z_scope.

(* --- never reads past the end of its input: every NUL-free string shorter than CONFIG_BUFF in an
       exactly sized object (nothing behind the terminator), every environment, every store.  This
       covers inputs ending in \, %, $, ${, $(, %name( and an open quote: they are just strings. --- *)
Theorem C10_expand_no_overread : forall genv pn pv xo dl,
  (forall n v, genv n = Some v -> val_ok v) -> Forall nz_byte pn -> val_ok pv ->
  (forall c o, xo c = ExecOut o -> Forall is_byte o /\ small o) ->
  (forall d ns, dl d = DirList ns -> Forall (Forall nz_byte) ns) ->
  forall ex uf, Forall (fun e => Forall nz_byte (fst e)) ex ->
  (forall code a v, (forall o, a = Some o -> arg_ok o) -> uf code a = Some v -> val_ok v) ->
  forall s st, Forall nz_byte s -> (length s < CB)%nat -> store_ok st ->
  exists r, shell_expand_reads genv pn pv xo dl ex uf (S (length s)) (cstr s []) st = Ok r.
Proof. intros genv pn pv xo dl H1 H2 H3 H4 H5 ex uf H6 H7 s st. exact (expand_no_overread genv pn pv xo dl H1 H2 H3 H4 H5 ex uf H6 H7 s [] st). Qed.
Print Assumptions C10_expand_no_overread.

(* the same with anything behind the terminator, e.g. cells that were never written *)
Theorem C10_expand_no_overread_any_slack : forall genv pn pv xo dl,
  (forall n v, genv n = Some v -> val_ok v) -> Forall nz_byte pn -> val_ok pv ->
  (forall c o, xo c = ExecOut o -> Forall is_byte o /\ small o) ->
  (forall d ns, dl d = DirList ns -> Forall (Forall nz_byte) ns) ->
  forall ex uf, Forall (fun e => Forall nz_byte (fst e)) ex ->
  (forall code a v, (forall o, a = Some o -> arg_ok o) -> uf code a = Some v -> val_ok v) ->
  forall s rest st, Forall nz_byte s -> (length s < CB)%nat -> store_ok st ->
  exists r, shell_expand_reads genv pn pv xo dl ex uf (S (length s)) (cstr s rest) st = Ok r.
Proof. exact expand_no_overread. Qed.
Print Assumptions C10_expand_no_overread_any_slack.

(* --- every cell of newbuff below the final j has been written; j never exceeds CONFIG_BUFF --- *)
Theorem C10_expand_cells_below_j_written : forall genv pn pv xo dl,
  (forall n v, genv n = Some v -> val_ok v) -> Forall nz_byte pn -> val_ok pv ->
  (forall c o, xo c = ExecOut o -> Forall is_byte o /\ small o) ->
  (forall d ns, dl d = DirList ns -> Forall (Forall nz_byte) ns) ->
  forall ex uf, Forall (fun e => Forall nz_byte (fst e)) ex ->
  (forall code a v, (forall o, a = Some o -> arg_ok o) -> uf code a = Some v -> val_ok v) ->
  forall s rest st nb j st', Forall nz_byte s -> (length s < CB)%nat -> store_ok st ->
  shell_expand_reads genv pn pv xo dl ex uf (S (length s)) (cstr s rest) st = Ok (LDone nb j st') ->
  0 <= j <= config_buff /\ length nb = CB /\
  exists pre, Z.of_nat (length pre) = j /\ firstn (Z.to_nat j) nb = bytes pre.
Proof. exact expand_cells_written. Qed.
Print Assumptions C10_expand_cells_below_j_written.

(* --- total, initialised, terminated, bounded: on an object of CONFIG_BUFF (or more) cells, whatever
       the cells behind the terminator hold (rest is arbitrary: painted, unwritten, anything), the
       function returns without a fault - so it never returns Uninit_read: the result does not depend
       on leftover memory - and a returned string is NUL-terminated inside the object, NUL-free
       before that and shorter than CONFIG_BUFF; the store stays well-formed and sorted --- *)
Theorem C10_expand_initialised : forall genv pn pv xo dl,
  (forall n v, genv n = Some v -> val_ok v) -> Forall nz_byte pn -> val_ok pv ->
  (forall c o, xo c = ExecOut o -> Forall is_byte o /\ small o) ->
  (forall d ns, dl d = DirList ns -> Forall (Forall nz_byte) ns) ->
  forall ex uf, Forall (fun e => Forall nz_byte (fst e)) ex ->
  (forall code a v, (forall o, a = Some o -> arg_ok o) -> uf code a = Some v -> val_ok v) ->
  forall s rest st, Forall nz_byte s -> (length s < CB)%nat -> (CB <= length (cstr s rest))%nat -> store_ok st ->
  exists x st', shell_expand genv pn pv xo dl ex uf (S (length s)) (cstr s rest) st = Ok (x, st') /\
    store_ok st' /\
    match x with
    | XBuf s' => exists o junk, s' = cstr o junk /\ Forall nz_byte o /\ Z.of_nat (length o) < config_buff /\
                                length s' = length (cstr s rest)
    | _ => True
    end.
Proof. exact expand_initialised. Qed.
Print Assumptions C10_expand_initialised.

(* --- model = specification, for every input, environment and store, whenever the expanded text
       and the expansion of every nested call argument stay below max - 1 characters (pk is the
       longest nested expansion, m the number of characters produced before giving up).
       SFuel (the specification running out of its counter) never happens. --- *)
Theorem C10_expand_spec : forall genv pn pv xo dl,
  (forall n v, genv n = Some v -> val_ok v) -> Forall nz_byte pn -> val_ok pv ->
  (forall c o, xo c = ExecOut o -> Forall is_byte o /\ small o) ->
  (forall d ns, dl d = DirList ns -> Forall (Forall nz_byte) ns) ->
  forall ex uf, Forall (fun e => Forall nz_byte (fst e)) ex ->
  (forall code a v, (forall o, a = Some o -> arg_ok o) -> uf code a = Some v -> val_ok v) ->
  forall s rest st, Forall nz_byte s -> (length s < CB)%nat -> (CB <= length (cstr s rest))%nat -> store_ok st ->
  match expand_spec genv pn pv xo dl ex uf s st with
  | SOut o st' pk =>
    Z.of_nat (length o) < maxj -> Z.of_nat pk < maxj ->
    shell_expand genv pn pv xo dl ex uf (S (length s)) (cstr s rest) st =
    Ok (XBuf (cstr o (skipn (S (length o)) (cstr s rest))), st')
  | SStop StNull st' m pk =>
    Z.of_nat m < maxj -> Z.of_nat pk < maxj ->
    shell_expand genv pn pv xo dl ex uf (S (length s)) (cstr s rest) st = Ok (XNull, st')
  | SStop (StExt e) _ m pk =>
    Z.of_nat m < maxj -> Z.of_nat pk < maxj ->
    shell_expand genv pn pv xo dl ex uf (S (length s)) (cstr s rest) st = Ok (XExt e, st)
  | SFuel => False
  end.
Proof. exact expand_spec_holds. Qed.
Print Assumptions C10_expand_spec.

(* --- %dirscan stays inside its block: for EVERY listing (any number of names of any lengths) the
       accumulation loop of builtin_dirscan - strcat of the name and of a blank while name, blank and
       terminator fit the room n left in the CONFIG_BUFF block - runs without a fault: no store
       beyond the block, no read of a cell nobody wrote.  The block ends up holding a NUL-terminated,
       NUL-free text shorter than CONFIG_BUFF, namely dir_join: the names taken, in readdir order,
       each followed by a blank (a subsequence of the listing; all of it when names, blanks and the
       terminator fit). --- *)
Theorem C10_dirscan_in_bounds : forall names, Forall (Forall nz_byte) names ->
  exists rest', dirscan_loop names (Some 0 :: repeat None (CB - 1)) config_buff =
                  Ok (cstr (dir_join names [] config_buff) rest') /\
                length (cstr (dir_join names [] config_buff) rest') = CB /\
                Forall nz_byte (dir_join names [] config_buff) /\
                Z.of_nat (length (dir_join names [] config_buff)) < config_buff.
Proof. exact dirscan_in_bounds. Qed.
Print Assumptions C10_dirscan_in_bounds.

Theorem C10_dirscan_lists_names : forall names,
  (exists sel, subseq sel names /\ dir_join names [] config_buff = blanked sel) /\
  (Z.of_nat (length (blanked names)) < config_buff -> dir_join names [] config_buff = blanked names).
Proof. exact dirscan_lists_names. Qed.
Print Assumptions C10_dirscan_lists_names.

(* --- the variable store: after any history of puts and deletions from the empty store the list
       is strictly ascending by name and get k returns the value of the last put of k, unless k was
       deleted afterwards --- *)
Theorem C10_store_law : forall ops,
  sorted (fold_left apply_sop ops []) /\
  forall k, get_var (fold_left apply_sop ops []) k = last_write ops k.
Proof. exact store_law. Qed.
Print Assumptions C10_store_law.

Theorem C10_store_one_entry_per_name : forall st, sorted st -> NoDup (map fst st).
Proof. exact sorted_unique. Qed.
Print Assumptions C10_store_one_entry_per_name.

Theorem C10_store_put_get : forall st k v, get_var (put_var st k (Some v)) k = Some v.
Proof. exact get_put_same. Qed.
Print Assumptions C10_store_put_get.

Theorem C10_store_other_names_untouched : forall st k val k', k' <> k ->
  get_var (put_var st k val) k' = get_var st k'.
Proof. exact get_put_other. Qed.
Print Assumptions C10_store_other_names_untouched.

Theorem C10_store_delete_get : forall st k, sorted st -> get_var (put_var st k None) k = None.
Proof. exact get_delete_same. Qed.
Print Assumptions C10_store_delete_get.

(* --- the bounded copy used for ~, $VAR and built-in results is the C13 model of
       spiftool_safe_strncpy(dest + off, src, size) (proved exact in Properties/C13.v) --- *)
Theorem C10_copy_is_safe_strncpy : forall dest off src size, (off <= length dest)%nat ->
  strncpy_off dest off src size = safe_strncpy_at dest off src size.
Proof. exact strncpy_off_is_safe_strncpy_at. Qed.
Print Assumptions C10_copy_is_safe_strncpy.

(* ---------- non-vacuity: the hypotheses are met by concrete states and the model runs ---------- *)
Definition ex_env : list (list byte * list byte) := [([72; 79; 77; 69], [47; 104]); ([65], [118; 97])].   (* HOME=/h A=va *)

Example C10_ex_env_ok : forall n v, getenv_of ex_env n = Some v -> val_ok v.
Proof.
  apply getenv_of_ok. unfold ex_env, val_ok, small, nz_byte.
  repeat (constructor; cbn [fst snd length]); lia.
Qed.

(* "x~$A.${A}%put(k v)[%get(k)]\n" in a CONFIG_BUFF object whose slack was never written *)
Definition ex_text : list byte :=
  [120; 126; 36; 65; 46; 36; 123; 65; 125; 37; 112; 117; 116; 40; 107; 32; 118; 41; 91; 37; 103; 101; 116; 40; 107; 41; 93; 92; 110].

(* the outside world of the examples: "ls" prints "b  a\n", directory "d" holds x and yy *)
Definition ex_exec (c : list byte) : exec_answer :=
  if list_eq_dec Z.eq_dec c [108; 115] then ExecOut [98; 32; 32; 97; 10] else ExecRefused.
Definition ex_dir (d : list byte) : dir_answer :=
  if list_eq_dec Z.eq_dec d [100] then DirList [[120]; [121; 121]] else DirFail.

Example C10_ex_world_ok :
  (forall c o, ex_exec c = ExecOut o -> Forall is_byte o /\ small o) /\
  (forall d ns, ex_dir d = DirList ns -> Forall (Forall nz_byte) ns).
Proof.
  split.
  - intros c o. unfold ex_exec. destruct (list_eq_dec Z.eq_dec c [108; 115]); [|discriminate].
    intros E. injection E as <-. split; [repeat constructor; unfold is_byte; lia|unfold small; simpl; lia].
  - intros d ns. unfold ex_dir. destruct (list_eq_dec Z.eq_dec d [100]); [|discriminate].
    intros E. injection E as <-. repeat constructor; unfold nz_byte; lia.
Qed.

(* "[%exec(ls)|%dirscan(d)]" expands to "[b a|x yy ]" *)
Example C10_ex_world_run :
  match shell_expand (getenv_of ex_env) [69] [49] ex_exec ex_dir [] (fun _ _ => None) 24
          (cstr [91; 37; 101; 120; 101; 99; 40; 108; 115; 41; 124; 37; 100; 105; 114; 115; 99; 97; 110; 40; 100; 41; 93]
                (repeat None (CB - 24))) [] with
  | Ok (XBuf b, _) => take_str b = [91; 98; 32; 97; 124; 120; 32; 121; 121; 32; 93]
  | _ => False
  end.
Proof. vm_compute. reflexivity. Qed.

Example C10_ex_run :
  match shell_expand (getenv_of ex_env) [69] [49] ex_exec ex_dir [] (fun _ _ => None) (S (length ex_text))
                     (cstr ex_text (repeat None (CB - length ex_text - 1))) [] with
  | Ok (XBuf b, st) => take_str b = [120; 47; 104; 118; 97; 46; 118; 97; 91; 118; 93; 10] /\ st = [([107], [118])]
  | _ => False
  end.
Proof. vm_compute. split; reflexivity. Qed.

Example C10_ex_spec :
  expand_spec (getenv_of ex_env) [69] [49] ex_exec ex_dir [] (fun _ _ => None) ex_text [] =
  SOut [120; 47; 104; 118; 97; 46; 118; 97; 91; 118; 93; 10] [([107], [118])] 3.
Proof. vm_compute. reflexivity. Qed.

(* five functions registered by the application - f0 .. f3 and "" (the empty name: "%(" calls it) - with
   codes 7 .. 11; function k answers "<" ++ its argument ++ ">", f3 answers NULL *)
Definition ex_extra : list (list byte * Z) :=
  [([102; 48], 7); ([102; 49], 8); ([102; 50], 9); ([102; 51], 10); ([], 11)].
Definition ex_ufn (code : Z) (a : option (list byte)) : option (list byte) :=
  if code =? 10 then None else Some (60 :: match a with Some t => t | None => [] end ++ [62]).

Example C10_ex_functions_ok :
  Forall (fun e : list byte * Z => Forall nz_byte (fst e)) ex_extra /\
  (forall code a v, (forall o, a = Some o -> arg_ok o) -> ex_ufn code a = Some v -> val_ok v).
Proof.
  split; [unfold ex_extra, nz_byte; repeat constructor; cbn; lia|].
  intros code a v Ha. unfold ex_ufn. destruct (code =? 10); [discriminate|]. intros E. injection E as <-.
  assert (H : arg_ok match a with Some t => t | None => [] end).
  { destruct a as [t|]; [now apply Ha|]. split; [constructor|pose proof cb_bounds; simpl; lia]. }
  destruct H as [Hn Hs]. pose proof cb_bounds. split.
  - constructor; [unfold nz_byte; lia|]. apply Forall_app. split; [exact Hn|constructor; [unfold nz_byte; lia|constructor]].
  - unfold small. cbn [length]. rewrite app_length. cbn [length]. lia.
Qed.

(* "a 100% b %nosuch(1)|%f2(x %F0(y))|%f3(q)|%(z)|%f1 )w)|%f1": a % that starts no call in a table of 12 entries, a call to an
   unknown name, nested calls to registered functions (any letter case, both call forms), a function that answers
   NULL, the function with the empty name, a registered name without parentheses *)
Definition ex_ftext : list byte :=
  [97; 32; 49; 48; 48; 37; 32; 98; 32; 37; 110; 111; 115; 117; 99; 104; 40; 49; 41; 124; 37; 102; 50; 40; 120; 32; 37; 70; 48; 40; 121; 41; 41; 124; 37; 102; 51; 40; 113; 41; 124; 37; 40; 122; 41; 124; 37; 102; 49; 32; 41; 119; 41; 124; 37; 102; 49].
(* "a 100 b nosuch(1)|<x <y>>||<z>|<w>|f1" *)
Definition ex_fout : list byte :=
  [97; 32; 49; 48; 48; 32; 98; 32; 110; 111; 115; 117; 99; 104; 40; 49; 41; 124; 60; 120; 32; 60; 121; 62; 62; 124; 124; 60; 122; 62; 124; 60; 119; 62; 124; 102; 49].
Example C10_ex_functions_run :
  match shell_expand (getenv_of ex_env) [69] [49] ex_exec ex_dir ex_extra ex_ufn (S (length ex_ftext))
                     (cstr ex_ftext (repeat None (CB - length ex_ftext - 1))) [] with
  | Ok (XBuf b, st) => take_str b = ex_fout /\ st = []
  | _ => False
  end.
Proof. vm_compute. split; reflexivity. Qed.
Example C10_ex_functions_spec :
  expand_spec (getenv_of ex_env) [69] [49] ex_exec ex_dir ex_extra ex_ufn ex_ftext [] = SOut ex_fout [] 5.
Proof. vm_compute. reflexivity. Qed.

(* inputs that end inside a construct, in exactly sized objects *)
Example C10_ex_endings :
  forallb (fun s => is_ok (shell_expand_reads (getenv_of ex_env) [69] [49] ex_exec ex_dir [] (fun _ _ => None) (S (length s)) (cstr s []) []))
    [[92]; [37]; [36]; [36; 123]; [36; 40]; [36; 123; 65]; [37; 103; 101; 116; 40]; [39; 92]; [126]; [97; 96]] = true.
Proof. vm_compute. reflexivity. Qed.

Example C10_ex_store :
  fold_left apply_sop [SPut [107] [118]; SPut [97] [119]; SPut [107] [120]; SDel [97]] [] = [([107], [120])].
Proof. vm_compute. reflexivity. Qed.
