(* C10 - config value expansion is a pure function of line, environment and variable store.
   (statements are added as the proofs land) *)
From LV Require Import Base.Buf Expand.ExpandModel.
Local Open Scope Z_scope.

Example C10_ex_store : get_var (put_var (put_var [] [107] (Some [118])) [97] (Some [119])) [107] = Some [118].
Proof. vm_compute. reflexivity. Qed.
