(* C04, stage 2, class `array` (src/array.c) - the VECTOR interface (ordered insert, linear
   remove, BINARY-SEARCH find / contains, iterator, to_array).
   The heap object always represents exactly the ideal ascending multiset; outputs are the ideal
   ones except that `find` may return another stored element with the probe's key (the one the
   binary search meets first) - the freedom Cont/ContSpec.v documents.  Statements only. *)
From LV Require Import Cont.ContSpec Cont.ContKey Cont.VecProofs Cont.ArrayModel Cont.ArrayProofs Cont.ArrayRefine.
Local Open Scope Z_scope.

(* one operation on a sorted vector *)
Theorem C04_array_vector_step : forall (ys : vstate) op, vsorted ys -> fits ys -> fits (fst (vec_step ys op)) ->
  exists om, arr_vec_step (arr_of (map Some ys)) op = Ok (arr_of (map Some (fst (vec_step ys op))), om) /\
             vout_agree ys op om (snd (vec_step ys op)).
Proof. exact arr_vec_step_refines. Qed.
Print Assumptions C04_array_vector_step.

(* the binary search as written: on objects sorted against the probe it terminates within its
   fuel, never reads outside the block, and answers "an equal element / none exists" correctly *)
Theorem C04_array_bsearch : forall (ys : vstate) p, vsorted ys ->
  exists r, arr_bsearch ecmp (arr_of (map Some ys)) (Some p) = Ok r /\
            match r with
            | Some y => In y ys /\ ekey y = ekey p
            | None => forall z, In z ys -> ekey z <> ekey p
            end.
Proof.
  intros ys p Hs.
  destruct (arr_bsearch_spec ecmp p ys (bs_mono_sorted elem ekey (ekey p) ys Hs)) as (r & H & Hr).
  exists r. split; [exact H|]. destruct r as [y|]; cbn in Hr.
  - destruct Hr as [Hi Hc]. split; [exact Hi | apply key_cmp_eq; exact Hc].
  - rewrite Forall_forall in Hr. intros z Hz E. apply (Hr z Hz). unfold ecmp. rewrite E. apply key_cmp_refl.
Qed.
Print Assumptions C04_array_bsearch.

(* all histories: never Fault; the final object represents the ideal final state (the same
   elements in the same places, not merely the same keys); outputs agree as vout_agree says *)
Theorem C04_array_vector_refines : forall ops, run_fits vec_step (@length _) [] ops ->
  exists a om, arr_vec_run ops = Ok (a, om) /\ Repr_array a (map Some (final vec_step [] ops)) /\
               vouts_agree [] ops om.
Proof. exact array_vector_refines. Qed.
Print Assumptions C04_array_vector_refines.

(* compared by key (what the correspondence check prints) the outputs are the ideal ones *)
Theorem C04_array_vector_refines_by_key : forall ops, run_fits vec_step (@length _) [] ops ->
  exists a om, arr_vec_run ops = Ok (a, om) /\ Repr_array a (map Some (final vec_step [] ops)) /\
               map out_key om = map out_key (outs vec_step [] ops).
Proof. exact array_vector_refines_by_key. Qed.
Print Assumptions C04_array_vector_refines_by_key.

Theorem C04_array_vector_never_faults : forall ops, run_fits vec_step (@length _) [] ops ->
  is_ok (arr_vec_run ops) = true.
Proof. exact array_vector_never_faults. Qed.
Print Assumptions C04_array_vector_never_faults.

(* the length precondition is met by every history of at most INT_MAX operations *)
Theorem C04_array_short_histories_fit : forall ops, Z.of_nat (length ops) <= INT_MAX ->
  run_fits vec_step (@length _) [] ops.
Proof. intros ops H. apply run_fits_short_vec. exact H. Qed.
Print Assumptions C04_array_short_histories_fit.

(* non-vacuity: equal keys, where the binary search returns a DIFFERENT element than the ideal find *)
Definition ka : key := [97]. Definition kb : key := [98]. Definition kc : key := [99].
Definition ex_ops : list vop :=
  [VInsert (mkElem 0 kb); VInsert (mkElem 1 ka); VInsert (mkElem 2 kb); VInsert (mkElem 3 kb); VInsert (mkElem 4 kc);
   VFind (mkElem 5 kb); VRemove (mkElem 6 kb); VContains (mkElem 7 ka); VIterate].
Example C04_array_ex_run :
  arr_vec_run ex_ops =
  Ok (mkArr 4 (Some [Some (Some (mkElem 1 ka)); Some (Some (mkElem 2 kb)); Some (Some (mkElem 0 kb));
                     Some (Some (mkElem 4 kc))]),
      [OBool true; OBool true; OBool true; OBool true; OBool true; OElem (Some (mkElem 2 kb));
       OElem (Some (mkElem 3 kb)); OBool true;
       OElems [Some (mkElem 1 ka); Some (mkElem 2 kb); Some (mkElem 0 kb); Some (mkElem 4 kc)]]).
Proof. vm_compute. reflexivity. Qed.
Example C04_array_ex_spec_find_differs :
  nth 5 (outs vec_step [] ex_ops) OUnit = OElem (Some (mkElem 3 kb)).
Proof. vm_compute. reflexivity. Qed.
Example C04_array_ex_fits : run_fits vec_step (@length _) [] ex_ops.
Proof. apply C04_array_short_histories_fit. vm_compute. discriminate. Qed.
