(* C02, stage 2, class `array` (src/array.c) - the LIST interface.
   The pointer-level model Cont/ArrayModel.v (items block of exactly len slots, REALLOC / memmove /
   memset with checked bounds, int32 length arithmetic) refines the ideal sequence of
   Cont/ContSpec.v.  Only statements here, each closed by `exact`; Print Assumptions after each. *)
From LV Require Import Cont.ContSpec Cont.ContKey Cont.ListProofs Cont.ArrayModel Cont.ArrayProofs Cont.ArrayRefine.
Local Open Scope Z_scope.

(* the representation predicate is functional: one heap object per sequence, one sequence per object *)
Theorem C02_array_repr_is_function : forall A (a : arr A) xs, Repr_array a xs <-> a = arr_of xs.
Proof. exact Repr_array_iff. Qed.
Print Assumptions C02_array_repr_is_function.

Theorem C02_array_repr_injective : forall A (a : arr A) xs ys, Repr_array a xs -> Repr_array a ys -> xs = ys.
Proof. exact Repr_array_inj. Qed.
Print Assumptions C02_array_repr_injective.

(* one operation: from the object representing xs the C code (model) does not fault, returns the
   ideal result and leaves the object representing the ideal next state - for every operation of
   the list interface, every index value, every element, as long as the lengths fit spif_listidx_t *)
Theorem C02_array_list_step : forall (xs : lstate) op,
  fits xs -> fits (fst (list_step xs op)) ->
  arr_list_step (arr_of xs) op = Ok (arr_of (fst (list_step xs op)), snd (list_step xs op)).
Proof. exact arr_list_step_refines. Qed.
Print Assumptions C02_array_list_step.

(* all histories *)
Theorem C02_array_list_refines : forall ops, run_fits list_step (@length _) [] ops ->
  exists a, arr_list_run ops = Ok (a, outs list_step [] ops) /\ Repr_array a (final list_step [] ops).
Proof. exact array_list_refines. Qed.
Print Assumptions C02_array_list_refines.

Theorem C02_array_list_never_faults : forall ops, run_fits list_step (@length _) [] ops ->
  is_ok (arr_list_run ops) = true.
Proof. exact array_list_never_faults. Qed.
Print Assumptions C02_array_list_never_faults.

(* the read-back the correspondence check compares (count, get(i) for i in -n-1..n, fresh iterator),
   computed through the model's own get / iterator, is the ideal one *)
Theorem C02_array_readback : forall (xs : lstate), fits xs ->
  arr_list_readback (arr_of xs) = Ok (list_readback xs).
Proof. exact arr_list_readback_spec. Qed.
Print Assumptions C02_array_readback.

(* non-vacuity: a history with padding, refusal, removal, reversal and dup runs through the model;
   its lengths fit; and the bounds checks of the model are live *)
Definition ka : key := [97]. Definition kb : key := [98]. Definition kc : key := [99].
Definition ex_ops : list lop :=
  [LAppend (mkElem 0 ka); LInsertAt 3 (mkElem 1 kb); LInsertAt (-5) (mkElem 2 kc);
   LInsertAt (-4) (mkElem 3 kc); LRemoveAt (-1); LGet 5; LReverse; LIndex (mkElem 4 ka); LDup;
   LRemove (Some (mkElem 5 ka)); LInsert (mkElem 6 kb)].
Example C02_array_ex_fits : run_fits list_step (@length _) [] ex_ops.
Proof. unfold ex_ops. cbn [run_fits]. repeat split; vm_compute; discriminate. Qed.
Example C02_array_ex_run :
  arr_list_run ex_ops =
  Ok (mkArr 4 (Some [Some None; Some None; Some (Some (mkElem 6 kb)); Some (Some (mkElem 3 kc))]),
      outs list_step [] ex_ops).
Proof. vm_compute. reflexivity. Qed.
Example C02_array_ex_oob_read : blk_rd [Some (Some 1%nat)] 1 = Fault OOB_read.
Proof. reflexivity. Qed.
Example C02_array_ex_uninit : blk_rd [@None (option nat)] 0 = Fault Uninit_read.
Proof. reflexivity. Qed.
Example C02_array_ex_memmove_oob :
  blk_memmove [Some (Some 1%nat); Some (Some 2%nat)] 1 0 2 = Fault OOB_write.
Proof. reflexivity. Qed.
Example C02_array_ex_overflow : chk_inc INT_MAX = Fault Int_overflow.
Proof. reflexivity. Qed.
