(* C14 - URL objects decompose and recompose every well-formed URL exactly.
   Statements only; proofs are in Url/UrlProofs.v and Url/UrlRoundTrip.v. *)
From LV Require Import Base.Buf Url.UrlModel Url.UrlProofs Url.UrlRoundTrip.
Local Open Scope Z_scope.

(* Any byte string parses: the checked scanner (every strchr step and every pstr[k] a checked
   read, lookup results readable only when obtained) returns Ok and is the pure parser. *)
Theorem C14_url_total : forall s lookup,
  Forall nz_byte s -> url_parse_m (cstr s []) lookup = Ok (parse_pure s lookup).
Proof. exact url_total. Qed.
Print Assumptions C14_url_total.

(* parse (render c) = c with the port rule, for every well-formed tuple, with or without "//" *)
Theorem C14_url_parse_render : forall c slashes lookup,
  wf c slashes -> parse_pure (render c slashes) lookup = fill_port c lookup.
Proof. exact parse_render. Qed.
Print Assumptions C14_url_parse_render.

Theorem C14_url_model_round_trip : forall c slashes lookup,
  wf c slashes -> Forall nz_byte (render c slashes) ->
  url_parse_m (cstr (render c slashes) []) lookup = Ok (fill_port c lookup).
Proof. exact url_model_round_trip. Qed.
Print Assumptions C14_url_model_round_trip.

Theorem C14_url_canonical_fixpoint : forall c slashes lookup,
  wf c slashes -> c_host c <> None ->
  let c1 := snd (parse_pure (render c slashes) lookup) in
  snd (parse_pure (unparse_text c1) lookup) = c1.
Proof. exact url_canonical_fixpoint. Qed.
Print Assumptions C14_url_canonical_fixpoint.

Theorem C14_url_bare_fixpoint : forall c lookup,
  wf c false -> c_host c = None ->
  let c1 := snd (parse_pure (render c false) lookup) in
  snd (parse_pure (unparse_text c) lookup) = c1.
Proof. exact url_bare_fixpoint. Qed.
Print Assumptions C14_url_bare_fixpoint.

(* "//" always satisfies the no-false-protocol side condition *)
Theorem C14_wf_slashes : forall c slashes, wf c slashes -> wf c true.
Proof. exact wf_true. Qed.
Print Assumptions C14_wf_slashes.

(* The defect repaired by /repo commit 0291743, as a fact about the model of the ORIGINAL code:
   a protocol word that is itself an IP protocol name makes it read a servent never obtained. *)
Theorem C14_original_refuted :
  exists s lookup, Forall nz_byte s /\ url_parse_gen false (cstr s []) lookup = Fault Uninit_read.
Proof. exists [116; 58; 47; 47; 104], (fun _ => LProto). split; [repeat constructor; unfold nz_byte; lia|reflexivity]. Qed.
Print Assumptions C14_original_refuted.

(* non-vacuity: a full URL meets wf, and the model computes on it *)
Definition ex_c : comps :=
  mkComps (Some [104; 116; 116; 112]) (Some [117]) (Some [112; 58; 119]) (Some [104; 46; 111])
          None (Some [47; 97; 64; 98]) (Some [113; 63; 47]).
Example C14_ex_parse :
  parse_pure (render ex_c false) (fun _ => LServ 80 true) =
  (true, mkComps (Some [104; 116; 116; 112]) (Some [117]) (Some [112; 58; 119]) (Some [104; 46; 111])
                 (Some [56; 48]) (Some [47; 97; 64; 98]) (Some [113; 63; 47])).
Proof. vm_compute. reflexivity. Qed.
Example C14_ex_wf : wf ex_c false.
Proof.
  constructor; unfold ex_c; cbn [c_proto c_user c_passwd c_host c_port c_path c_query];
    try (intros x [= <-]); try discriminate; try reflexivity;
    repeat split; try discriminate; try (eexists; reflexivity);
    try (repeat constructor; unfold ch_colon, ch_at, ch_slash, ch_quest; lia).
Qed.
