(* C13, part "exact fit": blocks that end exactly where the helper must stop looking.  Statements only.
   In the model a buffer is the list of cells from the pointer to the END OF THE BLOCK and every access beyond it
   is a Fault, so "`tail` may be empty" is "nothing need follow the bytes the contract lets the helper read". *)
From LV Require Import Base.Buf Strings.HelpersModel Strings.HelpersProofs Strings.HelpersProofs3.
Local Open Scope Z_scope.

(* a destination with no NUL within `size` bytes is refused after looking at exactly `size` bytes: tail = [] and
   size = |d| is the block that ends there (C13_safe_strncat_full with the block made explicit) *)
Theorem C13_safe_strncat_full_exact_block : forall d src,
  Forall nz_byte d -> d <> [] ->
  safe_strncat (bytes d) src (Z.of_nat (length d)) = Ok (false, bytes d).
Proof. exact safe_strncat_full_exact_block. Qed.
Print Assumptions C13_safe_strncat_full_exact_block.

(* a source without a terminator: at most `size` bytes of it are read *)
Theorem C13_safe_strncpy_unterminated_source : forall s tail dest size,
  Forall nz_byte s -> 1 <= size -> size <= blen dest -> size <= Z.of_nat (length s) ->
  safe_strncpy dest (bytes s ++ tail) size =
  Ok (false, bytes (firstn (Z.to_nat (size - 1)) s) ++ Some 0 :: skipn (Z.to_nat size) dest).
Proof. exact safe_strncpy_unterminated. Qed.
Print Assumptions C13_safe_strncpy_unterminated_source.

Theorem C13_safe_strncat_unterminated_source : forall d drest s tail size,
  Forall nz_byte d -> Forall nz_byte s ->
  1 <= size -> Z.of_nat (length d) < size -> size <= blen (cstr d drest) ->
  size - Z.of_nat (length d) <= Z.of_nat (length s) ->
  let room := (Z.to_nat (size - 1) - length d)%nat in
  safe_strncat (cstr d drest) (bytes s ++ tail) size =
  Ok (false, bytes d ++ bytes (firstn room s) ++ Some 0 :: skipn room drest).
Proof. exact safe_strncat_unterminated. Qed.
Print Assumptions C13_safe_strncat_unterminated_source.

(* safe_str needs exactly `len` cells and no terminator *)
Theorem C13_safe_str_exact_block : forall s : list Z,
  safe_str (bytes s) (length s) = Ok (bytes (map (fun c => if iscntrl c then 46 else c) s)).
Proof. exact safe_str_exact_block. Qed.
Print Assumptions C13_safe_str_exact_block.

(* non-vacuity: the seeded change seeded/C13-r3-r334 on its smallest input -- one byte, no terminator, size 1 -- and a
   source block of exactly `size` bytes *)
Example C13_ex_full_block : safe_strncat [Some 100] [Some 0] 1 = Ok (false, [Some 100]).
Proof. vm_compute. reflexivity. Qed.
Example C13_ex_one_past : safe_strncat [Some 100] [Some 0] 2 = Fault OOB_read.
Proof. vm_compute. reflexivity. Qed.
Example C13_ex_raw_source :
  safe_strncpy [None; None; None] [Some 97; Some 98; Some 99] 3 = Ok (false, [Some 97; Some 98; Some 0]) /\
  safe_strncpy [None; None; None] [Some 97; Some 98] 3 = Fault OOB_read.
Proof. vm_compute. split; reflexivity. Qed.
