(* C04, stage 2, class linked_list (src/linked_list.c through the VECTOR interface).
   ContSpec leaves the place of a new element among EQUAL keys, and which of several equal elements
   find / remove return, to the class.  linked_list puts a new element BEHIND an equal head
   (spif_linked_list_insert tests the head with LESS, later items with GREATER); the ideal multiset
   vec_step puts it in front.  So the refinement is stated in two layers:
     - exactly (identities included) against the class-level sequence function LListModel.llv_step,
     - by key against the ideal multiset ContSpec.vec_step (out_key / map ekey, as C04.v documents),
   plus, by identity, conservation and membership for what the class itself stores.
   ReprV s o ys = Repr elem s o (map Some ys): the head->next chain spells ys (no NULL data), len =
   length, acyclic, no other live item.  Statements only; Print Assumptions after each. *)
From LV Require Import Cont.ContSpec Cont.ContKey Cont.VecProofs Cont.LListModel Cont.LListHeap Cont.LListOps
  Cont.LListVecProofs.
From Coq Require Import Sorting.Permutation Sorting.Sorted.
Local Open Scope Z_scope.

(* the refinement theorem: every history, never a Fault, outputs and final sequence those of the
   ideal ascending multiset up to the choice among equal keys, links well formed *)
Theorem C04_linked_list_refines : forall ops,
  exists s' o' ys outs_m,
    run_model ll_vec_step lst0 ops = Ok ((s', o'), outs_m) /\
    ReprV s' o' ys /\ StronglySorted ele ys /\
    map ekey ys = map ekey (final vec_step [] ops) /\
    map out_key outs_m = map out_key (outs vec_step [] ops).
Proof. exact linked_list_vector_refines. Qed.
Print Assumptions C04_linked_list_refines.

(* exact layer: pointer-level model = class-level sequence function, identities included *)
Theorem C04_linked_list_refines_class_from : forall ops s o ys, ReprV s o ys -> StronglySorted ele ys ->
  exists s' o', run_model ll_vec_step (s, o) ops = Ok ((s', o'), outs llv_step ys ops) /\
    ReprV s' o' (final llv_step ys ops) /\ StronglySorted ele (final llv_step ys ops).
Proof. exact linked_list_vector_refines_class_from. Qed.
Print Assumptions C04_linked_list_refines_class_from.

Theorem C04_linked_list_step : forall s o ys op, ReprV s o ys -> StronglySorted ele ys ->
  exists s' o', ll_vec_step (s, o) op = Ok ((s', o'), snd (llv_step ys op)) /\
    ReprV s' o' (fst (llv_step ys op)).
Proof. exact ll_vec_step_ok. Qed.
Print Assumptions C04_linked_list_step.

(* key layer: the class-level function and the ideal multiset agree on every key-level observable *)
Theorem C04_linked_list_class_vs_ideal_by_key : forall ops ys xs, StronglySorted ele ys ->
  map ekey ys = map ekey xs ->
  map ekey (final llv_step ys ops) = map ekey (final vec_step xs ops) /\
  map out_key (outs llv_step ys ops) = map out_key (outs vec_step xs ops).
Proof. exact llv_run_keys. Qed.
Print Assumptions C04_linked_list_class_vs_ideal_by_key.

Theorem C04_linked_list_sorted_after_every_history : forall ops, StronglySorted ele (final llv_step [] ops).
Proof. exact llv_sorted_all. Qed.
Print Assumptions C04_linked_list_sorted_after_every_history.

(* identities: stored + handed back = inserted; find / remove return objects the vector stores *)
Theorem C04_linked_list_contents : forall ops,
  Permutation (final llv_step [] ops ++ llv_handed [] ops) (v_inserted ops).
Proof. exact llv_contents. Qed.
Print Assumptions C04_linked_list_contents.

Theorem C04_linked_list_find_remove_member : forall ys p x,
  (snd (llv_step ys (VFind p)) = OElem (Some x) \/ snd (llv_step ys (VRemove p)) = OElem (Some x)) ->
  In x ys /\ ekey x = ekey p.
Proof. exact llv_find_remove_member. Qed.
Print Assumptions C04_linked_list_find_remove_member.

Theorem C04_linked_list_never_faults : forall ops, is_ok (run_model ll_vec_step lst0 ops) = true.
Proof. exact linked_list_vector_safe. Qed.
Print Assumptions C04_linked_list_never_faults.

Theorem C04_linked_list_no_leak : forall ops,
  exists s' o' outs_m s'', run_model ll_vec_step lst0 ops = Ok ((s', o'), outs_m) /\
    ll_del elem s' o' = Ok s'' /\ forall j n, nth_error s'' j <> Some (Some n).
Proof. exact linked_list_vector_no_leak. Qed.
Print Assumptions C04_linked_list_no_leak.

Theorem C04_linked_list_dump : forall s o ys, ReprV s o ys ->
  ll_dump elem s o = Ok (map Some ys) /\ ll_len o = Z.of_nat (length ys).
Proof. exact ReprV_dump. Qed.
Print Assumptions C04_linked_list_dump.

(* non-vacuity: equal keys, where class and ideal multiset order identities differently *)
Definition vka : key := [97]. Definition vkb : key := [98].
Definition llv_ex_ops : list vop :=
  [VInsert (mkElem 0 vkb); VInsert (mkElem 1 vka); VInsert (mkElem 2 vka); VInsert (mkElem 3 vkb);
   VFind (mkElem 4 vka); VRemove (mkElem 5 vka); VContains (mkElem 6 vkb); VIterate; VToArray; VCount].
Example C04_linked_list_ex_run :
  exists st, run_model ll_vec_step lst0 llv_ex_ops = Ok (st, outs llv_step [] llv_ex_ops) /\
    ll_dump elem (fst st) (snd st) = Ok [Some (mkElem 2 vka); Some (mkElem 3 vkb); Some (mkElem 0 vkb)] /\
    final vec_step [] llv_ex_ops = [mkElem 1 vka; mkElem 3 vkb; mkElem 0 vkb].
Proof. eexists. repeat split; vm_compute; reflexivity. Qed.
