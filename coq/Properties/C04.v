(* C04 - every vector implementation is the same sorted multiset.
   STAGE 1: theorems about the ideal object (Cont/ContSpec.v: vec_step over an ascending list of
   elements), proved for ALL histories.  The correspondence check ties the three real classes to
   this object.  Stage 2 adds, per class, the refinement theorem (pointer-level model = this
   spec up to the choice among equal elements, see C04_results_depend_on_keys_only).
   This file holds only statements, each closed by `exact`, and Print Assumptions. *)
From LV Require Import Cont.ContSpec Cont.ContKey Cont.VecProofs.
From Coq Require Import Sorting.Sorted Sorting.Permutation.
Local Open Scope Z_scope.

(* ascending after every history, hence after every prefix of every history *)
Theorem C04_sorted_after_every_history : forall ops, StronglySorted ele (final vec_step [] ops).
Proof. exact vec_sorted_all. Qed.
Print Assumptions C04_sorted_after_every_history.

Theorem C04_sorted_after_every_prefix : forall ops n, StronglySorted ele (final vec_step [] (firstn n ops)).
Proof. exact vec_sorted_prefix. Qed.
Print Assumptions C04_sorted_after_every_prefix.

(* contents: stored elements plus elements handed back by remove = inserted elements (as multisets,
   with identities) *)
Theorem C04_contents_inserted_minus_removed : forall ops,
  Permutation (final vec_step [] ops ++ v_handed [] ops) (v_inserted ops).
Proof. exact vec_contents. Qed.
Print Assumptions C04_contents_inserted_minus_removed.

Theorem C04_no_object_stored_twice : forall ops, NoDup (map eid (v_inserted ops)) ->
  NoDup (map eid (final vec_step [] ops)).
Proof. exact vec_nodup. Qed.
Print Assumptions C04_no_object_stored_twice.

(* find returns a stored element equal to the probe iff one is present *)
Theorem C04_find_iff_present : forall xs p,
  (exists x, In x xs /\ ekey x = p) <-> (exists x, v_find xs p = Some x /\ In x xs /\ ekey x = p).
Proof. exact v_find_iff. Qed.
Print Assumptions C04_find_iff_present.

Theorem C04_find_none_iff_absent : forall xs p, v_find xs p = None <-> (forall x, In x xs -> ekey x <> p).
Proof. exact v_find_none. Qed.
Print Assumptions C04_find_none_iff_absent.

(* remove takes out exactly one element with the probe's key, or nothing when none is present *)
Theorem C04_remove_exactly_one : forall p xs xs' r, v_rem p xs = (xs', r) ->
  (exists x l1 l2, r = Some x /\ ekey x = p /\ xs = l1 ++ x :: l2 /\ xs' = l1 ++ l2 /\
                   forall y, In y l1 -> ekey y <> p)
  \/ (r = None /\ xs' = xs /\ forall y, In y xs -> ekey y <> p).
Proof. exact v_rem_spec. Qed.
Print Assumptions C04_remove_exactly_one.

(* iteration and to_array show exactly the state *)
Theorem C04_iterate_and_to_array : forall s,
  snd (vec_step s VIterate) = OElems (map Some s) /\ snd (vec_step s VToArray) = OElems (map Some s).
Proof. exact vec_iterate_exact. Qed.
Print Assumptions C04_iterate_and_to_array.

(* Elements that compare equal have the same key text; hence two runs that start from states with
   the same key sequence and receive the same operations up to element identity - in particular
   runs of classes that place or pick equal elements differently - agree on every key-level
   result and stay key-equal. *)
Theorem C04_results_depend_on_keys_only : forall ops1 ops2 s1 s2,
  map ekey s1 = map ekey s2 -> map vop_key ops1 = map vop_key ops2 ->
  map ekey (final vec_step s1 ops1) = map ekey (final vec_step s2 ops2) /\
  map out_key (outs vec_step s1 ops1) = map out_key (outs vec_step s2 ops2).
Proof. exact vec_run_keys. Qed.
Print Assumptions C04_results_depend_on_keys_only.

Theorem C04_equal_by_comparison_is_equal_text : forall a b, key_cmp a b = Eq <-> a = b.
Proof. exact key_cmp_eq_iff. Qed.
Print Assumptions C04_equal_by_comparison_is_equal_text.

(* non-vacuity *)
Definition ka : key := [97]. Definition kb : key := [98]. Definition kc : key := [99].
Example C04_ex_run :
  vec_run [] [VInsert (mkElem 0 kb); VInsert (mkElem 1 ka); VInsert (mkElem 2 kb); VFind (mkElem 3 kb);
              VRemove (mkElem 4 kb); VRemove (mkElem 5 kc); VToArray] =
  ([mkElem 1 ka; mkElem 0 kb],
   [OBool true; OBool true; OBool true; OElem (Some (mkElem 2 kb)); OElem (Some (mkElem 2 kb)); OElem None;
    OElems [Some (mkElem 1 ka); Some (mkElem 0 kb)]]).
Proof. vm_compute. reflexivity. Qed.
Example C04_ex_keys : key_cmp [97; 98] [97] = Gt /\ key_cmp [97] [97; 98] = Lt /\ key_cmp [200] [97] = Gt.
Proof. vm_compute. auto. Qed.
