(* C12, part "tok object": the tok class gives the grammar's token list on EVERY evaluation of an object, not only
   the first -- after its source, separators or quote characters were changed, after it was copied, after it was
   reset.  Statements only; models and specification in Split/TokObjModel.v (`tok_run` = the code's object over a
   list of operations, `spec_run` = the ideal object whose evaluations are `map trim (tokens_g cfg sep src)` of the
   members it has at that moment). *)
From LV Require Import Base.Buf Split.SplitModel Split.TokObjModel Split.TokObjProofs.
Local Open Scope Z_scope.

(* the scanner of spif_tok_eval with configurable quote, dquote and escape characters is the quoting grammar over
   those characters, for every configuration, delimiter set and C string, whatever follows the terminator *)
Theorem C12_tok_eval_any_quotes_is_grammar : forall g d s rest, Forall nz_byte s ->
  tok_eval_g g d (cstr s rest) = Ok (map trim (tokens_g g d s)).
Proof. exact tok_eval_g_is_tokens_g. Qed.
Print Assumptions C12_tok_eval_any_quotes_is_grammar.

(* with the default characters (39, 34, 92: single quote, double quote, backslash) that scanner and that grammar are the ones of C12.v (which split agrees with) *)
Theorem C12_tok_default_quotes_scanner : forall d src, tok_eval_g default_cfg d src = tok_eval d src.
Proof. exact tok_eval_g_default. Qed.
Print Assumptions C12_tok_default_quotes_scanner.

Theorem C12_tok_default_quotes_grammar : forall d s, tokens_g default_cfg d s = tokens d s.
Proof. exact tokens_g_default. Qed.
Print Assumptions C12_tok_default_quotes_grammar.

(* every history of set_src / set_sep / set_quote / set_dquote / set_escape / eval / dup (continue with the copy) /
   dup-and-evaluate-the-copy / done, of any length, from any object: no fault, and exactly the ideal object's outputs *)
Theorem C12_tok_history_exact : forall ops o,
  src_ok (t_src o) -> Forall op_ok ops ->
  tok_run o ops = Ok (spec_run o ops).
Proof. exact tok_history_exact. Qed.
Print Assumptions C12_tok_history_exact.

(* the second evaluation of one object, after a new source and new separators: the answer for the new source alone,
   which is also split's answer (trimmed) *)
Theorem C12_tok_second_eval : forall s1 s2 d2,
  Forall nz_byte s1 -> Forall nz_byte s2 ->
  exists o', tok_run (tok_new (Some s1)) [TEval; TSetSrc (Some s2); TSetSep d2; TEval] =
    Ok (o', [OEval (Some (map trim (tokens None s1))); OEval (Some (map trim (tokens d2 s2)))]) /\
    split d2 (cstr s2 []) = Ok (match tokens d2 s2 with [] => None | l => Some l end).
Proof. exact tok_second_eval. Qed.
Print Assumptions C12_tok_second_eval.

(* ---- non-vacuity: the model runs, and a history with three evaluations says what the property names ---- *)
(* "a b c" evaluated (3 tokens), then "x:y" with the set ":" (2 tokens, none of the old ones), then the copy *)
Example C12_ex_history :
  tok_run (tok_new (Some [97; 32; 98; 32; 99]))
          [TEval; TSetSrc (Some [120; 58; 121]); TSetSep (Some [58]); TEval; TDup; TEval] =
  Ok ({| t_src := Some [120; 58; 121]; t_sep := Some [58]; t_cfg := default_cfg; t_toks := Some [[120]; [121]] |},
      [OEval (Some [[97]; [98]; [99]]); OEval (Some [[120]; [121]]); OToks (Some [[120]; [121]]);
       OEval (Some [[120]; [121]])]).
Proof. vm_compute. reflexivity. Qed.
(* other quote characters: with quote = 124 (a bar) the text a|b c|d is one token, with the defaults it is two *)
Example C12_ex_quote_setter :
  tok_run (tok_new (Some [97; 124; 98; 32; 99; 124; 100])) [TEval; TSetQuote 124; TEval; TSetQuote 39; TEval] =
  Ok ({| t_src := Some [97; 124; 98; 32; 99; 124; 100]; t_sep := None; t_cfg := default_cfg;
         t_toks := Some [[97; 124; 98]; [99; 124; 100]] |},
      [OEval (Some [[97; 124; 98]; [99; 124; 100]]); OEval (Some [[97; 98; 32; 99; 100]]);
       OEval (Some [[97; 124; 98]; [99; 124; 100]])]).
Proof. vm_compute. reflexivity. Qed.
(* an object without a source refuses and keeps what it had *)
Example C12_ex_no_source :
  tok_run (tok_new None) [TEval; TDup] = Ok (tok_new None, [OEval None; OToks None]).
Proof. vm_compute. reflexivity. Qed.
