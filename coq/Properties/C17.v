(* C17 - provisional: statements are added as the proofs land. *)
From LV Require Import Base.Buf Vercmp.VercmpModel.
Local Open Scope Z_scope.

Example C17_ex_pre_below_bare : vercmp [49; 46; 48; 112; 114; 101; 50] [49; 46; 48] = Ok Lt.
Proof. vm_compute. reflexivity. Qed.
Example C17_ex_orig_mismatch_uninit : vercmp_gen true false [97] [49] = Fault Uninit_read.
Proof. vm_compute. reflexivity. Qed.
Example C17_ex_orig_overflow : vercmp_gen false true (repeat 97 128) (repeat 97 128) = Fault OOB_write.
Proof. vm_compute. reflexivity. Qed.
