(* C17 - spiftool_version_compare is a safe, deterministic, antisymmetric order.
   Statements only, each closed by `exact`, with Print Assumptions; then examples.
   `vercmp` is the model of the repaired function (Vercmp/VercmpModel.v): its two arguments
   are the texts of two C strings (lists of non-zero bytes), its scratch buffers are cell
   lists that start uninitialised, its result is `Ok c` or `Fault f`. *)
From LV Require Import Base.Buf Vercmp.VercmpModel Vercmp.VercmpProofs Vercmp.VercmpOrder.
Local Open Scope Z_scope.

(* memory safety and termination: no Fault of any kind (no access outside the two scratch
   buffers, no read of an uninitialised cell, no fuel exhaustion) for all strings, all run lengths *)
Theorem C17_vercmp_safe : forall a b : list Z,
  Forall nz_byte a -> Forall nz_byte b -> exists c, vercmp a b = Ok c.
Proof. exact vercmp_safe. Qed.
Print Assumptions C17_vercmp_safe.

(* determinism: started on ANY content of the two scratch buffers (in place of the
   uninitialised cells) the loop returns the same value *)
Theorem C17_vercmp_deterministic : forall (a b : list Z) (b1 b2 : buf),
  Forall nz_byte a -> Forall nz_byte b -> length b1 = vc_bufsz1 -> length b2 = vc_bufsz2 ->
  vc_loop true true (S (length a)) a b b1 b2 = vercmp a b.
Proof. exact vercmp_deterministic. Qed.
Print Assumptions C17_vercmp_deterministic.

Theorem C17_vercmp_refl : forall a : list Z, Forall nz_byte a -> vercmp a a = Ok Eq.
Proof. exact vercmp_refl. Qed.
Print Assumptions C17_vercmp_refl.

Theorem C17_vercmp_antisym : forall a b : list Z, Forall nz_byte a -> Forall nz_byte b ->
  exists c, vercmp a b = Ok c /\ vercmp b a = Ok (CompOpp c).
Proof. exact vercmp_antisym. Qed.
Print Assumptions C17_vercmp_antisym.

(* dotted numeric versions: components compared by value (any number of digits, leading
   zeros ignored), first difference decides, a proper prefix is smaller *)
Theorem C17_numeric_order : forall ds1 ds2 : list (list Z),
  Forall is_digits ds1 -> Forall is_digits ds2 ->
  vercmp (dotted ds1) (dotted ds2) = Ok (lex_nums (map dval ds1) (map dval ds2)).
Proof. exact vercmp_numeric_order. Qed.
Print Assumptions C17_numeric_order.

Theorem C17_longer_numeric_wins : forall ds more : list (list Z),
  Forall is_digits ds -> Forall is_digits more -> more <> [] ->
  vercmp (dotted ds) (dotted (ds ++ more)) = Ok Lt /\ vercmp (dotted (ds ++ more)) (dotted ds) = Ok Gt.
Proof. exact vercmp_longer_numeric_wins. Qed.
Print Assumptions C17_longer_numeric_wins.

(* any version V against V followed by a suffix t that starts a new run: below V exactly when
   t begins (case-insensitively) with snap, pre, alpha or beta; above otherwise *)
Theorem C17_suffix_rule : forall V t : list Z,
  Forall nz_byte V -> Forall nz_byte t -> t <> [] -> sep V t ->
  vercmp (V ++ t) V = Ok (if begins_below t then Lt else Gt) /\
  vercmp V (V ++ t) = Ok (if begins_below t then Gt else Lt).
Proof. exact vercmp_suffix_rule. Qed.
Print Assumptions C17_suffix_rule.

(* ... in particular a dotted numeric version with a word suffix (and anything after the word) *)
Theorem C17_wf_suffix : forall (ds : list (list Z)) (w X : list Z),
  ds <> [] -> Forall is_digits ds -> is_word w -> noalpha X -> Forall nz_byte X ->
  vercmp (dotted ds ++ w ++ X) (dotted ds) = Ok (if begins_below (w ++ X) then Lt else Gt) /\
  vercmp (dotted ds) (dotted ds ++ w ++ X) = Ok (if begins_below (w ++ X) then Gt else Lt).
Proof. exact vercmp_wf_suffix. Qed.
Print Assumptions C17_wf_suffix.

(* snap < pre < alpha < beta < rc (positions 0..4 of prerelease_words), in any letter case,
   after the same numeric version, whatever follows the words *)
Theorem C17_wf_prerelease_order : forall (ds : list (list Z)) (w1 w2 X1 X2 : list Z) (i j : nat),
  ds <> [] -> Forall is_digits ds ->
  nth_error prerelease_words i = Some (map tolower w1) ->
  nth_error prerelease_words j = Some (map tolower w2) -> i <> j ->
  noalpha X1 -> noalpha X2 -> Forall nz_byte X1 -> Forall nz_byte X2 ->
  vercmp (dotted ds ++ w1 ++ X1) (dotted ds ++ w2 ++ X2) = Ok (i ?= j)%nat.
Proof. exact vercmp_wf_prerelease. Qed.
Print Assumptions C17_wf_prerelease_order.

(* numbers after any common prefix that ends at a run boundary (a later component, the number
   of a suffix): by value; equal values hand over to what follows *)
Theorem C17_number_after_prefix : forall V d1 d2 X1 X2 : list Z,
  Forall nz_byte V -> Forall nz_byte X1 -> Forall nz_byte X2 ->
  is_digits d1 -> is_digits d2 -> nodigit X1 -> nodigit X2 -> sep V d1 -> sep V d2 ->
  exists r, vercmp X1 X2 = Ok r /\
    vercmp (V ++ d1 ++ X1) (V ++ d2 ++ X2) = Ok (match dval d1 ?= dval d2 with Eq => r | c => c end).
Proof. exact vercmp_number_after_prefix. Qed.
Print Assumptions C17_number_after_prefix.

(* ---- the unrepaired behaviours are faults of the model (so the theorems above have teeth) ---- *)
(* original run copies (no bound): 128 letters overflow the scratch buffer *)
Theorem C17_orig_copy_refuted : exists a b : list Z,
  Forall nz_byte a /\ Forall nz_byte b /\ vercmp_gen false true a b = Fault OOB_write.
Proof.
  exists (repeat 97 128), (repeat 97 128). split; [|split].
  - apply Forall_forall. intros x Hx. apply repeat_spec in Hx. subst. unfold nz_byte. lia.
  - apply Forall_forall. intros x Hx. apply repeat_spec in Hx. subst. unfold nz_byte. lia.
  - vm_compute. reflexivity.
Qed.
Print Assumptions C17_orig_copy_refuted.

(* original class-mismatch branch (compares the scratch buffers): "a" against "1" reads
   uninitialised cells *)
Theorem C17_orig_mismatch_refuted : vercmp_gen true false [97] [49] = Fault Uninit_read.
Proof. vm_compute. reflexivity. Qed.
Print Assumptions C17_orig_mismatch_refuted.

(* ---- non-vacuity and samples ---- *)
Example C17_ex_hyps : Forall is_digits [[49]; [50; 55]; [51]] /\ is_word pre /\ sep [49; 46; 48] pre /\ noalpha [50].
Proof.
  split; [|split; [|split]].
  - repeat (constructor; [split; [discriminate | reflexivity]|]). constructor.
  - split; [discriminate | reflexivity].
  - right; right. reflexivity.
  - right. reflexivity.
Qed.
Example C17_ex_pre_below_bare : vercmp [49; 46; 48; 112; 114; 101; 50] [49; 46; 48] = Ok Lt.      (* 1.0pre2 < 1.0 *)
Proof. vm_compute. reflexivity. Qed.
Example C17_ex_rc_above_bare : vercmp [57; 46; 57] [57; 46; 57; 114; 99; 49] = Ok Lt.             (* 9.9 < 9.9rc1 *)
Proof. vm_compute. reflexivity. Qed.
Example C17_ex_numeric : vercmp [48; 46; 49; 48] [48; 46; 57; 46; 50] = Ok Gt.                    (* 0.10 > 0.9.2 *)
Proof. vm_compute. reflexivity. Qed.
Example C17_ex_big : vercmp (repeat 57 20) [49] = Ok Gt /\ vercmp [50;49;52;55;52;56;51;54;52;56] [48] = Ok Gt.
Proof. vm_compute. split; reflexivity. Qed.                                                      (* 99999999999999999999 > 1, 2147483648 > 0 *)
Example C17_ex_long_runs : vercmp (repeat 97 300) (repeat 97 300 ++ [46; 49]) = Ok Lt.
Proof. vm_compute. reflexivity. Qed.
(* the relation is not transitive (class-mismatch rule): 1.0pre2 < 1.0 < 1.0.1 but 1.0pre2 > 1.0.1 *)
Example C17_ex_not_transitive :
  vercmp [49;46;48;112;114;101;50] [49;46;48] = Ok Lt /\ vercmp [49;46;48] [49;46;48;46;49] = Ok Lt /\
  vercmp [49;46;48;112;114;101;50] [49;46;48;46;49] = Ok Gt.
Proof. vm_compute. repeat split; reflexivity. Qed.
