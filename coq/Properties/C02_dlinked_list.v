(* C02, class dlinked_list (stage 2): the pointer-level model of /repo/src/dlinked_list.c
   (Cont/DListModel.v: items in a store of cells, every x->next / x->prev / x->data assignment a
   store update, every traversal on explicit fuel, freed or unknown addresses fault) refines the
   ideal sequence of Cont/ContSpec.v for EVERY history of list-interface operations.
   Repr st o xs = the next-chain from head spells xs and ends in NULL, the prev-chain from tail
   spells rev xs, head->prev = tail->next = NULL, len = length xs, item addresses pairwise
   distinct, and no other cell of the store is live (no leak, no dangling link).
   hist_pre lop_pre: ContSpec's stated preconditions (ordered insert only on an ascending,
   placeholder-free sequence whose first key differs from the new key) and lengths within the
   32-bit spif_listidx_t.  Statements only; proofs in Cont/DList*.v. *)
From LV Require Import Cont.ContSpec Cont.ContKey Cont.ListProofs Cont.VecProofs
  Cont.DListModel Cont.DListStore Cont.DListOps Cont.DListPure Cont.DListProofs.
From Coq Require Import Sorting.Sorted.
Local Open Scope Z_scope.

(* every history: never a Fault (no NULL / freed / out-of-fuel access, no int overflow), the same
   outputs as the ideal sequence, and the final store represents the ideal final state *)
Theorem C02_dlinked_list_list_refines : forall ops, hist_pre lop_pre list_step [] ops ->
  exists st o, run_model dl_list_step e_init ops = Ok ((st, o), outs list_step [] ops) /\
    Repr st o (final list_step [] ops).
Proof. exact dlinked_list_list_refines. Qed.
Print Assumptions C02_dlinked_list_list_refines.

(* one operation from ANY represented state (all 15 operations incl. dup, all index values) *)
Theorem C02_dlinked_list_step_refines : forall (st : store elem) o xs op, Repr st o xs -> lop_pre xs op ->
  exists st' o', dl_list_step (st, o) op = Ok ((st', o'), snd (list_step xs op)) /\
                 Repr st' o' (fst (list_step xs op)).
Proof. exact dl_list_step_refines. Qed.
Print Assumptions C02_dlinked_list_step_refines.

(* what Repr means for the links, in the terms of the level-B dump of harness/cont.c *)
Theorem C02_dlinked_list_links : forall D (st : store D) o xs, Repr st o xs -> dlen o <= 4000 ->
  dl_dump st o = Ok (mkDump D (Z.of_nat (length xs)) xs false (rev xs) false
                            (match xs with [] => None | _ => Some false end)
                            (match xs with [] => None | _ => Some false end)).
Proof. exact dl_dump_repr. Qed.
Print Assumptions C02_dlinked_list_links.

(* a fresh iterator over a represented state yields the sequence once, in order *)
Theorem C02_dlinked_list_iterator : forall D (st : store D) o cs, Shape st o cs -> dl_iterate st o = Ok (vals cs).
Proof. exact dl_iterate_spec. Qed.
Print Assumptions C02_dlinked_list_iterator.

(* deleting the container frees every item: nothing stays live in the store *)
Theorem C02_dlinked_list_teardown : forall D (st : store D) o xs, Repr st o xs ->
  exists st', dl_done st o = Ok (st', dl_init) /\ forall a, lookup st' a = None.
Proof. exact dl_done_frees_all. Qed.
Print Assumptions C02_dlinked_list_teardown.

(* non-vacuity *)
Definition ka : key := [97]. Definition kb : key := [98]. Definition kc : key := [99].
Definition ex_ops : list lop :=
  [LAppend (mkElem 0 kb); LInsertAt 3 (mkElem 1 kc); LInsertAt (-5) (mkElem 2 ka); LPrepend (mkElem 3 ka);
   LRemoveAt (-1); LReverse; LGet 1; LIndex (mkElem 4 kb); LDup; LInsertAt 2 (mkElem 5 kc);
   LRemove (Some (mkElem 6 ka)); LIterate].
Example C02_dlinked_list_ex_pre : hist_pre lop_pre list_step [] ex_ops.
Proof. cbv. intuition discriminate. Qed.
Example C02_dlinked_list_ex_run :
  match run_model dl_list_step e_init ex_ops with
  | Ok (_, os) => os = outs list_step [] ex_ops
  | Fault _ => False
  end.
Proof. vm_compute. reflexivity. Qed.
Example C02_dlinked_list_ex_insert_pre :
  hist_pre lop_pre list_step [] [LAppend (mkElem 0 ka); LAppend (mkElem 1 kc); LInsert (mkElem 2 kb)].
Proof.
  cbn [hist_pre]. repeat split; try (cbv; intuition discriminate).
  exists [mkElem 0 ka; mkElem 1 kc]. split; [reflexivity|].
  repeat constructor; cbv; discriminate.
Qed.
