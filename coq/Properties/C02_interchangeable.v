(* C02 - the three list classes are observationally interchangeable (statement only). *)
From LV Require Import Cont.ContSpec Cont.Interchange.
From LV Require Cont.ArrayModel Cont.ArrayRefine Cont.LListModel Cont.LListProofs Cont.DListModel Cont.DListProofs.

Theorem C02_classes_interchangeable : forall ops,
  ArrayRefine.run_fits list_step (@length _) [] ops ->
  LListProofs.lpre_run [] ops ->
  DListProofs.hist_pre DListProofs.lop_pre list_step [] ops ->
  exists a sl ol sd od,
    ArrayModel.arr_list_run ops = Ok (a, outs list_step [] ops) /\
    LListModel.run_model LListModel.ll_list_step LListModel.lst0 ops = Ok ((sl, ol), outs list_step [] ops) /\
    DListModel.run_model DListModel.dl_list_step DListModel.e_init ops = Ok ((sd, od), outs list_step [] ops).
Proof. exact list_classes_interchangeable. Qed.
Print Assumptions C02_classes_interchangeable.
