(* C03 - the three map classes are observationally interchangeable (statement only). *)
From LV Require Import Cont.ContSpec Cont.Interchange.
From LV Require Cont.ArrayModel Cont.ArrayRefine Cont.LListModel Cont.DListModel Cont.DListProofs Cont.DListMap.

Theorem C03_classes_interchangeable : forall ops,
  ArrayRefine.run_fits map_step (@length _) [] ops ->
  DListProofs.hist_pre DListMap.mop_pre map_step [] ops ->
  exists a sl ol sd od,
    ArrayModel.arr_map_run ops = Ok (a, outs map_step [] ops) /\
    LListModel.run_model LListModel.ll_map_step LListModel.mst0 ops = Ok ((sl, ol), outs map_step [] ops) /\
    DListModel.run_model DListModel.dl_map_step DListModel.m_init ops = Ok ((sd, od), outs map_step [] ops).
Proof. exact map_classes_interchangeable. Qed.
Print Assumptions C03_classes_interchangeable.
