(* C03, stage 2, class `array` (src/array.c) - the MAP interface (set = linear search then
   replace-value or ordered insert of a new objpair holding copies; get / has_key = binary search;
   remove = linear search; get_keys / get_values / get_pairs build new array lists; iterator).
   The pointer-level model refines the ideal dictionary of Cont/ContSpec.v exactly.  Statements only. *)
From LV Require Import Cont.ContSpec Cont.ContKey Cont.MapProofs Cont.ArrayModel Cont.ArrayProofs Cont.ArrayRefine.
Local Open Scope Z_scope.

(* one operation on a dictionary with strictly ascending keys *)
Theorem C03_array_map_step : forall (m : mstate) op, msorted m -> fits m -> fits (fst (map_step m op)) ->
  arr_map_step (arr_of (map Some m)) op = Ok (arr_of (map Some (fst (map_step m op))), snd (map_step m op)).
Proof. exact arr_map_step_refines. Qed.
Print Assumptions C03_array_map_step.

(* set as array.c writes it (first equal key else first not-smaller key) is the ideal m_set *)
Theorem C03_array_set : forall (m : mstate) k v, msorted m -> fits (fst (m_set k v m)) ->
  arr_set (arr_of (map Some m)) k v = Ok (arr_of (map Some (fst (m_set k v m))), snd (m_set k v m)).
Proof. exact arr_set_spec. Qed.
Print Assumptions C03_array_set.

(* get: the binary search finds the value of the one pair with that key *)
Theorem C03_array_get : forall (m : mstate) k, msorted m ->
  arr_map_get (arr_of (map Some m)) (Some k) = Ok (m_get m k).
Proof. exact arr_map_get_spec. Qed.
Print Assumptions C03_array_get.

(* all histories: never Fault, exactly the ideal outputs, final object represents the ideal dictionary *)
Theorem C03_array_map_refines : forall ops, run_fits map_step (@length _) [] ops ->
  exists a, arr_map_run ops = Ok (a, outs map_step [] ops) /\
            Repr_array a (map Some (final map_step [] ops)).
Proof. exact array_map_refines. Qed.
Print Assumptions C03_array_map_refines.

Theorem C03_array_map_never_faults : forall ops, run_fits map_step (@length _) [] ops ->
  is_ok (arr_map_run ops) = true.
Proof. exact array_map_never_faults. Qed.
Print Assumptions C03_array_map_never_faults.

(* non-vacuity *)
Definition ka : key := [97]. Definition kb : key := [98]. Definition kc : key := [99].
Definition kx : key := [120]. Definition ky : key := [121].
Definition ex_ops : list mop :=
  [MSet kb kx; MSet ka ky; MSet kc kx; MSet kb ky; MGet kb; MRemove ka; MHasKey ka; MHasValue kx;
   MGetKeys; MGetPairs; MIterate; MMutK kc; MCount].
Example C03_array_ex_fits : run_fits map_step (@length _) [] ex_ops.
Proof. cbn. unfold INT_MAX. repeat split; lia. Qed.
Example C03_array_ex_run :
  arr_map_run ex_ops =
  Ok (mkArr 2 (Some [Some (Some (kb, ky)); Some (Some (kc, kx))]), outs map_step [] ex_ops).
Proof. vm_compute. reflexivity. Qed.
