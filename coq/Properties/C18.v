(* C18 - built-in hash functions are pure functions equal to their published definitions.
   Statements only; each is closed by `exact` and followed by Print Assumptions.
   Model: Hash/HashModel.v (interprets Gen/Constants.v and Gen/HashGen.v, regenerated from the
   source tree on every run).  Reference definitions: Hash/HashSpec.v.
   A key is `bytes k ++ rest`: the key bytes followed by whatever else the enclosing object holds
   (possibly nothing, possibly uninitialised cells); `length` is the number of key bytes. *)
From LV Require Import Base.Buf Hash.HashModel Hash.HashSpec Hash.HashProofs.
Local Open Scope Z_scope.

(* the mix macro as extracted from include/libast.h is the published lookup2 mix; this is the
   theorem that stops compiling when a shift amount or a register in the macro changes *)
Theorem C18_mix_is_lookup2_mix : forall s : Z * Z * Z, mix s = lookup2_mix s.
Proof. exact mix_is_lookup2_mix. Qed.
Print Assumptions C18_mix_is_lookup2_mix.

(* the tables extracted from builtin_hashes.c were recognised completely, and the constants that
   stored hash values depend on are the published / documented ones *)
Theorem C18_source_shape : hashgen_errors = [].
Proof. exact source_shape_recognised. Qed.
Print Assumptions C18_source_shape.

Theorem C18_constants_are_published :
  builtin_random_seed = 4146181709 /\ fnv_init = 2166136261 /\ fnv_prime = 16777619.
Proof. exact constants_are_published. Qed.
Print Assumptions C18_constants_are_published.

(* spifhash_jenkins is lookup2 hash() (initial value of a and b: BUILTIN_RANDOM_SEED instead of the
   golden ratio), for every key, every length below 2^32 and every seed *)
Theorem C18_jenkins_equals_lookup2 : forall (k : list Z) (rest : buf) (seed : Z),
  Z.of_nat (length k) < 2 ^ 32 -> 0 <= seed < 2 ^ 32 ->
  jenkins (bytes k ++ rest) (Z.of_nat (length k)) seed = Ok (spec_jenkins k seed).
Proof. exact jenkins_equals_lookup2. Qed.
Print Assumptions C18_jenkins_equals_lookup2.

(* spifhash_jenkins32 is lookup2 hash2() on the word array whose little-endian memory image the
   key is; the length counts words *)
Theorem C18_jenkins32_equals_hash2 : forall (ws : list Z) (rest : buf) (seed : Z),
  Z.of_nat (length ws) < 2 ^ 32 -> 0 <= seed < 2 ^ 32 ->
  jenkins32 (bytes (flat_map le_bytes ws) ++ rest) (Z.of_nat (length ws)) seed = Ok (spec_jenkins32 ws seed).
Proof. exact jenkins32_equals_hash2. Qed.
Print Assumptions C18_jenkins32_equals_hash2.

(* the same, starting from the key bytes (this is the form the correspondence check evaluates) *)
Theorem C18_jenkins32_on_bytes : forall (k : list Z) (n : nat) (rest : buf) (seed : Z),
  length k = (4 * n)%nat -> Forall is_byte k -> Z.of_nat n < 2 ^ 32 -> 0 <= seed < 2 ^ 32 ->
  jenkins32 (bytes k ++ rest) (Z.of_nat n) seed = Ok (spec_jenkins32 (words_of_bytes k) seed).
Proof. exact jenkins32_on_bytes. Qed.
Print Assumptions C18_jenkins32_on_bytes.

(* byte-wise and little-endian word-wise Jenkins are the same function: for every key address
   (all four alignments), every buffer (faulting ones included), every length and seed *)
Theorem C18_jenkinsLE_equals_jenkins : forall (addr : Z) (key : buf) (key_length seed : Z),
  jenkinsLE addr key key_length seed = jenkins key key_length seed.
Proof. exact jenkinsLE_equals_jenkins. Qed.
Print Assumptions C18_jenkinsLE_equals_jenkins.

(* rotating hash: rotate left by 4 and xor the byte in; final hash ^ hash>>10 ^ hash>>20 *)
Theorem C18_rotating_def : forall (k : list Z) (rest : buf) (seed : Z),
  Forall is_byte k -> 0 <= seed < 2 ^ 32 ->
  rotating (bytes k ++ rest) (Z.of_nat (length k)) seed = Ok (spec_rotating k seed).
Proof. exact rotating_def. Qed.
Print Assumptions C18_rotating_def.

Theorem C18_oaat_def : forall (k : list Z) (rest : buf) (seed : Z),
  one_at_a_time (bytes k ++ rest) (Z.of_nat (length k)) seed = Ok (spec_oaat k seed).
Proof. exact oaat_def. Qed.
Print Assumptions C18_oaat_def.

(* the __GNUC__ shift-add form is multiplication by the 32-bit FNV prime (the other branch of the
   #ifdef), for every 32-bit value and indeed every integer *)
Theorem C18_fnv_shift_add_is_multiply : forall h : Z, fnv_mul h = (h * fnv_prime) mod 2 ^ 32.
Proof. exact fnv_shift_add_is_multiply. Qed.
Print Assumptions C18_fnv_shift_add_is_multiply.

Theorem C18_fnv_def : forall (k : list Z) (rest : buf) (seed : Z),
  fnv (bytes k ++ rest) (Z.of_nat (length k)) seed = Ok (spec_fnv k seed).
Proof. exact fnv_def. Qed.
Print Assumptions C18_fnv_def.

(* exactly `length` key bytes are read: no fault on a buffer of exactly that size, and the result
   does not depend on anything behind the key *)
Theorem C18_hashes_read_exactly : forall (k : list Z) (rest : buf) (seed addr : Z),
  Z.of_nat (length k) < 2 ^ 32 -> 0 <= seed < 2 ^ 32 ->
  let n := Z.of_nat (length k) in
  (is_ok (jenkins (bytes k) n seed) = true /\ jenkins (bytes k ++ rest) n seed = jenkins (bytes k) n seed) /\
  (is_ok (jenkinsLE addr (bytes k) n seed) = true /\
   jenkinsLE addr (bytes k ++ rest) n seed = jenkinsLE addr (bytes k) n seed) /\
  (is_ok (rotating (bytes k) n seed) = true /\ rotating (bytes k ++ rest) n seed = rotating (bytes k) n seed) /\
  (is_ok (one_at_a_time (bytes k) n seed) = true /\
   one_at_a_time (bytes k ++ rest) n seed = one_at_a_time (bytes k) n seed) /\
  (is_ok (fnv (bytes k) n seed) = true /\ fnv (bytes k ++ rest) n seed = fnv (bytes k) n seed).
Proof. exact hashes_read_exactly. Qed.
Print Assumptions C18_hashes_read_exactly.

Theorem C18_jenkins32_reads_exactly : forall (ws : list Z) (rest : buf) (seed : Z),
  Z.of_nat (length ws) < 2 ^ 32 -> 0 <= seed < 2 ^ 32 ->
  let n := Z.of_nat (length ws) in
  is_ok (jenkins32 (bytes (flat_map le_bytes ws)) n seed) = true /\
  jenkins32 (bytes (flat_map le_bytes ws) ++ rest) n seed = jenkins32 (bytes (flat_map le_bytes ws)) n seed.
Proof. exact jenkins32_reads_exactly. Qed.
Print Assumptions C18_jenkins32_reads_exactly.

(* rotating and one-at-a-time replace a zero seed by BUILTIN_RANDOM_SEED, FNV by the FNV-1a offset basis *)
Theorem C18_seed_zero_replaced : forall (key : buf) (len : Z),
  rotating key len 0 = rotating key len builtin_random_seed /\
  one_at_a_time key len 0 = one_at_a_time key len builtin_random_seed /\
  fnv key len 0 = fnv key len fnv_init.
Proof. exact seed_zero_replaced. Qed.
Print Assumptions C18_seed_zero_replaced.

(* non-vacuity and external anchors: published test vectors.
   FNV-1a 32: "a" -> 0xe40c292c, "foobar" -> 0xbf9cf968 (Noll's test suite);
   one-at-a-time with initial value 0 (the published form): "a" -> 0xca2e9442 *)
Example C18_ex_fnv_a : fnv (bytes [97]) 1 0 = Ok 3826002220.
Proof. vm_compute. reflexivity. Qed.
Example C18_ex_fnv_foobar : fnv (bytes [102; 111; 111; 98; 97; 114] ++ [None]) 6 0 = Ok 3214735720.
Proof. vm_compute. reflexivity. Qed.
Example C18_ex_oaat_ref_a : oaat_ref [97] 0 = 3392050242.
Proof. vm_compute. reflexivity. Qed.
(* a 13-byte key exercises one block and a one-byte tail; the model, evaluated, agrees with the reference *)
Example C18_ex_jenkins_13 :
  jenkins (bytes [1; 2; 3; 4; 5; 6; 7; 8; 9; 10; 11; 12; 13]) 13 7 =
  Ok (spec_jenkins [1; 2; 3; 4; 5; 6; 7; 8; 9; 10; 11; 12; 13] 7).
Proof. vm_compute. reflexivity. Qed.
(* one cell too few: the model reports the over-read *)
Example C18_ex_short_key_faults : jenkins (bytes [1; 2; 3]) 4 7 = Fault OOB_read.
Proof. vm_compute. reflexivity. Qed.
Example C18_ex_uninit_after_key_is_not_read :
  jenkinsLE 0 (bytes [1; 2; 3; 4; 5; 6; 7; 8; 9; 10; 11] ++ [None]) 11 0 =
  jenkins (bytes [1; 2; 3; 4; 5; 6; 7; 8; 9; 10; 11]) 11 0.
Proof. vm_compute. reflexivity. Qed.
