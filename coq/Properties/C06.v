(* C06 - ownership: every allocation is released exactly once across any object history.
   Statements only; proofs in Own/CostProofs.v, Own/LedgerProofs.v, Own/FrameProofs.v,
   Own/StepSafe.v, Own/SpecProofs.v.  Model: Own/World.v - a program is a list of operations over
   the handles it holds; [step] keeps the LEDGER of live allocations, updated where the C code has
   MALLOC / REALLOC / STRDUP / FREE / SPIF_ALLOC / SPIF_DEALLOC; [footprint] / [release] / [dup_cost]
   are read off the new / done / dup routines of every class.  [pcre] is the oracle "blocks left
   allocated by pcre_compile", [ft] the flag-letter table generated from src/regexp.c. *)
From LV Require Import Own.SpecProofs.
Local Open Scope Z_scope.

(* the ledger is always base + the sum of the footprints of what the program holds *)
Theorem C06_ledger_invariant : forall pcre ft b p w w' outs,
  run pcre ft w p = Ok (w', outs) -> Inv b w -> Inv b w'.
Proof. exact run_inv. Qed.
Print Assumptions C06_ledger_invariant.

Theorem C06_ledger_invariant_step : forall pcre ft b w op w' r,
  step pcre ft w op = Ok (w', r) -> Inv b w -> Inv b w'.
Proof. exact step_inv. Qed.
Print Assumptions C06_ledger_invariant_step.

(* once the program has deleted every object it created or was handed, the heap holds exactly
   what it held before *)
Theorem C06_balance : forall pcre ft p w w' outs,
  run pcre ft w p = Ok (w', outs) -> held w = [] -> held w' = [] -> ledger w' = ledger w.
Proof. exact balance. Qed.
Print Assumptions C06_balance.

(* what the del chain of a class frees is what its constructors and mutators allocated; what its
   dup routine allocates is the footprint of the copy *)
Theorem C06_release_is_footprint : forall o, release o = footprint o.
Proof. exact release_is_footprint. Qed.
Print Assumptions C06_release_is_footprint.

Theorem C06_dup_allocates_footprint : forall pcre o o', copy pcre o = Ok o' -> dup_cost pcre o = footprint o'.
Proof. exact copy_footprint. Qed.
Print Assumptions C06_dup_allocates_footprint.

(* done() leaves an object reusable and empty: only the object block remains, the state is the
   class's empty state, init succeeds on it *)
Theorem C06_done_reusable : forall pcre ft w h x w' r,
  get w h = Ok x -> x <> ORaw -> step pcre ft w (Done h) = Ok (w', r) ->
  lookup h (held w') = Some (done_state x) /\ footprint (done_state x) = 1 /\
  ledger w' = ledger w - (footprint x - 1) /\
  ((forall c s, x <> OIter c s) ->
   is_empty_state (done_state x) = true /\
   exists w'', step pcre ft w' (Init h) = Ok (w'', RBool true) /\ lookup h (held w'') = Some (done_state x) /\
               ledger w'' = ledger w').
Proof. exact done_reusable. Qed.
Print Assumptions C06_done_reusable.

(* a container never frees an element it has handed back: after remove / remove_at / vector remove /
   map remove the result is a separately held handle and the container's tree no longer contains
   that occurrence ... *)
Theorem C06_handed_back_not_owned : forall pcre ft w o c w' h',
  remover o = Some c -> Good w -> step pcre ft w o = Ok (w', RNew h' false) ->
  exists i k a al al' l1 x l2,
    lookup c (held w) = Some (OCont i k a al (l1 ++ Some x :: l2)) /\
    lookup c (held w') = Some (OCont i k a al' (l1 ++ l2)) /\
    lookup h' (held w') = Some x /\ lookup h' (held w) = None /\ h' <> c.
Proof. exact handed_back. Qed.
Print Assumptions C06_handed_back_not_owned.

(* ... so deleting the container later releases only the container's own footprint and leaves the
   handed-back object held, and deleting the object leaves the container as it is *)
Theorem C06_handed_back_independent : forall pcre ft w' c h' x co,
  h' <> c -> lookup h' (held w') = Some x -> lookup c (held w') = Some co ->
  (forall w2 r, step pcre ft w' (Del c) = Ok (w2, r) -> lookup h' (held w2) = Some x /\ ledger w2 = ledger w' - footprint co) /\
  (forall w2 r, step pcre ft w' (Del h') = Ok (w2, r) -> lookup c (held w2) = Some co /\ ledger w2 = ledger w' - footprint x).
Proof. exact handed_back_independent. Qed.
Print Assumptions C06_handed_back_independent.

(* a map never frees or retains the caller's own key and value objects: after set the caller
   still holds both, unchanged, and the map's tree contains an entry whose value (and, for a new
   key, whose key) is a copy with the same observable value *)
Theorem C06_map_takes_copies : forall pcre ft w m k v w' r ko vo,
  get w k = Ok ko -> get w v = Ok vo -> step pcre ft w (MSet m k v) = Ok (w', r) ->
  lookup k (held w') = Some ko /\ lookup v (held w') = Some vo /\
  exists i c a al xs' pk v2,
    lookup m (held w') = Some (OCont i c a al xs') /\ In (Some (OPair pk (Some v2))) xs' /\ abs v2 = abs vo /\
    (r = RBool false -> exists k2, pk = Some k2 /\ abs k2 = abs ko).
Proof. exact map_takes_copies. Qed.
Print Assumptions C06_map_takes_copies.

(* the pair form SPIF_MAP_SET(map, pair, NULL): the pair stays the caller's own object, unchanged,
   and the map's entry is built from copies of its key and value *)
Theorem C06_map_pair_form_takes_copies : forall pcre ft w m p w' r po,
  get w p = Ok po -> step pcre ft w (MSetPair m p) = Ok (w', r) ->
  lookup p (held w') = Some po /\
  exists ko vo, po = OPair (Some ko) (Some vo) /\
  exists i c a al xs' pk v2,
    lookup m (held w') = Some (OCont i c a al xs') /\ In (Some (OPair pk (Some v2))) xs' /\ abs v2 = abs vo /\
    (r = RBool false -> exists k2, pk = Some k2 /\ abs k2 = abs ko).
Proof. exact map_pair_form_takes_copies. Qed.
Print Assumptions C06_map_pair_form_takes_copies.

(* the map's own stored value / own stored entry handed back to set: ledger = sum of footprints is
   kept and no other handle changes *)
Theorem C06_map_own_objects_back : forall pcre ft w m k pf w' r b,
  Inv b w -> step pcre ft w (MSetOwn m k pf) = Ok (w', r) ->
  Inv b w' /\ forall h, h <> m -> forall o, lookup h (held w) = Some o -> lookup h (held w') = Some o.
Proof. exact map_set_own_neutral. Qed.
Print Assumptions C06_map_own_objects_back.

(* querying (count, get, contains, find, index, map get / has_key / has_value) allocates nothing,
   frees nothing and changes nothing the program holds *)
Theorem C06_query_changes_nothing : forall pcre ft w c h w' r,
  step pcre ft w (Query c h) = Ok (w', r) -> w' = w /\ r = RUnit.
Proof. exact query_changes_nothing. Qed.
Print Assumptions C06_query_changes_nothing.

(* the constructors from a FILE* / a descriptor either hand back an object - and then exactly its
   footprint was allocated - or return NULL, and then nothing is left allocated and nothing the
   program holds has changed (whatever was allocated on the way - the block of the size of the file,
   the object itself - has been released again) *)
Theorem C06_stream_constructor : forall pcre ft w c v k content pos w' r,
  step pcre ft w (NewFromStream c v k content pos) = Ok (w', r) ->
  (exists b o, stream_text c v k content pos = Ok (Some b) /\ r = RNew (next w) false /\
               held w' = held w ++ [(next w, o)] /\ abs o = abs (stream_obj c b) /\
               ledger w' = ledger w + footprint o) \/
  (stream_text c v k content pos = Ok None /\ r = RNew (next w) true /\ held w' = held w /\ ledger w' = ledger w).
Proof. exact stream_new_spec. Qed.
Print Assumptions C06_stream_constructor.

(* in particular a seekable, non-empty file whose stream is already at its end is the NULL case of
   the buffer constructors *)
Theorem C06_stream_mbuff_at_eof : forall v content, content <> [] ->
  stream_text SMbuff v KReg content (Z.of_nat (length content)) = Ok None.
Proof. exact stream_mbuff_at_eof. Qed.
Print Assumptions C06_stream_mbuff_at_eof.

(* an operation changes only the handles it writes; everything else the program holds is untouched *)
Theorem C06_others_untouched : forall pcre ft h w op w' r,
  step pcre ft w op = Ok (w', r) -> ~ In h (writes op) -> is_delall op = false ->
  forall o, lookup h (held w) = Some o -> lookup h (held w') = Some o.
Proof. exact step_keeps. Qed.
Print Assumptions C06_others_untouched.

(* nothing is freed twice or used after being freed: on good worlds (all reachable ones) the model
   faults only with the two PROGRAM errors - use of a handle that is not held, wrong class; never
   Null_deref, Bad_free, OOB_*, Out_of_fuel *)
Theorem C06_no_library_fault : forall pcre ft p w, Good w ->
  match run pcre ft w p with Ok (w', _) => Good w' | Fault f => f = Use_after_free \/ f = Abort end.
Proof. exact run_safe. Qed.
Print Assumptions C06_no_library_fault.

Theorem C06_no_library_fault_step : forall pcre ft w op, Good w ->
  match step pcre ft w op with Ok (w', _) => Good w' | Fault f => f = Use_after_free \/ f = Abort end.
Proof. exact step_safe. Qed.
Print Assumptions C06_no_library_fault_step.

Theorem C06_initial_world_good : Good w0 /\ Inv 0 w0.
Proof. exact (conj good_w0 inv_w0). Qed.
Print Assumptions C06_initial_world_good.

(* ---- non-vacuity ---- *)
Definition pc (_ : option text) (_ : Z) : Z := 1.
(* a map that is overwritten, read out, emptied by remove and deleted while the caller's key and
   value are still alive; a list with placeholders deleted non-empty; done + init + reuse *)
Definition ex_prog : list op :=
  [NewCont IMap DL; NewStr (Some [107]); NewStr (Some [118]); MSet 0 1 2; MSet 0 1 2; MKeys 0 None; MRemove 0 1; MSetPair 0 4; MSetOwn 0 1 true; MSetOwn 0 1 false; Query 0 1; Query 3 2;
   NewCont IList LL; LInsertAt 5 1 3; Dup 5; Done 5; Init 5; LAppend 5 2; NewTok (Some [97; 32; 98]); TokEval 7; TokEval 7;
   NewRegexp (Some [97]); ReSetFlags 8 [105]; NewUrl (Some [120; 58; 47; 47; 104; 58; 49]); UrlUnparse 9; DelAll].
Example ex_balance : exists w outs, run pc [(105, 1)] w0 ex_prog = Ok (w, outs) /\ held w = [] /\ ledger w = 0 /\
                                     List.existsb (fun e => 20 <=? snd e) outs = true.
Proof. do 2 eexists. split; [vm_compute; reflexivity|]. repeat split. Qed.
(* stream constructors: failing forms (stream at end of file, empty file, no stream) and succeeding
   forms (from the start, from the middle, a pipe, a closed descriptor) in one program; the ledger is 0
   after the failing ones and back at 0 after the deletions *)
Definition ex_streams : list op :=
  [NewFromStream SMbuff VFp KReg [97; 98; 99] 3; NewFromStream SMbuff VFd KReg [97; 98; 99] 3;
   NewFromStream SMbuff VFp KReg [] 0; NewFromStream SStr VFd KBad [] 0; NewFromStream STok VFp KBad [] 0;
   NewFromStream SMbuff VFd KReg [97; 98; 99] 1; NewFromStream SMbuff VFp KPipe [] 0; NewFromStream SMbuff VFd KClosed [] 0;
   NewFromStream SStr VFp KReg [97; 10; 98] 0; NewFromStream SUstr VFd KPipe [97; 10; 98] 0; NewFromStream STok VFp KReg [97; 32; 98; 10] 0;
   TokEval 10; Dup 5; DelAll].
Example ex_stream_balance :
  exists w outs, run pc [] w0 ex_streams = Ok (w, outs) /\ held w = [] /\ ledger w = 0 /\
    firstn 5 (map snd outs) = [0; 0; 0; 0; 0] /\ nth 10 (map snd outs) 0 = 11.
Proof. do 2 eexists. split; [vm_compute; reflexivity|]. repeat split. Qed.
(* tokenizer and pair members installed / changed through setters and getters, then everything deleted *)
Example ex_member_balance :
  exists w outs, run pc [] w0 [NewTok (Some [97; 32; 98]); TokEval 0; TokListRemoveAt 0 1; NewCont IList LL; NewStr (Some [122]);
                              TokListAppend 0 3; TokSetTokens 0 (Some 2%nat); TokSetChar 0 2 35; MemberAppend 0 0 [99]; NewStr None;
                              NewPair (Some 4%nat) None; MemberAppend 5 0 [100]; NewMbuff (Some [1; 2; 3]); SetLen 6 1; SetLen 6 (-1); Dup 6; DelAll]
                 = Ok (w, outs) /\ held w = [] /\ ledger w = 0.
Proof. do 2 eexists. split; [vm_compute; reflexivity|]. split; reflexivity. Qed.
Example ex_handed_back :
  exists w, step pc [] (mkWorld [(0%nat, OCont IList Arr 0 true [Some (OStr (Some [97])); None])] 1 1 4) (LRemoveAt 0 0)
            = Ok (w, RNew 1 false) /\ lookup 1 (held w) = Some (OStr (Some [97])) /\ ledger w = 4.
Proof. eexists. split; [vm_compute; reflexivity|]. split; reflexivity. Qed.
Example ex_program_error : step pc [] w0 (Del 3) = Fault Use_after_free.
Proof. reflexivity. Qed.
