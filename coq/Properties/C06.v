(* C06 - statements (work in progress) *)
From LV Require Import Own.World.
Theorem C06_stub : ledger w0 = 0%Z.
Proof. reflexivity. Qed.
Print Assumptions C06_stub.
