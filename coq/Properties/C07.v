(* C07 - mbuff objects are faithful byte-sequence values under any history (src/mbuff.c).
   Only statements, each closed by `exact`, with Print Assumptions, and non-vacuity Examples.
   Model and ideal sequence: Mbuff/MbuffModel.v; proofs: Mbuff/MbuffProofs.v. *)
From LV Require Import Base.Buf Mbuff.MbuffModel Mbuff.MbuffProofs.
Local Open Scope Z_scope.

(* Every constructor (empty, from a pointer, from a buffer, from a FILE, from a descriptor; seekable
   or not; any read schedule) followed by EVERY finite list of operations within the caller
   contracts (ctor_ok / ops_ok): the model never faults, the constructor's result and every
   output agree with the ideal byte sequence, the final object holds exactly the ideal bytes,
   and the invariant (NULL/0/0, or 0 <= len <= size = allocation with cells [0,len) initialised)
   holds. *)
Theorem C07_mbuff_refines : forall c ops,
  ctor_ok c -> ops_ok (snd (spec_ctor c)) ops ->
  exists xs m,
    run_model c ops = Ok (fst (spec_ctor c), xs, m) /\
    Forall2 out_ok xs (fst (spec_run (snd (spec_ctor c)) ops)) /\
    abs m = snd (spec_run (snd (spec_ctor c)) ops) /\ Inv m.
Proof. exact refines. Qed.
Print Assumptions C07_mbuff_refines.

(* no operation reads or writes a byte outside the buffer (nor an uninitialised one, nor NULL) *)
Theorem C07_mbuff_no_fault : forall c ops,
  ctor_ok c -> ops_ok (snd (spec_ctor c)) ops -> is_ok (run_model c ops) = true.
Proof. exact no_fault. Qed.
Print Assumptions C07_mbuff_no_fault.

(* one operation: the step used by the induction, for any represented object *)
Theorem C07_mbuff_step : forall m s o,
  Rep m s -> op_ok s o ->
  exists x m', step m o = Ok (x, m') /\ out_ok x (fst (spec_step s o)) /\ Rep m' (snd (spec_step s o)).
Proof. exact step_ok. Qed.
Print Assumptions C07_mbuff_step.

(* a position outside the sequence is refused and the object is left exactly as it was
   (same pointer content, len and size, not only the same bytes) *)
Theorem C07_mbuff_refused_unchanged : forall m s,
  Rep m s ->
  (forall idx cnt x, other_ok x -> s_splice s idx cnt (other_bytes x) = None ->
                     step m (Splice idx cnt x) = Ok (MBool false, m)) /\
  (forall idx cnt p n, ptr_ok p n -> s_splice s idx cnt (ptr_bytes p n) = None ->
                       step m (SplicePtr idx cnt p n) = Ok (MBool false, m)) /\
  (forall idx cnt, s_sub s idx cnt = None -> step m (Subbuff idx cnt) = Ok (MObj None, m)) /\
  (forall idx cnt, s_sub s idx cnt = None -> step m (SubbuffPtr idx cnt) = Ok (MPtr None, m)) /\
  (step m (Append None) = Ok (MBool false, m) /\ step m (Prepend None) = Ok (MBool false, m) /\
   forall n, step m (AppendPtr None n) = Ok (MBool false, m) /\ step m (PrependPtr None n) = Ok (MBool false, m)).
Proof. exact refused_unchanged. Qed.
Print Assumptions C07_mbuff_refused_unchanged.

(* ... and every index whose normalised value is outside [0, len) is such a position *)
Theorem C07_mbuff_outside_is_refused : forall ln idx cnt,
  norm_idx ln idx < 0 \/ ln <= norm_idx ln idx ->
  splice_pos ln idx cnt = None /\ sub_pos ln idx cnt = None.
Proof. exact outside_refused. Qed.
Print Assumptions C07_mbuff_outside_is_refused.

(* index, rindex, find, find_from_ptr report an absent byte / needle as the length *)
Theorem C07_mbuff_absent_is_len : forall m s,
  Rep m s ->
  (forall c, ~ In c s -> index m c = Ok (len m) /\ rindex m c = Ok (len m)) /\
  (forall x t, Rep x t -> (forall p q, s <> p ++ t ++ q) -> find m (Some x) = Ok (len m)) /\
  (forall (q : list Z) n, 0 <= n <= zlen q -> (forall p r, s <> p ++ take n q ++ r) ->
                          find_from_ptr m (pbuf (Some q)) n = Ok (len m)).
Proof. exact model_absent_is_len. Qed.
Print Assumptions C07_mbuff_absent_is_len.

(* ... and a present one as its first (index, find) / last (rindex) position *)
Theorem C07_mbuff_present_position : forall s c,
  In c s ->
  (exists pre post, s = pre ++ c :: post /\ ~ In c pre /\ s_index s c = zlen pre) /\
  (exists pre post, s = pre ++ c :: post /\ ~ In c post /\ s_rindex s c = zlen pre).
Proof. exact index_present. Qed.
Print Assumptions C07_mbuff_present_position.

Theorem C07_mbuff_find_first : forall s n p q,
  s = p ++ n ++ q ->
  exists pre post, s = pre ++ n ++ post /\ s_find s n = zlen pre /\ zlen pre <= zlen p.
Proof. exact find_present. Qed.
Print Assumptions C07_mbuff_find_first.

(* the comparison of the ideal sequences is a total order in which a proper prefix is strictly
   smaller (buffers with an equal common prefix and different lengths are never EQUAL) ... *)
Theorem C07_mbuff_cmp_total_order :
  (forall a, lex a a = 0) /\
  (forall a b, lex b a = - lex a b) /\
  (forall a b c, lex a b <= 0 -> lex b c <= 0 -> lex a c <= 0) /\
  (forall a b, lex a b = 0 <-> a = b) /\
  (forall a b, lex a b = -1 \/ lex a b = 0 \/ lex a b = 1) /\
  (forall a x t, lex a (a ++ x :: t) = -1 /\ lex (a ++ x :: t) a = 1).
Proof. exact (conj lex_refl (conj lex_antisym (conj lex_trans (conj lex_eq (conj lex_range lex_prefix))))). Qed.
Print Assumptions C07_mbuff_cmp_total_order.

(* ... and spif_mbuff_cmp / ncmp / cmp_with_ptr compute it (this is what C05 reuses) *)
Theorem C07_mbuff_cmp_is_lex : forall m s x t, Rep m s -> Rep x t -> cmp m (Some x) = Ok (lex s t).
Proof. exact cmp_core. Qed.
Print Assumptions C07_mbuff_cmp_is_lex.

Theorem C07_mbuff_ncmp_is_lex : forall m s o n,
  Rep m s -> other_ok o ->
  ncmp m o n = Ok (match o with None => 1 | Some x => s_ncmp s (abs x) n end).
Proof. exact ncmp_ok. Qed.
Print Assumptions C07_mbuff_ncmp_is_lex.

Theorem C07_mbuff_cmp_with_ptr_is_lex : forall m s (p : ptr) n,
  Rep m s -> (forall q, p = Some q -> 0 <= n <= zlen q /\ n <= zlen s) ->
  cmp_with_ptr m (pbuf p) n = Ok (match p with None => 1 | Some q => lex (take n s) (take n q) end).
Proof. exact cmp_with_ptr_ok. Qed.
Print Assumptions C07_mbuff_cmp_with_ptr_is_lex.

(* an object without spare cells: a count above its length (the caller's block being that long) is
   answered as the ideal sequence would - the object is the shorter operand - and nothing outside
   the allocation is read *)
Theorem C07_mbuff_cmp_with_ptr_exact_size : forall m s (q : list Z) n,
  Rep m s -> size m = zlen s -> zlen s < n <= zlen q ->
  cmp_with_ptr m (pbuf (Some q)) n = Ok (lex (take n s) (take n q)).
Proof. exact cmp_with_ptr_exact. Qed.
Print Assumptions C07_mbuff_cmp_with_ptr_exact_size.

(* readers, all lengths, both paths: the object holds every byte delivered before the first end
   of file or error (descriptor reader: interrupted reads retried; stdio gives up on them); a
   regular file read from offset |pre| yields exactly the remaining bytes *)
Theorem C07_mbuff_stream_chunks :
  (forall s, exists m, run_ctor (CFd Stream s) = Ok (true, m) /\ Rep m (stream_bytes true s)) /\
  (forall s, exists m, run_ctor (CFp Stream s) = Ok (true, m) /\ Rep m (stream_bytes false s)) /\
  (forall pre data, data <> [] ->
     exists m, run_ctor (CFd (Seekable (zlen pre) (zlen (pre ++ data))) [Data data]) = Ok (true, m) /\ Rep m data) /\
  (forall pre data, data <> [] ->
     exists m, run_ctor (CFp (Seekable (zlen pre) (zlen (pre ++ data))) [Data data]) = Ok (true, m) /\ Rep m data).
Proof. exact stream_chunks. Qed.
Print Assumptions C07_mbuff_stream_chunks.

(* stream_bytes of a schedule made of non-empty chunks is their concatenation *)
Theorem C07_mbuff_stream_bytes_concat : forall r chunks tail,
  Forall (fun c => c <> []) chunks ->
  stream_bytes r (map Data chunks ++ EOF :: tail) = concat chunks /\
  stream_bytes r (map Short chunks ++ Err :: tail) = concat chunks /\
  stream_bytes r (map Data chunks) = concat chunks.
Proof. exact stream_bytes_chunks. Qed.
Print Assumptions C07_mbuff_stream_bytes_concat.

(* every constructor alone, including the seekable paths with an arbitrary schedule *)
Theorem C07_mbuff_ctor : forall c,
  ctor_ok c -> exists m, run_ctor c = Ok (fst (spec_ctor c), m) /\ Rep m (snd (spec_ctor c)).
Proof. exact run_ctor_ok. Qed.
Print Assumptions C07_mbuff_ctor.

(* ---- non-vacuity: the hypotheses are met by concrete histories, and the model runs ---- *)
Definition ex_other : mb := MB (Some [Some 88; Some 0; None]) 2 3.
Example C07_ex_other_inv : Inv ex_other.
Proof. exists [88; 0]. right. exists [None]. repeat split. Qed.

Definition ex_ops : list op :=
  [Append (Some ex_other); PrependPtr (Some [32; 9]) 2; Splice (-2) 1 (Some ex_other); Index 255; Rindex 0;
   Cmp (Some ex_other); Trim; Reverse; Subbuff 1 0; Find None; Sprintf (FOut [65; 0; 66]); Done].
Example C07_ex_hyps : ctor_ok (CFd Stream [Short [97; 0]; EINTR; Data [98]; EOF; Data [99]]) /\
                      ops_ok (snd (spec_ctor (CFd Stream [Short [97; 0]; EINTR; Data [98]; EOF; Data [99]]))) ex_ops.
Proof.
  split; [exact I|]. cbn. unfold other_ok, ptr_ok.
  repeat split; try exact I; try lia;
    try (match goal with H : Some _ = Some _ |- _ => inversion H; subst; cbn; lia end);
    intros x Hx; inversion Hx; subst; exact C07_ex_other_inv.
Qed.
Example C07_ex_run :
  option_map (fun r => (fst (fst r), abs (snd r)))
    (match run_model (CFd Stream [Short [97; 0]; EINTR; Data [98]; EOF; Data [99]])
                     [Append (Some ex_other); PrependPtr (Some [32; 9]) 2; Splice (-2) 1 (Some ex_other); Trim; Reverse]
     with Ok r => Some r | Fault _ => None end)
  = Some (true, [0; 0; 88; 98; 0; 97]).
Proof. vm_compute. reflexivity. Qed.
Example C07_ex_prefix_not_equal :
  cmp (MB (Some [Some 97; Some 98]) 2 2) (Some (MB (Some [Some 97; Some 98; Some 99]) 3 3)) = Ok (-1).
Proof. vm_compute. reflexivity. Qed.
Example C07_ex_refused :
  step (MB (Some [Some 97; Some 98]) 2 2) (Splice 2 0 (Some ex_other)) = Ok (MBool false, MB (Some [Some 97; Some 98]) 2 2).
Proof. vm_compute. reflexivity. Qed.
