(* C07 - placeholder while the correspondence check is being brought up; replaced by the real statements. *)
From LV Require Import Base.Buf Mbuff.MbuffModel.
Local Open Scope Z_scope.
Example C07_ex_boot : run_ctor CNew = Ok (true, mb_null).
Proof. reflexivity. Qed.
