(* C11, the temporary-file clause: "temporary files obtained from spiftool_temp_file are created with a unique
   name and mode 0600", together with the clauses of C11 that apply to the function as to the rest of the
   subsystem: it stays inside its buffers, and it leaves no state behind (the process umask it changes).
   Statements only, each closed by `exact`, followed by Print Assumptions; non-vacuity Examples at the end.
   Model: Temp/TempModel.v interpreting Gen/TempGen.v, which tools/gen_temp.py translates from
   spiftool_temp_file in src/file.c on every run.  The file system, libc's mkstemp/fchmod/umask and the kernel
   are an explicit world driven by an oracle; what is proved holds for every world and every oracle.  That the
   real mkstemp behaves like the model's (O_EXCL creation of a name ending in six fresh characters) is the
   trusted part; the correspondence check runs the real one too. *)
From Coq Require Import String.
From LV Require Import Base.Buf Strings.HelpersModel Temp.TempDefs Temp.TempModel Temp.TempProofs Temp.TempExact Gen.TempGen.
Local Open Scope Z_scope.

(* the translator recognised every statement of the function *)
Theorem C11_temp_source_shape : tempgen_errors = [].
Proof. exact eq_refl. Qed.
Print Assumptions C11_temp_source_shape.

(* the name built in buff[] never exceeds the buffer: at most 255 bytes and the terminator *)
Theorem C11_temp_name_fits : forall env tpl, (length (temp_name env tpl) <= 255)%nat.
Proof. exact temp_name_fits. Qed.
Print Assumptions C11_temp_name_fits.

(* in bounds: every environment, every template string, every prior content of the caller's buffer behind it,
   every len up to the size of that buffer (and len = 0, refused), every world, every oracle: no fault *)
Theorem C11_temp_no_fault :
  forall env s rest len w o,
    Forall nz_byte s -> len <= blen (cstr s rest) ->
    (forall p, In p (o_picks o) -> Forall nz_byte p) ->
    (forall v n, env n = Some v -> Forall nz_byte v) ->
    exists r t w', temp_file env (cstr s rest) len w o = Ok (r, t, w').
Proof. exact temp_no_fault. Qed.
Print Assumptions C11_temp_no_fault.

(* a file that is obtained (result >= 0) is new - its name was not in use, so no second caller holds it -, its
   mode is exactly 0600 whatever the caller's umask was, the descriptor returned is open on it, and every file
   that existed is unchanged, name and mode *)
Theorem C11_temp_unique_0600 :
  forall env tpl len w o r t w',
    temp_file env tpl len w o = Ok (r, t, w') -> 0 <= r ->
    exists nm,
      r = o_fd o /\
      ~ In nm (map fst (w_files w)) /\
      w_files w' = w_files w ++ [(nm, 384)] /\
      w_fds w' = (r, nm) :: w_fds w /\
      fd_mode w' r = Some 384.
Proof. exact temp_success. Qed.
Print Assumptions C11_temp_unique_0600.

(* no state left behind: the process umask is what it was, on success and on every failure path *)
Theorem C11_temp_umask_restored :
  forall env tpl len w o r t w', temp_file env tpl len w o = Ok (r, t, w') -> w_umask w' = w_umask w.
Proof. exact temp_umask_restored. Qed.
Print Assumptions C11_temp_umask_restored.

(* a call that fails does not touch the caller's buffer *)
Theorem C11_temp_failure_keeps_template :
  forall env tpl len w o r t w',
    temp_file env tpl len w o = Ok (r, t, w') -> r < 0 -> 0 <= o_fd o -> t = tpl.
Proof. exact temp_failure_keeps_template. Qed.
Print Assumptions C11_temp_failure_keeps_template.

(* any history of calls, each with its own environment, template, len and oracle: the names in use stay pairwise
   distinct, the umask ends as it began, and no existing file disappears *)
Theorem C11_temp_history :
  forall cs w w' rs,
    run_calls w cs = Ok (w', rs) -> NoDup (map fst (w_files w)) ->
    NoDup (map fst (w_files w')) /\ w_umask w' = w_umask w /\
    (forall f, In f (w_files w) -> In (fst f) (map fst (w_files w'))).
Proof. exact temp_history. Qed.
Print Assumptions C11_temp_history.

(* ---- exactness ---- *)

(* which file a successful call creates and what it leaves in the caller's buffer: with TMPDIR = dir, every dir, template
   and candidate without NUL such that "<dir>/<template>XXXXXX" fits the 256-byte buffer, every prior content of the
   caller's buffer and every len from 1 up to its size: the result is the kernel's descriptor, the file
   <dir>/<template><candidate> exists with mode 0600 and nothing else changed, and the buffer holds the longest prefix of
   that name that fits len, terminated, the cells behind it untouched *)
Theorem C11_temp_exact_ok :
  forall dir tmp s rest len w o p ps,
    Forall nz_byte s -> Forall nz_byte dir -> Forall nz_byte p ->
    (length dir + 1 + length s + 6 <= 255)%nat ->
    1 <= len -> len <= blen (cstr s rest) -> 0 <= o_fd o ->
    o_dir_ok o = true -> o_picks o = p :: ps -> o_fchmod_ok o = true ->
    has_file (w_files w) (dir ++ slash ++ s ++ p) = false ->
    temp_file (env2 (Some dir) tmp) (cstr s rest) len w o =
    Ok (o_fd o,
        bytes (firstn (Z.to_nat (len - 1)) (dir ++ slash ++ s ++ p)) ++ Some 0 ::
          skipn (Nat.min (length (dir ++ slash ++ s ++ p)) (Z.to_nat (len - 1)) + 1) (cstr s rest),
        {| w_umask := w_umask w; w_files := w_files w ++ [(dir ++ slash ++ s ++ p, 384)];
           w_fds := (o_fd o, dir ++ slash ++ s ++ p) :: w_fds w |}).
Proof. exact temp_exact_ok. Qed.
Print Assumptions C11_temp_exact_ok.

(* the three branches of the getenv chain: TMPDIR wins over TMP, TMP over /tmp, and the name is cut at 255 bytes *)
Theorem C11_temp_name_branches :
  forall dir s tmp,
    temp_name (env2 (Some dir) tmp) s = firstn 255 (dir ++ slash ++ s ++ xs6) /\
    temp_name (env2 None (Some dir)) s = firstn 255 (dir ++ slash ++ s ++ xs6) /\
    temp_name (env2 None None) s = firstn 255 ([47; 116; 109; 112; 47] ++ s ++ xs6).
Proof. exact (fun dir s tmp => conj (temp_name_tmpdir dir tmp s) (conj (temp_name_tmp dir s) (temp_name_default s))). Qed.
Print Assumptions C11_temp_name_branches.

(* refusal: a name that no longer ends in XXXXXX after the truncation, or a directory that is not there: -1, and nothing
   at all has changed - not the caller's buffer, not a file, not the umask *)
Theorem C11_temp_refused :
  forall env s rest len w o,
    Forall nz_byte s ->
    let nm := temp_name env s in
    ((length nm < 6)%nat \/ beq_bytes (skipn (length nm - 6) nm) xs6 = false \/ o_dir_ok o = false) ->
    temp_file env (cstr s rest) len w o = Ok (-1, cstr s rest, w).
Proof. exact temp_refused. Qed.
Print Assumptions C11_temp_refused.

(* non-vacuity of the refusal: a 250-character TMPDIR cuts the X's off *)
Example C11_temp_example_refused :
  let nm := temp_name (env2 (Some (repeat 100 250)) None) [97] in
  beq_bytes (skipn (length nm - 6) nm) xs6 = false.
Proof. vm_compute. reflexivity. Qed.

(* non-vacuity: a call that succeeds under umask 0 with the first candidate taken, and one that is refused
   because the name no longer ends in XXXXXX after the truncation *)
Example C11_temp_example_ok :
  let env := env2 (Some [47; 116]) None in
  let w := world0 0 [([47; 116; 47; 97; 49; 49; 49; 49; 49; 49], 420)] in
  let o := {| o_dir_ok := true; o_picks := [[49; 49; 49; 49; 49; 49]; [50; 50; 50; 50; 50; 50]]; o_fd := 5; o_fchmod_ok := true |} in
  match temp_file env (cstr [97] (repeat None 20)) 16 w o with
  | Ok (r, t, w') => r = 5 /\ take_str t = [47; 116; 47; 97; 50; 50; 50; 50; 50; 50] /\ fd_mode w' 5 = Some 384 /\ w_umask w' = 0
  | Fault _ => False
  end.
Proof. vm_compute. repeat split. Qed.

Example C11_temp_example_truncated :
  let env := env2 (Some (repeat 100 250)) None in
  let o := {| o_dir_ok := true; o_picks := [[49; 49; 49; 49; 49; 49]]; o_fd := 5; o_fchmod_ok := true |} in
  match temp_file env (cstr [97] (repeat None 20)) 16 (world0 18 []) o with
  | Ok (r, t, w') => r = -1 /\ w_files w' = [] /\ w_umask w' = 18
  | Fault _ => False
  end.
Proof. vm_compute. repeat split. Qed.
