(* C11 - the config subsystem is memory-safe and spawns nothing on arbitrary files and paths.
   Statements only, each closed by `exact`, followed by Print Assumptions; non-vacuity Examples at the end.
   Model: Conf/ConfModel.v (tables with C-width indices and capacities, byte-level fgets, the cell-level line
   buffer, spifconf_find_file over lengths).  "Never reads or writes outside the parser's buffers and tables"
   is "the model does not return Fault": every load and store of the model is checked.  The value expansion
   (spifconf_shell_expand, property C10), the handlers, the preprocessor output and the file system are
   parameters; what is assumed of the expansion is stated as hypotheses (expand_fits, expand_keeps_include,
   and - for no_spawn - that it runs a command only for text with a backquote or "%exec").
   The temporary-file clause (unique name, mode 0600) is decided by the correspondence check only. *)
From Coq Require Import String.
From LV Require Import Base.Buf Conf.ConfModel Conf.ConfSpec Conf.ConfInst Conf.ConfTables Conf.ConfLine Conf.ConfSafe.
From LV Require Import Conf.ConfLife Conf.ConfFind Conf.ConfSpawn Conf.ConfInstProofs Conf.ConfTerm.
Local Open Scope Z_scope.

(* every anchor of tools/gen_c11.py was found in the source tree *)
Theorem C11_source_shape : confgen_errors = [].
Proof. exact eq_refl. Qed.
Print Assumptions C11_source_shape.

(* the widths found in the source tree: every index has at least one bit less than its capacity *)
Theorem C11_widths :
  (0 <= ctx_idx_bits /\ ctx_idx_bits + 1 < ctx_cnt_bits) /\
  (0 <= ctx_state_idx_bits /\ ctx_state_idx_bits + 1 < ctx_state_cnt_bits) /\
  (0 <= fstate_idx_bits /\ fstate_idx_bits + 1 < fstate_cnt_bits) /\
  (0 <= builtin_idx_bits /\ builtin_idx_bits + 1 < builtin_cnt_bits).
Proof. exact widths_ok. Qed.
Print Assumptions C11_widths.

(* parsing any byte sequence as a config file - lines at and over the limit, NUL bytes, a missing final
   newline, any number of unmatched begin lines (the 8-bit indices wrap without leaving the tables), any
   %include structure - never faults: the only Fault the model can return is Out_of_fuel, and the table
   invariant (every index below its capacity, the blocks as long as the capacities say) is kept *)
Theorem C11_conf_no_fault :
  forall (W V : Type) (handler : Z -> harg -> Z -> W -> Z * W)
         (expand : list Z -> V -> list Z * V * list (list Z)) (preproc_out fs : list Z -> option (list Z))
         (progname : list Z),
    (forall n content, fs n = Some content -> Forall is_byte content) ->
    (forall cmd out, preproc_out cmd = Some out -> Forall is_byte out) ->
    expand_fits V expand ->
    expand_keeps_include V expand ->
    forall (hw : Z) (fuel : nat) (c : conf V) (w : W) (name : list Z),
      cinvh V hw c ->
      match parse W V handler expand preproc_out fs progname fuel c w name with
      | Ok (c', _, _, _) => cinvh V hw c' /\ cxt V c' = cxt V c /\ bit V c' = bit V c
      | Fault x => x = Out_of_fuel
      end.
Proof. exact parse_ok. Qed.
Print Assumptions C11_conf_no_fault.

(* termination, for the part that does not rest on the descriptor limit of the file system: a file without a
   '%' opens no further file, and fuel 2 + its length suffices (one unit of fuel = one fgets of the reading
   loop).  For files with %include see C09_conf_trace (the parse ends when the specification's walk ends). *)
Theorem C11_terminates_plain :
  forall (W V : Type) (handler : Z -> harg -> Z -> W -> Z * W)
         (expand : list Z -> V -> list Z * V * list (list Z)) (preproc_out fs : list Z -> option (list Z))
         (progname : list Z),
    (forall n content, fs n = Some content -> Forall is_byte content) ->
    (forall cmd out, preproc_out cmd = Some out -> Forall is_byte out) ->
    expand_fits V expand ->
    expand_keeps_include V expand ->
    forall (hw : Z) (c : conf V) (w : W) (name content : list Z) (fuel : nat),
      cinvh V hw c -> t_idx (ftb V c) = 0 -> fs name = Some content -> nopct content ->
      (length content + 2 <= fuel)%nat ->
      exists r, parse W V handler expand preproc_out fs progname fuel c w name = Ok r.
Proof. exact parse_terminates_plain. Qed.
Print Assumptions C11_terminates_plain.

(* the arithmetic behind it, with the widths and initial capacities of the source tree, for all four tables
   and any number of pushes *)
Theorem C11_tables_never_wrap : forall n : nat,
  (let '(i, c) := bump_n ctx_idx_bits ctx_cnt_bits n 0 ctx_cnt_init in 0 <= i < c /\ c <= 2 ^ (ctx_idx_bits + 1)) /\
  (let '(i, c) := bump_n ctx_state_idx_bits ctx_state_cnt_bits n 0 ctx_state_cnt_init in 0 <= i < c /\ c <= 2 ^ (ctx_state_idx_bits + 1)) /\
  (let '(i, c) := bump_n fstate_idx_bits fstate_cnt_bits n 0 fstate_cnt_init in 0 <= i < c /\ c <= 2 ^ (fstate_idx_bits + 1)) /\
  (let '(i, c) := bump_n builtin_idx_bits builtin_cnt_bits n 0 builtin_cnt_init in 0 <= i < c /\ c <= 2 ^ (builtin_idx_bits + 1)).
Proof. exact tables_never_wrap. Qed.
Print Assumptions C11_tables_never_wrap.

(* spifconf_find_file: every write into name[PATH_MAX] and full_path[PATH_MAX] is in bounds, for all lengths of
   file and dir (below 2^31, they are objects in memory) and all component lengths (including those the
   `short n` truncates), whatever access()/stat() answer *)
Theorem C11_find_file_in_bounds : forall flen dlen comps probe,
  0 <= flen < 2147483648 ->
  (match dlen with Some d => 0 <= d < 2147483648 | None => True end) ->
  Forall (fun c => 0 <= fst c) comps ->
  exists r, find_file flen dlen comps probe = Ok r /\
            match r with
            | Some o => ff_name_hi o < conf_path_max /\ ff_full_hi o < conf_path_max
            | None => True
            end.
Proof. exact find_file_in_bounds. Qed.
Print Assumptions C11_find_file_in_bounds.

(* no process is created unless a file asks for one: if no file contains a backquote, "%exec" or "preproc"
   (any case) and the expansion runs commands only for text with a backquote or "%exec", the trace of a
   parse contains handler calls only.  (The parser's own system() is on the %preproc line only, and the
   text it hands to the expansion is a piece of a file.) *)
Theorem C11_no_spawn :
  forall (W V : Type) (handler : Z -> harg -> Z -> W -> Z * W)
         (expand : list Z -> V -> list Z * V * list (list Z)) (preproc_out fs : list Z -> option (list Z))
         (progname : list Z),
    (forall n content, fs n = Some content -> Forall is_byte content) ->
    (forall cmd out, preproc_out cmd = Some out -> Forall is_byte out) ->
    expand_fits V expand ->
    expand_keeps_include V expand ->
    (forall t v, ~ In 96 t -> ~ has_ci s_pct_exec t -> snd (expand t v) = []) ->
    (forall n content, fs n = Some content -> clean content) ->
    forall (hw : Z) (fuel : nat) (c : conf V) (w : W) (name : list Z) (c' : conf V) (w' : W) (ev : list event) (ret : bool),
      cinvh V hw c ->
      clean_files V c ->
      parse W V handler expand preproc_out fs progname fuel c w name = Ok (c', w', ev, ret) ->
      Forall is_call ev.
Proof. exact no_spawn. Qed.
Print Assumptions C11_no_spawn.

(* `clean` is decidable by a scan *)
Theorem C11_clean_decidable : forall d, clean_b d = true -> clean d.
Proof. exact clean_b_sound. Qed.
Print Assumptions C11_clean_decidable.

(* lifecycle: any sequence of init .. (register context | register built-in | parse | open)* .. free cycles,
   from any state, runs without fault (a parse may run out of the fuel it was given) and after the last free
   all four table pointers are NULL and the variable list is empty *)
Theorem C11_lifecycle :
  forall (W V : Type) (vnull : V) (handler : Z -> harg -> Z -> W -> Z * W)
         (expand : list Z -> V -> list Z * V * list (list Z)) (preproc_out fs : list Z -> option (list Z))
         (progname : list Z),
    (forall n content, fs n = Some content -> Forall is_byte content) ->
    (forall cmd out, preproc_out cmd = Some out -> Forall is_byte out) ->
    expand_fits V expand ->
    expand_keeps_include V expand ->
    forall (cycles : list (list mid_op)) (c : conf V) (w : W),
      match run W V vnull handler expand preproc_out fs progname (c, w) (history cycles) with
      | Ok (c', _, _) => cycles <> [] -> pristine V vnull c'
      | Fault x => x = Out_of_fuel
      end.
Proof. exact lifecycle. Qed.
Print Assumptions C11_lifecycle.

(* ... and a later init does not see what an earlier cycle left behind: from every state it yields the same
   four tables *)
Theorem C11_init_independent : forall V : Type,
  exists cx cs ft bt, forall c : conf V,
    exists r, init_subsystem V c = Ok r /\ cxt V r = cx /\ cst V r = cs /\ ftb V r = ft /\ bit V r = bt /\
              vars V r = vars V c /\ nopen V r = nopen V c.
Proof. exact init_independent. Qed.
Print Assumptions C11_init_independent.

(* the built-in table keeps the NULL-name slot that spifconf_shell_expand's scan stops at, for any number
   of registered built-ins *)
Theorem C11_builtins_terminated : forall (V : Type) (c : conf V) (names : list (list Z)),
  exists c1 c2, init_subsystem V c = Ok c1 /\ register_builtins V c1 names = Ok c2 /\
                exists k, builtin_scan V c2 0 (Z.to_nat (t_cnt (bit V c2))) = Ok k.
Proof. exact builtins_terminated. Qed.
Print Assumptions C11_builtins_terminated.

(* ---------------- non-vacuity ---------------- *)
Example C11_expand_assumptions_satisfiable :
  expand_fits unit (@expand_id unit) /\ expand_keeps_include unit (@expand_id unit) /\
  (forall t (v : unit), ~ In 96 t -> ~ has_ci s_pct_exec t -> snd (expand_id t v) = []).
Proof. split; [apply expand_id_fits|]. split; [apply expand_id_keeps|reflexivity]. Qed.

(* the invariant of C11_conf_no_fault is reachable: it holds after init, from any state *)
Example C11_invariant_reachable : forall (c : conf unit),
  exists c', init_subsystem unit c = Ok c' /\ cinvh unit 1 c'.
Proof. intros c. destruct (init_ok unit c) as (c' & E & H & _). eauto. Qed.

(* ... and so is the other hypothesis of C11_no_spawn *)
Example C11_clean_files_reachable : forall (c : conf unit),
  exists c', init_subsystem unit c = Ok c' /\ clean_files unit c'.
Proof. exact (init_clean_files unit). Qed.

(* a clean text, and texts that are not *)
Example C11_clean_sample :
  clean_b [60;108;118;45;49;46;48;62;10; 98;101;103;105;110;32;102;111;111;10; 37;105;110;99;108;117;100;101;32;98;10] = true /\
  clean_b [37;80;114;101;80;114;111;99;32;120] = false /\ clean_b [120;96;108;115;96] = false /\ clean_b [37;69;88;69;67;40] = false.
Proof. vm_compute. repeat split. Qed.

(* 300 nested begin lines in the instance the check runs: no fault, the index has wrapped *)
Definition ex_begins (n : nat) : list Z :=
  [60;108;118;45;49;46;48;62;10] ++ concat (repeat [98;101;103;105;110;32;102;111;111;10] n).
Example C11_sample_wrap :
  match irun [([97], ex_begins 300)] true [108;118] [OInit; ORegCtx [102;111;111] 0; OParse 1000 [97]] with
  | Ok ((c, _), [RUnit; RId 1; RParse evs true]) => t_idx (cst vstore c) = 300 - 256 /\ length evs = 300%nat
  | _ => False
  end.
Proof. vm_compute. split; reflexivity. Qed.

(* spifconf_find_file on lengths around PATH_MAX and beyond 65536 *)
Example C11_find_sample :
  ifind 4000 (Some 90) [(3, false); (4000, true); (70000, false); (65537, false)] = Ok (Some {| ff_name_hi := 4091; ff_full_hi := 4095; ff_found := -1 |})
  /\ ifind 10 (Some 5) [(3, false); (4000, true); (4077, true); (4078, true); (65537, false)] = Ok (Some {| ff_name_hi := 16; ff_full_hi := 4094; ff_found := -1 |})
  /\ ifind 5000 None [] = Ok None /\ ifind 10 (Some 2147483647) [] = Ok None.
Proof. vm_compute. repeat split. Qed.
