(* C11 - placeholder while the proofs are being written *)
From LV Require Import Conf.ConfModel.
Theorem C11_placeholder : True. Proof. exact I. Qed.
Print Assumptions C11_placeholder.
