(* C04, class dlinked_list (stage 2): the vector interface of the pointer-level model of
   /repo/src/dlinked_list.c (Cont/DListModel.v) against the ideal sorted multiset of ContSpec.v.
   ContSpec compares vector results by KEY (a class chooses among equal elements: this class puts
   a new element after an equal head and appends it when it is above the tail) and checks
   membership by IDENTITY.  So: the pointer model refines EXACTLY the class-level machine cv_step
   (vec_step with the class's own placement cls_ins), cv_step agrees with vec_step on every key-level
   result, and what cv_step stores plus what it handed back is exactly what was inserted.
   Statements only; proofs in Cont/DListVec.v. *)
From LV Require Import Cont.ContSpec Cont.ContKey Cont.VecProofs
  Cont.DListModel Cont.DListStore Cont.DListOps Cont.DListPure Cont.DListProofs Cont.DListVec.
From Coq Require Import Sorting.Sorted Sorting.Permutation.
Local Open Scope Z_scope.

(* every history (lengths within the 32-bit spif_listidx_t): never a Fault; outputs and final chain
   are those of the class-level machine; the chain is ascending; keys and key-level outputs are
   those of the ideal sorted multiset *)
Theorem C04_dlinked_list_vector_refines : forall ops, hist_pre vop_pre vec_step [] ops ->
  exists st o, run_model dl_vec_step e_init ops = Ok ((st, o), outs cv_step [] ops) /\
    Repr st o (map Some (final cv_step [] ops)) /\
    StronglySorted ele (final cv_step [] ops) /\
    map ekey (final cv_step [] ops) = map ekey (final vec_step [] ops) /\
    map out_key (outs cv_step [] ops) = map out_key (outs vec_step [] ops).
Proof. exact dlinked_list_vector_refines. Qed.
Print Assumptions C04_dlinked_list_vector_refines.

(* one operation from ANY represented ascending state *)
Theorem C04_dlinked_list_step_refines : forall (st : store elem) o ys op, Repr st o (map Some ys) ->
  StronglySorted ele ys -> (forall e, op = VInsert e -> Z.of_nat (length ys) < INT_MAX) ->
  exists st' o', dl_vec_step (st, o) op = Ok ((st', o'), snd (cv_step ys op)) /\
                 Repr st' o' (map Some (fst (cv_step ys op))).
Proof. exact dl_vec_step_refines. Qed.
Print Assumptions C04_dlinked_list_step_refines.

(* the class-level machine against the ideal one: same keys, same key-level result, step by step *)
Theorem C04_dlinked_list_keys_agree : forall ys xs op, StronglySorted ele ys -> map ekey ys = map ekey xs ->
  map ekey (fst (cv_step ys op)) = map ekey (fst (vec_step xs op)) /\
  out_key (snd (cv_step ys op)) = out_key (snd (vec_step xs op)).
Proof. exact cv_step_sorted. Qed.
Print Assumptions C04_dlinked_list_keys_agree.

(* membership by identity: stored + handed back = inserted, as multisets of objects *)
Theorem C04_dlinked_list_contents : forall ops,
  Permutation (final cv_step [] ops ++ cv_handed [] ops) (v_inserted ops).
Proof. exact cv_contents. Qed.
Print Assumptions C04_dlinked_list_contents.

(* where the class puts a new element: a permutation of e :: ys whose keys are those of the
   standard ordered insertion *)
Theorem C04_dlinked_list_placement : forall e ys, StronglySorted ele ys ->
  Permutation (cls_ins ekey e ys) (e :: ys) /\ map ekey (cls_ins ekey e ys) = map ekey (v_ins e ys).
Proof. exact cls_ins_placement. Qed.
Print Assumptions C04_dlinked_list_placement.

(* non-vacuity: equal keys are placed differently from the ideal object, keys agree *)
Definition ka : key := [97]. Definition kb : key := [98]. Definition kc : key := [99].
Definition ex_ops : list vop :=
  [VInsert (mkElem 0 kb); VInsert (mkElem 1 kb); VInsert (mkElem 2 ka); VInsert (mkElem 3 kb); VFind (mkElem 4 kb);
   VRemove (mkElem 5 kb); VInsert (mkElem 6 kc); VContains (mkElem 7 kc); VToArray; VIterate].
Example C04_dlinked_list_ex_pre : hist_pre vop_pre vec_step [] ex_ops.
Proof. cbv. intuition discriminate. Qed.
Example C04_dlinked_list_ex_run :
  match run_model dl_vec_step e_init ex_ops with
  | Ok (_, os) => os = outs cv_step [] ex_ops /\ os <> outs vec_step [] ex_ops /\
                  map out_key os = map out_key (outs vec_step [] ex_ops)
  | Fault _ => False
  end.
Proof. vm_compute. repeat split; try reflexivity. discriminate. Qed.
