(* C02 - every list implementation is the same abstract sequence (incl. iterators).
   STAGE 1: theorems about the ideal object (Cont/ContSpec.v: list_step over list (option elem),
   None = NULL placeholder made by insert_at), proved for ALL histories and ALL index values.
   The correspondence check ties array, linked_list and dlinked_list to this object (return
   values, get(i) for i in -len-1..len and a fresh iterator after every operation).  Stage 2 adds
   per class the refinement theorem (pointer-level model = this spec, links well formed, frame),
   from which "the three classes are observationally interchangeable" is a corollary.
   This file holds only statements, each closed by `exact`, and Print Assumptions. *)
From LV Require Import Cont.ContSpec Cont.ContKey Cont.ListProofs.
From Coq Require Import Sorting.Permutation.
Local Open Scope Z_scope.

(* an iterator yields every element exactly once, in order, and reports exhaustion exactly after
   count elements (also for vector and map iterators: any element type) *)
Theorem C02_iterator_sweep_exact : forall A (xs : list A) fuel,
  (length xs <= fuel)%nat -> it_sweep fuel (it_new xs) = (xs, true).
Proof. exact it_sweep_exact. Qed.
Print Assumptions C02_iterator_sweep_exact.

Theorem C02_iterator_not_exhausted_early : forall A (xs : list A) fuel,
  (fuel < length xs)%nat -> it_sweep fuel (it_new xs) = (firstn fuel xs, false).
Proof. exact it_sweep_short. Qed.
Print Assumptions C02_iterator_not_exhausted_early.

Theorem C02_iterator_has_next_iff : forall A k (xs : list A),
  it_has_next (it_after k (it_new xs)) = (k <? length xs)%nat.
Proof. exact it_has_next_after. Qed.
Print Assumptions C02_iterator_has_next_iff.

Theorem C02_iterator_kth_next : forall A k (xs : list A),
  fst (it_next (it_after k (it_new xs))) = nth_error xs k.
Proof. exact it_next_after. Qed.
Print Assumptions C02_iterator_kth_next.

Theorem C02_iterate_and_to_array : forall xs,
  list_step xs LIterate = (xs, OElems xs) /\ list_step xs LToArray = (xs, OElems xs) /\
  (forall k, it_has_next (it_after k (it_new xs)) = (k <? length xs)%nat) /\
  (forall k, fst (it_next (it_after k (it_new xs))) = nth_error xs k).
Proof. exact list_iterate_exact. Qed.
Print Assumptions C02_iterate_and_to_array.

(* positions that normalise below zero are refused without change *)
Theorem C02_insert_at_refused_below_zero : forall xs idx e, norm_idx (llen xs) idx < 0 ->
  list_step xs (LInsertAt idx e) = (xs, OBool false).
Proof. exact insert_at_refused. Qed.
Print Assumptions C02_insert_at_refused_below_zero.

(* every other position is accepted: the element lands exactly there, earlier elements keep their
   place, later ones move up by one, and positions past the end are padded with NULL placeholders *)
Theorem C02_insert_at_exact : forall xs idx e, 0 <= norm_idx (llen xs) idx ->
  let n := Z.to_nat (norm_idx (llen xs) idx) in
  list_step xs (LInsertAt idx e) = (ins_at n e xs, OBool true) /\
  nth_error (ins_at n e xs) n = Some (Some e) /\
  length (ins_at n e xs) = S (Nat.max n (length xs)) /\
  ((n <= length xs)%nat -> ins_at n e xs = firstn n xs ++ Some e :: skipn n xs) /\
  ((length xs < n)%nat -> ins_at n e xs = xs ++ repeat None (n - length xs) ++ [Some e]).
Proof. exact insert_at_done. Qed.
Print Assumptions C02_insert_at_exact.

(* get and remove_at are refused below zero and at or past the length, without change *)
Theorem C02_get_remove_at_refused : forall xs idx, ~ (0 <= norm_idx (llen xs) idx < llen xs) ->
  list_step xs (LGet idx) = (xs, OElem None) /\ list_step xs (LRemoveAt idx) = (xs, OElem None).
Proof. exact get_refused. Qed.
Print Assumptions C02_get_remove_at_refused.

Theorem C02_get_remove_at_exact : forall xs idx, 0 <= norm_idx (llen xs) idx < llen xs ->
  let n := Z.to_nat (norm_idx (llen xs) idx) in
  exists s, nth_error xs n = Some s /\
    list_step xs (LGet idx) = (xs, OElem s) /\
    list_step xs (LRemoveAt idx) = (firstn n xs ++ skipn (S n) xs, OElem s).
Proof. exact get_done. Qed.
Print Assumptions C02_get_remove_at_exact.

(* find / contains / index / remove agree on the element that is "equal by comparison": the first
   one with the probe's key; remove hands back that stored element and takes out exactly it *)
Theorem C02_find_index_contains_remove : forall xs p,
  match l_find xs (ekey p) with
  | Some x =>
    exists l1 l2, xs = l1 ++ Some x :: l2 /\ ekey x = ekey p /\
      (forall s, In s l1 -> eq_slot (ekey p) s = false) /\
      snd (list_step xs (LFind (Some p))) = OElem (Some x) /\
      snd (list_step xs (LIndex p)) = OInt (Z.of_nat (length l1)) /\
      snd (list_step xs (LContains (Some p))) = OBool true /\
      list_step xs (LRemove (Some p)) = (l1 ++ l2, OElem (Some x))
  | None =>
    (forall s, In s xs -> eq_slot (ekey p) s = false) /\
    snd (list_step xs (LFind (Some p))) = OElem None /\
    snd (list_step xs (LIndex p)) = OInt (-1) /\
    snd (list_step xs (LContains (Some p))) = OBool false /\
    list_step xs (LRemove (Some p)) = (xs, OElem None)
  end.
Proof. exact find_index_remove_agree. Qed.
Print Assumptions C02_find_index_contains_remove.

Theorem C02_reverse_twice : forall xs, final list_step xs [LReverse; LReverse] = xs.
Proof. exact list_reverse_twice. Qed.
Print Assumptions C02_reverse_twice.

(* conservation over every history: what the list holds plus what it handed back (remove,
   remove_at) is exactly what went in (append, prepend, insert, accepted insert_at) *)
Theorem C02_nothing_lost_nothing_invented : forall ops,
  Permutation (somes (final list_step [] ops) ++ l_handed [] ops) (l_inserted [] ops).
Proof. exact list_contents. Qed.
Print Assumptions C02_nothing_lost_nothing_invented.

Theorem C02_no_element_twice : forall ops, NoDup (map eid (l_inserted [] ops)) ->
  NoDup (map eid (somes (final list_step [] ops))).
Proof. exact list_nodup. Qed.
Print Assumptions C02_no_element_twice.

(* non-vacuity *)
Definition ka : key := [97]. Definition kb : key := [98]. Definition kc : key := [99].
Example C02_ex_run :
  list_run [] [LAppend (mkElem 0 ka); LInsertAt 3 (mkElem 1 kb); LInsertAt (-5) (mkElem 2 kc);
               LInsertAt (-4) (mkElem 3 kc); LRemoveAt (-1); LGet 5; LReverse; LIndex (mkElem 4 ka); LDup] =
  ([None; None; Some (mkElem 0 ka); Some (mkElem 3 kc)],
   [OBool true; OBool true; OBool false; OBool true; OElem (Some (mkElem 1 kb)); OElem None; OBool true; OInt 2;
    ODup 4 [None; None; Some ka; Some kc] [None; None; Some ka; Some kc]]).
Proof. vm_compute. reflexivity. Qed.
Example C02_ex_refusal : norm_idx (llen [Some (mkElem 0 ka); None]) (-3) < 0.
Proof. vm_compute. reflexivity. Qed.
