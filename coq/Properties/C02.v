(* C02 - stage 1: theorems about the ideal object (placeholder, filled below). *)
From LV Require Import Cont.ContSpec.
