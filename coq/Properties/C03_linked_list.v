(* C03, stage 2, class linked_list (src/linked_list.c through the MAP interface).
   Items carry objpairs; spif_objpair_new_from_both stores DUPLICATES of key and value, so an entry is
   a pair of texts (LListModel.v, D = key * key) and the caller's own objects never enter the store
   (mutk / mutv / delk / delv / newpair are no-ops of the model, as of the ideal dictionary).
   ReprM s o m = Repr pair s o (map Some m): the head->next chain spells the association list m, len =
   length m, acyclic, no other live item.  For every history the pointer-level model returns Ok
   (never a Fault), exactly the outputs of the ideal dictionary ContSpec.map_step, and ends
   representing the ideal final dictionary, whose keys are strictly ascending.
   Statements only; Print Assumptions after each. *)
From LV Require Import Cont.ContSpec Cont.ContKey Cont.MapProofs Cont.LListModel Cont.LListHeap Cont.LListOps
  Cont.LListMapProofs.
From Coq Require Import Sorting.Sorted.
Local Open Scope Z_scope.

Theorem C03_linked_list_step : forall s o m op, ReprM s o m -> StronglySorted key_lt (map fst m) ->
  exists s' o', ll_map_step (s, o) op = Ok ((s', o'), snd (map_step m op)) /\
    ReprM s' o' (fst (map_step m op)).
Proof. exact ll_map_step_ok. Qed.
Print Assumptions C03_linked_list_step.

Theorem C03_linked_list_refines_from : forall ops s o m, ReprM s o m -> StronglySorted key_lt (map fst m) ->
  exists s' o', run_model ll_map_step (s, o) ops = Ok ((s', o'), outs map_step m ops) /\
    ReprM s' o' (final map_step m ops) /\ StronglySorted key_lt (map fst (final map_step m ops)).
Proof. exact linked_list_map_refines_from. Qed.
Print Assumptions C03_linked_list_refines_from.

Theorem C03_linked_list_refines : forall ops,
  exists s' o', run_model ll_map_step mst0 ops = Ok ((s', o'), outs map_step [] ops) /\
    ReprM s' o' (final map_step [] ops) /\ StronglySorted key_lt (map fst (final map_step [] ops)).
Proof. exact linked_list_map_refines. Qed.
Print Assumptions C03_linked_list_refines.

Theorem C03_linked_list_never_faults : forall ops, is_ok (run_model ll_map_step mst0 ops) = true.
Proof. exact linked_list_map_safe. Qed.
Print Assumptions C03_linked_list_never_faults.

Theorem C03_linked_list_readback : forall s o m, ReprM s o m ->
  ll_map_readback (s, o) = Ok (Z.of_nat (length m), map fst m, map snd m, m, m).
Proof. exact ll_map_readback_ok. Qed.
Print Assumptions C03_linked_list_readback.

Theorem C03_linked_list_dump : forall s o m, ReprM s o m ->
  ll_dump pair s o = Ok (map Some m) /\ ll_len o = Z.of_nat (length m).
Proof. exact ReprM_dump. Qed.
Print Assumptions C03_linked_list_dump.

Theorem C03_linked_list_no_leak : forall ops,
  exists s' o' s'', run_model ll_map_step mst0 ops = Ok ((s', o'), outs map_step [] ops) /\
    ll_del pair s' o' = Ok s'' /\ forall j n, nth_error s'' j <> Some (Some n).
Proof. exact linked_list_map_no_leak. Qed.
Print Assumptions C03_linked_list_no_leak.

(* non-vacuity: overwrite, removal of smallest and largest key, use after removal, caller mutations *)
Definition mka : key := [97]. Definition mkb : key := [98]. Definition mkc : key := [99].
Definition mvx : key := [120]. Definition mvy : key := [121].
Definition llm_ex_ops : list mop :=
  [MSet mkb mvx; MSet mka mvx; MMutK mkc; MSet mkc mvy; MSet mkb mvy; MDelV; MRemove mka; MRemove mkc;
   MGet mkb; MHasValue mvy; MSet mka mvy; MGetKeys; MGetPairs; MIterate; MCount].
Example C03_linked_list_ex_run :
  exists st, run_model ll_map_step mst0 llm_ex_ops = Ok (st, outs map_step [] llm_ex_ops) /\
    ll_dump pair (fst st) (snd st) = Ok [Some (mka, mvy); Some (mkb, mvy)].
Proof. eexists. split; vm_compute; reflexivity. Qed.
