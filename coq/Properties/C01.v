(* C01 - str / ustr objects are faithful character-sequence values under any history.
   Statements only (each closed by `exact`), Print Assumptions, and non-vacuity examples.
   Model: Str/StrModel.v (the repaired src/str.c = src/ustr.c, method by method);
   ideal object: Str/StrSpec.v (list of non-NUL bytes). *)
From LV Require Import Base.Buf Strings.HelpersModel Str.StrModel Str.StrSpec Str.BufLemmas Str.StrOps
  Str.StrStream Str.StrHistory Str.StrSpecFacts Str.StrNum.
Local Open Scope Z_scope.

(* Every constructor, every finite list of operations: the model never faults; what it returns
   is what the ideal sequence returns (the reported capacity and the return value of reversing
   an empty text are the only outputs left open); the final text of both objects is the ideal
   one; and both objects satisfy the invariant
     NULL/0/0  or  0 <= len < size = cells of the buffer, cells [0,len) non-NUL, cell len = NUL. *)
Theorem C01_str_refines : forall c ops,
  ctor_ok c -> Forall op_ok ops ->
  exists outs st,
    run_model c ops = Ok (outs, st) /\
    map erase outs = fst (spec_run c ops) /\
    abs_state st = snd (spec_run c ops) /\
    inv_state st.
Proof. exact str_refines. Qed.
Print Assumptions C01_str_refines.

(* "no operation reads or writes outside the object's own buffer" - every access of the model
   is bounds- and initialisation-checked, so this is the absence of Fault *)
Theorem C01_str_no_fault : forall c ops,
  ctor_ok c -> Forall op_ok ops -> is_ok (run_model c ops) = true.
Proof. exact str_no_fault. Qed.
Print Assumptions C01_str_no_fault.

(* Positions outside the text are refused and leave the object - value, buffer, capacity -
   exactly as it was *)
Theorem C01_str_refused_unchanged : forall o idx cnt,
  inv o -> idx < - zlen (abs o) \/ zlen (abs o) <= idx ->
  (forall a, splice_from_ptr o idx cnt a = Ok (false, o)) /\
  (forall x, splice o idx cnt x = Ok (false, o)) /\
  substr o idx cnt = Ok None /\
  substr_to_ptr o idx cnt = Ok None.
Proof. exact str_refused_unchanged_inv. Qed.
Print Assumptions C01_str_refused_unchanged.

(* ... and so does every other refusal of splice (a count outside the text) *)
Theorem C01_str_refusal_exact : forall o t idx cnt ins,
  rep o t -> spec_splice t idx cnt ins = None ->
  forall cells, splice_cells o idx cnt cells = Ok (false, o).
Proof. exact str_refusal_exact. Qed.
Print Assumptions C01_str_refusal_exact.

(* Every query on an object satisfying the invariant answers as the ideal text does *)
Theorem C01_str_queries : forall o x,
  inv o -> oinv x ->
  let t := abs o in
  get_len o = zlen t /\
  (forall c, index_of o c = Ok (if c =? 0 then zlen t else spec_index t c)) /\
  (forall c, rindex_of o c = Ok (if c =? 0 then zlen t else spec_rindex t c)) /\
  find o x = Ok (match oabs x with Some b => spec_find t b | None => -1 end) /\
  (forall a, find_from_ptr o a = Ok (match a with Some b => spec_find t b | None => -1 end)) /\
  (forall k, cmp k o x = Ok (match oabs x with Some b => cmp_bytes k t b | None => 1 end)) /\
  (forall k a, cmp_with_ptr k o a = Ok (match a with Some b => cmp_bytes k t b | None => 1 end)) /\
  (forall base, to_num o base = Ok (strtoul_l t base)) /\
  to_float_arg o = Ok t /\
  (forall idx cnt, substr_to_ptr o idx cnt =
                   Ok (match spec_substr t idx cnt with Some s => Some (cstr s []) | None => None end)) /\
  (forall idx cnt, exists r, substr o idx cnt = Ok r /\ oinv r /\ oabs r = spec_substr t idx cnt).
Proof. exact str_queries. Qed.
Print Assumptions C01_str_queries.

(* what the ideal answers mean: first / last occurrence, first match, 'not found' = length *)
Theorem C01_spec_index_first : forall c t,
  match find_byte c t with
  | Some k => (k < length t)%nat /\ nth k t 0 = c /\ forall j, (j < k)%nat -> nth j t 0 <> c
  | None => ~ In c t
  end.
Proof. exact find_byte_spec. Qed.
Print Assumptions C01_spec_index_first.

Theorem C01_spec_rindex_last : forall c t,
  match rfind_byte c t with
  | Some k => (k < length t)%nat /\ nth k t 0 = c /\ forall j, (k < j < length t)%nat -> nth j t 0 <> c
  | None => ~ In c t
  end.
Proof. exact rfind_byte_spec. Qed.
Print Assumptions C01_spec_rindex_last.

Theorem C01_spec_find_first : forall needle hay,
  match strstr_l hay needle with
  | Some k => (k <= length hay)%nat /\ is_prefix needle (skipn k hay) = true /\
              forall j, (j < k)%nat -> is_prefix needle (skipn j hay) = false
  | None => forall j, (j <= length hay)%nat -> is_prefix needle (skipn j hay) = false
  end.
Proof. exact strstr_l_spec. Qed.
Print Assumptions C01_spec_find_first.

Theorem C01_spec_notfound_is_length : forall t c,
  (spec_index t c = zlen t <-> ~ In c t) /\ (spec_rindex t c = zlen t <-> ~ In c t).
Proof. exact (fun t c => conj (spec_index_notfound t c) (spec_rindex_notfound t c)). Qed.
Print Assumptions C01_spec_notfound_is_length.

Theorem C01_spec_cmp_order : forall a b c,
  strcmp_l a a = 0 /\ (strcmp_l a b = 0 -> a = b) /\ strcmp_l b a = - strcmp_l a b /\
  (strcmp_l a b = -1 -> strcmp_l b c = -1 -> strcmp_l a c = -1).
Proof.
  exact (fun a b c => conj (strcmp_l_refl a) (conj (strcmp_l_eq a b)
           (conj (strcmp_l_antisym a b) (strcmp_l_trans a b c)))).
Qed.
Print Assumptions C01_spec_cmp_order.

(* numeric conversion: the decimal text written for a number is read back as that number *)
Theorem C01_num_round_trip : forall n,
  0 <= n <= ulong_max -> exists o, init_from_num n = Ok o /\ to_num o 10 = Ok n.
Proof. exact num_object_round_trip. Qed.
Print Assumptions C01_num_round_trip.

(* The stream constructors: the text is the first line / the concatenation of the delivered
   chunks, for streams, lines and schedules of ANY length and any chunk size (the chunk
   boundary is a case split inside the proof); EINTR is retried, EOF / EAGAIN / error stop. *)
Theorem C01_str_stream_chunks_fp : forall inc stream,
  2 <= inc -> Forall nz_byte stream ->
  exists o, init_from_fp_gen inc stream = Ok o /\ inv o /\ abs o = first_line stream.
Proof. exact str_stream_fp. Qed.
Print Assumptions C01_str_stream_chunks_fp.

Theorem C01_str_stream_chunks_fd : forall inc sched,
  1 <= inc -> sched_ok sched ->
  exists o, init_from_fd_gen inc sched = Ok o /\ inv o /\ abs o = delivered sched.
Proof. exact str_stream_fd. Qed.
Print Assumptions C01_str_stream_chunks_fd.

(* the chunk size of the current source tree (Gen/Constants.v) satisfies the side conditions *)
Theorem C01_buff_inc_ok : 2 <= str_buff_inc /\ ustr_buff_inc = str_buff_inc.
Proof. exact buff_inc_ok. Qed.
Print Assumptions C01_buff_inc_ok.

(* ---------------- non-vacuity ---------------- *)
(* the history that overflowed in the unchanged library: first append to an empty string *)
Example C01_ex_first_append :
  run_model CInit [OAppendPtr (Some [97]); OAppendChar 98; OPrependChar 99; OGetLen] =
  Ok ([RBool true; RBool true; RBool true; RInt 3],
      (mkstr (Some [Some 99; Some 97; Some 98; Some 0]) 3 4, None)).
Proof. vm_compute. reflexivity. Qed.

Example C01_ex_history_hyps :
  ctor_ok (CBuff (Some (cstr [32; 104; 105; 32] [None; None])) 7) /\
  Forall op_ok [OTrim; OOtherDup; OAppend; OSplice (-1) 1; OReverse; OFind; OIndex 104; OToNum 10].
Proof.
  split.
  - split; [lia|]. exists [32; 104; 105; 32], [Some 0; None; None]. repeat split.
    + repeat constructor; unfold nz_byte; lia.
    + right. eauto.
  - repeat constructor.
Qed.

Example C01_ex_history_runs :
  exists st,
    run_model (CBuff (Some (cstr [32; 104; 105; 32] [None; None])) 7)
              [OTrim; OOtherDup; OAppend; OSplice (-1) 1; OReverse; OFind; OIndex 104; OToNum 10] =
    Ok ([RBool true; RUnit; RBool true; RBool true; ROpen true; RInt 2; RInt 1; RInt 0], st) /\
    abs_state st = ([105; 104; 104; 105; 104], Some [104; 105]).
Proof. eexists. split; vm_compute; reflexivity. Qed.

(* a line one byte longer than the chunk, and a schedule with an interrupted read *)
Example C01_ex_stream :
  (exists o, init_from_fp_gen 4 [97; 98; 99; 100; 101; 10; 102] = Ok o /\ abs o = [97; 98; 99; 100; 101]) /\
  (exists o, init_from_fd_gen 2 [Data [97; 98; 99]; EINTR; Data [100]; EAGAIN; Data [101]] = Ok o /\
             abs o = [97; 98; 99; 100]).
Proof. split; eexists; split; vm_compute; reflexivity. Qed.

Example C01_ex_refusal :
  splice_from_ptr (mkstr (Some (cstr [97; 98] [])) 2 3) 2 0 (Some [99]) =
  Ok (false, mkstr (Some (cstr [97; 98] [])) 2 3).
Proof. vm_compute. reflexivity. Qed.
