(* C03 - every map implementation is the same finite dictionary.
   STAGE 1: theorems about the ideal object (Cont/ContSpec.v: map_step over a strictly ascending
   association list of key/value texts; the map holds copies, so the caller-object operations
   mutk/mutv/delk/delv do not touch it), proved for ALL histories.  The correspondence check ties
   the three real classes to this object; stage 2 adds the per-class refinement theorems.
   This file holds only statements, each closed by `exact`, and Print Assumptions. *)
From LV Require Import Cont.ContSpec Cont.ContKey Cont.MapProofs.
From Coq Require Import Sorting.Sorted.
Local Open Scope Z_scope.

(* one pair per key, keys strictly ascending, after every history *)
Theorem C03_keys_strictly_ascending : forall ops, StronglySorted key_lt (map fst (final map_step [] ops)).
Proof. exact map_sorted_all. Qed.
Print Assumptions C03_keys_strictly_ascending.

Theorem C03_one_pair_per_key : forall ops, NoDup (map fst (final map_step [] ops)).
Proof. exact map_keys_nodup. Qed.
Print Assumptions C03_one_pair_per_key.

(* a key maps to the value most recently set for it and not removed since *)
Theorem C03_lookup_is_the_dictionary : forall ops k, m_get (final map_step [] ops) k = dict_of ops k.
Proof. exact map_lookup_dict. Qed.
Print Assumptions C03_lookup_is_the_dictionary.

(* every key-addressed result in every history is the ideal dictionary's: get, has_key, `set
   reports whether it replaced`, `remove hands back the pair stored for the key` *)
Theorem C03_results_are_the_dictionarys : forall ops i op o,
  nth_error ops i = Some op -> dict_out (dict_of (firstn i ops)) op = Some o ->
  nth_error (outs map_step [] ops) i = Some o.
Proof. exact map_outs_dict. Qed.
Print Assumptions C03_results_are_the_dictionarys.

Theorem C03_get_after_set : forall m k v k',
  m_get (fst (m_set k v m)) k' = if key_eqb k' k then Some v else m_get m k'.
Proof. exact m_set_get. Qed.
Print Assumptions C03_get_after_set.

Theorem C03_set_reports_replacement : forall m k v, msorted m -> snd (m_set k v m) = is_some (m_get m k).
Proof. exact m_set_reports. Qed.
Print Assumptions C03_set_reports_replacement.

Theorem C03_get_after_remove : forall m k k', msorted m ->
  m_get (fst (m_remove k m)) k' = if key_eqb k' k then None else m_get m k'.
Proof. exact m_remove_get. Qed.
Print Assumptions C03_get_after_remove.

(* remove hands back the pair exactly once *)
Theorem C03_remove_hands_back_the_pair : forall m k,
  snd (m_remove k m) = match m_get m k with Some v => Some (k, v) | None => None end.
Proof. exact m_remove_result. Qed.
Print Assumptions C03_remove_hands_back_the_pair.

Theorem C03_remove_only_once : forall m k, msorted m ->
  snd (m_remove k (fst (m_remove k m))) = None /\
  fst (m_remove k (fst (m_remove k m))) = fst (m_remove k m).
Proof. exact m_remove_twice. Qed.
Print Assumptions C03_remove_only_once.

Theorem C03_has_value_iff : forall m v, m_has_value m v = true <-> exists k, In (k, v) m.
Proof. exact m_has_value_iff. Qed.
Print Assumptions C03_has_value_iff.

(* keys, values, pairs, iteration and count describe one ascending sequence *)
Theorem C03_ascending_views : forall ops, let m := final map_step [] ops in
  StronglySorted key_lt (map fst m) /\
  snd (map_step m MGetKeys) = OTexts (map fst m) /\
  snd (map_step m MGetValues) = OTexts (map snd m) /\
  snd (map_step m MGetPairs) = OPairs m /\
  snd (map_step m MIterate) = OPairs m /\
  snd (map_step m MCount) = OInt (Z.of_nat (length (map fst m))).
Proof. exact map_order. Qed.
Print Assumptions C03_ascending_views.

(* the map holds its own copies: whatever the caller does to its key/value objects is irrelevant *)
Theorem C03_caller_objects_irrelevant : forall ops m,
  final map_step m (filter (fun op => negb (is_caller_op op)) ops) = final map_step m ops.
Proof. exact map_caller_ops_irrelevant. Qed.
Print Assumptions C03_caller_objects_irrelevant.

(* non-vacuity *)
Definition ka : key := [97]. Definition kb : key := [98]. Definition kx : key := [120]. Definition ky : key := [121].
Example C03_ex_run :
  map_run [] [MSet kb kx; MSet ka ky; MSet kb ky; MMutK ka; MDelV; MGet kb; MRemove ka; MRemove ka; MGetPairs] =
  ([(kb, ky)],
   [OBool false; OBool false; OBool true; OUnit; OUnit; OText (Some ky); OPair (Some (ka, ky)); OPair None;
    OPairs [(kb, ky)]]).
Proof. vm_compute. reflexivity. Qed.
Example C03_ex_dict : dict_of [MSet kb kx; MSet ka ky; MSet kb ky; MRemove ka] kb = Some ky /\
                      dict_of [MSet kb kx; MSet ka ky; MSet kb ky; MRemove ka] ka = None.
Proof. vm_compute. auto. Qed.
