(* C08 - the option parser assigns exactly what the command line says and nothing else.
   Statements only, each closed by `exact`, followed by Print Assumptions. *)
From LV Require Import Base.Buf Gen.OptGen Opt.OptModel Opt.OptSafe Opt.OptRound.
Local Open Scope Z_scope.

(* the generator found every anchor it derives the constants of the model from *)
Theorem C08_source_shape : optgen_errors = [].
Proof. exact eq_refl. Qed.
Print Assumptions C08_source_shape.

(* parse_total_safe: EVERY argument vector (arbitrary bytes), every table whose value pointers point
   into the target pools and whose boolean options have one, all settings: with the fuel parse_fuel
   = 1 + sum (length arg + 2) the parser model returns Ok - it terminates and no access leaves argv,
   an argument string (terminator included), the table, a target or its own arrays - and bad_opts is
   the 8 bit sum of its start value and the number of CHECK_BAD()s; it only grows (no wrap) when the
   help handler does not return and the limit is below 255. *)
Theorem C08_parse_total_safe : forall e n sto bad,
  length (e_strs e) = e_argc e -> wf_table n (e_tbl e) -> wf_store n sto -> 0 <= bad < 256 ->
  exists out, parse e (init_st (e_argc e) sto bad) = Ok out /\
    let s' := ost out in
    length (st_argv s') = S (e_argc e) /\ wf_store n (st_sto s') /\
    st_bad s' = (bad + Z.of_nat (st_nbad s')) mod 256 /\
    (e_ret e = false -> bad <= e_allow e < 255 -> st_bad s' = bad + Z.of_nat (st_nbad s')).
Proof. exact parse_total_safe. Qed.
Print Assumptions C08_parse_total_safe.

(* the fuel is not magic: any fuel >= parse_fuel gives Ok (in particular never Out_of_fuel) *)
Theorem C08_parse_total_safe_fuel : forall fuel e n sto bad,
  (parse_fuel (e_strs e) <= fuel)%nat ->
  length (e_strs e) = e_argc e -> wf_table n (e_tbl e) -> wf_store n sto -> 0 <= bad < 256 ->
  exists out, parse_with fuel e (init_st (e_argc e) sto bad) = Ok out.
Proof. exact parse_total_safe_fuel. Qed.
Print Assumptions C08_parse_total_safe_fuel.

(* bool_mask_only, whole parse: a bit of a boolean target outside the masks of the boolean options
   aimed at it, and every integer / string / list target no option of that kind is aimed at, keep
   their values whatever the command line is; abstract handler calls are only appended *)
Theorem C08_bool_mask_only : forall e n sto bad out,
  length (e_strs e) = e_argc e -> wf_table n (e_tbl e) -> wf_store n sto -> 0 <= bad < 256 ->
  parse e (init_st (e_argc e) sto bad) = Ok out ->
  StoreRel (e_tbl e) sto (st_sto (ost out)).
Proof. exact bool_mask_only. Qed.
Print Assumptions C08_bool_mask_only.

(* bool_mask_only, one option: handle_boolean leaves every other target alone and writes its own
   as old | mask or old & ~mask (mask zero-extended from 32 bits) or not at all *)
Theorem C08_handle_boolean_exact : forall e o sto val islong sto' r k,
  handle_boolean e o sto val islong = Ok (sto', r) -> o_slot o = Some k ->
  si sto' = si sto /\ ss sto' = ss sto /\ sl sto' = sl sto /\ sa sto' = sa sto /\
  (sb sto' = sb sto \/
   exists v, nth_error (sb sto) k = Some v /\
             (sb sto' = upd (sb sto) k (Z.lor v (o_mask o mod mask_modulus)) \/
              sb sto' = upd (sb sto) k (Z.land v (Z.lnot (o_mask o mod mask_modulus))))).
Proof. exact handle_boolean_exact. Qed.
Print Assumptions C08_handle_boolean_exact.

(* parse_round_trip.  Every table (value pointers into the pools, boolean options with one, long
   names that are C strings without '='), every spelling list that meets the side conditions sps_ok
   (letters other than NUL and '-', names without '=', no NUL inside an argument, option kinds that
   fit the spelling, values of abstract options that do not start with '-', no boolean word right
   after --flag, boolean words where a boolean gets a value, an argument list that takes the rest of
   the line only as the last spelling, words that do not start with '-' unless they are the lone
   "-"), every program name, all four {preparse, remove_args} settings, every limit and handler:
   the parser returns normally, the targets are exactly the ideal reading (last occurrence wins,
   booleans set/clear their mask bits, options of the other pass left alone), no bad option is
   counted, the help handler is not called, and argv afterwards is prog :: words ++ NULL when
   argument removal is in effect and untouched otherwise. *)
Theorem C08_parse_round_trip : forall tbl pre rm allow ret prog sps sto bad n,
  wf_table n tbl -> names_ok tbl = true -> wf_store n sto -> nz_word prog = true -> sps_ok tbl sps = true ->
  let strs := prog :: render sps in
  let e := mkenv tbl strs (length strs) pre rm allow ret in
  exists s', parse e (init_st (length strs) sto bad) = Ok (Done (pre && (length strs <=? 1)%nat) s') /\
             st_sto s' = fst (ideal pre tbl sps sto) /\
             st_bad s' = bad /\ st_helps s' = O /\ st_nbad s' = O /\
             (if negb pre && rm
              then argv_words strs (st_argv s') = prog :: snd (ideal pre tbl sps sto)
              else st_argv s' = init_argv (length strs)).
Proof. exact OptRound.parse_round_trip. Qed.
Print Assumptions C08_parse_round_trip.

(* the usual client sequence (pre-parse pass, then normal pass) reads both passes' options and
   compacts argv once *)
Theorem C08_parse_twice_round_trip : forall tbl rm allow ret prog sps sto bad n,
  wf_table n tbl -> names_ok tbl = true -> wf_store n sto -> nz_word prog = true -> sps_ok tbl sps = true ->
  sps <> [] ->
  let strs := prog :: render sps in
  let e := mkenv tbl strs (length strs) true rm allow ret in
  let sto1 := fst (ideal true tbl sps sto) in
  exists s', parse_twice e (init_st (length strs) sto bad) = Ok (Done false s') /\
             st_sto s' = fst (ideal false tbl sps sto1) /\
             st_bad s' = bad /\ st_helps s' = O /\ st_nbad s' = O /\
             (if rm then argv_words strs (st_argv s') = prog :: snd (ideal false tbl sps sto1)
              else st_argv s' = init_argv (length strs)).
Proof. exact OptRound.parse_twice_round_trip. Qed.
Print Assumptions C08_parse_twice_round_trip.

(* ---- non-vacuity: concrete tables, stores and command lines meet the hypotheses, the model runs ---- *)
Definition ex_tbl : list opt :=
  [ mkopt 97 [97; 108; 112; 104; 97] flag_boolean (Some 0%nat) 1;                       (* -a --alpha   bool 0x01 *)
    mkopt 98 [98; 101; 116; 97] (flag_boolean + flag_preparse) (Some 0%nat) 2;          (* -b --beta    bool 0x02, pre-parsed *)
    mkopt 105 [105; 110; 116] flag_integer (Some 0%nat) 0;                              (* -i --int *)
    mkopt 115 [115; 116; 114] flag_string (Some 1%nat) 0;                               (* -s --str *)
    mkopt 108 [108; 105; 115; 116] flag_arglist (Some 0%nat) 0;                         (* -l --list *)
    mkopt 116 [116; 104; 101; 109; 101] flag_abstract (Some 2%nat) 0;                   (* -t --theme *)
    mkopt 99 [99; 110; 116] flag_counter (Some 0%nat) 0 ].                              (* -c --cnt *)
Definition ex_sto : store :=
  mkstore [18446744073709551615; 0] [7; 7] [None; None] [None; None] [].
Definition ex_sps : list spelling :=
  [ Bundle [97; 99; 98]; Word [119]; LongEq [105; 110; 116] [45; 53]; ShortSep 115 [118];
    BoolWord [65; 76; 80; 72; 65] [110; 111]; Word [45]; ShortAttached 116 [120];
    ArgListRest (ByShort 108) [[45; 97]; [122]] ].

Example C08_ex_hyps :
  wf_table 3 ex_tbl /\ names_ok ex_tbl = true /\ wf_store 2 ex_sto /\ sps_ok ex_tbl ex_sps = true.
Proof.
  split; [|split; [reflexivity|split; [repeat split|reflexivity]]].
  split.
  - intros o k Hin Hk. repeat (destruct Hin as [<-|Hin]; [inversion Hk; subst; auto with arith|]). destruct Hin.
  - intros o Hin Hb. repeat (destruct Hin as [<-|Hin]; [discriminate|]). destruct Hin.
Qed.

(* prog -acb w --int=-5 -s v --ALPHA no - -tx -l -a z   with argument removal, normal pass *)
Example C08_ex_run :
  let strs := [112] :: render ex_sps in
  match parse (mkenv ex_tbl strs (length strs) false true 0 false) (init_st (length strs) ex_sto 0) with
  | Ok (Done false s') =>
      st_sto s' = mkstore [18446744073709551614; 0] [-5; 7] [None; Some [118]] [Some [Some [45; 97]; Some [122]]; None]
                          [(2%nat, Some [120])] /\
      argv_words strs (st_argv s') = [[112]; [119]; [45]] /\ st_bad s' = 0
  | _ => False
  end.
Proof. vm_compute. repeat split. Qed.

(* a side condition at work: "--alpha" followed by the word "no" is read as --alpha=no *)
Example C08_ex_side_condition :
  sps_ok ex_tbl [LongFlag [97; 108; 112; 104; 97]; Word [110; 111]] = false /\
  let strs := [112] :: render [LongFlag [97; 108; 112; 104; 97]; Word [110; 111]] in
  match parse (mkenv ex_tbl strs (length strs) false true 0 false) (init_st (length strs) ex_sto 0) with
  | Ok (Done false s') => argv_words strs (st_argv s') = [[112]] /\ sb (st_sto s') = [18446744073709551614; 0]
  | _ => False
  end.
Proof. vm_compute. repeat split. Qed.

(* arbitrary bytes: unknown options, a missing value, "--", "--=", a lone '-' - at worst counted *)
Example C08_ex_bad :
  let strs := [[112]; [45; 120]; [45; 45]; [45; 45; 61]; [45]; [45; 45; 105; 110; 116]] in
  match parse (mkenv ex_tbl strs (length strs) false true 255 false) (init_st (length strs) ex_sto 250) with
  | Ok (Done false s') => st_bad s' = 254 /\ st_nbad s' = 4%nat /\ st_sto s' = ex_sto
  | _ => False
  end.
Proof. vm_compute. repeat split. Qed.
