(* C08 - the option parser assigns exactly what the command line says and nothing else.
   Statements only, each closed by `exact`, followed by Print Assumptions. *)
From LV Require Import Base.Buf Gen.OptGen Opt.OptModel.
Local Open Scope Z_scope.

(* the generator found every anchor it derives the constants of the model from *)
Theorem C08_source_shape : optgen_errors = [].
Proof. exact eq_refl. Qed.
Print Assumptions C08_source_shape.
