(* C08 - the option parser assigns exactly what the command line says and nothing else.
   Statements only, each closed by `exact`, followed by Print Assumptions. *)
From LV Require Import Base.Buf Gen.OptGen Opt.OptModel Opt.OptSafe.
Local Open Scope Z_scope.

(* the generator found every anchor it derives the constants of the model from *)
Theorem C08_source_shape : optgen_errors = [].
Proof. exact eq_refl. Qed.
Print Assumptions C08_source_shape.

(* parse_total_safe: EVERY argument vector (arbitrary bytes), every table whose value pointers point
   into the target pools and whose boolean options have one, all settings: with the fuel parse_fuel
   = 1 + sum (length arg + 2) the parser model returns Ok - it terminates and no access leaves argv,
   an argument string (terminator included), the table, a target or its own arrays - and bad_opts is
   the 8 bit sum of its start value and the number of CHECK_BAD()s; it only grows (no wrap) when the
   help handler does not return and the limit is below 255. *)
Theorem C08_parse_total_safe : forall e n sto bad,
  length (e_strs e) = e_argc e -> wf_table n (e_tbl e) -> wf_store n sto -> 0 <= bad < 256 ->
  exists out, parse e (init_st (e_argc e) sto bad) = Ok out /\
    let s' := ost out in
    length (st_argv s') = S (e_argc e) /\ wf_store n (st_sto s') /\
    st_bad s' = (bad + Z.of_nat (st_nbad s')) mod 256 /\
    (e_ret e = false -> bad <= e_allow e < 255 -> st_bad s' = bad + Z.of_nat (st_nbad s')).
Proof. exact parse_total_safe. Qed.
Print Assumptions C08_parse_total_safe.

(* bool_mask_only, whole parse: a bit of a boolean target outside the masks of the boolean options
   aimed at it, and every integer / string / list target no option of that kind is aimed at, keep
   their values whatever the command line is; abstract handler calls are only appended *)
Theorem C08_bool_mask_only : forall e n sto bad out,
  length (e_strs e) = e_argc e -> wf_table n (e_tbl e) -> wf_store n sto -> 0 <= bad < 256 ->
  parse e (init_st (e_argc e) sto bad) = Ok out ->
  StoreRel (e_tbl e) sto (st_sto (ost out)).
Proof. exact bool_mask_only. Qed.
Print Assumptions C08_bool_mask_only.

(* bool_mask_only, one option: handle_boolean leaves every other target alone and writes its own
   as old | mask or old & ~mask (mask zero-extended from 32 bits) or not at all *)
Theorem C08_handle_boolean_exact : forall e o sto val islong sto' r k,
  handle_boolean e o sto val islong = Ok (sto', r) -> o_slot o = Some k ->
  si sto' = si sto /\ ss sto' = ss sto /\ sl sto' = sl sto /\ sa sto' = sa sto /\
  (sb sto' = sb sto \/
   exists v, nth_error (sb sto) k = Some v /\
             (sb sto' = upd (sb sto) k (Z.lor v (o_mask o mod mask_modulus)) \/
              sb sto' = upd (sb sto) k (Z.land v (Z.lnot (o_mask o mod mask_modulus))))).
Proof. exact handle_boolean_exact. Qed.
Print Assumptions C08_handle_boolean_exact.
