(* C02, stage 2, class linked_list (src/linked_list.c through the LIST interface).
   The pointer-level model LListModel.ll_list_step mirrors the C functions statement by statement
   on an explicit item store (id = index, allocation appends, free -> None, every dereference
   checked).  Repr D s o xs (LListHeap.v) says: the chain head -> next -> ... -> NULL of object o
   in store s spells exactly the sequence xs (None = item with NULL data), o.len = length xs, the
   chain has no repeated item (acyclic), and NO other item of the store is live (no leak, nothing
   dangling).  Theorems: for every history the model returns Ok (never a Fault: no NULL / freed /
   unknown item is touched, no loop runs out of fuel), its outputs are those of the ideal sequence
   ContSpec.list_step, and the final store represents the ideal final sequence.
   Precondition lpre_run (ContSpec, PRECONDITIONS): the ordered `insert` of the list interface is
   not issued with an element whose key equals the key of the current first element (there the
   class puts it behind, the ideal sequence in front of the head) - weaker than ContSpec's stated
   precondition (ascending, placeholder-free, head key differs).
   This file holds statements only, each closed by `exact`, and Print Assumptions. *)
From LV Require Import Cont.ContSpec Cont.ContKey Cont.LListModel Cont.LListHeap Cont.LListOps Cont.LListProofs.
Local Open Scope Z_scope.

(* the representation predicate, spelled out *)
Theorem C02_linked_list_repr_meaning : forall (s : lstore) o xs,
  Repr elem s o xs <->
  exists ids, ll_head o = hd_ptr ids None /\ seg elem s ids xs None /\ NoDup ids /\
              ll_len o = Z.of_nat (length xs) /\
              (forall i n, nth_error s i = Some (Some n) -> In i ids).
Proof. exact (Repr_unfold elem). Qed.
Print Assumptions C02_linked_list_repr_meaning.

(* one operation *)
Theorem C02_linked_list_step : forall s o xs op, Repr elem s o xs -> lop_pre xs op ->
  exists s' o', ll_list_step (s, o) op = Ok ((s', o'), snd (list_step xs op)) /\
    Repr elem s' o' (fst (list_step xs op)).
Proof. exact ll_list_step_ok. Qed.
Print Assumptions C02_linked_list_step.

(* every history, from any represented state *)
Theorem C02_linked_list_refines_from : forall ops s o xs, Repr elem s o xs -> lpre_run xs ops ->
  exists s' o', run_model ll_list_step (s, o) ops = Ok ((s', o'), outs list_step xs ops) /\
    Repr elem s' o' (final list_step xs ops).
Proof. exact linked_list_list_refines_from. Qed.
Print Assumptions C02_linked_list_refines_from.

(* every history, from the new list *)
Theorem C02_linked_list_refines : forall ops, lpre_run [] ops ->
  exists s' o', run_model ll_list_step lst0 ops = Ok ((s', o'), outs list_step [] ops) /\
    Repr elem s' o' (final list_step [] ops).
Proof. exact linked_list_list_refines. Qed.
Print Assumptions C02_linked_list_refines.

Theorem C02_linked_list_never_faults : forall ops, lpre_run [] ops ->
  is_ok (run_model ll_list_step lst0 ops) = true.
Proof. exact linked_list_list_safe. Qed.
Print Assumptions C02_linked_list_never_faults.

(* what the harness reads back after every operation (count, get(-n-1..n), a fresh iterator) and the
   level-B structure dump are determined by the represented sequence *)
Theorem C02_linked_list_readback : forall s o xs, Repr elem s o xs ->
  ll_list_readback (s, o) = Ok (list_readback xs).
Proof. exact ll_list_readback_ok. Qed.
Print Assumptions C02_linked_list_readback.

Theorem C02_linked_list_dump : forall s o xs, Repr elem s o xs ->
  ll_dump elem s o = Ok xs /\ ll_len o = Z.of_nat (length xs).
Proof. exact ReprL_dump. Qed.
Print Assumptions C02_linked_list_dump.

(* exactly as many live items as elements; deleting the list frees every one of them *)
Theorem C02_linked_list_live_items : forall (s : lstore) o xs, Repr elem s o xs -> live_count elem s = length xs.
Proof. exact (Repr_live_count elem). Qed.
Print Assumptions C02_linked_list_live_items.

Theorem C02_linked_list_no_leak : forall ops, lpre_run [] ops ->
  exists s' o' s'', run_model ll_list_step lst0 ops = Ok ((s', o'), outs list_step [] ops) /\
    ll_del elem s' o' = Ok s'' /\ forall j n, nth_error s'' j <> Some (Some n).
Proof. exact linked_list_list_no_leak. Qed.
Print Assumptions C02_linked_list_no_leak.

(* non-vacuity: a history that meets the precondition, with placeholders, refusals, reverse and dup *)
Definition lka : key := [97]. Definition lkb : key := [98]. Definition lkc : key := [99].
Definition ll_ex_ops : list lop :=
  [LAppend (mkElem 0 lka); LInsertAt 3 (mkElem 1 lkb); LInsertAt (-5) (mkElem 2 lkc);
   LInsertAt (-4) (mkElem 3 lkc); LRemoveAt (-1); LGet 5; LReverse; LIndex (mkElem 4 lka); LDup;
   LRemove (Some (mkElem 5 lkc)); LRemoveAt 0; LRemoveAt 0; LInsert (mkElem 6 lkb); LInsert (mkElem 7 lkc);
   LIterate; LToArray].
Example C02_linked_list_ex_pre : lpre_run [] ll_ex_ops.
Proof. cbn. repeat split; discriminate. Qed.
Example C02_linked_list_ex_run :
  exists st, run_model ll_list_step lst0 ll_ex_ops = Ok (st, outs list_step [] ll_ex_ops) /\
             ll_dump elem (fst st) (snd st) = Ok [Some (mkElem 0 lka); Some (mkElem 6 lkb); Some (mkElem 7 lkc)].
Proof. eexists. split; vm_compute; reflexivity. Qed.
