(* C13 - bounded and in-place string helpers stay inside their buffers and are exact.
   This file holds only statements, each closed by `exact`, and Print Assumptions. *)
From LV Require Import Base.Buf Strings.HelpersModel Strings.HelpersProofs.
Local Open Scope Z_scope.

Theorem C13_safe_strncpy_exact : forall s srest dest size,
  Forall nz_byte s -> 1 <= size -> size <= blen dest ->
  safe_strncpy dest (cstr s srest) size =
  Ok ((Z.of_nat (length s) <=? size - 1),
      bytes (firstn (Z.to_nat (size - 1)) s) ++ Some 0 ::
      skipn (Nat.min (length s) (Z.to_nat (size - 1)) + 1) dest).
Proof. exact safe_strncpy_exact. Qed.
Print Assumptions C13_safe_strncpy_exact.

Theorem C13_safe_strncpy_refuses : forall dest src size,
  size <= 0 -> safe_strncpy dest src size = Ok (false, dest).
Proof. exact safe_strncpy_refuses. Qed.
Print Assumptions C13_safe_strncpy_refuses.

Theorem C13_safe_strncat_exact : forall d drest s srest size,
  Forall nz_byte d -> Forall nz_byte s ->
  1 <= size -> Z.of_nat (length d) < size -> size <= blen (cstr d drest) ->
  let room := (Z.to_nat (size - 1) - length d)%nat in
  safe_strncat (cstr d drest) (cstr s srest) size =
  Ok ((length s <=? room)%nat,
      bytes d ++ bytes (firstn room s) ++ Some 0 :: skipn (Nat.min (length s) room) drest).
Proof. exact safe_strncat_exact. Qed.
Print Assumptions C13_safe_strncat_exact.

Theorem C13_safe_strncat_full : forall d tail src size,
  Forall nz_byte d -> 1 <= size -> size <= Z.of_nat (length d) ->
  safe_strncat (bytes d ++ tail) src size = Ok (false, bytes d ++ tail).
Proof. exact safe_strncat_full. Qed.
Print Assumptions C13_safe_strncat_full.

Theorem C13_substr_exact : forall s rest idx cnt,
  Forall nz_byte s -> Z.of_nat (length s) < 2147483648 ->
  -2147483648 <= idx < 2147483648 -> -2147483648 <= cnt < 2147483648 ->
  substr (cstr s rest) idx cnt = Ok (substr_spec s idx cnt).
Proof. exact substr_exact. Qed.
Print Assumptions C13_substr_exact.

Theorem C13_downcase_exact : forall s rest,
  Forall nz_byte s -> downcase_str (cstr s rest) = Ok (cstr (map tolower s) rest).
Proof. exact downcase_exact. Qed.
Print Assumptions C13_downcase_exact.

Theorem C13_upcase_exact : forall s rest,
  Forall nz_byte s -> upcase_str (cstr s rest) = Ok (cstr (map toupper s) rest).
Proof. exact upcase_exact. Qed.
Print Assumptions C13_upcase_exact.

Theorem C13_safe_str_exact : forall (s : list Z) rest n,
  n = length s ->
  safe_str (bytes s ++ rest) n = Ok (bytes (map (fun c => if iscntrl c then 46 else c) s) ++ rest).
Proof. exact safe_str_exact. Qed.
Print Assumptions C13_safe_str_exact.

(* non-vacuity: the hypotheses are met by concrete non-trivial states, and the model runs *)
Example C13_ex_strncpy :
  safe_strncpy [None; Some 7; Some 8; Some 9; Some 5] (cstr [104; 105; 33] []) 3 =
  Ok (false, [Some 104; Some 105; Some 0; Some 9; Some 5]).
Proof. vm_compute. reflexivity. Qed.
Example C13_ex_substr : substr (cstr [97; 98; 99; 100; 101; 102] []) (-4) 2 = Ok (Some [99; 100]).
Proof. vm_compute. reflexivity. Qed.

(* ---- chomp, condense_whitespace, strrev (proofs in Strings/HelpersProofs2.v) ---- *)
From LV Require Import Strings.HelpersProofs2.

Theorem C13_chomp_exact : forall (s : list Z) rest, Forall nz_byte s ->
  exists junk, length junk = (length s - length (trim_ws s))%nat /\
    chomp (cstr s rest) = Ok (cstr (trim_ws s) (junk ++ rest)).
Proof. exact chomp_exact. Qed.
Print Assumptions C13_chomp_exact.

Theorem C13_condense_exact : forall (s : list Z) rest, Forall nz_byte s ->
  condense_whitespace (cstr s rest) = Ok (cstr (condense_spec s) []).
Proof. exact condense_exact. Qed.
Print Assumptions C13_condense_exact.

Theorem C13_condense_never_longer : forall s : list Z, (length (condense_spec s) <= length s)%nat.
Proof. exact condense_spec_length. Qed.
Print Assumptions C13_condense_never_longer.

Theorem C13_strrev_exact : forall (s : list Z) rest, Forall nz_byte s ->
  strrev (cstr s rest) = Ok (cstr (rev s) rest).
Proof. exact strrev_exact. Qed.
Print Assumptions C13_strrev_exact.

(* the guard repaired by /repo commit 45e55a7: the original `pbuff >= s` read s[-1] on "" *)
Theorem C13_condense_orig_guard_faults : forall rest,
  condense_whitespace_gen false (cstr [] rest) = Fault OOB_read.
Proof. exact condense_orig_guard_faults. Qed.
Print Assumptions C13_condense_orig_guard_faults.
