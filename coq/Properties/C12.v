(* C12 - split, tok and the word utilities implement one quoting grammar consistently.
   Statements only, each closed by `exact`, followed by Print Assumptions; non-vacuity
   examples at the end.  Models and specifications: Split/SplitModel.v (`tokens` is the
   quoting grammar, `words` the word grammar, `pword_spec` the whitespace-word starts). *)
From LV Require Import Base.Buf Split.SplitModel Split.SplitProofs.
Local Open Scope Z_scope.

(* split produces exactly the token list of the grammar: every string, every delimiter set
   (None = NULL = whitespace), whatever follows the terminator in the block *)
Theorem C12_split_is_tokens : forall d s rest, Forall nz_byte s ->
  split d (cstr s rest) = Ok (match tokens d s with [] => None | l => Some l end).
Proof. exact split_is_tokens. Qed.
Print Assumptions C12_split_is_tokens.

(* tok_eval produces the same tokens, each trimmed *)
Theorem C12_tok_is_tokens_trimmed : forall d s rest, Forall nz_byte s ->
  tok_eval d (cstr s rest) = Ok (map trim (tokens d s)).
Proof. exact tok_is_tokens_trimmed. Qed.
Print Assumptions C12_tok_is_tokens_trimmed.

(* the two agree token for token modulo tok's trimming *)
Theorem C12_split_tok_agree : forall d s rest, Forall nz_byte s ->
  exists l, split d (cstr s rest) = Ok (match l with [] => None | _ => Some l end) /\
            tok_eval d (cstr s rest) = Ok (map trim l).
Proof. exact split_tok_agree. Qed.
Print Assumptions C12_split_tok_agree.

(* join is the tokens with the separator between them, in an exactly sized block *)
Theorem C12_join_exact : forall sep ts,
  Forall nz_byte (match sep with Some s => s | None => [] end) -> Forall (Forall nz_byte) ts ->
  join sep ts = Ok (match ts with [] => None
                    | _ => Some (cstr (join_spec (match sep with Some s => s | None => [] end) ts) []) end).
Proof. exact join_exact. Qed.
Print Assumptions C12_join_exact.

(* joining plain tokens (non-empty, no delimiter, quote or backslash) with a non-empty
   separator made of delimiter characters and splitting again returns the tokens *)
Theorem C12_join_split_round_trip : forall d sep ts,
  sep <> [] -> Forall (fun c => nz_byte c /\ delim d c = true) sep ->
  ts <> [] -> Forall (plain d) ts ->
  exists joined, join (Some sep) ts = Ok (Some joined) /\ split d joined = Ok (Some ts).
Proof. exact join_split_round_trip. Qed.
Print Assumptions C12_join_split_round_trip.

(* words_consistent, three parts: the count, every word 1..n, every pointer *)
Theorem C12_num_words_counts_words : forall s rest, Forall nz_byte s ->
  num_words (cstr s rest) = Ok (Z.of_nat (length (words s))).
Proof. exact num_words_exact. Qed.
Print Assumptions C12_num_words_counts_words.

Theorem C12_get_word_is_ith_word : forall s rest idx, Forall nz_byte s ->
  1 <= idx <= Z.of_nat (length (words s)) ->
  get_word idx (cstr s rest) = Ok (nth_error (words s) (Z.to_nat (idx - 1))).
Proof. exact get_word_exact. Qed.
Print Assumptions C12_get_word_is_ith_word.

Theorem C12_get_pword_points_at_ith_ws_word : forall s rest idx, Forall nz_byte s ->
  get_pword idx (cstr s rest) = Ok (pword_spec idx s).
Proof. exact get_pword_exact. Qed.
Print Assumptions C12_get_pword_points_at_ith_ws_word.

(* no scanner reads (or writes) outside its blocks: the input block is exactly the string
   and its terminator, s is arbitrary (ends in a backslash, has unbalanced quotes, ...) *)
Theorem C12_scanners_stay_inside : forall d s idx, Forall nz_byte s ->
  is_ok (split d (cstr s [])) = true /\ is_ok (tok_eval d (cstr s [])) = true /\
  is_ok (num_words (cstr s [])) = true /\ is_ok (get_word idx (cstr s [])) = true /\
  is_ok (get_pword idx (cstr s [])) = true.
Proof. exact scanners_stay_inside. Qed.
Print Assumptions C12_scanners_stay_inside.

(* ---- non-vacuity and reading aids: the grammar on the inputs the property names ---- *)
(* a, DQ, b, blank, c, DQ, blank, DQ, DQ with the default set: quotes group and are removed,
   an empty quoted string is an empty token *)
Example C12_ex_grammar :
  tokens None [97; 34; 98; 32; 99; 34; 32; 34; 34] = [[97; 98; 32; 99]; []].
Proof. vm_compute. reflexivity. Qed.
(* a\:b:c\  with the set ":" : escaped delimiter literal, final backslash literal *)
Example C12_ex_escape :
  tokens (Some [58]) [97; 92; 58; 98; 58; 99; 92] = [[97; 58; 98]; [99; 92]].
Proof. vm_compute. reflexivity. Qed.
(* the model on an input ending in a backslash, explicit delimiter set, exactly sized block *)
Example C12_ex_trailing_backslash :
  split (Some [58]) (cstr [97; 92] []) = Ok (Some [[97; 92]]) /\
  tok_eval (Some [58]) (cstr [97; 92] []) = Ok [[97; 92]].
Proof. vm_compute. split; reflexivity. Qed.
(* DQ a BACKSLASH DQ b DQ blank c : two words, both delivered *)
Example C12_ex_words :
  let s := [34; 97; 92; 34; 98; 34; 32; 99] in
  num_words (cstr s []) = Ok 2 /\ get_word 1 (cstr s []) = Ok (Some [97; 34; 98]) /\
  get_word 2 (cstr s []) = Ok (Some [99]) /\ get_pword 2 (cstr s []) = Ok (Some 7).
Proof. vm_compute. repeat split; reflexivity. Qed.
(* the hypotheses of the round trip are satisfiable *)
Example C12_ex_round_trip :
  join (Some [58]) [[97]; [98; 98]] = Ok (Some (cstr [97; 58; 98; 98] [])) /\
  split (Some [58]) (cstr [97; 58; 98; 98] []) = Ok (Some [[97]; [98; 98]]) /\
  plain (Some [58]) [98; 98].
Proof.
  split; [vm_compute; reflexivity|]. split; [vm_compute; reflexivity|].
  split; [discriminate|]. repeat constructor; unfold nz_byte; try lia; discriminate.
Qed.
