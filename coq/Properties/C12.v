(* C12 - placeholder while the proofs are being written *)
From LV Require Import Base.Buf Split.SplitModel.
