(* C05 - object protocol: dup is an independent equal copy, comp is a consistent order, type()
   names the class.  Statements only; proofs in Own/CostProofs.v, Own/CompProofs.v,
   Own/FrameProofs.v, Own/SpecProofs.v.  Model: Own/World.v (objects as value trees; every class
   of the property - str, ustr, mbuff, objpair, tok, url, regexp and the nine list / vector / map
   classes - is a constructor of [obj], nesting arbitrary).  [pcre] is the oracle "blocks left
   allocated by pcre_compile", [ft] the flag-letter table generated from src/regexp.c. *)
From LV Require Import Own.SpecProofs.
Local Open Scope Z_scope.

(* ---- dup: equal value, same class, for EVERY state (empty string = OStr None, empty container,
        NULL placeholders = None items, unevaluated tokenizer = OTok _ _ None _, a tokenizer whose token
        list is out of step with its other members, ...) ---- *)
Theorem C05_dup_equal : forall pcre x y, copy pcre x = Ok y -> abs y = abs x.
Proof. exact copy_abs. Qed.
Print Assumptions C05_dup_equal.

Theorem C05_dup_same_class : forall pcre x y, copy pcre x = Ok y -> tag_of y = tag_of x.
Proof. exact copy_tag. Qed.
Print Assumptions C05_dup_same_class.

(* the dup operation of a program: the result is bound to a new handle, it has the value and the
   class of the original, and exactly its own footprint was allocated *)
Theorem C05_dup_step : forall pcre ft w h x w' r,
  get w h = Ok x -> step pcre ft w (Dup h) = Ok (w', r) ->
  exists y, r = RNew (next w) false /\ held w' = held w ++ [(next w, y)] /\ next w' = S (next w) /\
            abs y = abs x /\ tag_of y = tag_of x /\
            footprint y = dup_cost pcre x /\ ledger w' = ledger w + footprint y.
Proof. exact dup_step. Qed.
Print Assumptions C05_dup_step.

(* fresh: a handle that was not held before; everything held before is still held, unchanged *)
Theorem C05_dup_fresh : forall pcre ft w h x w' r,
  Good w -> get w h = Ok x -> step pcre ft w (Dup h) = Ok (w', r) ->
  lookup (next w) (held w) = None /\
  (forall k o, lookup k (held w) = Some o -> lookup k (held w') = Some o) /\
  exists y, lookup (next w) (held w') = Some y /\ abs y = abs x /\ ledger w' = ledger w + footprint y.
Proof. exact dup_fresh. Qed.
Print Assumptions C05_dup_fresh.

(* independent: whatever history follows (mutating, emptying, deleting), as long as it does not
   name one of the two handles as the object it acts on, that handle keeps its value and stays held *)
Theorem C05_independent : forall pcre ft w h x w1 r,
  Good w -> get w h = Ok x -> step pcre ft w (Dup h) = Ok (w1, r) ->
  forall p w2 outs, run pcre ft w1 p = Ok (w2, outs) ->
    (avoids h p -> lookup h (held w2) = Some x) /\
    (avoids (next w) p -> exists y, lookup (next w) (held w2) = Some y /\ abs y = abs x /\ tag_of y = tag_of x).
Proof. exact dup_independent. Qed.
Print Assumptions C05_independent.

(* a tokenizer's copy carries the ORIGINAL's members - source, separators, the three characters and
   the token list as it is, whatever the caller made of it (changed a member after eval without
   evaluating again, removed a token from the list spif_tok_get_tokens hands out, installed a list
   with spif_tok_set_tokens): the list is copied, never recomputed *)
Theorem C05_dup_tok_copies_members : forall pcre a b l ch y, copy pcre (OTok a b l ch) = Ok y ->
  exists a' b' l', y = OTok a' b' l' ch /\ abs_opt a' = abs_opt a /\ abs_opt b' = abs_opt b /\ abs_opt l' = abs_opt l.
Proof. exact dup_tok_members. Qed.
Print Assumptions C05_dup_tok_copies_members.

(* such states are reachable: a character setter stores the character and leaves the list alone *)
Theorem C05_tok_setter_leaves_list : forall pcre ft w t which c w' r a b l ch,
  get w t = Ok (OTok a b l ch) -> step pcre ft w (TokSetChar t which c) = Ok (w', r) ->
  exists ch', lookup t (held w') = Some (OTok a b l ch') /\ ledger w' = ledger w.
Proof. exact tok_set_char_keeps_list. Qed.
Print Assumptions C05_tok_setter_leaves_list.

(* with the default characters the scanner of the model is the quoting grammar of property C12 *)
Theorem C05_tok_scanner_default : forall d s i q, smq default_chars d i q s = SplitModel.sm d i q s.
Proof. exact smq_default. Qed.
Print Assumptions C05_tok_scanner_default.

(* the general frame fact behind it: an operation changes only the handles it writes *)
Theorem C05_frame : forall pcre ft h w op w' r,
  step pcre ft w op = Ok (w', r) -> ~ In h (writes op) -> is_delall op = false ->
  forall o, lookup h (held w) = Some o -> lookup h (held w') = Some o.
Proof. exact step_keeps. Qed.
Print Assumptions C05_frame.

(* ---- comp ----
   comp is a structural Fixpoint over the value tree (Own/World.v): Coq accepts it without fuel,
   so it terminates on every pair of objects; the only fault it can return is Abort (type
   confusion between classes), never Out_of_fuel. *)
Theorem C05_comp_terminates : forall a b f, comp a b = Fault f -> f = Abort.
Proof. exact comp_fault. Qed.
Print Assumptions C05_comp_terminates.

Theorem C05_comp_reflexive : forall o r, comp o o = Ok r -> r = CEq.
Proof. exact comp_refl. Qed.
Print Assumptions C05_comp_reflexive.

Theorem C05_comp_antisymmetric : forall a b r r', comp a b = Ok r -> comp b a = Ok r' -> r' = opp r.
Proof. exact comp_antisym. Qed.
Print Assumptions C05_comp_antisymmetric.

Theorem C05_comp_transitive : forall a b c r1 r2 r3,
  comp a b = Ok r1 -> comp b c = Ok r2 -> comp a c = Ok r3 -> r1 <> CGt -> r2 <> CGt -> r3 <> CGt.
Proof. exact comp_trans. Qed.
Print Assumptions C05_comp_transitive.

Theorem C05_comp_equal_transitive : forall a b c r3,
  comp a b = Ok CEq -> comp b c = Ok CEq -> comp a c = Ok r3 -> r3 = CEq.
Proof. exact comp_eq_trans. Qed.
Print Assumptions C05_comp_equal_transitive.

(* NULL is ordered before every object (and equal to NULL) *)
Theorem C05_comp_null_first : forall x,
  comp_opt None (Some x) = Ok CLt /\ comp_opt (Some x) None = Ok CGt /\ comp_opt None None = Ok CEq.
Proof. intros x. exact (conj (proj1 (comp_null_below x)) (conj (proj2 (comp_null_below x)) comp_null_null)). Qed.
Print Assumptions C05_comp_null_first.

(* equal-prefix buffers of different length are not equal *)
Theorem C05_comp_prefix_not_equal : forall a c t,
  comp (OMbuff (Some a)) (OMbuff (Some (a ++ c :: t))) = Ok CLt /\
  comp (OMbuff (Some (a ++ c :: t))) (OMbuff (Some a)) = Ok CGt /\
  comp (OStr (Some a)) (OStr (Some (a ++ c :: t))) = Ok CLt.
Proof. exact comp_prefix_not_equal. Qed.
Print Assumptions C05_comp_prefix_not_equal.

Theorem C05_comp_equal_same_bytes : forall s t, comp (OMbuff s) (OMbuff t) = Ok CEq -> text_of s = text_of t.
Proof. exact comp_equal_same_text. Qed.
Print Assumptions C05_comp_equal_same_bytes.

(* comp is defined (no type confusion) on any two objects of one comparison type *)
Theorem C05_comp_defined : forall t a b, has_ty t a = true -> has_ty t b = true -> exists r, comp a b = Ok r.
Proof. exact comp_defined. Qed.
Print Assumptions C05_comp_defined.

(* ---- type ---- *)
Theorem C05_type_names_class : forall t, class_name t = option_map bang_name (base_name t).
Proof. exact type_names_class. Qed.
Print Assumptions C05_type_names_class.

Theorem C05_type_step : forall pcre ft w h x w' r,
  get w h = Ok x -> step pcre ft w (TypeOf h) = Ok (w', r) -> w' = w /\ r = RType (tag_of x) /\ x <> ORaw.
Proof. exact type_step. Qed.
Print Assumptions C05_type_step.

Theorem C05_every_class_named : forall x, x <> ORaw -> exists n, class_name (tag_of x) = Some (bang_name n).
Proof. exact every_class_named. Qed.
Print Assumptions C05_every_class_named.

(* ---- non-vacuity ---- *)
Definition pc (_ : option text) (_ : Z) : Z := 1.
(* a list with NULL placeholders, a nested linked list, a key-only pair, an unevaluated tokenizer *)
Definition ex_list : obj :=
  OCont IList Arr 7 true [None; Some (OStr None); Some (OCont IList LL 9 false [Some (OStr (Some [97]))]);
                           Some (OPair (Some (OStr (Some [107]))) None); Some (OTok (Some (OStr (Some [97; 32; 98]))) None None default_chars)].
Example ex_dup_defined : exists y, copy pc ex_list = Ok y /\ abs y = abs ex_list /\ footprint y = 13.
Proof. eexists. split; [vm_compute; reflexivity|]. split; vm_compute; reflexivity. Qed.
Example ex_dup_empty : copy pc (OStr None) = Ok (OStr None) /\ copy pc (OCont IVector DL 3 false []) = Ok (OCont IVector DL 3 false []).
Proof. split; reflexivity. Qed.
Example ex_comp_arrays :
  comp (OCont IList Arr 0 true [Some (OStr (Some [97]))]) (OCont IList Arr 1 true [Some (OStr (Some [97])); None]) = Ok CLt.
Proof. reflexivity. Qed.
Example ex_comp_pair_key : comp (OPair None None) (OPair (Some (OStr None)) None) = Ok CLt.
Proof. reflexivity. Qed.
Example ex_has_ty : has_ty (TyArr (TyPair TyStr)) (OCont IMap Arr 0 true [Some (OPair (Some (OStr (Some [107]))) (Some (OStr None)))]) = true.
Proof. reflexivity. Qed.
(* a tokenizer evaluated with blanks, then given the separator ",": its list still has the one token
   "a,b"; the copy has the same list (a fresh evaluation would give "a" and "b") *)
Example ex_stale_tok :
  exists w outs, run pc [] w0 [NewTok (Some [97; 44; 98]); TokEval 0; NewStr (Some [44]); TokSetSep 0 (Some 1%nat); Dup 0] = Ok (w, outs) /\
    exists a b l ch a' b' l', lookup 0 (held w) = Some (OTok a b (Some l) ch) /\ lookup 2 (held w) = Some (OTok a' b' (Some l') ch) /\
      abs l' = abs l /\ abs l = OCont IList DL 0 false [Some (OStr (Some [97; 44; 98]))] /\
      tok_tokens ch [97; 44; 98] (Some [44]) = [Some (OStr (Some [97])); Some (OStr (Some [98]))].
Proof. do 2 eexists. split; [vm_compute; reflexivity|]. do 7 eexists. repeat split. Qed.
(* the same after the caller removed a token through get_tokens, installed an array list, changed a quote *)
Example ex_edited_tok :
  exists w outs, run pc [] w0 [NewTok (Some [97; 32; 98]); TokEval 0; TokListRemoveAt 0 0; TokSetChar 0 0 124;
                              MemberAppend 0 0 [32; 99]; Dup 0; NewCont IList Arr; TokSetTokens 2 (Some 3%nat); Dup 2; Dump 4] = Ok (w, outs) /\
    lookup 0 (held w) = Some (OTok (Some (OStr (Some [97; 32; 98; 32; 99]))) None (Some (OCont IList DL 0 false [Some (OStr (Some [98]))])) (124, 34, 92)) /\
    lookup 4 (held w) = Some (OTok (Some (OStr (Some [97; 32; 98; 32; 99]))) None (Some (OCont IList Arr 3 true [])) (124, 34, 92)) /\
    ledger w = 18.
Proof. do 2 eexists. split; [vm_compute; reflexivity|]. repeat split. Qed.
Example ex_program :
  exists w outs, run pc [] w0 [NewStr (Some [97]); Dup 0; Append 1 [98]; Del 1; Dump 0] = Ok (w, outs) /\
                 lookup 0 (held w) = Some (OStr (Some [97])) /\ avoids 0 [Append 1 [98]; Del 1; Dump 0].
Proof. do 2 eexists. split; [vm_compute; reflexivity|]. split; [reflexivity|]. repeat constructor; cbn; intuition discriminate. Qed.
