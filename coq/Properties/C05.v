(* C05 - statements (work in progress) *)
From LV Require Import Own.World.
Theorem C05_stub : opp (opp CLt) = CLt.
Proof. reflexivity. Qed.
Print Assumptions C05_stub.
