From LV Require Import Base.Buf Gen.Constants Gen.SockGen Sock.SockModel.
Require Extraction.
Require Import ExtrOcamlBasic.
Extraction "c19_model.ml" num_anchor str_buff_inc step run cleanup dangling pick_max pick_low is_open
  socket_send init_from_fd fifo_sched sv_text pair_xfer delivered.
