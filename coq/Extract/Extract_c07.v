From LV Require Import Base.Buf Mbuff.MbuffModel.
Require Extraction.
Require Import ExtrOcamlBasic.
Extraction "c07_model.ml" num_anchor run_ctor step null_self init_from_buff abs init_prefix
  spec_ctor spec_step out_abs.
