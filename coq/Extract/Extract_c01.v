From LV Require Import Base.Buf Str.StrModel Str.StrSpec.
Require Extraction.
Require Import ExtrOcamlBasic.
Extraction "c01_model.ml" num_anchor construct step empty_str spec_construct sstep.
