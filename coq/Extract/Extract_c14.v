From LV Require Import Base.Buf Url.UrlModel.
Require Extraction.
Require Import ExtrOcamlBasic.
Extraction "c14_model.ml" num_anchor url_parse_gen parse_pure unparse_text render canon fill_port.
