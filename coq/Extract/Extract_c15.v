From LV Require Import Base.Res MemRec.MemRecModel.
Require Extraction.
Require Import ExtrOcamlBasic.
Extraction "c15_model.ml" num_anchor run init_state sane_script spec_run memrec_dump.
