From LV Require Import Own.World Own.Names Gen.OwnGen.
Require Extraction.
Require Import ExtrOcamlBasic.
Extraction "c05_model.ml" num_anchor step run w0 class_name re_flag_table abs comp_opt footprint release.
