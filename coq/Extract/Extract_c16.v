From LV Require Import Base.Res Guard.GuardModel Gen.NullGuardTable.
Require Extraction.
Require Import ExtrOcamlBasic.
Extraction "c16_model.ml" num_anchor bind fname_codes predict cell_report failing_slots unparsed guard_sems table named_cells exempt table_errors table_digest.
