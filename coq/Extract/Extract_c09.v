From LV Require Import Base.Buf Conf.ConfModel Conf.ConfInst Temp.TempModel.
Require Extraction.
Require Import ExtrOcamlBasic.
Extraction "c09_model.ml" num_anchor istep iconf0 ifind vstore_blocks s16 temp_file env2 world0 fd_mode.
