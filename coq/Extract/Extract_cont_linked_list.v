From LV Require Import Base.Res Cont.ContSpec Cont.LListModel.
Require Extraction.
Require Import ExtrOcamlBasic.
Extraction "cont_linked_list_model.ml" num_anchor ll_list_step ll_vec_step ll_map_step
  ll_list_readback ll_vec_readback ll_map_readback ll_dump ll_del live_count lst0 mst0 is_ok.
