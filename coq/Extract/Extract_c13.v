From LV Require Import Base.Buf Strings.HelpersModel.
Require Extraction.
Require Import ExtrOcamlBasic.
Extraction "c13_model.ml" num_anchor safe_strncpy safe_strncat substr downcase_str upcase_str
  safe_str chomp condense_whitespace_gen strrev take_str.
