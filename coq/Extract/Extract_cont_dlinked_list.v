From LV Require Import Base.Res Cont.ContSpec Cont.DListModel.
Require Extraction.
Require Import ExtrOcamlBasic.
Extraction "cont_dlinked_list_model.ml" num_anchor dl_list_step dl_vec_step dl_map_step e_init m_init
  dl_get dl_sweep dl_iterator dl_to_array dl_get_pairs dl_dump dl_done run_model is_ok.
