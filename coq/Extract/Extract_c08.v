From LV Require Import Base.Buf Opt.OptModel.
Require Extraction.
Require Import ExtrOcamlBasic.
Extraction "c08_model.ml" num_anchor parse parse_twice init_st mkenv mkopt mkstore parse_fuel
  num_words get_word strtol0 to_int render ideal sps_ok names_ok.
