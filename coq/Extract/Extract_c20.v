From LV Require Import Base.Res Debug.DebugModel.
From Coq Require Import Strings.Byte.
Require Extraction.
Require Import ExtrOcamlBasic.
Extraction "c20_model.ml" num_anchor bind behaviour spec classified prim_behaviour spec_prim mk_env mk_rt printed
  Byte.of_N Byte.to_N.
