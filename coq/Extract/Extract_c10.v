From LV Require Import Base.Buf Expand.ExpandModel.
Require Extraction.
Require Import ExtrOcamlBasic.
Extraction "c10_model.ml" num_anchor shell_expand getenv_of exec_world dir_world get_var put_var take_str CB cstr.
