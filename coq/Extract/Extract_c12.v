From LV Require Import Base.Buf Split.SplitModel Split.TokObjModel.
Require Extraction.
Require Import ExtrOcamlBasic.
Extraction "c12_model.ml" num_anchor split tok_eval join get_word get_pword num_words
  tokens words pword_spec join_spec trim take_str
  tok_new tok_run spec_run default_cfg.
