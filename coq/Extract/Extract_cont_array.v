From LV Require Import Base.Res Cont.ContSpec Cont.ArrayModel.
Require Extraction.
Require Import ExtrOcamlBasic.
Extraction "cont_array_model.ml" num_anchor arr_new arr_list_step arr_vec_step arr_map_step
  arr_list_readback arr_vec_readback arr_map_readback arr_dump arr_list_dup arr_strict_dup run_m is_ok.
