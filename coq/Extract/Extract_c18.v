From LV Require Import Base.Buf Hash.HashModel Hash.HashSpec.
Require Extraction.
Require Import ExtrOcamlBasic.
Extraction "c18_model.ml" num_anchor jenkins jenkins32 jenkinsLE rotating one_at_a_time fnv
  spec_jenkins spec_jenkins32 spec_rotating spec_oaat spec_fnv words_of_bytes.
