From LV Require Import Base.Res Cont.ContSpec.
Require Extraction.
Require Import ExtrOcamlBasic.
Extraction "cont_model.ml" num_anchor list_step vec_step map_step list_readback it_sweep it_new
  final outs run is_ok.
