From LV Require Import Base.Buf Vercmp.VercmpModel.
Require Extraction.
Require Import ExtrOcamlBasic.
Extraction "c17_model.ml" num_anchor vercmp vercmp_gen.
