
val negb : bool -> bool

type nat =
| O
| S of nat

val length : 'a1 list -> nat

val app : 'a1 list -> 'a1 list -> 'a1 list

type comparison =
| Eq
| Lt
| Gt

val compOpp : comparison -> comparison

val add : nat -> nat -> nat

val sub : nat -> nat -> nat

module Nat :
 sig
  val leb : nat -> nat -> bool

  val ltb : nat -> nat -> bool
 end

val nth_error : 'a1 list -> nat -> 'a1 option

val rev : 'a1 list -> 'a1 list

val map : ('a1 -> 'a2) -> 'a1 list -> 'a2 list

val firstn : nat -> 'a1 list -> 'a1 list

val skipn : nat -> 'a1 list -> 'a1 list

val repeat : 'a1 -> nat -> 'a1 list

type positive =
| XI of positive
| XO of positive
| XH

type n =
| N0
| Npos of positive

type z =
| Z0
| Zpos of positive
| Zneg of positive

module Pos :
 sig
  val succ : positive -> positive

  val add : positive -> positive -> positive

  val add_carry : positive -> positive -> positive

  val pred_double : positive -> positive

  val mul : positive -> positive -> positive

  val compare_cont : comparison -> positive -> positive -> comparison

  val compare : positive -> positive -> comparison

  val eqb : positive -> positive -> bool

  val iter_op : ('a1 -> 'a1 -> 'a1) -> positive -> 'a1 -> 'a1

  val to_nat : positive -> nat

  val of_succ_nat : nat -> positive
 end

module Z :
 sig
  val double : z -> z

  val succ_double : z -> z

  val pred_double : z -> z

  val pos_sub : positive -> positive -> z

  val add : z -> z -> z

  val opp : z -> z

  val sub : z -> z -> z

  val mul : z -> z -> z

  val compare : z -> z -> comparison

  val leb : z -> z -> bool

  val ltb : z -> z -> bool

  val geb : z -> z -> bool

  val gtb : z -> z -> bool

  val eqb : z -> z -> bool

  val min : z -> z -> z

  val to_nat : z -> nat

  val of_nat : nat -> z

  val pos_div_eucl : positive -> z -> z * z

  val div_eucl : z -> z -> z * z

  val div : z -> z -> z

  val modulo : z -> z -> z
 end

type fault =
| OOB_read
| OOB_write
| Uninit_read
| Null_deref
| Use_after_free
| Bad_free
| Out_of_fuel
| Int_overflow
| Abort

type 'a res =
| Ok of 'a
| Fault of fault

val bind : 'a1 res -> ('a1 -> 'a2 res) -> 'a2 res

val num_anchor : ((nat * positive) * n) * z

type cell = z option

type buf = cell list

val rdn : buf -> nat -> z res

val upd : 'a1 list -> nat -> 'a1 -> 'a1 list

val wrn : buf -> nat -> z -> buf res

val rd : buf -> z -> z res

val wr : buf -> z -> z -> buf res

val bytes : z list -> buf

val cstr : z list -> buf -> buf

val strlen : buf -> nat res

val strnlen : buf -> nat -> nat res

val take_str : buf -> z list

val isspace : z -> bool

val isupper : z -> bool

val islower : z -> bool

val isdigit : z -> bool

val tolower : z -> z

val toupper : z -> z

val str_buff_inc : z

val map_str : (z -> z) -> buf -> buf res

val sub_cells : buf -> nat -> nat -> cell list res

val put_cells : buf -> nat -> cell list -> buf res

val rev_loop : buf -> nat -> z -> nat -> buf res

val strrev : buf -> buf res

val dropwhile : ('a1 -> bool) -> 'a1 list -> 'a1 list

val trim_ws : z list -> z list

type str = { str_s : buf option; str_len : z; str_size : z }

val empty_str : str

val malloc : z -> buf res

val realloc : buf option -> z -> buf option res

val deref : buf option -> buf res

val str_str : str -> buf

val getz : buf -> z -> z -> cell list res

val putz : buf -> z -> cell list -> buf res

val memmovez : buf -> z -> z -> z -> buf res

val read_cstr : buf -> z list res

val read_cstr_at : buf -> z -> z list res

val zlen : 'a1 list -> z

val cstr_cells : z list -> cell list

val init : str res

val init_from_ptr : z list option -> str res

val init_from_buff : buf option -> z -> str res

val take_line : nat -> z list -> z list * z list

val find_byte : z -> z list -> nat option

val fp_loop : z -> nat -> str -> z list -> (str * z option) res

val init_from_fp_gen : z -> z list -> str res

val init_from_fp : z list -> str res

type rd_event =
| Data of z list
| EINTR
| EAGAIN
| EOF
| Err

type rd_result =
| RData of z list
| RIntr
| RStop

val read_call : z -> rd_event list -> rd_result * rd_event list

val sched_measure : rd_event list -> nat

val fd_loop : z -> nat -> str -> z -> rd_event list -> str res

val init_from_fd_gen : z -> rd_event list -> str res

val init_from_fd : rd_event list -> str res

val dec_digits : nat -> z -> z list -> z list

val dec_repr : z -> z list

val init_from_num : z -> str res

val str_done : str -> str

val dup : str -> str res

val grow_size : str -> z -> z -> z

val append : str -> str option -> (bool * str) res

val append_from_ptr : str -> z list option -> (bool * str) res

val append_char : str -> z -> (bool * str) res

val prepend : str -> str option -> (bool * str) res

val prepend_from_ptr : str -> z list option -> (bool * str) res

val prepend_char : str -> z -> (bool * str) res

val splice_args : str -> z -> z -> (z * z) option

val splice_cells : str -> z -> z -> cell list res -> (bool * str) res

val splice : str -> z -> z -> str option -> (bool * str) res

val splice_from_ptr : str -> z -> z -> z list option -> (bool * str) res

val substr_args : str -> z -> z -> (z * z) option

val substr : str -> z -> z -> str option res

val substr_to_ptr : str -> z -> z -> buf option res

val trim_front : nat -> buf -> z -> z -> z res

val trim_back : nat -> buf -> z -> z -> z res

val trim : str -> (bool * str) res

val reverse : str -> (bool * str) res

val case_map : (z -> z) -> str -> (bool * str) res

val upcase : str -> (bool * str) res

val downcase : str -> (bool * str) res

val clear : str -> z -> (bool * str) res

type fmt_arg =
| FmtNull
| FmtEmpty
| FmtText of z list

val sprintf : str -> fmt_arg -> (bool * str) res

val strcmp_l : z list -> z list -> z

type cmp_kind =
| CmpPlain
| CmpCase
| CmpN of z
| CmpNCase of z

val cut : z -> z list -> z list

val cmp_bytes : cmp_kind -> z list -> z list -> z

val cmp : cmp_kind -> str -> str option -> z res

val cmp_with_ptr : cmp_kind -> str -> z list option -> z res

val is_prefix : z list -> z list -> bool

val strstr_l : z list -> z list -> nat option

val find : str -> str option -> z res

val find_from_ptr : str -> z list option -> z res

val rfind_byte : z -> z list -> nat option

val index_of : str -> z -> z res

val rindex_of : str -> z -> z res

val digit_val : z -> z option

val ulong_max : z

val strtoul_digits : z -> z list -> z -> bool -> bool -> (z * bool) * bool

val has_hex_prefix : z list -> bool

val strtoul_l : z list -> z -> z

val to_num : str -> z -> z res

val to_float_arg : str -> z list res

val get_len : str -> z

val get_size : str -> z

val set_len : str -> z -> str

val set_size : str -> z -> str

type ctor =
| CInit
| CPtr of z list option
| CBuff of buf option * z
| CFp of z list
| CFd of rd_event list
| CNum of z

val construct : ctor -> str res

type op =
| OReinit of ctor
| ODone
| OOtherNull
| OOtherNew of ctor
| OOtherDup
| OOtherSubstr of z * z
| OSwap
| OAppend
| OAppendPtr of z list option
| OAppendChar of z
| OPrepend
| OPrependPtr of z list option
| OPrependChar of z
| OSplice of z * z
| OSplicePtr of z * z * z list option
| OTrim
| OReverse
| OUpcase
| ODowncase
| OClear of z
| OSprintf of fmt_arg
| OSubstrToPtr of z * z
| OCmp of cmp_kind
| OCmpPtr of cmp_kind * z list option
| OFind
| OFindPtr of z list option
| OIndex of z
| ORindex of z
| OToNum of z
| OToFloat
| OGetLen
| OGetSize
| OSetSame

type out =
| RUnit
| RBool of bool
| RInt of z
| RSize of z
| ROpen of bool
| RPtr of buf option
| RText of z list

type mstate = str * str option

val lift : (bool * str) res -> str option -> (out * mstate) res

val step : mstate -> op -> (out * mstate) res

type text = z list

val norm_idx : z -> z -> z option

val splice_cnt : z -> z -> z -> z option

val substr_cnt : z -> z -> z -> z option

val sub0 : text -> z -> z -> text

val spec_splice : text -> z -> z -> text -> text option

val spec_substr : text -> z -> z -> text option

val first_line : z list -> text

val delivered : rd_event list -> text

val spec_construct : ctor -> text

val spec_find : text -> text -> z

val spec_index : text -> z -> z

val spec_rindex : text -> z -> z

type sstate = text * text option

val ins_text : text option -> text

val sstep : sstate -> op -> out * sstate
