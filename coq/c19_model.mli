
val negb : bool -> bool

type nat =
| O
| S of nat

type ('a, 'b) sum =
| Inl of 'a
| Inr of 'b

val fst : ('a1 * 'a2) -> 'a1

val snd : ('a1 * 'a2) -> 'a2

val length : 'a1 list -> nat

val app : 'a1 list -> 'a1 list -> 'a1 list

type comparison =
| Eq
| Lt
| Gt

val compOpp : comparison -> comparison

val add : nat -> nat -> nat

val sub : nat -> nat -> nat

module Nat :
 sig
  val leb : nat -> nat -> bool

  val ltb : nat -> nat -> bool
 end

val nth_error : 'a1 list -> nat -> 'a1 option

val map : ('a1 -> 'a2) -> 'a1 list -> 'a2 list

val fold_right : ('a2 -> 'a1 -> 'a1) -> 'a1 -> 'a2 list -> 'a1

val existsb : ('a1 -> bool) -> 'a1 list -> bool

val filter : ('a1 -> bool) -> 'a1 list -> 'a1 list

val firstn : nat -> 'a1 list -> 'a1 list

val skipn : nat -> 'a1 list -> 'a1 list

val repeat : 'a1 -> nat -> 'a1 list

type positive =
| XI of positive
| XO of positive
| XH

type n =
| N0
| Npos of positive

type z =
| Z0
| Zpos of positive
| Zneg of positive

module Pos :
 sig
  val succ : positive -> positive

  val add : positive -> positive -> positive

  val add_carry : positive -> positive -> positive

  val pred_double : positive -> positive

  val pred_N : positive -> n

  val mul : positive -> positive -> positive

  val compare_cont : comparison -> positive -> positive -> comparison

  val compare : positive -> positive -> comparison

  val eqb : positive -> positive -> bool

  val coq_Nsucc_double : n -> n

  val coq_Ndouble : n -> n

  val coq_lor : positive -> positive -> positive

  val coq_land : positive -> positive -> n

  val ldiff : positive -> positive -> n

  val iter_op : ('a1 -> 'a1 -> 'a1) -> positive -> 'a1 -> 'a1

  val to_nat : positive -> nat

  val of_succ_nat : nat -> positive
 end

module N :
 sig
  val succ_pos : n -> positive

  val coq_lor : n -> n -> n

  val coq_land : n -> n -> n

  val ldiff : n -> n -> n
 end

module Z :
 sig
  val double : z -> z

  val succ_double : z -> z

  val pred_double : z -> z

  val pos_sub : positive -> positive -> z

  val add : z -> z -> z

  val opp : z -> z

  val sub : z -> z -> z

  val mul : z -> z -> z

  val compare : z -> z -> comparison

  val leb : z -> z -> bool

  val ltb : z -> z -> bool

  val eqb : z -> z -> bool

  val max : z -> z -> z

  val min : z -> z -> z

  val to_nat : z -> nat

  val of_nat : nat -> z

  val of_N : n -> z

  val pos_div_eucl : positive -> z -> z * z

  val div_eucl : z -> z -> z * z

  val div : z -> z -> z

  val coq_lor : z -> z -> z

  val coq_land : z -> z -> z

  val ldiff : z -> z -> z
 end

type fault =
| OOB_read
| OOB_write
| Uninit_read
| Null_deref
| Use_after_free
| Bad_free
| Out_of_fuel
| Int_overflow
| Abort

type 'a res =
| Ok of 'a
| Fault of fault

val bind : 'a1 res -> ('a1 -> 'a2 res) -> 'a2 res

val num_anchor : ((nat * positive) * n) * z

type cell = z option

type buf = cell list

val blen : buf -> z

val upd : 'a1 list -> nat -> 'a1 -> 'a1 list

val wrn : buf -> nat -> z -> buf res

val wr : buf -> z -> z -> buf res

val bytes : z list -> buf

val str_buff_inc : z

val f_FAMILY_INET : z

val f_FAMILY_UNIX : z

val f_TYPE_STREAM : z

val f_TYPE_DGRAM : z

val f_TYPE_RAW : z

val f_LISTEN : z

val f_OPEN : z

val f_CONNECTED : z

val f_HAVE_INPUT : z

val f_CAN_OUTPUT : z

val f_NBIO : z

val f_IOSTATE : z

val send_chunk : z

val send_backoff_usec : z

val send_backoff_wrap : z

val zlen : 'a1 list -> z

type rd_event =
| RData of z list
| REintr
| REagain
| REof
| RErr

type rd_result =
| GotData of z list
| GotIntr
| GotStop

val read_call : z -> rd_event list -> rd_result * rd_event list

val sched_measure : rd_event list -> nat

val realloc : buf -> z -> buf

val putz : buf -> z -> z list -> buf res

type strv = { sv_s : buf; sv_len : z; sv_size : z }

val fd_loop : z -> nat -> buf -> z -> z -> rd_event list -> (buf * z) res

val init_from_fd : z -> rd_event list -> strv res

val socket_recv : z -> z -> rd_event list -> strv option res

val cells_bytes : buf -> z list res

val sv_text : strv -> z list res

val delivered : rd_event list -> z list

type rd_shape =
| ShTake of z
| ShIntr

val fifo_sched : z list -> rd_shape list -> rd_event -> rd_event list

type werr =
| EFBIG
| EIO
| EPIPE
| EINVAL
| EOTHER

type wr_event =
| Wrote of z
| WEintr
| WEagain
| WErr of werr

type wstat =
| WDone
| WFail of werr option

type fd_effect =
| FdKeep
| FdClosed
| FdForgotten

type timeval = z * z

val bump : timeval -> timeval

type wphase = { wp_stat : wstat; wp_acc : z list; wp_rest : z list;
                wp_tv : timeval; wp_sel : timeval list; wp_ws : wr_event list }

val write_phase :
  bool -> z list -> timeval -> timeval list -> z list -> wr_event list ->
  wphase

val take_nonnul : nat -> z list -> z list

type send_out = { so_ok : bool; so_acc : z list; so_eff : fd_effect;
                  so_sel : timeval list; so_ws : wr_event list }

val chunks_loop :
  (z list -> wr_event list -> send_out res) -> z -> nat -> z list -> z list
  -> timeval list -> wr_event list -> send_out res

val send : z -> nat -> bool -> z list -> wr_event list -> send_out res

val socket_send : bool -> z list -> wr_event list -> send_out res

val pair_xfer :
  z -> z list -> wr_event list -> rd_shape list -> rd_event ->
  (send_out * strv) res

type sock = { s_fd : z; s_addr : bool; s_flags : z; s_lurl : bool;
              s_rurl : bool }

val fset : z -> z -> z

val fclear : z -> z -> z

val fisset : z -> z -> bool

type world = { w_open : z list; w_objs : sock option list }

val is_open : z list -> z -> bool

val release : z list -> z -> z list

val get : sock option list -> nat -> sock option

val sock_new : bool -> bool -> sock

val get_proto : sock -> sock

val with_fd : sock -> z -> sock

val with_flags : sock -> z -> sock

val close_loop : nat -> bool -> bool

val sock_close : sock -> z list -> nat -> bool -> (bool * sock) * z list

val sock_done : sock -> z list -> nat -> bool -> sock * z list

val sock_open :
  (z list -> z) -> sock -> z list -> bool -> bool -> bool -> bool ->
  (bool * sock) * z list

val sock_dup : (z list -> z) -> sock -> z list -> bool -> sock * z list

val sock_accept :
  (z list -> z) -> sock -> z list -> nat -> bool -> bool -> sock option * z
  list

val sock_nbio : sock -> bool * sock

type op =
| ONew of bool * bool
| OOpen of nat * bool * bool * bool * bool
| OAccept of nat * nat * bool * bool
| OClose of nat * nat * bool
| ODup of nat * bool
| ODone of nat * nat * bool
| ODel of nat * nat * bool
| ONbio of nat
| OSend of nat * z list * wr_event list
| ORecv of nat * rd_event list

type oresult =
| RSkip
| RNew
| RBool of bool
| RObj of bool
| RSend of send_out res
| RRecv of strv option res

val set_obj : world -> nat -> sock option -> z list -> world

val step : (z list -> z) -> z -> world -> op -> world * oresult

val run : (z list -> z) -> z -> world -> op list -> world * oresult list

val del_all : nat -> (nat -> nat * bool) -> op list

val cleanup : (z list -> z) -> z -> world -> (nat -> nat * bool) -> world

val pick_max : z list -> z

val dangling : world -> nat list
