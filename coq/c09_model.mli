
val negb : bool -> bool

type nat =
| O
| S of nat

val fst : ('a1 * 'a2) -> 'a1

val snd : ('a1 * 'a2) -> 'a2

val length : 'a1 list -> nat

val app : 'a1 list -> 'a1 list -> 'a1 list

type comparison =
| Eq
| Lt
| Gt

val compOpp : comparison -> comparison

val add : nat -> nat -> nat

val sub : nat -> nat -> nat

module Nat :
 sig
  val eqb : nat -> nat -> bool

  val leb : nat -> nat -> bool

  val ltb : nat -> nat -> bool
 end

val tl : 'a1 list -> 'a1 list

val nth_error : 'a1 list -> nat -> 'a1 option

val removelast : 'a1 list -> 'a1 list

val rev : 'a1 list -> 'a1 list

val rev_append : 'a1 list -> 'a1 list -> 'a1 list

val concat : 'a1 list list -> 'a1 list

val map : ('a1 -> 'a2) -> 'a1 list -> 'a2 list

val existsb : ('a1 -> bool) -> 'a1 list -> bool

val find : ('a1 -> bool) -> 'a1 list -> 'a1 option

val firstn : nat -> 'a1 list -> 'a1 list

val skipn : nat -> 'a1 list -> 'a1 list

val repeat : 'a1 -> nat -> 'a1 list

type positive =
| XI of positive
| XO of positive
| XH

type n =
| N0
| Npos of positive

type z =
| Z0
| Zpos of positive
| Zneg of positive

module Pos :
 sig
  val succ : positive -> positive

  val add : positive -> positive -> positive

  val add_carry : positive -> positive -> positive

  val pred_double : positive -> positive

  val pred_N : positive -> n

  val mul : positive -> positive -> positive

  val iter : ('a1 -> 'a1) -> 'a1 -> positive -> 'a1

  val compare_cont : comparison -> positive -> positive -> comparison

  val compare : positive -> positive -> comparison

  val eqb : positive -> positive -> bool

  val coq_Nsucc_double : n -> n

  val coq_Ndouble : n -> n

  val coq_lor : positive -> positive -> positive

  val coq_land : positive -> positive -> n

  val ldiff : positive -> positive -> n

  val iter_op : ('a1 -> 'a1 -> 'a1) -> positive -> 'a1 -> 'a1

  val to_nat : positive -> nat

  val of_succ_nat : nat -> positive
 end

module N :
 sig
  val succ_pos : n -> positive

  val coq_lor : n -> n -> n

  val coq_land : n -> n -> n

  val ldiff : n -> n -> n
 end

module Z :
 sig
  val double : z -> z

  val succ_double : z -> z

  val pred_double : z -> z

  val pos_sub : positive -> positive -> z

  val add : z -> z -> z

  val opp : z -> z

  val sub : z -> z -> z

  val mul : z -> z -> z

  val pow_pos : z -> positive -> z

  val pow : z -> z -> z

  val compare : z -> z -> comparison

  val leb : z -> z -> bool

  val ltb : z -> z -> bool

  val gtb : z -> z -> bool

  val eqb : z -> z -> bool

  val max : z -> z -> z

  val to_nat : z -> nat

  val of_nat : nat -> z

  val of_N : n -> z

  val pos_div_eucl : positive -> z -> z * z

  val div_eucl : z -> z -> z * z

  val modulo : z -> z -> z

  val coq_land : z -> z -> z

  val ldiff : z -> z -> z
 end

type fault =
| OOB_read
| OOB_write
| Uninit_read
| Null_deref
| Use_after_free
| Bad_free
| Out_of_fuel
| Int_overflow
| Abort

type 'a res =
| Ok of 'a
| Fault of fault

val bind : 'a1 res -> ('a1 -> 'a2 res) -> 'a2 res

val num_anchor : ((nat * positive) * n) * z

type cell = z option

type buf = cell list

val rdn : buf -> nat -> z res

val upd : 'a1 list -> nat -> 'a1 -> 'a1 list

val wrn : buf -> nat -> z -> buf res

val bytes : z list -> buf

val cstr : z list -> buf -> buf

val strlen : buf -> nat res

val take_str : buf -> z list

val isspace : z -> bool

val isupper : z -> bool

val tolower : z -> z

val strncpy_loop : buf -> buf -> nat -> nat -> (bool * buf) res

val safe_strncpy_at : buf -> nat -> buf -> z -> (bool * buf) res

val safe_strncpy : buf -> buf -> z -> (bool * buf) res

val sub_cells : buf -> nat -> nat -> cell list res

val put_cells : buf -> nat -> cell list -> buf res

val memmove : buf -> nat -> nat -> nat -> buf res

val front_scan : buf -> nat res

val back_scan : buf -> nat -> nat -> nat res

val chomp : buf -> buf res

val is_q : z -> bool

val wDELIM : z -> z -> bool

val skip_space : buf -> buf res

val wesc_test : buf -> z -> bool res

val gw_chars : nat -> buf -> z -> buf -> nat -> ((buf * buf) * nat) res

val open_quote : buf -> (z * buf) res

val close_quote : buf -> buf res

val gw_words : nat -> z -> z -> buf -> buf -> (z * buf) res

val get_word : z -> buf -> z list option res

val pw_space : buf -> z -> (buf * z) res

val pw_nonspace : buf -> z -> (buf * z) res

val pw_words : nat -> z -> z -> buf -> z -> (buf * z) res

val get_pword : z -> buf -> z option res

val config_buff : z

val ctx_idx_bits : z

val ctx_state_idx_bits : z

val builtin_idx_bits : z

val fstate_idx_bits : z

val ctx_cnt_bits : z

val ctx_state_cnt_bits : z

val fstate_cnt_bits : z

val builtin_cnt_bits : z

val ctx_cnt_init : z

val ctx_state_cnt_init : z

val fstate_cnt_init : z

val builtin_cnt_init : z

val builtin_predefined : z

val open_buff_size : z

val open_test_size : z

val open_fgets_size : z

val conf_path_max : z

val list_eqb : z list -> z list -> bool

val ci_eq : z list -> z list -> bool

val beg_ci : z list -> z list -> bool

val has_byte : z -> z list -> bool

val s_include : z list

val s_preproc : z list

val s_begin : z list

val s_end_sp : z list

val s_end : z list

val s_null : z list

val s_preproc_tmpl : z list

val cstring : buf -> z list res

val put_at : buf -> cell list -> buf res

val put_str : buf -> z list -> buf res

val chomp_line : buf -> buf res

val get_word_line : z -> buf -> z list option res

val get_pword_line : z -> buf -> z option res

type stream = { sdata : z list; seof : bool }

val take_line : z -> z list -> z list * z list

val ends_nl : z list -> bool

val fgets : z -> stream -> z list option * stream

type 'a table = { t_mem : 'a option list option; t_cnt : z; t_idx : z }

val t_get : 'a1 table -> z -> 'a1 res

val t_set : 'a1 table -> z -> 'a1 -> 'a1 table res

val realloc_slots : 'a1 option list option -> z -> 'a1 option list option

val blk : 'a1 option -> z

val t_bump : z -> z -> 'a1 table -> 'a1 table

val zero_from : 'a1 -> 'a1 option list -> nat -> 'a1 option list

type hfun =
| HNullPtr
| HParseNull
| HUser of z

type harg =
| HBegin
| HEnd
| HText of z list

type event =
| EvCall of hfun * harg * z * z
| EvSpawn of z list

type ctx_t = { cx_name : z list option; cx_fun : hfun }

type cst_t = { cs_id : z; cs_state : z }

type fst_t = { f_fp : stream option; f_path : z list option;
               f_outfile : z list option; f_line : z; f_skip : bool;
               f_preproc : bool; f_owned : bool }

type bi_t = z list option

val zero_ctx : ctx_t

val zero_cst : cst_t

val zero_fst : fst_t

type 'v conf = { cxt : ctx_t table; cst : cst_t table; ftb : fst_t table;
                 bit : bi_t table; vars : 'v; nopen : z; live : z }

val with_cxt : 'a1 conf -> ctx_t table -> 'a1 conf

val with_cst : 'a1 conf -> cst_t table -> 'a1 conf

val with_ftb : 'a1 conf -> fst_t table -> 'a1 conf

val with_bit : 'a1 conf -> bi_t table -> 'a1 conf

val with_vars : 'a1 conf -> 'a1 -> 'a1 conf

val add_open : 'a1 conf -> z -> 'a1 conf

val add_live : 'a1 conf -> z -> 'a1 conf

val null_table : 'a1 table

val conf0 : 'a1 -> 'a1 conf

val register_builtin : 'a1 conf -> z list -> ('a1 conf * z) res

val predefined : z list list

val register_builtins : 'a1 conf -> z list list -> 'a1 conf res

val fresh_table : 'a1 -> z -> 'a1 table

val init_subsystem : 'a1 conf -> 'a1 conf res

val register_context : 'a1 conf -> z list -> z -> ('a1 conf * z) res

val register_fstate : 'a1 conf -> fst_t -> 'a1 conf res

val register_context_state : 'a1 conf -> z -> 'a1 conf res

val free_names : ('a1 -> z list option) -> 'a1 table -> z -> nat -> z res

val drop_block : 'a1 table -> 'a1 table

val free_subsystem : 'a1 -> 'a1 conf -> 'a1 conf res

val fpeek : 'a1 conf -> fst_t res

val fpoke : 'a1 conf -> fst_t -> 'a1 conf res

val file_pop : 'a1 conf -> 'a1 conf

val cpeek : 'a1 conf -> cst_t res

val cpoke_state : 'a1 conf -> z -> 'a1 conf res

val ctx_pop : 'a1 conf -> 'a1 conf

val call :
  (z -> harg -> z -> 'a1 -> z * 'a1) -> 'a2 conf -> 'a1 -> z -> harg -> z ->
  ((z * 'a1) * event list) res

val name_to_id : 'a1 conf -> z list -> z -> nat -> z res

val ctx_begin :
  (z -> harg -> z -> 'a1 -> z * 'a1) -> 'a2 conf -> 'a1 -> z list -> (('a2
  conf * 'a1) * event list) res

val ctx_end :
  (z -> harg -> z -> 'a1 -> z * 'a1) -> 'a2 conf -> 'a1 -> z -> (('a2
  conf * 'a1) * event list) res

val magic : z list -> z list

val open_file :
  (z list -> z list option) -> z list -> z list option -> stream option res

val do_expand :
  (z list -> 'a1 -> (z list * 'a1) * z list list) -> 'a1 conf -> buf -> (('a1
  conf * buf) * event list) res

val parse_line :
  (z -> harg -> z -> 'a1 -> z * 'a1) -> (z list -> 'a2 -> (z list * 'a2) * z
  list list) -> (z list -> z list option) -> (z list -> z list option) -> z
  list -> 'a2 conf -> 'a1 -> buf -> ((('a2 conf * 'a1) * buf) * event list)
  res

val skip_long : nat -> stream -> buf -> (stream * buf) res

val set_fp : fst_t -> stream -> z -> fst_t

val parse_loop :
  (z -> harg -> z -> 'a1 -> z * 'a1) -> (z list -> 'a2 -> (z list * 'a2) * z
  list list) -> (z list -> z list option) -> (z list -> z list option) -> z
  list -> nat -> bool -> 'a2 conf -> 'a1 -> buf -> event list -> (('a2
  conf * 'a1) * event list) res

val parse :
  (z -> harg -> z -> 'a1 -> z * 'a1) -> (z list -> 'a2 -> (z list * 'a2) * z
  list list) -> (z list -> z list option) -> (z list -> z list option) -> z
  list -> nat -> 'a2 conf -> 'a1 -> z list -> ((('a2 conf * 'a1) * event
  list) * bool) res

type op =
| OInit
| OFree
| ORegCtx of z list * z
| ORegBuiltin of z list
| OParse of nat * z list
| OOpen of z list

type opres =
| RUnit
| RId of z
| RParse of event list * bool
| ROpen of bool

val step :
  'a2 -> (z -> harg -> z -> 'a1 -> z * 'a1) -> (z list -> 'a2 -> (z
  list * 'a2) * z list list) -> (z list -> z list option) -> (z list -> z
  list option) -> z list -> ('a2 conf * 'a1) -> op -> (('a2
  conf * 'a1) * opres) res

val s32 : z -> z

val s16 : z -> z

type ff_out = { ff_name_hi : z; ff_full_hi : z; ff_found : z }

val ff_write : z -> z res

val ff_walk :
  (z * bool) list -> (nat -> bool) -> nat -> z -> z -> z -> (z * z) res

val find_file :
  z -> z option -> (z * bool) list -> (nat -> bool) -> ff_out option res

val fresh_handler : z -> harg -> z -> z -> z * z

type vstore = (z list * z list) list

val str_ltb : z list -> z list -> bool

val store_put : vstore -> z list -> z list -> vstore

val split_sp : z list -> z list * z list

val ends_with_paren : z list -> bool

val expand_simple : z list -> vstore -> (z list * vstore) * z list list

val vstore_blocks : vstore -> z

type afs = (z list * z list) list

val afs_lookup : afs -> z list -> z list option

type iconf = vstore conf

val iconf0 : iconf

val ipreproc : bool -> z list -> z list option

val istep :
  afs -> bool -> z list -> (iconf * z) -> op -> ((iconf * z) * opres) res

val ifind : z -> z option -> (z * bool) list -> ff_out option res

type tpiece =
| PLit of z list
| PEnv of z list
| PTpl

type tstmt =
| TRequireLen
| TUmaskSave of z
| TUmaskSet of z
| TMkstemp
| TUmaskRestore
| TFailIfBad of z
| TCopyBack
| TReturnFd

val temp_buff_size : z

val temp_branches : (z list option * tpiece list) list

val temp_prog : tstmt list

val beq_bytes : z list -> z list -> bool

type world = { w_umask : z; w_files : (z list * z) list;
               w_fds : (z * z list) list }

type oracle = { o_dir_ok : bool; o_picks : z list list; o_fd : z;
                o_fchmod_ok : bool }

val has_file : (z list * z) list -> z list -> bool

val xs6 : z list

val libc_create_mode : z

val try_picks : z list -> (z list * z) list -> z list list -> z list option

val mkstemp : world -> oracle -> z list -> (world * z) * z list

val fd_name : (z * z list) list -> z -> z list option

val set_mode : (z list * z) list -> z list -> z -> (z list * z) list

val fchmod : world -> oracle -> z -> z -> world * bool

val piece_bytes : (z list -> z list option) -> z list -> tpiece -> z list

val pick_branch :
  (z list -> z list option) -> (z list option * tpiece list) list -> tpiece
  list

val temp_name : (z list -> z list option) -> z list -> z list

type tstate = { t_w : world; t_saved : z; t_fd : z; t_buff : z list;
                t_tpl : buf; t_ret : z option }

val with_w : tstate -> world -> tstate

val with_ret : tstate -> z -> tstate

val set_umask : world -> z -> world

val exec : oracle -> z -> tstate -> tstmt -> tstate res

val exec_all : oracle -> z -> tstate -> tstmt list -> tstate res

val temp_file :
  (z list -> z list option) -> buf -> z -> world -> oracle ->
  ((z * buf) * world) res

val env2 : z list option -> z list option -> z list -> z list option

val world0 : z -> (z list * z) list -> world

val fd_mode : world -> z -> z option
