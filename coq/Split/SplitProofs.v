(* Proofs for property C12: the scanners of Split/SplitModel.v equal the grammars
   `tokens` / `words` / `pword_spec` on every C string, and never fault. *)
From LV Require Import Base.Buf Split.SplitModel.
Local Open Scope Z_scope.

(* ---------- cursors into a C string ---------- *)
Lemma cstr_nil rest : cstr [] rest = Some 0 :: rest.
Proof. reflexivity. Qed.
Lemma cstr_cons c s rest : cstr (c :: s) rest = Some c :: cstr s rest.
Proof. reflexivity. Qed.

Lemma nz_neq0 c : nz_byte c -> (c =? 0) = false.
Proof. unfold nz_byte. intros H. apply Z.eqb_neq. lia. Qed.

Lemma Forall_nz_cons c s : Forall nz_byte (c :: s) -> nz_byte c /\ Forall nz_byte s.
Proof. intros H. inversion H; auto. Qed.

Lemma IS_DELIM_nz d c : nz_byte c -> IS_DELIM d c = delim d c.
Proof. intros H. destruct d as [l|]; simpl; [rewrite (nz_neq0 c H); reflexivity | reflexivity]. Qed.
Lemma IS_DELIM_0 d : IS_DELIM d 0 = false.
Proof. destruct d; reflexivity. Qed.
Lemma IS_QUOTE_0 q : IS_QUOTE q 0 = false.
Proof. unfold IS_QUOTE. destruct (q =? 0) eqn:E; reflexivity. Qed.

(* ---------- overwriting a block ---------- *)
Lemma wrn_mid (pre : buf) x mid c :
  wrn (pre ++ x :: mid) (length pre) c = Ok ((pre ++ [Some c]) ++ mid).
Proof.
  unfold wrn. rewrite app_length. simpl.
  destruct (length pre <? length pre + S (length mid))%nat eqn:E.
  - rewrite upd_app_r by lia. rewrite Nat.sub_diag. simpl. now rewrite <- app_assoc.
  - apply Nat.ltb_ge in E. lia.
Qed.

Lemma skipn_S_cons {A} n (l : list A) x t : skipn n l = x :: t -> skipn (S n) l = t.
Proof.
  revert l; induction n as [|n IH]; intros l H; simpl in *.
  - subst. reflexivity.
  - destruct l as [|y l]; [discriminate|]. simpl. apply IH in H. exact H.
Qed.

Lemma skipn_nonempty {A} n (l : list A) : (n < length l)%nat -> exists x t, skipn n l = x :: t.
Proof.
  revert l; induction n as [|n IH]; intros [|y l] H; simpl in *; try lia; eauto.
  apply IH. lia.
Qed.

Lemma firstn_cstr w r : firstn (S (length w)) (cstr w r) = cstr w [].
Proof.
  induction w as [|c w IH]; [reflexivity|].
  change (firstn (S (length (c :: w))) (cstr (c :: w) r)) with (Some c :: firstn (S (length w)) (cstr w r)).
  now rewrite IH.
Qed.

(* ---------- delimiter skipping ---------- *)
Fixpoint drop_delims (d : dset) (s : list byte) : list byte :=
  match s with [] => [] | c :: t => if delim d c then drop_delims d t else s end.

Lemma skip_delims_cstr d s rest : Forall nz_byte s ->
  skip_delims d (cstr s rest) = Ok (cstr (drop_delims d s) rest).
Proof.
  induction s as [|c s IH]; intros H; [reflexivity|].
  apply Forall_nz_cons in H as [Hc Hs].
  rewrite cstr_cons. cbn [skip_delims drop_delims].
  rewrite (nz_neq0 c Hc), (IS_DELIM_nz d c Hc). simpl.
  destruct (delim d c); [now apply IH | reflexivity].
Qed.

Lemma drop_delims_nz d s : Forall nz_byte s -> Forall nz_byte (drop_delims d s).
Proof. induction s as [|c s IH]; intros H; simpl; auto. destruct (delim d c); auto. apply IH. now inversion H. Qed.
Lemma drop_delims_len d s : (length (drop_delims d s) <= length s)%nat.
Proof. induction s as [|c s IH]; simpl; auto. destruct (delim d c); simpl; lia. Qed.
Lemma drop_delims_head d s : drop_delims d s = [] \/ exists c t, drop_delims d s = c :: t /\ delim d c = false.
Proof. induction s as [|c s IH]; simpl; auto. destruct (delim d c) eqn:E; eauto. Qed.
Lemma sm_drop d s : sm d false 0 s = sm d false 0 (drop_delims d s).
Proof. induction s as [|c s IH]; simpl; auto. destruct (delim d c) eqn:E; simpl; [exact IH | now rewrite E]. Qed.
Lemma sm_start d c t : delim d c = false -> sm d false 0 (c :: t) = sm d true 0 (c :: t).
Proof. intros H. simpl. rewrite H. reflexivity. Qed.

(* ---------- the character loop of tok_eval is one token of the grammar ---------- *)
Lemma push_cons c w X : push c (w :: X) = (c :: w) :: X.
Proof. reflexivity. Qed.

Lemma rdn0_cons c (p : buf) : rdn (Some c :: p) 0 = Ok c.
Proof. reflexivity. Qed.
Lemma rdn1_cons x (p : buf) : rdn (x :: p) 1 = rdn p 0.
Proof. reflexivity. Qed.
Lemma rdn0_cstr_nil rest : rdn (cstr [] rest) 0 = Ok 0.
Proof. reflexivity. Qed.

Lemma tok_chars_sm d rest : forall fuel s q,
  Forall nz_byte s -> (length s < fuel)%nat ->
  exists w s' q',
    tok_chars fuel d (cstr s rest) q = Ok (cstr s' rest, q', w) /\
    sm d true q s = w :: sm d false 0 s' /\
    Forall nz_byte w /\ Forall nz_byte s' /\
    (length w + length s' <= length s)%nat /\
    (s' = [] \/ q' = 0) /\
    (forall c t, s = c :: t -> (q =? 0) && delim d c = false -> (length s' < length s)%nat).
Proof.
  induction fuel as [|f IH]; intros s q Hs Hf; [lia|].
  destruct s as [|c t].
  { exists [], [], q. cbn. repeat split; auto. intros; discriminate. }
  apply Forall_nz_cons in Hs as [Hc Ht]. simpl in Hf.
  rewrite cstr_cons. cbn [tok_chars]. rewrite rdn0_cons. cbn [bind].
  rewrite (nz_neq0 c Hc), (IS_DELIM_nz d c Hc). cbn [orb].
  destruct ((q =? 0) && delim d c) eqn:E1.
  { apply andb_prop in E1 as [Eq Ed]. apply Z.eqb_eq in Eq. subst q.
    exists [], (c :: t), 0. rewrite <- cstr_cons. repeat split; auto.
    - cbn [sm]. rewrite Ed. cbn. reflexivity.
    - intros c0 t0 H0 H1. inversion H0; subst. cbn in H1. congruence. }
  cbn [tl].
  destruct (is_q c) eqn:E2.
  { destruct (q =? 0) eqn:E3; cbn [negb].
    - (* opening quote *)
      destruct (IH t c Ht ltac:(lia)) as (w & s' & q' & Heq & Hsm & Hw & Hs' & Hlen & Hq & _).
      exists w, s', q'. repeat split; auto.
      + cbn [sm]. rewrite E3, E1, E2. exact Hsm.
      + simpl; lia.
      + intros; simpl; lia.
    - destruct (q =? c) eqn:E4.
      + (* closing quote *)
        destruct (IH t 0 Ht ltac:(lia)) as (w & s' & q' & Heq & Hsm & Hw & Hs' & Hlen & Hq & _).
        exists w, s', q'. repeat split; auto.
        * cbn [sm]. rewrite E3, E1, E2, E4. exact Hsm.
        * simpl; lia.
        * intros; simpl; lia.
      + (* the other quote inside quotes: literal *)
        destruct (IH t q Ht ltac:(lia)) as (w & s' & q' & Heq & Hsm & Hw & Hs' & Hlen & Hq & _).
        exists (c :: w), s', q'. rewrite Heq. cbn [bind]. repeat split; auto.
        * cbn [sm]. rewrite E3, E1, E2, E4, Hsm. reflexivity.
        * simpl; lia.
        * intros; simpl; lia. }
  unfold esc_test.
  destruct (c =? 92) eqn:E5.
  - destruct t as [|c2 t2].
    + (* backslash, then the terminator *)
      rewrite rdn1_cons, rdn0_cstr_nil. cbn [bind]. rewrite IS_DELIM_0, IS_QUOTE_0. cbn [orb bind].
      rewrite rdn0_cons. cbn [bind tl].
      destruct (IH [] q Ht ltac:(simpl in *; lia)) as (w & s' & q' & Heq & Hsm & Hw & Hs' & Hlen & Hq & _).
      exists (c :: w), s', q'. rewrite Heq. cbn [bind]. repeat split; auto.
      * cbn [sm]. rewrite E1, E2, E5. cbn [sm] in Hsm. injection Hsm as Hw0 Hr.
        destruct s'; [|simpl in Hlen; lia]. subst w. reflexivity.
      * simpl in *; lia.
      * intros; simpl in *; lia.
    + apply Forall_nz_cons in Ht as [Hc2 Ht2].
      rewrite rdn1_cons, cstr_cons, rdn0_cons. cbn [bind]. rewrite (IS_DELIM_nz d c2 Hc2).
      unfold IS_QUOTE.
      destruct (delim d c2 || negb (q =? 0) && (q =? c2)) eqn:E6; cbn [bind tl].
      * (* escaped delimiter or closing quote *)
        rewrite rdn0_cons. cbn [bind].
        destruct (IH t2 q Ht2 ltac:(simpl in *; lia)) as (w & s' & q' & Heq & Hsm & Hw & Hs' & Hlen & Hq & _).
        exists (c2 :: w), s', q'. rewrite Heq. cbn [bind]. repeat split; auto.
        -- cbn [sm]. rewrite E1, E2, E5, E6, Hsm. reflexivity.
        -- simpl in *; lia.
        -- intros; simpl in *; lia.
      * rewrite rdn0_cons. cbn [bind]. rewrite <- cstr_cons.
        destruct (IH (c2 :: t2) q ltac:(constructor; auto) ltac:(simpl in *; lia))
          as (w & s' & q' & Heq & Hsm & Hw & Hs' & Hlen & Hq & _).
        exists (c :: w), s', q'. rewrite Heq. cbn [bind]. repeat split; auto.
        -- cbn [sm]. rewrite E1, E2, E5, E6. cbn [sm] in Hsm. rewrite Hsm. reflexivity.
        -- simpl in *; lia.
        -- intros; simpl in *; lia.
  - cbn [bind]. rewrite rdn0_cons. cbn [bind tl].
    destruct (IH t q Ht ltac:(lia)) as (w & s' & q' & Heq & Hsm & Hw & Hs' & Hlen & Hq & _).
    exists (c :: w), s', q'. rewrite Heq. cbn [bind]. repeat split; auto.
    + cbn [sm]. rewrite E1, E2, E5, Hsm. reflexivity.
    + simpl; lia.
    + intros; simpl; lia.
Qed.

(* ---------- split's character loop = tok's, writing the token into the block ---------- *)
Lemma split_chars_tok_chars d : forall fuel p q p' q' w (pre mid : buf),
  tok_chars fuel d p q = Ok (p', q', w) -> (length w <= length mid)%nat ->
  split_chars fuel d p q (pre ++ mid) (length pre) =
  Ok (p', q', (pre ++ bytes w) ++ skipn (length w) mid, (length pre + length w)%nat).
Proof.
  induction fuel as [|f IH]; intros p q p' q' w pre mid H Hl; [discriminate|].
  cbn [tok_chars split_chars] in *.
  destruct (rdn p 0) as [c|e]; [|discriminate]. cbn [bind] in *.
  destruct ((c =? 0) || (q =? 0) && IS_DELIM d c).
  { injection H as <- <- <-. cbn. now rewrite app_nil_r, Nat.add_0_r. }
  destruct (is_q c).
  { destruct (negb (q =? 0)).
    - destruct (q =? c).
      + now apply IH.
      + destruct (tok_chars f d (tl p) q) as [[[p1 q1] w1]|e] eqn:E; [|discriminate].
        cbn [bind] in H. injection H as <- <- <-.
        destruct mid as [|x mid]; [simpl in Hl; lia|].
        rewrite wrn_mid. cbn [bind].
        replace (S (length pre)) with (length (pre ++ [Some c])) by (rewrite app_length; simpl; lia).
        rewrite (IH _ _ _ _ _ (pre ++ [Some c]) mid E) by (simpl in Hl; lia).
        rewrite app_length. simpl. f_equal. f_equal; [|lia]. f_equal.
        now rewrite <- !app_assoc.
    - now apply IH. }
  destruct (esc_test d q p c) as [e0|e]; [|discriminate]. cbn [bind] in *.
  remember (if e0 then tl p else p) as p1 eqn:Ep1. clear Ep1.
  destruct (rdn p1 0) as [c'|e]; [|discriminate]. cbn [bind] in *.
  destruct (tok_chars f d (tl p1) q) as [[[p2 q2] w1]|e] eqn:E; [|discriminate].
  cbn [bind] in H. injection H as <- <- <-.
  destruct mid as [|x mid]; [simpl in Hl; lia|].
  rewrite wrn_mid. cbn [bind].
  replace (S (length pre)) with (length (pre ++ [Some c'])) by (rewrite app_length; simpl; lia).
  rewrite (IH _ _ _ _ _ (pre ++ [Some c']) mid E) by (simpl in Hl; lia).
  rewrite app_length. simpl. f_equal. f_equal; [|lia]. f_equal.
  now rewrite <- !app_assoc.
Qed.

Lemma cstr_length s rest : length (cstr s rest) = (length s + S (length rest))%nat.
Proof. unfold cstr. rewrite app_length, bytes_length. reflexivity. Qed.

(* ---------- token loops ---------- *)
Definition at_token_start (d : dset) (q : byte) (s : list byte) : Prop :=
  s = [] \/ (q = 0 /\ exists c t, s = c :: t /\ delim d c = false).

Lemma tok_tokens_sm d rest : forall fuel s q,
  Forall nz_byte s -> (length s < fuel)%nat -> at_token_start d q s ->
  tok_tokens fuel d (cstr s rest) q = Ok (map trim (sm d false 0 s)).
Proof.
  induction fuel as [|f IH]; intros s q Hs Hf Hst; [lia|].
  destruct s as [|c t]; [reflexivity|].
  destruct Hst as [Hst|(Hq & c0 & t0 & Hst & Hd)]; [discriminate|]. injection Hst as <- <-. subst q.
  pose proof (Forall_nz_cons _ _ Hs) as [Hc Ht].
  cbn [tok_tokens]. rewrite cstr_cons, rdn0_cons. cbn [bind]. rewrite (nz_neq0 c Hc). rewrite <- cstr_cons.
  destruct (tok_chars_sm d rest (S (length (cstr (c :: t) rest))) (c :: t) 0 Hs)
    as (w & s' & q' & Heq & Hsm & Hw & Hs' & Hlen & Hq & Hdec).
  { rewrite cstr_length. lia. }
  rewrite Heq. cbn [bind].
  rewrite (skip_delims_cstr d s' rest Hs'). cbn [bind].
  specialize (Hdec c t eq_refl). rewrite Hd in Hdec. specialize (Hdec eq_refl).
  rewrite (IH (drop_delims d s') q').
  - cbn [bind]. rewrite (sm_start d c t Hd), Hsm, (sm_drop d s'). reflexivity.
  - now apply drop_delims_nz.
  - pose proof (drop_delims_len d s'). simpl in *. lia.
  - destruct Hq as [-> | ->]; [left; reflexivity|].
    destruct (drop_delims_head d s') as [E | (c1 & t1 & E & Hd1)]; [now left|].
    right. split; [reflexivity|]. eauto.
Qed.

Lemma skip_start d s : at_token_start d 0 (drop_delims d s).
Proof.
  destruct (drop_delims_head d s) as [E | (c1 & t1 & E & Hd1)]; [now left|].
  right. split; [reflexivity|]. eauto.
Qed.

Theorem tok_is_tokens_trimmed : forall d s rest, Forall nz_byte s ->
  tok_eval d (cstr s rest) = Ok (map trim (tokens d s)).
Proof.
  intros d s rest Hs. unfold tok_eval, tokens.
  rewrite (skip_delims_cstr d s rest Hs). cbn [bind].
  rewrite (sm_drop d s). apply tok_tokens_sm.
  - now apply drop_delims_nz.
  - pose proof (drop_delims_len d s). rewrite cstr_length. lia.
  - apply skip_start.
Qed.

Lemma split_tokens_sm d rest : forall fuel s q,
  Forall nz_byte s -> (length s < fuel)%nat -> at_token_start d q s ->
  split_tokens fuel d (cstr s rest) q = Ok (sm d false 0 s).
Proof.
  induction fuel as [|f IH]; intros s q Hs Hf Hst; [lia|].
  destruct s as [|c t]; [reflexivity|].
  destruct Hst as [Hst|(Hq & c0 & t0 & Hst & Hd)]; [discriminate|]. injection Hst as <- <-. subst q.
  pose proof (Forall_nz_cons _ _ Hs) as [Hc Ht].
  cbn [split_tokens]. rewrite cstr_cons, rdn0_cons. cbn [bind]. rewrite (nz_neq0 c Hc). rewrite <- cstr_cons.
  rewrite (strlen_cstr (c :: t) rest Hs). cbn [bind].
  destruct (tok_chars_sm d rest (S (length (cstr (c :: t) rest))) (c :: t) 0 Hs)
    as (w & s' & q' & Heq & Hsm & Hw & Hs' & Hlen & Hq & Hdec).
  { rewrite cstr_length. lia. }
  set (mid := repeat None (S (length (c :: t)))).
  assert (Hmid : length mid = S (length (c :: t))) by (unfold mid; apply repeat_length).
  assert (Hwl : (length w <= length mid)%nat) by lia.
  pose proof (split_chars_tok_chars d _ _ _ _ _ _ [] mid Heq Hwl) as Hsc.
  cbn [app length] in Hsc. rewrite Hsc. cbn [bind Nat.add].
  assert (Hlt : (length w < length mid)%nat) by lia.
  destruct (@skipn_nonempty cell (length w) mid Hlt) as (x & mid' & Esk). rewrite Esk.
  rewrite <- (bytes_length w). rewrite wrn_mid. cbn [bind].
  rewrite <- app_assoc. change (bytes w ++ [Some 0] ++ mid') with (cstr w mid').
  rewrite (strlen_cstr w mid' Hw). cbn [bind].
  rewrite firstn_cstr, (take_str_cstr w [] Hw).
  rewrite (skip_delims_cstr d s' rest Hs'). cbn [bind].
  specialize (Hdec c t eq_refl). rewrite Hd in Hdec. specialize (Hdec eq_refl).
  rewrite (IH (drop_delims d s') q').
  - cbn [bind]. rewrite (sm_start d c t Hd), Hsm, (sm_drop d s'). reflexivity.
  - now apply drop_delims_nz.
  - pose proof (drop_delims_len d s'). simpl in *. lia.
  - destruct Hq as [-> | ->]; [left; reflexivity|]. apply skip_start.
Qed.

Theorem split_is_tokens : forall d s rest, Forall nz_byte s ->
  split d (cstr s rest) = Ok (match tokens d s with [] => None | l => Some l end).
Proof.
  intros d s rest Hs. unfold split, tokens.
  rewrite (skip_delims_cstr d s rest Hs). cbn [bind].
  rewrite (sm_drop d s), split_tokens_sm.
  - cbn [bind]. destruct (sm d false 0 (drop_delims d s)); reflexivity.
  - now apply drop_delims_nz.
  - pose proof (drop_delims_len d s). rewrite cstr_length. lia.
  - apply skip_start.
Qed.

Theorem split_tok_agree : forall d s rest, Forall nz_byte s ->
  exists l, split d (cstr s rest) = Ok (match l with [] => None | _ => Some l end) /\
            tok_eval d (cstr s rest) = Ok (map trim l).
Proof.
  intros d s rest Hs. exists (tokens d s). split; [|now apply tok_is_tokens_trimmed].
  rewrite (split_is_tokens d s rest Hs). destruct (tokens d s); reflexivity.
Qed.

(* ====================== word utilities ====================== *)
(* the traversal shared by get_word's copy loop and num_words' skip loop, collecting the
   characters get_word copies *)
Fixpoint wchars (fuel : nat) (p : buf) (dl : byte) : res (buf * list byte) :=
  match fuel with
  | O => Fault Out_of_fuel
  | S f =>
    c <- rdn p 0 ;;
    if (c =? 0) || WDELIM dl c then Ok (p, [])
    else
      e <- wesc_test p c ;;
      let p1 := if e then tl p else p in
      c' <- rdn p1 0 ;;
      '(p', w) <- wchars f (tl p1) dl ;; Ok (p', c' :: w)
  end.

Lemma gw_chars_wchars : forall fuel p dl p' w (pre mid : buf),
  wchars fuel p dl = Ok (p', w) -> (length w <= length mid)%nat ->
  gw_chars fuel p dl (pre ++ mid) (length pre) =
  Ok (p', (pre ++ bytes w) ++ skipn (length w) mid, (length pre + length w)%nat).
Proof.
  induction fuel as [|f IH]; intros p dl p' w pre mid H Hl; [discriminate|].
  cbn [wchars gw_chars] in *.
  destruct (rdn p 0) as [c|e]; [|discriminate]. cbn [bind] in *.
  destruct ((c =? 0) || WDELIM dl c).
  { injection H as <- <-. cbn. now rewrite app_nil_r, Nat.add_0_r. }
  destruct (wesc_test p c) as [e0|e]; [|discriminate]. cbn [bind] in *.
  remember (if e0 then tl p else p) as p1 eqn:Ep1. clear Ep1.
  destruct (rdn p1 0) as [c'|e]; [|discriminate]. cbn [bind] in *.
  destruct (wchars f (tl p1) dl) as [[p2 w1]|e] eqn:E; [|discriminate].
  cbn [bind] in H. injection H as <- <-.
  destruct mid as [|x mid]; [simpl in Hl; lia|].
  rewrite wrn_mid. cbn [bind].
  replace (S (length pre)) with (length (pre ++ [Some c'])) by (rewrite app_length; simpl; lia).
  rewrite (IH _ _ _ _ (pre ++ [Some c']) mid E) by (simpl in Hl; lia).
  rewrite app_length. simpl. f_equal. f_equal; [|lia].
  now rewrite <- !app_assoc.
Qed.

Lemma nw_chars_wchars : forall fuel p dl p' w,
  wchars fuel p dl = Ok (p', w) -> nw_chars fuel p dl = Ok p'.
Proof.
  induction fuel as [|f IH]; intros p dl p' w H; [discriminate|].
  cbn [wchars nw_chars] in *.
  destruct (rdn p 0) as [c|e]; [|discriminate]. cbn [bind] in *.
  destruct ((c =? 0) || WDELIM dl c).
  { now injection H as <- <-. }
  destruct (wesc_test p c) as [e0|e]; [|discriminate]. cbn [bind] in *.
  remember (if e0 then tl p else p) as p1 eqn:Ep1. clear Ep1.
  destruct (rdn p1 0) as [c'|e]; [|discriminate]. cbn [bind] in *.
  destruct (wchars f (tl p1) dl) as [[p2 w1]|e] eqn:E; [|discriminate].
  cbn [bind] in H. injection H as <- <-. eapply IH; eauto.
Qed.

Lemma WDELIM_0 dl : dl = 0 \/ is_q dl = true -> WDELIM dl 0 = false.
Proof.
  unfold WDELIM. intros [->| H]; [reflexivity|].
  destruct (dl =? 0) eqn:E; [reflexivity|]. rewrite Z.eqb_sym. exact E.
Qed.

(* one word of the word grammar: the characters up to the delimiter (closing quote or
   whitespace), which is left under the cursor *)
Lemma wchars_wsm rest : forall fuel s dl,
  Forall nz_byte s -> (length s < fuel)%nat -> dl = 0 \/ is_q dl = true ->
  exists w s3,
    wchars fuel (cstr s rest) dl = Ok (cstr s3 rest, w) /\
    wsm true dl s = w :: wsm false 0 (tl s3) /\
    Forall nz_byte w /\ Forall nz_byte s3 /\
    (length w + length s3 <= length s)%nat /\
    (s3 = [] \/ exists c t, s3 = c :: t /\ WDELIM dl c = true) /\
    (forall c t, s = c :: t -> WDELIM dl c = false -> (length s3 < length s)%nat).
Proof.
  induction fuel as [|f IH]; intros s dl Hs Hf Hdl; [lia|].
  destruct s as [|c t].
  { exists [], []. cbn [wchars]. rewrite rdn0_cstr_nil. cbn. repeat split; auto. intros; discriminate. }
  apply Forall_nz_cons in Hs as [Hc Ht]. simpl in Hf.
  rewrite cstr_cons. cbn [wchars]. rewrite rdn0_cons. cbn [bind].
  rewrite (nz_neq0 c Hc). cbn [orb].
  destruct (WDELIM dl c) eqn:E1.
  { exists [], (c :: t). rewrite <- cstr_cons. repeat split; auto.
    - cbn [wsm]. cbn [negb andb]. rewrite E1. reflexivity.
    - right. eauto.
    - intros c0 t0 H0 H1. inversion H0; subst. congruence. }
  cbn [tl]. unfold wesc_test.
  destruct (c =? 92) eqn:E5.
  - destruct t as [|c2 t2].
    + rewrite rdn1_cons, rdn0_cstr_nil. cbn [bind]. cbn [is_q Z.eqb orb bind].
      rewrite rdn0_cons. cbn [bind tl].
      destruct (IH [] dl Ht ltac:(simpl in *; lia) Hdl) as (w & s3 & Heq & Hsm & Hw & Hs3 & Hlen & Hend & _).
      exists (c :: w), s3. rewrite Heq. cbn [bind]. repeat split; auto.
      * cbn [wsm negb andb]. rewrite E1, E5.
        cbn [wsm] in Hsm. injection Hsm as Hw0 Hr.
        destruct s3; [|simpl in Hlen; lia]. subst w. reflexivity.
      * simpl in *; lia.
      * intros; simpl in *; lia.
    + apply Forall_nz_cons in Ht as [Hc2 Ht2].
      rewrite rdn1_cons, cstr_cons, rdn0_cons. cbn [bind].
      destruct (is_q c2) eqn:E6; cbn [bind tl].
      * rewrite rdn0_cons. cbn [bind].
        destruct (IH t2 dl Ht2 ltac:(simpl in *; lia) Hdl) as (w & s3 & Heq & Hsm & Hw & Hs3 & Hlen & Hend & _).
        exists (c2 :: w), s3. rewrite Heq. cbn [bind]. repeat split; auto.
        -- cbn [wsm negb andb]. rewrite E1, E5, E6, Hsm. reflexivity.
        -- simpl in *; lia.
        -- intros; simpl in *; lia.
      * rewrite rdn0_cons. cbn [bind]. rewrite <- cstr_cons.
        destruct (IH (c2 :: t2) dl ltac:(constructor; auto) ltac:(simpl in *; lia) Hdl)
          as (w & s3 & Heq & Hsm & Hw & Hs3 & Hlen & Hend & _).
        exists (c :: w), s3. rewrite Heq. cbn [bind]. repeat split; auto.
        -- cbn [wsm negb andb]. rewrite E1, E5, E6. cbn [wsm negb andb] in Hsm. rewrite Hsm. reflexivity.
        -- simpl in *; lia.
        -- intros; simpl in *; lia.
  - cbn [bind]. rewrite rdn0_cons. cbn [bind tl].
    destruct (IH t dl Ht ltac:(lia) Hdl) as (w & s3 & Heq & Hsm & Hw & Hs3 & Hlen & Hend & _).
    exists (c :: w), s3. rewrite Heq. cbn [bind]. repeat split; auto.
    + cbn [wsm negb andb]. rewrite E1, E5, Hsm. reflexivity.
    + simpl; lia.
    + intros; simpl; lia.
Qed.

(* ---------- whitespace skipping (three spellings in the code) ---------- *)
Lemma isspace_0 : isspace 0 = false.
Proof. reflexivity. Qed.

Lemma skip_space_cstr s rest : Forall nz_byte s ->
  skip_space (cstr s rest) = Ok (cstr (drop_ws s) rest).
Proof.
  induction s as [|c s IH]; intros H; [reflexivity|].
  apply Forall_nz_cons in H as [Hc Hs]. rewrite cstr_cons. cbn [skip_space drop_ws].
  destruct (isspace c); [now apply IH | reflexivity].
Qed.
Lemma nw_space_cstr s rest : Forall nz_byte s ->
  nw_space (cstr s rest) = Ok (cstr (drop_ws s) rest).
Proof.
  induction s as [|c s IH]; intros H; [reflexivity|].
  apply Forall_nz_cons in H as [Hc Hs]. rewrite cstr_cons. cbn [nw_space drop_ws].
  rewrite (nz_neq0 c Hc). cbn [negb andb].
  destruct (isspace c); [now apply IH | reflexivity].
Qed.
Lemma drop_ws_nz s : Forall nz_byte s -> Forall nz_byte (drop_ws s).
Proof. induction s as [|c s IH]; intros H; simpl; auto. destruct (isspace c); auto. apply IH. now inversion H. Qed.
Lemma drop_ws_len s : (length (drop_ws s) <= length s)%nat.
Proof. induction s as [|c s IH]; simpl; auto. destruct (isspace c); simpl; lia. Qed.
Lemma drop_ws_head s : drop_ws s = [] \/ exists c t, drop_ws s = c :: t /\ isspace c = false.
Proof. induction s as [|c s IH]; simpl; auto. destruct (isspace c) eqn:E; eauto. Qed.
Lemma wsm_drop s : wsm false 0 s = wsm false 0 (drop_ws s).
Proof.
  induction s as [|c s IH]; [reflexivity|]. cbn [wsm drop_ws negb andb].
  destruct (isspace c) eqn:E; [exact IH|]. cbn [wsm negb andb]. now rewrite E.
Qed.
Lemma wsm_start c t : isspace c = false -> is_q c = false ->
  wsm false 0 (c :: t) = wsm true 0 (c :: t).
Proof. intros H1 H2. cbn [wsm negb andb]. rewrite H1, H2. unfold WDELIM. cbn. now rewrite H1. Qed.

Lemma is_q_not_space c : is_q c = true -> isspace c = false.
Proof.
  unfold is_q, isspace. intros H. apply orb_prop in H as [H|H]; apply Z.eqb_eq in H; subst; reflexivity.
Qed.

(* the cursor after the switch that steps over a closing quote *)
Definition closeq (s : list byte) : list byte :=
  match s with c :: t => if is_q c then t else s | [] => [] end.
Lemma close_quote_cstr s rest : close_quote (cstr s rest) = Ok (cstr (closeq s) rest).
Proof.
  destruct s as [|c t]; [reflexivity|]. rewrite cstr_cons. unfold close_quote.
  rewrite rdn0_cons. cbn [bind closeq tl]. destruct (is_q c); reflexivity.
Qed.

(* one word: switch on the opening quote, the character loop, switch on the closing quote *)
Lemma word_iter rest c t :
  Forall nz_byte (c :: t) -> isspace c = false ->
  exists dl s2 w s3,
    open_quote (cstr (c :: t) rest) = Ok (dl, cstr s2 rest) /\
    (length s2 <= length (c :: t))%nat /\
    wchars (S (length (cstr s2 rest))) (cstr s2 rest) dl = Ok (cstr s3 rest, w) /\
    wsm false 0 (c :: t) = w :: wsm false 0 (closeq s3) /\
    Forall nz_byte w /\ Forall nz_byte (closeq s3) /\
    (length w <= length (c :: t))%nat /\
    (length (closeq s3) < length (c :: t))%nat.
Proof.
  intros Hs Hsp. pose proof (Forall_nz_cons _ _ Hs) as [Hc Ht].
  unfold open_quote. rewrite cstr_cons, rdn0_cons. cbn [bind tl].
  destruct (is_q c) eqn:Eq.
  - destruct (wchars_wsm rest (S (length (cstr t rest))) t c Ht ltac:(rewrite cstr_length; lia) (or_intror Eq))
      as (w & s3 & Heq & Hsm & Hw & Hs3 & Hlen & Hend & _).
    exists c, t, w, s3. repeat split; auto.
    + simpl; lia.
    + cbn [wsm negb andb]. rewrite Hsp, Eq. rewrite Hsm. f_equal.
      destruct Hend as [->|(c' & t' & -> & Hd)]; [reflexivity|].
      unfold WDELIM in Hd. destruct (c =? 0) eqn:E0.
      { apply Z.eqb_eq in E0. subst c. discriminate. }
      apply Z.eqb_eq in Hd. subst c'. cbn [closeq tl]. now rewrite Eq.
    + destruct s3 as [|c' t']; [constructor|]. cbn [closeq]. destruct (is_q c'); auto. now inversion Hs3.
    + simpl in *; lia.
    + assert (length (closeq s3) <= length s3)%nat.
      { destruct s3 as [|c' t']; [simpl; lia|]. cbn [closeq]. destruct (is_q c'); simpl; lia. }
      simpl in *; lia.
  - rewrite <- cstr_cons.
    destruct (wchars_wsm rest (S (length (cstr (c :: t) rest))) (c :: t) 0 Hs ltac:(rewrite cstr_length; lia) (or_introl eq_refl))
      as (w & s3 & Heq & Hsm & Hw & Hs3 & Hlen & Hend & Hdec).
    exists 0, (c :: t), w, s3. repeat split; auto.
    + rewrite (wsm_start c t Hsp Eq), Hsm. f_equal.
      destruct Hend as [->|(c' & t' & -> & Hd)]; [reflexivity|].
      unfold WDELIM in Hd. cbn in Hd. cbn [closeq tl].
      destruct (is_q c') eqn:Eq'; [apply is_q_not_space in Eq'; congruence|].
      cbn [wsm negb andb]. now rewrite Hd.
    + destruct s3 as [|c' t']; [constructor|]. cbn [closeq]. destruct (is_q c'); auto. now inversion Hs3.
    + simpl in *; lia.
    + assert (length (closeq s3) <= length s3)%nat.
      { destruct s3 as [|c' t']; [simpl; lia|]. cbn [closeq]. destruct (is_q c'); simpl; lia. }
      specialize (Hdec c t eq_refl). unfold WDELIM in Hdec. cbn in Hdec. specialize (Hdec Hsp). simpl in *; lia.
Qed.

Definition at_word_start (s : list byte) : Prop :=
  s = [] \/ exists c t, s = c :: t /\ isspace c = false.
Lemma drop_ws_start s : at_word_start (drop_ws s).
Proof. destruct (drop_ws_head s) as [E|(c & t & E & H)]; [now left | right; eauto]. Qed.

(* ---------- num_words ---------- *)
Lemma nw_words_wsm rest : forall fuel s cnt,
  Forall nz_byte s -> (length s < fuel)%nat -> at_word_start s ->
  nw_words fuel (cstr s rest) cnt = Ok (cnt + Z.of_nat (length (wsm false 0 s))).
Proof.
  induction fuel as [|f IH]; intros s cnt Hs Hf Hst; [lia|].
  destruct s as [|c t].
  { cbn. f_equal. lia. }
  destruct Hst as [Hst|(c0 & t0 & Hst & Hsp)]; [discriminate|]. injection Hst as <- <-.
  pose proof (Forall_nz_cons _ _ Hs) as [Hc Ht].
  cbn [nw_words]. rewrite cstr_cons, rdn0_cons. cbn [bind]. rewrite (nz_neq0 c Hc). rewrite <- cstr_cons.
  destruct (word_iter rest c t Hs Hsp) as (dl & s2 & w & s3 & Hoq & Hl2 & Hwc & Hsm & Hw & Hs4 & Hlw & Hl4).
  rewrite Hoq. cbn [bind].
  rewrite (nw_chars_wchars _ _ _ _ _ Hwc). cbn [bind].
  rewrite close_quote_cstr. cbn [bind].
  rewrite (nw_space_cstr _ rest Hs4). cbn [bind].
  rewrite (IH (drop_ws (closeq s3)) (cnt + 1)).
  - rewrite Hsm, (wsm_drop (closeq s3)). f_equal. cbn [length]. lia.
  - now apply drop_ws_nz.
  - pose proof (drop_ws_len (closeq s3)). simpl in *. lia.
  - apply drop_ws_start.
Qed.

Theorem num_words_exact : forall s rest, Forall nz_byte s ->
  num_words (cstr s rest) = Ok (Z.of_nat (length (words s))).
Proof.
  intros s rest Hs. unfold num_words, words.
  rewrite (nw_space_cstr s rest Hs). cbn [bind].
  rewrite (wsm_drop s), nw_words_wsm; [reflexivity | now apply drop_ws_nz | | apply drop_ws_start].
  pose proof (drop_ws_len s). rewrite cstr_length. lia.
Qed.

(* ---------- get_word ---------- *)
Lemma wrn_length (b : buf) k c b' : wrn b k c = Ok b' -> length b' = length b.
Proof. unfold wrn. destruct (k <? length b)%nat; [|discriminate]. intros H. injection H as <-. apply upd_length. Qed.

Lemma wrn_head x (b : buf) c : wrn (x :: b) 0 c = Ok (Some c :: b).
Proof. reflexivity. Qed.

Definition is_cstr (out : buf) : Prop := exists w junk, out = cstr w junk /\ Forall nz_byte w.

Ltac split5 := split; [|split; [|split; [|split]]].

Lemma gw_words_spec rest idx : forall fuel s j out,
  Forall nz_byte s -> (length s < fuel)%nat -> (length s < length out)%nat -> is_cstr out ->
  exists j' out',
    gw_words fuel idx j (cstr s rest) out = Ok (j', out') /\
    length out' = length out /\ is_cstr out' /\
    (idx <= j -> j' = j /\ out' = out) /\
    (forall n, j < idx -> n = Z.to_nat (idx - j) -> (n <= length (words s))%nat ->
       j' = idx /\ exists wd junk, nth_error (words s) (n - 1) = Some wd /\ Forall nz_byte wd /\
                                   out' = cstr wd junk).
Proof.
  induction fuel as [|f IH]; intros s j out Hs Hf Hout Hc; [lia|].
  cbn [gw_words]. destruct (j <? idx) eqn:Ej.
  2:{ apply Z.ltb_ge in Ej. exists j, out. split5; auto. intros; lia. }
  apply Z.ltb_lt in Ej.
  destruct s as [|c t].
  { rewrite rdn0_cstr_nil. cbn. exists j, out. split5; auto; try lia. }
  pose proof (Forall_nz_cons _ _ Hs) as [Hcz Ht].
  rewrite cstr_cons, rdn0_cons. cbn [bind]. rewrite (nz_neq0 c Hcz). rewrite <- cstr_cons.
  rewrite (skip_space_cstr _ rest Hs). cbn [bind].
  pose proof (drop_ws_len (c :: t)) as Hdl. pose proof (drop_ws_nz _ Hs) as Hdz.
  unfold words in *. rewrite (wsm_drop (c :: t)).
  destruct (drop_ws_head (c :: t)) as [E|(c1 & t1 & E & Hsp)]; rewrite E in *.
  - (* only blanks were left: an empty word is stored, the cursor is at the terminator *)
    destruct out as [|x out]; [simpl in Hout; lia|].
    unfold open_quote, close_quote. rewrite rdn0_cstr_nil. cbn [bind is_q Z.eqb orb].
    cbn [gw_chars]. rewrite rdn0_cstr_nil. cbn [bind Z.eqb orb]. rewrite rdn0_cstr_nil. cbn [bind is_q Z.eqb orb].
    rewrite wrn_head. cbn [bind].
    destruct (IH [] (j + 1) (Some 0 :: out) ltac:(constructor) ltac:(simpl in *; lia) ltac:(simpl; lia))
      as (j' & out' & Heq & Hlen & Hc' & H1 & H2).
    { exists [], out. split; [reflexivity | constructor]. }
    exists j', out'. rewrite Heq. split5; auto; try lia.
    intros n _ Hn Hle. simpl in Hle. lia.
  - destruct (word_iter rest c1 t1 Hdz Hsp) as (dl & s2 & w & s3 & Hoq & Hl2 & Hwc & Hsm & Hw & Hs4 & Hlw & Hl4).
    rewrite Hoq. cbn [bind].
    assert (Hwl : (length w <= length out)%nat) by (simpl in *; lia).
    pose proof (gw_chars_wchars _ _ _ _ _ [] out Hwc Hwl) as Hg. cbn [app length] in Hg.
    rewrite Hg. cbn [bind Nat.add].
    rewrite close_quote_cstr. cbn [bind].
    assert (Hlt : (length w < length out)%nat) by (simpl in *; lia).
    destruct (@skipn_nonempty cell (length w) out Hlt) as (x & mid' & Esk). rewrite Esk.
    rewrite <- (bytes_length w). rewrite wrn_mid. cbn [bind].
    rewrite <- app_assoc. change (bytes w ++ [Some 0] ++ mid') with (cstr w mid').
    assert (Hlen2 : length (cstr w mid') = length out).
    { rewrite cstr_length. rewrite <- (firstn_skipn (length w) out).
      rewrite app_length, firstn_length, Esk. simpl. lia. }
    destruct (IH (closeq s3) (j + 1) (cstr w mid') Hs4 ltac:(simpl in *; lia) ltac:(simpl in *; lia))
      as (j' & out' & Heq & Hlen & Hc' & H1 & H2).
    { exists w, mid'. auto. }
    exists j', out'. rewrite Heq. split5; auto; try lia.
    intros n _ Hn Hle. rewrite Hsm in *. simpl in Hle.
    destruct (Z.le_gt_cases idx (j + 1)) as [Hlast|Hmore].
    + destruct (H1 Hlast) as [-> ->]. split; [lia|].
      assert (Hn1 : n = 1%nat) by lia. exists w, mid'. rewrite Hn1. cbn. auto.
    + destruct (H2 (n - 1)%nat Hmore ltac:(lia) ltac:(lia)) as (-> & wd & junk & Hn1 & Hwd & ->).
      split; [reflexivity|]. exists wd, junk. repeat split; auto.
      destruct n as [|[|n]]; try lia. simpl in *. rewrite Nat.sub_0_r in Hn1. exact Hn1.
Qed.

Lemma get_word_start s rest idx : Forall nz_byte s ->
  exists j' out',
    gw_words (S (length (cstr s rest))) idx 0 (cstr s rest) (cstr [] (repeat None (length s))) = Ok (j', out') /\
    is_cstr out' /\
    (idx <= 0 -> j' = 0 /\ out' = cstr [] (repeat None (length s))) /\
    (forall n, 0 < idx -> n = Z.to_nat idx -> (n <= length (words s))%nat ->
       j' = idx /\ exists wd junk, nth_error (words s) (n - 1) = Some wd /\ Forall nz_byte wd /\
                                   out' = cstr wd junk).
Proof.
  intros Hs.
  destruct (gw_words_spec rest idx (S (length (cstr s rest))) s 0 (cstr [] (repeat None (length s))) Hs)
    as (j' & out' & Heq & Hlen & Hc & H1 & H2).
  - rewrite cstr_length. lia.
  - rewrite cstr_length, repeat_length. simpl. lia.
  - exists [], (repeat None (length s)). split; [reflexivity|constructor].
  - exists j', out'. repeat split; auto.
    + now apply H1.
    + now apply H1.
    + eapply H2; eauto. lia.
    + intros. rewrite Z.sub_0_r in H2. eapply H2; eauto.
Qed.

Lemma get_word_unfold s rest idx : Forall nz_byte s ->
  get_word idx (cstr s rest) =
  ('(j, out) <- gw_words (S (length (cstr s rest))) idx 0 (cstr s rest) (cstr [] (repeat None (length s))) ;;
   if j =? idx then (l2 <- strlen out ;; Ok (Some (take_str (firstn (S l2) out)))) else Ok None).
Proof. intros Hs. unfold get_word. rewrite (strlen_cstr s rest Hs). reflexivity. Qed.

Theorem get_word_exact : forall s rest idx, Forall nz_byte s ->
  1 <= idx <= Z.of_nat (length (words s)) ->
  get_word idx (cstr s rest) = Ok (nth_error (words s) (Z.to_nat (idx - 1))).
Proof.
  intros s rest idx Hs Hi. rewrite (get_word_unfold s rest idx Hs).
  destruct (get_word_start s rest idx Hs) as (j' & out' & Heq & Hc & _ & H2).
  destruct (H2 (Z.to_nat idx) ltac:(lia) eq_refl ltac:(lia)) as (-> & wd & junk & Hn & Hwd & ->).
  rewrite Heq. cbn [bind]. rewrite Z.eqb_refl, (strlen_cstr wd junk Hwd). cbn [bind].
  rewrite firstn_cstr, (take_str_cstr wd [] Hwd).
  replace (Z.to_nat (idx - 1)) with (Z.to_nat idx - 1)%nat by lia. now rewrite Hn.
Qed.

Theorem get_word_total : forall s rest idx, Forall nz_byte s ->
  exists r, get_word idx (cstr s rest) = Ok r.
Proof.
  intros s rest idx Hs. rewrite (get_word_unfold s rest idx Hs).
  destruct (get_word_start s rest idx Hs) as (j' & out' & Heq & (w & junk & -> & Hw) & _).
  rewrite Heq. cbn [bind]. destruct (j' =? idx); [|eauto].
  rewrite (strlen_cstr w junk Hw). cbn [bind]. eauto.
Qed.

(* index 0: the loop does not run and the initial empty string is returned *)
Theorem get_word_zero : forall s rest, Forall nz_byte s -> get_word 0 (cstr s rest) = Ok (Some []).
Proof.
  intros s rest Hs. rewrite (get_word_unfold s rest 0 Hs).
  destruct (get_word_start s rest 0 Hs) as (j' & out' & Heq & _ & H1 & _).
  destruct (H1 ltac:(lia)) as [-> ->]. rewrite Heq. reflexivity.
Qed.

(* ---------- get_pword ---------- *)
Fixpoint drop_nws (s : list byte) : list byte :=
  match s with [] => [] | c :: t => if isspace c then s else drop_nws t end.
Lemma drop_nws_nz s : Forall nz_byte s -> Forall nz_byte (drop_nws s).
Proof. induction s as [|c s IH]; intros H; simpl; auto. destruct (isspace c); auto. apply IH. now inversion H. Qed.
Lemma drop_nws_len s : (length (drop_nws s) <= length s)%nat.
Proof. induction s as [|c s IH]; simpl; auto. destruct (isspace c); simpl; lia. Qed.

Definition zlen {A} (l : list A) : Z := Z.of_nat (length l).

Lemma pw_space_cstr rest : forall s off, Forall nz_byte s ->
  pw_space (cstr s rest) off = Ok (cstr (drop_ws s) rest, off + zlen s - zlen (drop_ws s)).
Proof.
  unfold zlen. induction s as [|c s IH]; intros off H.
  - cbn. do 2 f_equal. lia.
  - apply Forall_nz_cons in H as [Hc Hs]. rewrite cstr_cons. cbn [pw_space drop_ws].
    rewrite (nz_neq0 c Hc). cbn [negb]. rewrite andb_true_r.
    destruct (isspace c).
    + rewrite IH by assumption. do 2 f_equal. cbn [length]. lia.
    + do 2 f_equal. lia.
Qed.
Lemma pw_nonspace_cstr rest : forall s off, Forall nz_byte s ->
  pw_nonspace (cstr s rest) off = Ok (cstr (drop_nws s) rest, off + zlen s - zlen (drop_nws s)).
Proof.
  unfold zlen. induction s as [|c s IH]; intros off H.
  - cbn. do 2 f_equal. lia.
  - apply Forall_nz_cons in H as [Hc Hs]. rewrite cstr_cons. cbn [pw_nonspace drop_nws].
    rewrite (nz_neq0 c Hc). cbn [negb]. rewrite andb_true_r.
    destruct (isspace c); cbn [negb].
    + do 2 f_equal. lia.
    + rewrite IH by assumption. do 2 f_equal. cbn [length]. lia.
Qed.

Lemma ws_starts_space : forall s off,
  ws_starts false off s = ws_starts false (off + zlen s - zlen (drop_ws s)) (drop_ws s).
Proof.
  unfold zlen. induction s as [|c s IH]; intros off.
  - reflexivity.
  - cbn [ws_starts drop_ws]. destruct (isspace c) eqn:E.
    + rewrite IH. f_equal. cbn [length]. lia.
    + replace (off + Z.of_nat (length (c :: s)) - Z.of_nat (length (c :: s))) with off by lia.
      cbn [ws_starts]. now rewrite E.
Qed.
Lemma ws_starts_word : forall s off,
  ws_starts true off s = ws_starts false (off + zlen s - zlen (drop_nws s)) (drop_nws s).
Proof.
  unfold zlen. induction s as [|c s IH]; intros off.
  - reflexivity.
  - cbn [ws_starts drop_nws]. destruct (isspace c) eqn:E.
    + replace (off + Z.of_nat (length (c :: s)) - Z.of_nat (length (c :: s))) with off by lia.
      cbn [ws_starts]. now rewrite E.
    + rewrite IH. f_equal. cbn [length]. lia.
Qed.

(* invariant of get_pword's cursor: it sits `off` characters into the string, on the
   terminator or on the first character of a whitespace-separated word *)
Lemma pw_words_spec rest idx (sall : list byte) : forall fuel cur off j,
  Forall nz_byte cur -> (length cur < fuel)%nat -> at_word_start cur -> 1 <= j ->
  (exists pre, sall = pre ++ cur /\ off = zlen pre) ->
  exists cur' off',
    pw_words fuel idx j (cstr cur rest) off = Ok (cstr cur' rest, off') /\
    Forall nz_byte cur' /\ at_word_start cur' /\
    (exists pre', sall = pre' ++ cur' /\ off' = zlen pre') /\
    ws_starts false off' cur' = skipn (Z.to_nat (Z.max idx j - j)) (ws_starts false off cur).
Proof.
  induction fuel as [|f IH]; intros cur off j Hs Hf Hst Hj Hpre; [lia|].
  cbn [pw_words]. destruct (j <? idx) eqn:Ej.
  2:{ apply Z.ltb_ge in Ej. exists cur, off. repeat split; auto.
      replace (Z.to_nat (Z.max idx j - j)) with 0%nat by lia. reflexivity. }
  apply Z.ltb_lt in Ej.
  destruct cur as [|c t].
  { rewrite rdn0_cstr_nil. cbn [bind Z.eqb]. exists [], off. repeat split; auto.
    cbn [ws_starts]. now rewrite skipn_nil. }
  destruct Hst as [Hst|(c0 & t0 & Hst & Hsp)]; [discriminate|]. injection Hst as <- <-.
  pose proof (Forall_nz_cons _ _ Hs) as [Hc Ht].
  rewrite cstr_cons, rdn0_cons. cbn [bind]. rewrite (nz_neq0 c Hc). rewrite <- cstr_cons.
  rewrite (pw_nonspace_cstr rest _ off Hs). cbn [bind].
  pose proof (drop_nws_nz _ Hs) as Hz1. pose proof (drop_nws_len (c :: t)) as Hl1.
  rewrite (pw_space_cstr rest _ _ Hz1). cbn [bind].
  pose proof (drop_ws_nz _ Hz1) as Hz2. pose proof (drop_ws_len (drop_nws (c :: t))) as Hl2.
  set (cur2 := drop_ws (drop_nws (c :: t))) in *.
  set (off2 := off + zlen (c :: t) - zlen (drop_nws (c :: t)) + zlen (drop_nws (c :: t)) - zlen cur2).
  destruct (IH cur2 off2 (j + 1) Hz2) as (cur' & off' & Heq & Hz' & Hst' & Hpre' & Hsk).
  - assert (length (drop_nws (c :: t)) < length (c :: t))%nat.
    { cbn [drop_nws]. rewrite Hsp. pose proof (drop_nws_len t). simpl. lia. }
    lia.
  - apply drop_ws_start.
  - lia.
  - destruct Hpre as (pre & -> & ->).
    (* the characters stepped over move from the cursor to the prefix *)
    assert (Hsplit : forall (l : list byte) l', (exists m, l = m ++ l') ->
              exists m, l = m ++ l' /\ zlen m = zlen l - zlen l').
    { intros l l' (m & ->). exists m. split; [reflexivity|]. unfold zlen. rewrite app_length. lia. }
    assert (H1 : exists m, c :: t = m ++ drop_nws (c :: t)).
    { clear. generalize (c :: t). induction l as [|x l IHl]; [exists []; reflexivity|].
      cbn [drop_nws]. destruct (isspace x); [exists []; reflexivity|].
      destruct IHl as (m & Hm). exists (x :: m). simpl. now rewrite <- Hm. }
    assert (H2 : exists m, drop_nws (c :: t) = m ++ cur2).
    { unfold cur2. clear. generalize (drop_nws (c :: t)). induction l as [|x l IHl]; [exists []; reflexivity|].
      cbn [drop_ws]. destruct (isspace x); [|exists []; reflexivity].
      destruct IHl as (m & Hm). exists (x :: m). simpl. now rewrite <- Hm. }
    apply Hsplit in H1 as (m1 & E1 & L1). apply Hsplit in H2 as (m2 & E2 & L2).
    exists (pre ++ m1 ++ m2). split.
    + rewrite E1 at 1. rewrite E2 at 1. now rewrite <- !app_assoc.
    + unfold off2. unfold zlen in *. rewrite !app_length. lia.
  - exists cur', off'. rewrite Heq. repeat split; auto.
    rewrite Hsk.
    replace (Z.to_nat (Z.max idx j - j)) with (S (Z.to_nat (Z.max idx (j + 1) - (j + 1)))) by lia.
    cbn [ws_starts]. rewrite Hsp. cbn [skipn]. f_equal.
    rewrite (ws_starts_word t (off + 1)).
    assert (Hd : drop_nws (c :: t) = drop_nws t) by (cbn [drop_nws]; now rewrite Hsp).
    rewrite (ws_starts_space (drop_nws t)). unfold off2, cur2. rewrite Hd. f_equal.
    unfold zlen. cbn [length]. lia.
Qed.

Lemma nth_error_skipn_hd {A} (l : list A) k : nth_error l k = hd_error (skipn k l).
Proof. revert l; induction k as [|k IH]; intros [|x l]; simpl; auto. Qed.

Theorem get_pword_exact : forall s rest idx, Forall nz_byte s ->
  get_pword idx (cstr s rest) = Ok (pword_spec idx s).
Proof.
  intros s rest idx Hs. unfold get_pword, pword_spec.
  rewrite (pw_space_cstr rest s 0 Hs). cbn [bind].
  pose proof (drop_ws_nz _ Hs) as Hz0. pose proof (drop_ws_len s) as Hl0.
  destruct (pw_words_spec rest idx s (S (length (cstr s rest))) (drop_ws s) (0 + zlen s - zlen (drop_ws s)) 1 Hz0)
    as (cur' & off' & Heq & Hz' & Hst' & (pre' & Hall & Hoff) & Hsk).
  - rewrite cstr_length. lia.
  - apply drop_ws_start.
  - lia.
  - assert (H1 : exists m, s = m ++ drop_ws s).
    { clear. induction s as [|x l IHl]; [exists []; reflexivity|].
      cbn [drop_ws]. destruct (isspace x); [|exists []; reflexivity].
      destruct IHl as (m & Hm). exists (x :: m). simpl. now rewrite <- Hm. }
    destruct H1 as (m & Hm). exists m. split; [exact Hm|].
    unfold zlen. rewrite Hm at 1. rewrite app_length. lia.
  - rewrite Heq. cbn [bind].
    rewrite <- (ws_starts_space s 0) in Hsk.
    rewrite nth_error_skipn_hd, <- Hsk.
    destruct cur' as [|c t].
    + rewrite rdn0_cstr_nil. cbn. reflexivity.
    + destruct Hst' as [Hst'|(c0 & t0 & Hst' & Hsp)]; [discriminate|]. injection Hst' as <- <-.
      pose proof (Forall_nz_cons _ _ Hz') as [Hc Ht].
      rewrite cstr_cons, rdn0_cons. cbn [bind ws_starts]. rewrite Hsp. cbn [hd_error].
      assert (Hnth : nth (Z.to_nat off') s 0 = c).
      { rewrite Hall, Hoff. unfold zlen. rewrite Nat2Z.id, app_nth2, Nat.sub_diag by lia. reflexivity. }
      assert (Hlen : zlen s = off' + 1 + zlen t).
      { rewrite Hall, Hoff. unfold zlen. rewrite app_length. cbn [length]. lia. }
      rewrite Hnth. unfold zlen in Hlen. rewrite Hlen.
      destruct (is_q c); cbn [tl].
      * destruct t as [|c2 t2].
        -- rewrite rdn0_cstr_nil. cbn [bind Z.eqb].
           replace (off' + 1 <? off' + 1 + Z.of_nat (length (@nil Z))) with false
             by (symmetry; apply Z.ltb_ge; simpl; lia). reflexivity.
        -- apply Forall_nz_cons in Ht as [Hc2 _]. rewrite cstr_cons, rdn0_cons. cbn [bind].
           rewrite (nz_neq0 c2 Hc2).
           replace (off' + 1 <? off' + 1 + Z.of_nat (length (c2 :: t2))) with true
             by (symmetry; apply Z.ltb_lt; simpl; lia). reflexivity.
      * rewrite rdn0_cons. cbn [bind]. rewrite (nz_neq0 c Hc).
        replace (off' <? off' + 1 + Z.of_nat (length t)) with true
          by (symmetry; apply Z.ltb_lt; lia). reflexivity.
Qed.

(* ====================== join ====================== *)
Lemma copy_at_spec : forall t (pre mid : buf), (length t < length mid)%nat ->
  copy_at (pre ++ mid) (length pre) t = Ok ((pre ++ bytes t) ++ Some 0 :: skipn (S (length t)) mid).
Proof.
  induction t as [|c t IH]; intros pre mid Hl; (destruct mid as [|x mid]; [simpl in Hl; lia|]).
  - cbn [copy_at]. rewrite wrn_mid. cbn. now rewrite app_nil_r, <- app_assoc.
  - cbn [copy_at]. rewrite wrn_mid. cbn [bind].
    replace (S (length pre)) with (length (pre ++ [Some c])) by (rewrite app_length; simpl; lia).
    rewrite IH by (simpl in Hl; lia). f_equal. cbn [bytes map skipn length].
    now rewrite <- !app_assoc.
Qed.

Lemma strcat_spec x t (mid : buf) : Forall nz_byte x -> (length t <= length mid)%nat ->
  strcat_m (cstr x mid) t = Ok (cstr (x ++ t) (skipn (length t) mid)).
Proof.
  intros Hx Hl. unfold strcat_m. rewrite (strlen_cstr x mid Hx). cbn [bind].
  unfold cstr at 1. rewrite <- (bytes_length x).
  rewrite copy_at_spec by (simpl; lia). f_equal.
  unfold cstr. rewrite bytes_app. cbn [skipn]. reflexivity.
Qed.

Lemma skipn_skipn {A} a b (l : list A) : skipn a (skipn b l) = skipn (b + a) l.
Proof.
  revert l; induction b as [|b IH]; intros l; [reflexivity|].
  destruct l as [|x l]; [now rewrite !skipn_nil|]. cbn [skipn Nat.add]. apply IH.
Qed.

Definition room (sep : list byte) (r : list (list byte)) : nat :=
  fold_right (fun t a => (length sep + length t + a)%nat) 0%nat r.
Definition flat (sep : list byte) (r : list (list byte)) : list byte :=
  concat (map (fun t => sep ++ t) r).

Lemma join_rest_spec sep : Forall nz_byte sep -> forall r x (mid : buf),
  Forall nz_byte x -> Forall (Forall nz_byte) r -> (room sep r <= length mid)%nat ->
  join_rest sep r (cstr x mid) = Ok (cstr (x ++ flat sep r) (skipn (room sep r) mid)).
Proof.
  intros Hsep. induction r as [|t r IH]; intros x mid Hx Hr Hl.
  - cbn. now rewrite app_nil_r.
  - inversion Hr as [|? ? Ht Hr']; subst. cbn [room fold_right] in Hl. fold (room sep r) in Hl.
    cbn [join_rest].
    assert (Ho1 : (if (length sep =? 0)%nat then Ok (cstr x mid) else strcat_m (cstr x mid) sep)
                  = Ok (cstr (x ++ sep) (skipn (length sep) mid))).
    { destruct (length sep =? 0)%nat eqn:E.
      - apply Nat.eqb_eq in E. destruct sep; [|discriminate]. cbn. now rewrite app_nil_r.
      - apply strcat_spec; auto. lia. }
    rewrite Ho1. cbn [bind].
    rewrite strcat_spec; [| apply Forall_app; auto | rewrite skipn_length; lia]. cbn [bind].
    rewrite IH; auto.
    + f_equal. unfold flat. cbn [map concat]. rewrite <- !app_assoc. f_equal.
      rewrite !skipn_skipn. f_equal. cbn [room fold_right]. fold (room sep r). lia.
    + repeat (apply Forall_app; split); auto.
    + rewrite !skipn_length. lia.
Qed.

Lemma join_spec_flat sep t0 r : join_spec sep (t0 :: r) = t0 ++ flat sep r.
Proof.
  revert t0; induction r as [|t r IH]; intros t0.
  - cbn. now rewrite app_nil_r.
  - change (join_spec sep (t0 :: t :: r)) with (t0 ++ sep ++ join_spec sep (t :: r)).
    rewrite IH. unfold flat. cbn [map concat]. now rewrite <- app_assoc.
Qed.

Lemma room_sum sep r :
  (fold_right (fun t a => length t + a) 0 r + length sep * length r = room sep r)%nat.
Proof. induction r as [|t r IH]; cbn [fold_right length room]; [lia|]. fold (room sep r). lia. Qed.

Theorem join_exact : forall sep ts,
  Forall nz_byte (match sep with Some s => s | None => [] end) -> Forall (Forall nz_byte) ts ->
  join sep ts = Ok (match ts with [] => None
                    | _ => Some (cstr (join_spec (match sep with Some s => s | None => [] end) ts) []) end).
Proof.
  intros sep ts Hsep Hts. destruct ts as [|t0 r]; [reflexivity|].
  inversion Hts as [|? ? Ht0 Hr]; subst. unfold join.
  set (sp := match sep with Some s => s | None => [] end) in *.
  set (len := (fold_right (fun t a => length t + a) 0 (t0 :: r) + length sp * (length (t0 :: r) - 1))%nat).
  assert (Hlen : len = (length t0 + room sp r)%nat).
  { unfold len. cbn [fold_right length]. rewrite <- (room_sum sp r). lia. }
  pose proof (copy_at_spec t0 [] (repeat None (S len))) as Hc. cbn [app length] in Hc.
  rewrite Hc by (rewrite repeat_length; lia). cbn [bind].
  change (bytes t0 ++ Some 0 :: skipn (S (length t0)) (repeat None (S len)))
    with (cstr t0 (skipn (S (length t0)) (repeat None (S len)))).
  rewrite (join_rest_spec sp Hsep r t0 _ Ht0 Hr) by (rewrite skipn_length, repeat_length; lia).
  cbn [bind]. rewrite join_spec_flat. do 3 f_equal.
  rewrite skipn_skipn. apply skipn_all2. rewrite repeat_length. lia.
Qed.

(* ---------- round trip on plain tokens ---------- *)
Lemma sm_plain d : forall t r b,
  Forall (fun c => nz_byte c /\ delim d c = false /\ is_q c = false /\ c <> 92) t ->
  (r = [] \/ exists c r', r = c :: r' /\ delim d c = true) ->
  sm d b 0 (t ++ r) = match t with [] => sm d b 0 r | _ => t :: sm d false 0 r end.
Proof.
  induction t as [|c t IH]; intros r b Ht Hr; [reflexivity|].
  inversion Ht as [|? ? (Hc & Hd & Hq & Hb) Ht']; subst.
  cbn [app sm]. cbn [Z.eqb andb]. rewrite Hd, Hq.
  replace (c =? 92) with false by (symmetry; now apply Z.eqb_neq).
  rewrite (IH r true Ht' Hr). destruct t as [|c' t'].
  - destruct Hr as [->|(c1 & r' & -> & Hd1)]; [reflexivity|].
    cbn [sm Z.eqb andb]. rewrite Hd1. reflexivity.
  - reflexivity.
Qed.

Lemma sm_sep d sep r : Forall (fun c => delim d c = true) sep -> sm d false 0 (sep ++ r) = sm d false 0 r.
Proof.
  induction sep as [|c sep IH]; intros H; [reflexivity|]. inversion H; subst.
  cbn [app sm Z.eqb andb]. rewrite H2. now apply IH.
Qed.

Lemma tokens_join d sep : sep <> [] -> Forall (fun c => delim d c = true) sep ->
  forall ts, ts <> [] -> Forall (plain d) ts -> tokens d (join_spec sep ts) = ts.
Proof.
  intros Hne Hsep. unfold tokens.
  induction ts as [|t ts IH]; intros Hts Hp; [congruence|].
  inversion Hp as [|? ? (Htne & Ht) Hp']; subst.
  destruct ts as [|t2 ts].
  - cbn [join_spec]. rewrite <- (app_nil_r t) at 1. rewrite (sm_plain d t [] false Ht (or_introl eq_refl)).
    destruct t; [congruence|reflexivity].
  - change (join_spec sep (t :: t2 :: ts)) with (t ++ sep ++ join_spec sep (t2 :: ts)).
    rewrite (sm_plain d t _ false Ht).
    + destruct t; [congruence|]. rewrite (sm_sep d sep _ Hsep). f_equal. apply IH; [discriminate|assumption].
    + right. destruct sep as [|c sep']; [congruence|]. inversion Hsep; subst. cbn [app]. eauto.
Qed.

Theorem join_split_round_trip : forall d sep ts,
  sep <> [] -> Forall (fun c => nz_byte c /\ delim d c = true) sep ->
  ts <> [] -> Forall (plain d) ts ->
  exists joined, join (Some sep) ts = Ok (Some joined) /\ split d joined = Ok (Some ts).
Proof.
  intros d sep ts Hne Hsep Hts Hp.
  assert (Hsz : Forall nz_byte sep) by (eapply Forall_impl; [|exact Hsep]; intros a [H _]; exact H).
  assert (Hsd : Forall (fun c => delim d c = true) sep) by (eapply Forall_impl; [|exact Hsep]; intros a [_ H]; exact H).
  assert (Htz : Forall (Forall nz_byte) ts).
  { eapply Forall_impl; [|exact Hp]. intros t (_ & Ht). eapply Forall_impl; [|exact Ht]. intros a (H & _). exact H. }
  exists (cstr (join_spec sep ts) []). split.
  - rewrite (join_exact (Some sep) ts Hsz Htz). destruct ts; [congruence|reflexivity].
  - assert (Hjz : Forall nz_byte (join_spec sep ts)).
    { clear - Hsz Htz. induction ts as [|t ts IH]; [constructor|]. inversion Htz; subst.
      destruct ts as [|t2 ts]; [assumption|].
      change (join_spec sep (t :: t2 :: ts)) with (t ++ sep ++ join_spec sep (t2 :: ts)).
      repeat (apply Forall_app; split); auto. }
    rewrite (split_is_tokens d _ [] Hjz), (tokens_join d sep Hne Hsd ts Hts Hp).
    destruct ts; [congruence|reflexivity].
Qed.

(* ---------- nothing is read beyond the terminator ---------- *)
Theorem scanners_stay_inside : forall d s idx, Forall nz_byte s ->
  is_ok (split d (cstr s [])) = true /\ is_ok (tok_eval d (cstr s [])) = true /\
  is_ok (num_words (cstr s [])) = true /\ is_ok (get_word idx (cstr s [])) = true /\
  is_ok (get_pword idx (cstr s [])) = true.
Proof.
  intros d s idx Hs.
  rewrite (split_is_tokens d s [] Hs), (tok_is_tokens_trimmed d s [] Hs), (num_words_exact s [] Hs),
    (get_pword_exact s [] idx Hs).
  destruct (get_word_total s [] idx Hs) as (r & ->). repeat split.
Qed.
