(* Executable model of the tok OBJECT of src/tok.c (property C12): the members src, sep, quote, dquote, escape and
   tokens, their setters, spif_tok_eval on an object that may have been evaluated before, spif_tok_dup and
   spif_tok_done -- so that a case can be a HISTORY: evaluate, change the source / separators / quote characters,
   evaluate again, copy, evaluate the copy, ...

   spif_tok_eval (tok.c:279) reads self->quote, self->dquote and self->escape; SplitModel.tok_eval is that scanner
   with the default values 39, 34, 92 built in.  Here the scanner is restated over a configuration `qcfg`
   (tok_chars_g, tok_tokens_g, tok_eval_g: the same statements, the three constants replaced by the members) and the
   grammar likewise (sm_g, tokens_g).  Split/TokObjProofs.v proves tok_eval_g = map trim (tokens_g ...) for every
   configuration, that the default configuration gives back SplitModel's tok_eval and tokens, and the history theorem.
   No proofs in this file. *)
From LV Require Export Base.Buf Split.SplitModel.
Local Open Scope Z_scope.

(* the three spif_char_t members; *pstr and the members are both (signed) char, so equality is equality of bytes *)
Record qcfg := { qc_quote : byte; qc_dquote : byte; qc_escape : byte }.
Definition default_cfg : qcfg := {| qc_quote := 39; qc_dquote := 34; qc_escape := 92 |}.

(* *pstr == self->dquote || *pstr == self->quote *)
Definition is_qg (g : qcfg) (c : byte) : bool := (c =? qc_dquote g) || (c =? qc_quote g).

(* ( *pstr == self->escape) && (IS_DELIM( *(pstr + 1)) || IS_QUOTE( *(pstr + 1))) *)
Definition esc_test_g (g : qcfg) (d : dset) (q : byte) (p : buf) (c : byte) : res bool :=
  if c =? qc_escape g then (c1 <- rdn p 1 ;; Ok (IS_DELIM d c1 || IS_QUOTE q c1)) else Ok false.

(* the character loop of spif_tok_eval, tok.c:322-345 *)
Fixpoint tok_chars_g (g : qcfg) (fuel : nat) (d : dset) (p : buf) (q : byte) : res (buf * byte * list byte) :=
  match fuel with
  | O => Fault Out_of_fuel
  | S f =>
    c <- rdn p 0 ;;
    if (c =? 0) || ((q =? 0) && IS_DELIM d c) then Ok (p, q, [])
    else if is_qg g c then
      if negb (q =? 0) then
        if q =? c then tok_chars_g g f d (tl p) 0
        else ('(p', q', w) <- tok_chars_g g f d (tl p) q ;; Ok (p', q', c :: w))
      else tok_chars_g g f d (tl p) c
    else
      e <- esc_test_g g d q p c ;;
      let p1 := if e then tl p else p in
      c' <- rdn p1 0 ;;
      '(p', q', w) <- tok_chars_g g f d (tl p1) q ;; Ok (p', q', c' :: w)
  end.

Fixpoint tok_tokens_g (g : qcfg) (fuel : nat) (d : dset) (p : buf) (q : byte) : res (list (list byte)) :=
  match fuel with
  | O => Fault Out_of_fuel
  | S f =>
    c <- rdn p 0 ;;
    if c =? 0 then Ok []
    else
      '(p1, q1, w) <- tok_chars_g g (S (length p)) d p q ;;
      p2 <- skip_delims d p1 ;;
      rest <- tok_tokens_g g f d p2 q1 ;;
      Ok (trim w :: rest)
  end.

Definition tok_eval_g (g : qcfg) (d : dset) (src : buf) : res (list (list byte)) :=
  p <- skip_delims d src ;;
  tok_tokens_g g (S (length src)) d p 0.

(* ---- the object ---- *)
(* t_src: None = NULL (spif_tok_new, or set_src(NULL)); the text of the str object otherwise (its buffer is exactly
   the text and the terminator).  t_sep: None = NULL = whitespace.  t_toks: None = tokens member NULL (never
   evaluated / after done); otherwise the texts of the str objects in the list. *)
Record tokobj := {
  t_src : option (list byte);
  t_sep : dset;
  t_cfg : qcfg;
  t_toks : option (list (list byte))
}.

(* spif_tok_init / spif_tok_init_from_ptr *)
Definition tok_new (src : option (list byte)) : tokobj :=
  {| t_src := src; t_sep := None; t_cfg := default_cfg; t_toks := None |}.

Inductive tok_op :=
| TSetSrc (s : option (list byte))      (* spif_tok_set_src(self, spif_str_new_from_ptr(s)) / set_src(self, NULL) *)
| TSetSep (d : dset)                    (* spif_tok_set_sep *)
| TSetQuote (c : byte)                  (* spif_tok_set_quote *)
| TSetDquote (c : byte)                 (* spif_tok_set_dquote *)
| TSetEscape (c : byte)                 (* spif_tok_set_escape *)
| TEval                                 (* spif_tok_eval(self); the token list is read off afterwards *)
| TDup                                  (* copy = spif_tok_dup(self); spif_tok_del(self); self = copy; the copy's list is read *)
| TFork                                 (* copy = spif_tok_dup(self); spif_tok_eval(copy), its list is read; spif_tok_del(copy) *)
| TDone.                                (* spif_tok_done(self) *)

Inductive tok_out :=
| OEval (r : option (list (list byte)))  (* None: spif_tok_eval returned FALSE *)
| OToks (r : option (list (list byte))). (* the tokens member as found; None = NULL *)

(* spif_tok_eval: FALSE without a source (the token list stays as it is); otherwise whatever list the object had is
   deleted and the member holds exactly the tokens of this evaluation *)
Definition tok_eval_obj (o : tokobj) : res (tokobj * tok_out) :=
  match t_src o with
  | None => Ok (o, OEval None)
  | Some s =>
    l <- tok_eval_g (t_cfg o) (t_sep o) (cstr s []) ;;
    Ok ({| t_src := t_src o; t_sep := t_sep o; t_cfg := t_cfg o; t_toks := Some l |}, OEval (Some l))
  end.

Definition set_cfg (o : tokobj) (g : qcfg) : tokobj :=
  {| t_src := t_src o; t_sep := t_sep o; t_cfg := g; t_toks := t_toks o |}.

Definition tok_step (o : tokobj) (op : tok_op) : res (tokobj * list tok_out) :=
  match op with
  | TSetSrc s => Ok ({| t_src := s; t_sep := t_sep o; t_cfg := t_cfg o; t_toks := t_toks o |}, [])
  | TSetSep d => Ok ({| t_src := t_src o; t_sep := d; t_cfg := t_cfg o; t_toks := t_toks o |}, [])
  | TSetQuote c => Ok (set_cfg o {| qc_quote := c; qc_dquote := qc_dquote (t_cfg o); qc_escape := qc_escape (t_cfg o) |}, [])
  | TSetDquote c => Ok (set_cfg o {| qc_quote := qc_quote (t_cfg o); qc_dquote := c; qc_escape := qc_escape (t_cfg o) |}, [])
  | TSetEscape c => Ok (set_cfg o {| qc_quote := qc_quote (t_cfg o); qc_dquote := qc_dquote (t_cfg o); qc_escape := c |}, [])
  | TEval => '(o', r) <- tok_eval_obj o ;; Ok (o', [r])
  | TDup => Ok (o, [OToks (t_toks o)])                      (* every member is copied: the copy is the same value *)
  | TFork => '(_, r) <- tok_eval_obj o ;; Ok (o, [r])       (* the copy is evaluated and deleted; self is untouched *)
  | TDone => Ok (tok_new None, [])
  end.

Fixpoint tok_run (o : tokobj) (ops : list tok_op) : res (tokobj * list tok_out) :=
  match ops with
  | [] => Ok (o, [])
  | op :: r =>
    '(o1, out1) <- tok_step o op ;;
    '(o2, out2) <- tok_run o1 r ;;
    Ok (o2, out1 ++ out2)
  end.

(* ======================= specification ======================= *)
(* SplitModel.sm with the quote and escape characters taken from the configuration *)
Fixpoint sm_g (g : qcfg) (d : dset) (intok : bool) (q : byte) (s : list byte) : list (list byte) :=
  match s with
  | [] => if intok then [[]] else []
  | c :: t =>
    if (q =? 0) && delim d c then (if intok then [] :: sm_g g d false 0 t else sm_g g d false 0 t)
    else if is_qg g c then
      if q =? 0 then sm_g g d true c t
      else if q =? c then sm_g g d true 0 t
      else push c (sm_g g d true q t)
    else if c =? qc_escape g then
      match t with
      | c2 :: t2 =>
        if delim d c2 || (negb (q =? 0) && (q =? c2)) then push c2 (sm_g g d true q t2)
        else push c (sm_g g d true q t)
      | [] => [[c]]
      end
    else push c (sm_g g d true q t)
  end.
Definition tokens_g (g : qcfg) (d : dset) (s : list byte) : list (list byte) := sm_g g d false 0 s.

(* The ideal object: an evaluation yields the grammar's tokens of the CURRENT source, separators and quote
   characters, trimmed -- whatever was evaluated before. *)
Definition spec_eval (o : tokobj) : tokobj * tok_out :=
  match t_src o with
  | None => (o, OEval None)
  | Some s =>
    let l := map trim (tokens_g (t_cfg o) (t_sep o) s) in
    ({| t_src := t_src o; t_sep := t_sep o; t_cfg := t_cfg o; t_toks := Some l |}, OEval (Some l))
  end.

Definition spec_step (o : tokobj) (op : tok_op) : tokobj * list tok_out :=
  match op with
  | TEval => let '(o', r) := spec_eval o in (o', [r])
  | TFork => let '(_, r) := spec_eval o in (o, [r])
  | TDup => (o, [OToks (t_toks o)])
  | TDone => (tok_new None, [])
  | TSetSrc s => ({| t_src := s; t_sep := t_sep o; t_cfg := t_cfg o; t_toks := t_toks o |}, [])
  | TSetSep d => ({| t_src := t_src o; t_sep := d; t_cfg := t_cfg o; t_toks := t_toks o |}, [])
  | TSetQuote c => (set_cfg o {| qc_quote := c; qc_dquote := qc_dquote (t_cfg o); qc_escape := qc_escape (t_cfg o) |}, [])
  | TSetDquote c => (set_cfg o {| qc_quote := qc_quote (t_cfg o); qc_dquote := c; qc_escape := qc_escape (t_cfg o) |}, [])
  | TSetEscape c => (set_cfg o {| qc_quote := qc_quote (t_cfg o); qc_dquote := qc_dquote (t_cfg o); qc_escape := c |}, [])
  end.

Fixpoint spec_run (o : tokobj) (ops : list tok_op) : tokobj * list tok_out :=
  match ops with
  | [] => (o, [])
  | op :: r =>
    let '(o1, out1) := spec_step o op in
    let '(o2, out2) := spec_run o1 r in
    (o2, out1 ++ out2)
  end.

(* well-formed histories: every source text is a C string's text (no NUL inside) *)
Definition src_ok (s : option (list byte)) : Prop :=
  match s with Some l => Forall nz_byte l | None => True end.
Definition op_ok (op : tok_op) : Prop :=
  match op with TSetSrc s => src_ok s | _ => True end.
