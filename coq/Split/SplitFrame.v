(* Frame lemmas for get_word (used by other families): a run that succeeds on a block
   succeeds with the same result when the block is longer (more cells behind it) and the
   fuel larger; hence get_word on `cstr s rest` does not depend on `rest`. *)
From LV Require Import Base.Buf Split.SplitModel Split.SplitProofs.
Local Open Scope Z_scope.

Lemma rdn_ext (p e : buf) i c : rdn p i = Ok c -> rdn (p ++ e) i = Ok c.
Proof.
  unfold rdn. destruct (nth_error p i) as [x|] eqn:E; [|discriminate].
  rewrite nth_error_app1 by (apply nth_error_Some; congruence). now rewrite E.
Qed.
Lemma rdn0_nonempty (p : buf) c : rdn p 0 = Ok c -> p <> [].
Proof. destruct p; [discriminate|congruence]. Qed.
Lemma tl_ext (p e : buf) : p <> [] -> tl (p ++ e) = tl p ++ e.
Proof. destruct p; [congruence|reflexivity]. Qed.

Lemma strlen_ext (e : buf) : forall p n, strlen p = Ok n -> strlen (p ++ e) = Ok n.
Proof.
  induction p as [|[c|] p IH]; intros n H; try discriminate. cbn [strlen app] in *.
  destruct (c =? 0); [exact H|]. destruct (strlen p) as [m|]; [|discriminate].
  rewrite (IH m eq_refl). exact H.
Qed.

Lemma skip_space_ext (e : buf) : forall p p', skip_space p = Ok p' -> skip_space (p ++ e) = Ok (p' ++ e).
Proof.
  induction p as [|[c|] p IH]; intros p' H; try discriminate. cbn [skip_space app] in *.
  destruct (isspace c); [now apply IH|]. injection H as <-. reflexivity.
Qed.

Lemma open_quote_ext (p e : buf) dl p' : open_quote p = Ok (dl, p') -> open_quote (p ++ e) = Ok (dl, p' ++ e).
Proof.
  unfold open_quote. destruct (rdn p 0) as [c|] eqn:E; [|discriminate].
  rewrite (rdn_ext p e 0 c E). cbn [bind]. intros H.
  destruct (is_q c); injection H as <- <-; [|reflexivity].
  now rewrite (tl_ext p e (rdn0_nonempty p c E)).
Qed.
Lemma close_quote_ext (p e : buf) p' : close_quote p = Ok p' -> close_quote (p ++ e) = Ok (p' ++ e).
Proof.
  unfold close_quote. destruct (rdn p 0) as [c|] eqn:E; [|discriminate].
  rewrite (rdn_ext p e 0 c E). cbn [bind]. intros H.
  destruct (is_q c); injection H as <-; [|reflexivity].
  now rewrite (tl_ext p e (rdn0_nonempty p c E)).
Qed.
Lemma wesc_test_ext (p e : buf) c b : wesc_test p c = Ok b -> wesc_test (p ++ e) c = Ok b.
Proof.
  unfold wesc_test. destruct (c =? 92); [|auto].
  destruct (rdn p 1) as [c1|] eqn:E; [|discriminate]. now rewrite (rdn_ext p e 1 c1 E).
Qed.

Lemma gw_chars_ext (e : buf) : forall fuel p dl out k r fuel',
  gw_chars fuel p dl out k = Ok r -> (fuel <= fuel')%nat ->
  gw_chars fuel' (p ++ e) dl out k = Ok (let '(p', o, k') := r in (p' ++ e, o, k')).
Proof.
  induction fuel as [|f IH]; intros p dl out k r fuel' H Hf; [discriminate|].
  destruct fuel' as [|f']; [lia|]. cbn [gw_chars] in *.
  destruct (rdn p 0) as [c|] eqn:E0; [|discriminate]. rewrite (rdn_ext p e 0 c E0). cbn [bind] in *.
  pose proof (rdn0_nonempty p c E0) as Hne.
  destruct ((c =? 0) || WDELIM dl c). { injection H as <-. reflexivity. }
  destruct (wesc_test p c) as [b|] eqn:E1; [|discriminate]. rewrite (wesc_test_ext p e c b E1). cbn [bind] in *.
  assert (Hp1 : (if b then tl (p ++ e) else p ++ e) = (if b then tl p else p) ++ e).
  { destruct b; [now apply tl_ext | reflexivity]. }
  rewrite Hp1. remember (if b then tl p else p) as p1 eqn:Ep1. clear Ep1 Hp1.
  destruct (rdn p1 0) as [c'|] eqn:E2; [|discriminate]. rewrite (rdn_ext p1 e 0 c' E2). cbn [bind] in *.
  destruct (wrn out k c') as [o'|]; [|discriminate]. cbn [bind] in *.
  rewrite (tl_ext p1 e (rdn0_nonempty p1 c' E2)). apply IH; [exact H | lia].
Qed.

Lemma gw_words_ext (e : buf) idx : forall fuel j p out r fuel',
  gw_words fuel idx j p out = Ok r -> (fuel <= fuel')%nat ->
  gw_words fuel' idx j (p ++ e) out = Ok r.
Proof.
  induction fuel as [|f IH]; intros j p out r fuel' H Hf; [discriminate|].
  destruct fuel' as [|f']; [lia|]. cbn [gw_words] in *.
  destruct (j <? idx); [|exact H].
  destruct (rdn p 0) as [c|] eqn:E0; [|discriminate]. rewrite (rdn_ext p e 0 c E0). cbn [bind] in *.
  destruct (c =? 0); [exact H|].
  destruct (skip_space p) as [p1|] eqn:E1; [|discriminate]. rewrite (skip_space_ext e p p1 E1). cbn [bind] in *.
  destruct (open_quote p1) as [[dl p2]|] eqn:E2; [|discriminate]. rewrite (open_quote_ext p1 e dl p2 E2). cbn [bind] in *.
  destruct (gw_chars (S (length p2)) p2 dl out 0) as [[[p3 out1] k]|] eqn:E3; [|discriminate].
  rewrite (gw_chars_ext e _ _ _ _ _ _ (S (length (p2 ++ e))) E3) by (rewrite app_length; lia). cbn [bind] in *.
  destruct (close_quote p3) as [p4|] eqn:E4; [|discriminate]. rewrite (close_quote_ext p3 e p4 E4). cbn [bind] in *.
  destruct (wrn out1 k 0) as [out2|]; [|discriminate]. cbn [bind] in *.
  apply IH; [exact H | lia].
Qed.

Lemma get_word_ext (p e : buf) idx r : get_word idx p = Ok r -> get_word idx (p ++ e) = Ok r.
Proof.
  unfold get_word. destruct (strlen p) as [l|] eqn:E0; [|discriminate]. rewrite (strlen_ext e p l E0). cbn [bind].
  destruct (wrn (repeat None (S l)) 0 0) as [out0|]; [|discriminate]. cbn [bind].
  destruct (gw_words (S (length p)) idx 0 p out0) as [[j out]|] eqn:E1; [|discriminate].
  rewrite (gw_words_ext e idx _ _ _ _ _ (S (length (p ++ e))) E1) by (rewrite app_length; lia).
  auto.
Qed.

(* get_word is a function of the string alone *)
Theorem get_word_frame : forall s rest idx, Forall nz_byte s ->
  get_word idx (cstr s rest) = get_word idx (cstr s []).
Proof.
  intros s rest idx Hs. destruct (get_word_total s [] idx Hs) as (r & Hr). rewrite Hr.
  replace (cstr s rest) with (cstr s [] ++ rest) by (unfold cstr; now rewrite <- app_assoc).
  now apply get_word_ext.
Qed.
