(* Executable model of the tokenisers of src/strings.c and src/tok.c (property C12):
   spiftool_split, the scanner + trimming of spif_tok_eval, spiftool_join, spiftool_get_word,
   spiftool_get_pword, spiftool_num_words -- after the repairs listed in checks/c12.py.

   A `const char *` cursor is modelled as the list of cells from the cursor to the end of
   the enclosing heap block (`*p` = cell 0, `*(p+1)` = cell 1, `p++` = tail; `str[i]` is
   `*(str+i)`).  Every read is checked: reading cell 0 of the empty list is the read just
   beyond the block, so "never reads beyond the terminator" is "no Fault when the block is
   exactly cstr s []".  Output blocks (token buffers, get_word's scratch, join's result) are
   cell lists of the size the code allocates, written through checked `wrn`.
   No proofs in this file.  The specification (quoting grammar `tokens`, word grammar
   `words`, whitespace-word starts) is at the end. *)
From LV Require Export Base.Buf.
Local Open Scope Z_scope.

(* double quote = 34, single quote = 39, backslash = 92 *)
Definition is_q (c : byte) : bool := (c =? 34) || (c =? 39).

(* delimiter set: None = the NULL argument (whitespace), Some l = the characters of the string *)
Definition dset := option (list byte).

(* IS_DELIM(c), strings.c:343 / tok.c:276 (repaired: the terminator is never a delimiter):
   ((delim) ? ((c) && strchr(delim, (c))) : (isspace(c))) *)
Definition IS_DELIM (d : dset) (c : byte) : bool :=
  match d with
  | Some l => negb (c =? 0) && existsb (Z.eqb c) l
  | None => isspace c
  end.
(* IS_QUOTE(c) = (quote && quote == (c)) *)
Definition IS_QUOTE (q c : byte) : bool := negb (q =? 0) && (q =? c).

(* for (; *pstr && IS_DELIM( *pstr); pstr++); *)
Fixpoint skip_delims (d : dset) (p : buf) : res buf :=
  match p with
  | [] => Fault OOB_read
  | None :: _ => Fault Uninit_read
  | Some c :: t => if negb (c =? 0) && IS_DELIM d c then skip_delims d t else Ok p
  end.

(* the escape test shared by split and tok_eval:
   ( *pstr == BACKSLASH) && (IS_DELIM( *(pstr + 1)) || IS_QUOTE( *(pstr + 1)))   -- cell 1 is read
   only when cell 0 is the backslash *)
Definition esc_test (d : dset) (q : byte) (p : buf) (c : byte) : res bool :=
  if c =? 92 then (c1 <- rdn p 1 ;; Ok (IS_DELIM d c1 || IS_QUOTE q c1)) else Ok false.

(* ---- spiftool_split (strings.c:346) ---- *)
(* character loop, strings.c:386-409.  out/k: the token block and the offset of pdest. *)
Fixpoint split_chars (fuel : nat) (d : dset) (p : buf) (q : byte) (out : buf) (k : nat)
  : res (buf * byte * buf * nat) :=
  match fuel with
  | O => Fault Out_of_fuel
  | S f =>
    c <- rdn p 0 ;;
    if (c =? 0) || ((q =? 0) && IS_DELIM d c) then Ok (p, q, out, k)
    else if is_q c then
      if negb (q =? 0) then
        if q =? c then split_chars f d (tl p) 0 out k
        else (out' <- wrn out k c ;; split_chars f d (tl p) q out' (S k))
      else split_chars f d (tl p) c out k
    else
      e <- esc_test d q p c ;;
      let p1 := if e then tl p else p in
      c' <- rdn p1 0 ;;
      out' <- wrn out k c' ;;
      split_chars f d (tl p1) q out' (S k)
  end.

(* token loop, strings.c:368-419: one token per iteration *)
Fixpoint split_tokens (fuel : nat) (d : dset) (p : buf) (q : byte) : res (list (list byte)) :=
  match fuel with
  | O => Fault Out_of_fuel
  | S f =>
    c <- rdn p 0 ;;
    if c =? 0 then Ok []
    else
      l <- strlen p ;;                                   (* len = strlen(pstr) + 1; MALLOC(len) *)
      '(p1, q1, out1, k) <- split_chars (S (length p)) d p q (repeat None (S l)) 0 ;;
      out2 <- wrn out1 k 0 ;;                            (* *pdest = 0 *)
      l2 <- strlen out2 ;;                               (* REALLOC(slist[cnt], strlen + 1) *)
      let w := take_str (firstn (S l2) out2) in
      p2 <- skip_delims d p1 ;;
      rest <- split_tokens f d p2 q1 ;;
      Ok (w :: rest)
  end.

(* the returned NULL-terminated array, None = NULL (no token) *)
Definition split (d : dset) (str : buf) : res (option (list (list byte))) :=
  p <- skip_delims d str ;;
  ts <- split_tokens (S (length str)) d p 0 ;;
  Ok (match ts with [] => None | _ => Some ts end).

(* ---- spif_tok_eval (tok.c:279): scanner and trimming.  A token is the text of the str
   object built with spif_str_append_char (that object is property C01's); the default
   quote / dquote / escape members are used. ---- *)
Fixpoint tok_chars (fuel : nat) (d : dset) (p : buf) (q : byte) : res (buf * byte * list byte) :=
  match fuel with
  | O => Fault Out_of_fuel
  | S f =>
    c <- rdn p 0 ;;
    if (c =? 0) || ((q =? 0) && IS_DELIM d c) then Ok (p, q, [])
    else if is_q c then
      if negb (q =? 0) then
        if q =? c then tok_chars f d (tl p) 0
        else ('(p', q', w) <- tok_chars f d (tl p) q ;; Ok (p', q', c :: w))
      else tok_chars f d (tl p) c
    else
      e <- esc_test d q p c ;;
      let p1 := if e then tl p else p in
      c' <- rdn p1 0 ;;
      '(p', q', w) <- tok_chars f d (tl p1) q ;; Ok (p', q', c' :: w)
  end.

(* spif_str_trim (str.c:802) as repaired under C01: all leading and trailing whitespace goes *)
Fixpoint drop_ws (s : list byte) : list byte :=
  match s with [] => [] | c :: t => if isspace c then drop_ws t else s end.
Definition trim (s : list byte) : list byte := rev (drop_ws (rev (drop_ws s))).

Fixpoint tok_tokens (fuel : nat) (d : dset) (p : buf) (q : byte) : res (list (list byte)) :=
  match fuel with
  | O => Fault Out_of_fuel
  | S f =>
    c <- rdn p 0 ;;
    if c =? 0 then Ok []
    else
      '(p1, q1, w) <- tok_chars (S (length p)) d p q ;;
      p2 <- skip_delims d p1 ;;
      rest <- tok_tokens f d p2 q1 ;;
      Ok (trim w :: rest)
  end.

Definition tok_eval (d : dset) (src : buf) : res (list (list byte)) :=
  p <- skip_delims d src ;;
  tok_tokens (S (length src)) d p 0.

(* ---- spiftool_join (strings.c:438) ---- *)
(* strcpy / the copying half of strcat: the characters and the terminator *)
Fixpoint copy_at (out : buf) (k : nat) (s : list byte) : res buf :=
  match s with
  | [] => wrn out k 0
  | c :: t => o <- wrn out k c ;; copy_at o (S k) t
  end.
Definition strcat_m (out : buf) (s : list byte) : res buf := l <- strlen out ;; copy_at out l s.

Fixpoint join_rest (sep : list byte) (ts : list (list byte)) (out : buf) : res buf :=
  match ts with
  | [] => Ok out
  | t :: r =>
    o1 <- (if (length sep =? 0)%nat then Ok out else strcat_m out sep) ;;
    o2 <- strcat_m o1 t ;;
    join_rest sep r o2
  end.

(* sep = None is the NULL separator (the empty string); result None = NULL (empty array); otherwise the
   whole result block *)
Definition join (sep : option (list byte)) (ts : list (list byte)) : res (option buf) :=
  match ts with
  | [] => Ok None
  | t0 :: r =>
    let sp := match sep with Some s => s | None => [] end in
    let slen := length sp in
    let len := (fold_right (fun t a => length t + a) 0 ts + slen * (length ts - 1))%nat in
    o <- copy_at (repeat None (S len)) 0 t0 ;;
    o' <- join_rest sp r o ;;
    Ok (Some o')
  end.

(* ---- word utilities (strings.c:466-587); IS_DELIM(c) = (delim ? ((c) == delim) : isspace(c)) ---- *)
Definition WDELIM (dl c : byte) : bool := if dl =? 0 then isspace c else c =? dl.

(* for (; isspace(str[i]); i++);   -- no terminator test: isspace(0) is false *)
Fixpoint skip_space (p : buf) : res buf :=
  match p with
  | [] => Fault OOB_read
  | None :: _ => Fault Uninit_read
  | Some c :: t => if isspace c then skip_space t else Ok p
  end.

(* if (str[i] == BACKSLASH) if (str[i+1] == SQUOTE || str[i+1] == DQUOTE) i++; *)
Definition wesc_test (p : buf) (c : byte) : res bool :=
  if c =? 92 then (c1 <- rdn p 1 ;; Ok (is_q c1)) else Ok false.

(* get_word's copy loop, strings.c:498-505 *)
Fixpoint gw_chars (fuel : nat) (p : buf) (dl : byte) (out : buf) (k : nat) : res (buf * buf * nat) :=
  match fuel with
  | O => Fault Out_of_fuel
  | S f =>
    c <- rdn p 0 ;;
    if (c =? 0) || WDELIM dl c then Ok (p, out, k)
    else
      e <- wesc_test p c ;;
      let p1 := if e then tl p else p in
      c' <- rdn p1 0 ;;
      out' <- wrn out k c' ;;
      gw_chars f (tl p1) dl out' (S k)
  end.

(* switch (str[i]) { case DQUOTE: delim = DQUOTE; i++; break; case SQUOTE: ...; default: delim = 0; } *)
Definition open_quote (p : buf) : res (byte * buf) :=
  c <- rdn p 0 ;; Ok (if is_q c then (c, tl p) else (0, p)).
(* switch (str[i]) { case DQUOTE: case SQUOTE: i++; } *)
Definition close_quote (p : buf) : res buf :=
  c <- rdn p 0 ;; Ok (if is_q c then tl p else p).

(* for (i = 0, j = 0; j < index && str[i]; j++) { ... }   returns the final j and tmpstr *)
Fixpoint gw_words (fuel : nat) (idx j : Z) (p : buf) (out : buf) : res (Z * buf) :=
  match fuel with
  | O => Fault Out_of_fuel
  | S f =>
    if j <? idx then
      c <- rdn p 0 ;;
      if c =? 0 then Ok (j, out)
      else
        p1 <- skip_space p ;;
        '(dl, p2) <- open_quote p1 ;;
        '(p3, out1, k) <- gw_chars (S (length p2)) p2 dl out 0 ;;
        p4 <- close_quote p3 ;;
        out2 <- wrn out1 k 0 ;;
        gw_words f idx (j + 1) p4 out2
    else Ok (j, out)
  end.

(* None = NULL *)
Definition get_word (idx : Z) (str : buf) : res (option (list byte)) :=
  l <- strlen str ;;                                     (* k = strlen(str) + 1; MALLOC(k) *)
  out0 <- wrn (repeat None (S l)) 0 0 ;;                 (* *tmpstr = 0 *)
  '(j, out) <- gw_words (S (length str)) idx 0 str out0 ;;
  if j =? idx then (l2 <- strlen out ;; Ok (Some (take_str (firstn (S l2) out))))
  else Ok None.

(* get_pword (strings.c:527): cursor with its offset from str *)
(* for (; isspace( *tmpstr) && *tmpstr; tmpstr++); *)
Fixpoint pw_space (p : buf) (off : Z) : res (buf * Z) :=
  match p with
  | [] => Fault OOB_read
  | None :: _ => Fault Uninit_read
  | Some c :: t => if isspace c && negb (c =? 0) then pw_space t (off + 1) else Ok (p, off)
  end.
(* for (; !isspace( *tmpstr) && *tmpstr; tmpstr++); *)
Fixpoint pw_nonspace (p : buf) (off : Z) : res (buf * Z) :=
  match p with
  | [] => Fault OOB_read
  | None :: _ => Fault Uninit_read
  | Some c :: t => if negb (isspace c) && negb (c =? 0) then pw_nonspace t (off + 1) else Ok (p, off)
  end.
(* for (j = 1; j < index && *tmpstr; j++) { skip word; skip blanks } *)
Fixpoint pw_words (fuel : nat) (idx j : Z) (p : buf) (off : Z) : res (buf * Z) :=
  match fuel with
  | O => Fault Out_of_fuel
  | S f =>
    if j <? idx then
      c <- rdn p 0 ;;
      if c =? 0 then Ok (p, off)
      else
        '(p1, o1) <- pw_nonspace p off ;;
        '(p2, o2) <- pw_space p1 o1 ;;
        pw_words f idx (j + 1) p2 o2
    else Ok (p, off)
  end.
(* result: offset of the returned pointer from str, None = NULL *)
Definition get_pword (idx : Z) (str : buf) : res (option Z) :=
  '(p0, o0) <- pw_space str 0 ;;
  '(p1, o1) <- pw_words (S (length str)) idx 1 p0 o0 ;;
  c <- rdn p1 0 ;;
  let '(p2, o2) := if is_q c then (tl p1, o1 + 1) else (p1, o1) in
  c2 <- rdn p2 0 ;;
  Ok (if c2 =? 0 then None else Some o2).

(* num_words (strings.c:553), with the repaired skip loop that steps over an escaped quote
   exactly as get_word does *)
Fixpoint nw_chars (fuel : nat) (p : buf) (dl : byte) : res buf :=
  match fuel with
  | O => Fault Out_of_fuel
  | S f =>
    c <- rdn p 0 ;;
    if (c =? 0) || WDELIM dl c then Ok p
    else
      e <- wesc_test p c ;;
      let p1 := if e then tl p else p in
      nw_chars f (tl p1) dl
  end.
(* for (; str[i] && isspace(str[i]); i++); *)
Fixpoint nw_space (p : buf) : res buf :=
  match p with
  | [] => Fault OOB_read
  | None :: _ => Fault Uninit_read
  | Some c :: t => if negb (c =? 0) && isspace c then nw_space t else Ok p
  end.
Fixpoint nw_words (fuel : nat) (p : buf) (cnt : Z) : res Z :=
  match fuel with
  | O => Fault Out_of_fuel
  | S f =>
    c <- rdn p 0 ;;
    if c =? 0 then Ok cnt
    else
      '(dl, p1) <- open_quote p ;;
      p2 <- nw_chars (S (length p1)) p1 dl ;;
      p3 <- close_quote p2 ;;
      p4 <- nw_space p3 ;;
      nw_words f p4 (cnt + 1)
  end.
Definition num_words (str : buf) : res Z :=
  p <- nw_space str ;; nw_words (S (length str)) p 0.

(* ======================= specification ======================= *)
(* delimiter set of the grammar *)
Definition delim (d : dset) (c : byte) : bool :=
  match d with Some l => existsb (Z.eqb c) l | None => isspace c end.

(* put a character in front of the token that is being built (the head of the list) *)
Definition push (c : byte) (l : list (list byte)) : list (list byte) :=
  match l with w :: r => (c :: w) :: r | [] => [[c]] end.

(* The quoting grammar as one left-to-right state machine.  intok: a token has been opened
   (its text is the head of the result); q: 0 outside quotes, else the open quote character.
   - outside quotes a delimiter ends the token / is skipped between tokens;
   - a quote character opens a quote, closes the quote it opened, or is literal inside the
     other kind of quote;
   - a backslash followed by a delimiter or by the closing quote of the open quote is dropped
     and that character is literal; any other backslash is literal;
   - the end of the string closes the open token (even inside an unclosed quote). *)
Fixpoint sm (d : dset) (intok : bool) (q : byte) (s : list byte) : list (list byte) :=
  match s with
  | [] => if intok then [[]] else []
  | c :: t =>
    if (q =? 0) && delim d c then (if intok then [] :: sm d false 0 t else sm d false 0 t)
    else if is_q c then
      if q =? 0 then sm d true c t
      else if q =? c then sm d true 0 t
      else push c (sm d true q t)
    else if c =? 92 then
      match t with
      | c2 :: t2 =>
        if delim d c2 || (negb (q =? 0) && (q =? c2)) then push c2 (sm d true q t2)
        else push c (sm d true q t)
      | [] => [[c]]
      end
    else push c (sm d true q t)
  end.
Definition tokens (d : dset) (s : list byte) : list (list byte) := sm d false 0 s.

(* The word grammar of get_word / num_words.  inw: inside a word whose text is the head of
   the result; dl: 0 for a plain word (ends at whitespace), else the quote that opened it
   (ends at, and swallows, the matching quote; the next word may follow immediately).
   A backslash followed by either quote character is dropped and the quote is literal. *)
Fixpoint wsm (inw : bool) (dl : byte) (s : list byte) : list (list byte) :=
  match s with
  | [] => if inw then [[]] else []
  | c :: t =>
    if negb inw && isspace c then wsm false 0 t
    else if negb inw && is_q c then wsm true c t
    else if inw && WDELIM dl c then [] :: wsm false 0 t
    else if c =? 92 then
      match t with
      | c2 :: t2 => if is_q c2 then push c2 (wsm true dl t2) else push c (wsm true dl t)
      | [] => [[c]]
      end
    else push c (wsm true dl t)
  end.
Definition words (s : list byte) : list (list byte) := wsm false 0 s.

(* offsets at which the whitespace-separated words start *)
Fixpoint ws_starts (inw : bool) (off : Z) (s : list byte) : list Z :=
  match s with
  | [] => []
  | c :: t => if isspace c then ws_starts false (off + 1) t
              else if inw then ws_starts true (off + 1) t
              else off :: ws_starts true (off + 1) t
  end.
(* get_pword: the start of the i-th whitespace-separated word (i = 0 is treated as 1), one
   further if the word starts with a quote character; NULL when there is no such word or
   nothing follows that quote *)
Definition pword_spec (idx : Z) (s : list byte) : option Z :=
  match nth_error (ws_starts false 0 s) (Z.to_nat (Z.max idx 1 - 1)) with
  | None => None
  | Some o =>
    let o' := if is_q (nth (Z.to_nat o) s 0) then o + 1 else o in
    if o' <? Z.of_nat (length s) then Some o' else None
  end.

(* join: the tokens with the separator between them *)
Fixpoint join_spec (sep : list byte) (ts : list (list byte)) : list byte :=
  match ts with
  | [] => []
  | [t] => t
  | t :: r => t ++ sep ++ join_spec sep r
  end.

(* a plain token for the round trip: non-empty, no delimiter, quote or backslash *)
Definition plain (d : dset) (t : list byte) : Prop :=
  t <> [] /\ Forall (fun c => nz_byte c /\ delim d c = false /\ is_q c = false /\ c <> 92) t.
