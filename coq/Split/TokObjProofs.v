(* Proofs for the tok object of property C12 (Split/TokObjModel.v):
   - tok_eval_g equals the grammar tokens_g, trimmed, for EVERY quote / dquote / escape configuration, every
     delimiter set and every C string, and never faults on the exactly sized block;
   - with the default configuration both are SplitModel's tok_eval and tokens (so split agrees);
   - the history theorem: whatever was set, evaluated, copied or reset before, each evaluation yields exactly the
     grammar's tokens of the object's current source, separators and quote characters. *)
From LV Require Import Base.Buf Split.SplitModel Split.SplitProofs Split.TokObjModel.
Local Open Scope Z_scope.

(* ---------- the grammar over a configuration ---------- *)
Lemma sm_g_drop g d s : sm_g g d false 0 s = sm_g g d false 0 (drop_delims d s).
Proof. induction s as [|c s IH]; simpl; auto. destruct (delim d c) eqn:E; simpl; [exact IH | now rewrite E]. Qed.
Lemma sm_g_start g d c t : delim d c = false -> sm_g g d false 0 (c :: t) = sm_g g d true 0 (c :: t).
Proof. intros H. simpl. rewrite H. reflexivity. Qed.

(* ---------- the character loop is one token of the grammar (SplitProofs.tok_chars_sm, generalised) ---------- *)
Lemma tok_chars_g_sm g d rest : forall fuel s q,
  Forall nz_byte s -> (length s < fuel)%nat ->
  exists w s' q',
    tok_chars_g g fuel d (cstr s rest) q = Ok (cstr s' rest, q', w) /\
    sm_g g d true q s = w :: sm_g g d false 0 s' /\
    Forall nz_byte w /\ Forall nz_byte s' /\
    (length w + length s' <= length s)%nat /\
    (s' = [] \/ q' = 0) /\
    (forall c t, s = c :: t -> (q =? 0) && delim d c = false -> (length s' < length s)%nat).
Proof.
  induction fuel as [|f IH]; intros s q Hs Hf; [lia|].
  destruct s as [|c t].
  { exists [], [], q. cbn. repeat split; auto. intros; discriminate. }
  apply Forall_nz_cons in Hs as [Hc Ht]. simpl in Hf.
  rewrite cstr_cons. cbn [tok_chars_g]. rewrite rdn0_cons. cbn [bind].
  rewrite (nz_neq0 c Hc), (IS_DELIM_nz d c Hc). cbn [orb].
  destruct ((q =? 0) && delim d c) eqn:E1.
  { apply andb_prop in E1 as [Eq Ed]. apply Z.eqb_eq in Eq. subst q.
    exists [], (c :: t), 0. rewrite <- cstr_cons. repeat split; auto.
    - cbn [sm_g]. rewrite Ed. cbn. reflexivity.
    - intros c0 t0 H0 H1. inversion H0; subst. cbn in H1. congruence. }
  cbn [tl].
  destruct (is_qg g c) eqn:E2.
  { destruct (q =? 0) eqn:E3; cbn [negb].
    - (* opening quote *)
      destruct (IH t c Ht ltac:(lia)) as (w & s' & q' & Heq & Hsm & Hw & Hs' & Hlen & Hq & _).
      exists w, s', q'. repeat split; auto.
      + cbn [sm_g]. rewrite E3, E1, E2. exact Hsm.
      + simpl; lia.
      + intros; simpl; lia.
    - destruct (q =? c) eqn:E4.
      + (* closing quote *)
        destruct (IH t 0 Ht ltac:(lia)) as (w & s' & q' & Heq & Hsm & Hw & Hs' & Hlen & Hq & _).
        exists w, s', q'. repeat split; auto.
        * cbn [sm_g]. rewrite E3, E1, E2, E4. exact Hsm.
        * simpl; lia.
        * intros; simpl; lia.
      + (* the other quote inside quotes: literal *)
        destruct (IH t q Ht ltac:(lia)) as (w & s' & q' & Heq & Hsm & Hw & Hs' & Hlen & Hq & _).
        exists (c :: w), s', q'. rewrite Heq. cbn [bind]. repeat split; auto.
        * cbn [sm_g]. rewrite E3, E1, E2, E4, Hsm. reflexivity.
        * simpl; lia.
        * intros; simpl; lia. }
  unfold esc_test_g.
  destruct (c =? qc_escape g) eqn:E5.
  - destruct t as [|c2 t2].
    + (* escape character, then the terminator *)
      rewrite rdn1_cons, rdn0_cstr_nil. cbn [bind]. rewrite IS_DELIM_0, IS_QUOTE_0. cbn [orb bind].
      rewrite rdn0_cons. cbn [bind tl].
      destruct (IH [] q Ht ltac:(simpl in *; lia)) as (w & s' & q' & Heq & Hsm & Hw & Hs' & Hlen & Hq & _).
      exists (c :: w), s', q'. rewrite Heq. cbn [bind]. repeat split; auto.
      * cbn [sm_g]. rewrite E1, E2, E5. cbn [sm_g] in Hsm. injection Hsm as Hw0 Hr.
        destruct s'; [|simpl in Hlen; lia]. subst w. reflexivity.
      * simpl in *; lia.
      * intros; simpl in *; lia.
    + apply Forall_nz_cons in Ht as [Hc2 Ht2].
      rewrite rdn1_cons, cstr_cons, rdn0_cons. cbn [bind]. rewrite (IS_DELIM_nz d c2 Hc2).
      unfold IS_QUOTE.
      destruct (delim d c2 || negb (q =? 0) && (q =? c2)) eqn:E6; cbn [bind tl].
      * (* escaped delimiter or closing quote *)
        rewrite rdn0_cons. cbn [bind].
        destruct (IH t2 q Ht2 ltac:(simpl in *; lia)) as (w & s' & q' & Heq & Hsm & Hw & Hs' & Hlen & Hq & _).
        exists (c2 :: w), s', q'. rewrite Heq. cbn [bind]. repeat split; auto.
        -- cbn [sm_g]. rewrite E1, E2, E5, E6, Hsm. reflexivity.
        -- simpl in *; lia.
        -- intros; simpl in *; lia.
      * rewrite rdn0_cons. cbn [bind]. rewrite <- cstr_cons.
        destruct (IH (c2 :: t2) q ltac:(constructor; auto) ltac:(simpl in *; lia))
          as (w & s' & q' & Heq & Hsm & Hw & Hs' & Hlen & Hq & _).
        exists (c :: w), s', q'. rewrite Heq. cbn [bind]. repeat split; auto.
        -- cbn [sm_g]. rewrite E1, E2, E5, E6. cbn [sm_g] in Hsm. rewrite Hsm. reflexivity.
        -- simpl in *; lia.
        -- intros; simpl in *; lia.
  - cbn [bind]. rewrite rdn0_cons. cbn [bind tl].
    destruct (IH t q Ht ltac:(lia)) as (w & s' & q' & Heq & Hsm & Hw & Hs' & Hlen & Hq & _).
    exists (c :: w), s', q'. rewrite Heq. cbn [bind]. repeat split; auto.
    + cbn [sm_g]. rewrite E1, E2, E5, Hsm. reflexivity.
    + simpl; lia.
    + intros; simpl; lia.
Qed.

Lemma tok_tokens_g_sm g d rest : forall fuel s q,
  Forall nz_byte s -> (length s < fuel)%nat -> at_token_start d q s ->
  tok_tokens_g g fuel d (cstr s rest) q = Ok (map trim (sm_g g d false 0 s)).
Proof.
  induction fuel as [|f IH]; intros s q Hs Hf Hst; [lia|].
  destruct s as [|c t]; [reflexivity|].
  destruct Hst as [Hst|(Hq & c0 & t0 & Hst & Hd)]; [discriminate|]. injection Hst as <- <-. subst q.
  pose proof (Forall_nz_cons _ _ Hs) as [Hc Ht].
  cbn [tok_tokens_g]. rewrite cstr_cons, rdn0_cons. cbn [bind]. rewrite (nz_neq0 c Hc). rewrite <- cstr_cons.
  destruct (tok_chars_g_sm g d rest (S (length (cstr (c :: t) rest))) (c :: t) 0 Hs)
    as (w & s' & q' & Heq & Hsm & Hw & Hs' & Hlen & Hq & Hdec).
  { rewrite cstr_length. lia. }
  rewrite Heq. cbn [bind].
  rewrite (skip_delims_cstr d s' rest Hs'). cbn [bind].
  specialize (Hdec c t eq_refl). rewrite Hd in Hdec. specialize (Hdec eq_refl).
  rewrite (IH (drop_delims d s') q').
  - cbn [bind]. rewrite (sm_g_start g d c t Hd), Hsm, (sm_g_drop g d s'). reflexivity.
  - now apply drop_delims_nz.
  - pose proof (drop_delims_len d s'). simpl in *. lia.
  - destruct Hq as [-> | ->]; [left; reflexivity|]. apply skip_start.
Qed.

(* every configuration, every delimiter set, every C string, whatever follows the terminator *)
Theorem tok_eval_g_is_tokens_g : forall g d s rest, Forall nz_byte s ->
  tok_eval_g g d (cstr s rest) = Ok (map trim (tokens_g g d s)).
Proof.
  intros g d s rest Hs. unfold tok_eval_g, tokens_g.
  rewrite (skip_delims_cstr d s rest Hs). cbn [bind].
  rewrite (sm_g_drop g d s). apply tok_tokens_g_sm.
  - now apply drop_delims_nz.
  - pose proof (drop_delims_len d s). rewrite cstr_length. lia.
  - apply skip_start.
Qed.

(* ---------- the default configuration is SplitModel's scanner and grammar ---------- *)
Lemma sm_g_default : forall d s b q, sm_g default_cfg d b q s = sm d b q s.
Proof.
  intros d s. remember (length s) as n eqn:Hn. revert s Hn.
  induction n as [n IH] using lt_wf_ind. intros s Hn b q.
  destruct s as [|c t]; [reflexivity|]. simpl in Hn.
  cbn [sm_g sm]. change (is_qg default_cfg c) with (is_q c). change (qc_escape default_cfg) with 92.
  assert (Ht : forall b' q', sm_g default_cfg d b' q' t = sm d b' q' t).
  { intros. apply (IH (length t)); [lia | reflexivity]. }
  rewrite !Ht.
  destruct t as [|c2 t2]; [reflexivity|].
  assert (Ht2 : forall b' q', sm_g default_cfg d b' q' t2 = sm d b' q' t2).
  { intros. apply (IH (length t2)); [simpl in Hn; lia | reflexivity]. }
  rewrite !Ht2. reflexivity.
Qed.

Theorem tokens_g_default : forall d s, tokens_g default_cfg d s = tokens d s.
Proof. intros. apply sm_g_default. Qed.

Lemma tok_chars_g_default d : forall fuel p q, tok_chars_g default_cfg fuel d p q = tok_chars fuel d p q.
Proof.
  induction fuel as [|f IH]; intros p q; [reflexivity|].
  cbn [tok_chars_g tok_chars]. change (is_qg default_cfg) with is_q.
  destruct (rdn p 0) as [c|e]; [|reflexivity]. cbn [bind].
  destruct ((c =? 0) || (q =? 0) && IS_DELIM d c); [reflexivity|].
  destruct (is_q c).
  { rewrite !IH. reflexivity. }
  change (esc_test_g default_cfg d q p c) with (esc_test d q p c).
  destruct (esc_test d q p c) as [e0|e]; [|reflexivity]. cbn [bind].
  destruct e0.
  - destruct (rdn (tl p) 0) as [c'|e]; [|reflexivity]. cbn [bind]. rewrite IH. reflexivity.
  - destruct (rdn p 0) as [c'|e]; [|reflexivity]. cbn [bind]. rewrite IH. reflexivity.
Qed.

Lemma tok_tokens_g_default d : forall fuel p q, tok_tokens_g default_cfg fuel d p q = tok_tokens fuel d p q.
Proof.
  induction fuel as [|f IH]; intros p q; [reflexivity|].
  cbn [tok_tokens_g tok_tokens]. rewrite tok_chars_g_default.
  destruct (rdn p 0) as [c|e]; [|reflexivity]. cbn [bind].
  destruct (c =? 0); [reflexivity|].
  destruct (tok_chars (S (length p)) d p q) as [[[p1 q1] w]|e]; [|reflexivity]. cbn [bind].
  destruct (skip_delims d p1) as [p2|e]; [|reflexivity]. cbn [bind].
  rewrite IH. reflexivity.
Qed.

Theorem tok_eval_g_default : forall d src, tok_eval_g default_cfg d src = tok_eval d src.
Proof.
  intros. unfold tok_eval_g, tok_eval. destruct (skip_delims d src); [|reflexivity]. cbn [bind].
  apply tok_tokens_g_default.
Qed.

(* ---------- histories ---------- *)
Lemma eval_obj_spec o : src_ok (t_src o) ->
  tok_eval_obj o = Ok (spec_eval o).
Proof.
  intros H. unfold tok_eval_obj, spec_eval. destruct (t_src o) as [s|] eqn:E; [|reflexivity].
  simpl in H. rewrite (tok_eval_g_is_tokens_g (t_cfg o) (t_sep o) s [] H). reflexivity.
Qed.

Lemma step_spec o op : src_ok (t_src o) -> op_ok op ->
  tok_step o op = Ok (spec_step o op) /\ src_ok (t_src (fst (spec_step o op))).
Proof.
  intros Ho Hop. destruct op; cbn [tok_step spec_step]; try (split; [reflexivity | exact Ho || exact Hop || exact I]).
  - (* TEval *)
    rewrite (eval_obj_spec o Ho). unfold spec_eval. destruct (t_src o) eqn:E; cbn; rewrite ?E; split; auto.
  - (* TFork *)
    rewrite (eval_obj_spec o Ho). unfold spec_eval. destruct (t_src o) eqn:E; cbn; rewrite ?E; split; auto.
Qed.

(* Whatever the object went through -- sources, separators and quote characters set in any order, any number of
   evaluations, copies that replace the original, copies that are evaluated and thrown away, resets -- the model of
   the code never faults and produces exactly the outputs of the ideal object, in which every evaluation is the
   grammar's token list (trimmed) of the CURRENT source, separators and quote characters. *)
Theorem tok_history_exact : forall ops o,
  src_ok (t_src o) -> Forall op_ok ops ->
  tok_run o ops = Ok (spec_run o ops).
Proof.
  induction ops as [|op r IH]; intros o Ho Hops; [reflexivity|].
  inversion Hops as [|? ? Hop Hr]; subst.
  destruct (step_spec o op Ho Hop) as [Hstep Hok].
  cbn [tok_run spec_run]. rewrite Hstep.
  destruct (spec_step o op) as [o1 out1]. cbn [bind fst] in *.
  rewrite (IH o1 Hok Hr). destruct (spec_run o1 r) as [o2 out2]. reflexivity.
Qed.

(* The statement the seeded change seeded/C12-r3-r356 breaks, spelled out: evaluate, give the object another source
   and other separators, evaluate again -- the second result is the grammar's answer for the second source alone,
   and (default quote characters) it is split's answer trimmed. *)
Theorem tok_second_eval : forall s1 s2 d2,
  Forall nz_byte s1 -> Forall nz_byte s2 ->
  exists o', tok_run (tok_new (Some s1)) [TEval; TSetSrc (Some s2); TSetSep d2; TEval] =
    Ok (o', [OEval (Some (map trim (tokens None s1))); OEval (Some (map trim (tokens d2 s2)))]) /\
    split d2 (cstr s2 []) = Ok (match tokens d2 s2 with [] => None | l => Some l end).
Proof.
  intros s1 s2 d2 H1 H2. eexists. split; [|now apply split_is_tokens].
  rewrite tok_history_exact; [| exact H1 | repeat constructor; exact H2].
  cbn. rewrite !tokens_g_default. reflexivity.
Qed.
