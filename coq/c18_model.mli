
type nat =
| O
| S of nat

val fst : ('a1 * 'a2) -> 'a1

val length : 'a1 list -> nat

type comparison =
| Eq
| Lt
| Gt

val compOpp : comparison -> comparison

val add : nat -> nat -> nat

val mul : nat -> nat -> nat

module Nat :
 sig
  val divmod : nat -> nat -> nat -> nat -> nat * nat

  val div : nat -> nat -> nat
 end

val nth : nat -> 'a1 list -> 'a1 -> 'a1

val nth_error : 'a1 list -> nat -> 'a1 option

val map : ('a1 -> 'a2) -> 'a1 list -> 'a2 list

val fold_left : ('a1 -> 'a2 -> 'a1) -> 'a2 list -> 'a1 -> 'a1

val fold_right : ('a2 -> 'a1 -> 'a1) -> 'a1 -> 'a2 list -> 'a1

val firstn : nat -> 'a1 list -> 'a1 list

val skipn : nat -> 'a1 list -> 'a1 list

type positive =
| XI of positive
| XO of positive
| XH

type n =
| N0
| Npos of positive

type z =
| Z0
| Zpos of positive
| Zneg of positive

module Pos :
 sig
  val succ : positive -> positive

  val add : positive -> positive -> positive

  val add_carry : positive -> positive -> positive

  val pred_double : positive -> positive

  val pred_N : positive -> n

  val mul : positive -> positive -> positive

  val iter : ('a1 -> 'a1) -> 'a1 -> positive -> 'a1

  val div2 : positive -> positive

  val div2_up : positive -> positive

  val compare_cont : comparison -> positive -> positive -> comparison

  val compare : positive -> positive -> comparison

  val eqb : positive -> positive -> bool

  val coq_Nsucc_double : n -> n

  val coq_Ndouble : n -> n

  val coq_lor : positive -> positive -> positive

  val coq_land : positive -> positive -> n

  val ldiff : positive -> positive -> n

  val coq_lxor : positive -> positive -> n

  val iter_op : ('a1 -> 'a1 -> 'a1) -> positive -> 'a1 -> 'a1

  val to_nat : positive -> nat

  val of_succ_nat : nat -> positive
 end

module N :
 sig
  val succ_pos : n -> positive

  val coq_lor : n -> n -> n

  val ldiff : n -> n -> n

  val coq_lxor : n -> n -> n
 end

module Z :
 sig
  val double : z -> z

  val succ_double : z -> z

  val pred_double : z -> z

  val pos_sub : positive -> positive -> z

  val add : z -> z -> z

  val opp : z -> z

  val sub : z -> z -> z

  val mul : z -> z -> z

  val pow_pos : z -> positive -> z

  val pow : z -> z -> z

  val compare : z -> z -> comparison

  val leb : z -> z -> bool

  val ltb : z -> z -> bool

  val geb : z -> z -> bool

  val eqb : z -> z -> bool

  val to_nat : z -> nat

  val of_nat : nat -> z

  val of_N : n -> z

  val pos_div_eucl : positive -> z -> z * z

  val div_eucl : z -> z -> z * z

  val div : z -> z -> z

  val modulo : z -> z -> z

  val div2 : z -> z

  val shiftl : z -> z -> z

  val shiftr : z -> z -> z

  val coq_land : z -> z -> z

  val coq_lxor : z -> z -> z
 end

type fault =
| OOB_read
| OOB_write
| Uninit_read
| Null_deref
| Use_after_free
| Bad_free
| Out_of_fuel
| Int_overflow
| Abort

type 'a res =
| Ok of 'a
| Fault of fault

val bind : 'a1 res -> ('a1 -> 'a2 res) -> 'a2 res

val num_anchor : ((nat * positive) * n) * z

type cell = z option

type buf = cell list

val rdn : buf -> nat -> z res

val rd : buf -> z -> z res

type reg =
| RA
| RB
| RC

val jenkins_mix_steps : (((((reg * reg) * reg) * reg) * bool) * z) list

val builtin_random_seed : z

val fnv_init : z

val fnv_shifts : z list

val rotating_shifts : ((z * z) * z) * z

val oaat_shifts : (((z * z) * z) * z) * z

val jenkins_test : z

val jenkins_loads : (reg * (z * z) list) list

val jenkins_advance : z

val jenkins_dec : z

val jenkins_tail : (((z * reg) * z) * z) list

val jenkinsLE_align_mask : z

val jenkinsLE_test : z

val jenkinsLE_loads : (reg * (z * z) list) list

val jenkinsLE_advance : z

val jenkinsLE_dec : z

val jenkinsLE_aligned_test : z

val jenkinsLE_aligned_loads : (reg * z) list

val jenkinsLE_aligned_advance : z

val jenkinsLE_aligned_dec : z

val jenkinsLE_tail : (((z * reg) * z) * z) list

val jenkins32_test : z

val jenkins32_loads : (reg * z) list

val jenkins32_advance : z

val jenkins32_dec : z

val jenkins32_tail : ((z * reg) * z) list

val wrap32 : z -> z

val add32 : z -> z -> z

val sub32 : z -> z -> z

val shl32 : z -> z -> z

val shr32 : z -> z -> z

val xor32 : z -> z -> z

type regs = (z * z) * z

val getr : reg -> regs -> z

val setr : reg -> z -> regs -> regs

val addr : reg -> z -> regs -> regs

val mix_step : (((((reg * reg) * reg) * reg) * bool) * z) -> regs -> regs

val mix : regs -> regs

val lane_sum : buf -> (z * z) list -> z -> z res

val load_block : buf -> (reg * (z * z) list) list -> regs -> regs res

val byte_loop :
  z -> (reg * (z * z) list) list -> z -> z -> nat -> buf -> z -> regs ->
  ((buf * z) * regs) res

val rd_word : buf -> z -> z res

val load_words : buf -> z -> (reg * z) list -> regs -> regs res

val word_loop :
  z -> z -> (reg * z) list -> z -> z -> nat -> buf -> z -> regs ->
  ((buf * z) * regs) res

val switch_from : ('a1 -> z) -> z -> 'a1 list -> 'a1 list

val run_tail : buf -> (((z * reg) * z) * z) list -> regs -> regs res

val run_tail_words : buf -> ((z * reg) * z) list -> regs -> regs res

val fuel_for : z -> nat

val jenkins : buf -> z -> z -> z res

val jenkins32 : buf -> z -> z -> z res

val jenkinsLE : z -> buf -> z -> z -> z res

val rot_step : z -> z -> z

val rot_final : z -> z

val index_loop : (z -> z -> z) -> nat -> buf -> z -> z -> z res

val rotating : buf -> z -> z -> z res

val oaat_step : z -> z -> z

val oaat_final : z -> z

val one_at_a_time : buf -> z -> z -> z res

val fnv_mul : z -> z

val fnv_step : z -> z -> z

val ptr_loop : (z -> z -> z) -> nat -> buf -> z -> z res

val fnv : buf -> z -> z -> z res

val m32 : z

val libast_seed : z

val fnv_offset_basis : z

val fnv_32_prime : z

val rowR : z -> z -> z -> z -> z

val rowL : z -> z -> z -> z -> z

val mixA : z -> ((z * z) * z) -> (z * z) * z

val mixB : z -> ((z * z) * z) -> (z * z) * z

val mixC : z -> ((z * z) * z) -> (z * z) * z

val lookup2_mix : ((z * z) * z) -> (z * z) * z

val le_word : z list -> z

val chunks : nat -> nat -> 'a1 list -> 'a1 list list

val sub0 : 'a1 list -> nat -> nat -> 'a1 list

val third : ((z * z) * z) -> z

val lookup2_block : ((z * z) * z) -> z list -> (z * z) * z

val lookup2 : z -> z list -> z -> z

val hash2_block : ((z * z) * z) -> z list -> (z * z) * z

val hash2 : z -> z list -> z -> z

val words_of_bytes : z list -> z list

val rotl32 : z -> z -> z

val rotating_ref : z list -> z -> z

val oaat_ref : z list -> z -> z

val fnv1a_ref : z list -> z -> z

val nz_seed : z -> z -> z

val spec_jenkins : z list -> z -> z

val spec_jenkins32 : z list -> z -> z

val spec_rotating : z list -> z -> z

val spec_oaat : z list -> z -> z

val spec_fnv : z list -> z -> z
