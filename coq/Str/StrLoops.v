(* The two methods with loops over the text: trim (two scanning loops) and reverse (strrev's
   swap loop). *)
From LV Require Import Base.Buf Strings.HelpersModel Strings.HelpersProofs
  Str.StrModel Str.StrSpec Str.BufLemmas Str.StrOps.
Local Open Scope Z_scope.

(* ---------------- reading the text cell by cell ---------------- *)
Lemma rd_text t junk i :
  0 <= i < zlen t -> rd (cstr t junk) i = Ok (nth (Z.to_nat i) t 0).
Proof.
  intros H. unfold rd, cstr. destruct (Z.ltb_spec i 0); [lia|].
  rewrite rdn_app_l by lens. apply rdn_bytes. apply nth_error_nth'. lens.
Qed.

Lemma rd_nul t junk : rd (cstr t junk) (zlen t) = Ok 0.
Proof. unfold cstr. now apply rd_app; zl. Qed.

Lemma firstn_S_nth {A} (l : list A) n d :
  (n < length l)%nat -> firstn (S n) l = firstn n l ++ [nth n l d].
Proof.
  revert n; induction l as [|x l IH]; intros [|n] H; cbn in *; try lia; [reflexivity|].
  f_equal. apply IH. lia.
Qed.

Lemma skipn_nth_cons {A} (l : list A) n d :
  (n < length l)%nat -> skipn n l = nth n l d :: skipn (S n) l.
Proof.
  revert n; induction l as [|x l IH]; intros [|n] H; cbn in *; try lia; [reflexivity|].
  apply IH. lia.
Qed.

Definition sp (c : byte) : Prop := isspace c = true.

(* ---------------- the ideal trim, characterised ---------------- *)
Lemma dropwhile_all {A} (f : A -> bool) a r :
  Forall (fun x => f x = true) a -> dropwhile f (a ++ r) = dropwhile f r.
Proof. induction 1 as [|x a Hx Ha IH]; cbn; [reflexivity|]. now rewrite Hx. Qed.

Lemma dropwhile_all_nil {A} (f : A -> bool) a :
  Forall (fun x => f x = true) a -> dropwhile f a = [].
Proof. intros H. rewrite <- (app_nil_r a). now rewrite dropwhile_all. Qed.

Lemma Forall_rev' {A} (P : A -> Prop) l : Forall P l -> Forall P (rev l).
Proof.
  intros H. apply Forall_forall. intros x Hx. apply in_rev in Hx. eapply Forall_forall; eauto.
Qed.

Lemma trim_ws_unique t a m w :
  t = a ++ m ++ w -> Forall sp a -> Forall sp w ->
  (m = [] \/ ((exists c r, m = c :: r /\ isspace c = false) /\ (exists r z, m = r ++ [z] /\ isspace z = false))) ->
  trim_ws t = m.
Proof.
  intros -> Ha Hw Hm. unfold trim_ws. rewrite dropwhile_all by exact Ha.
  destruct Hm as [->|[(c & r & Hm1 & Hc) (r' & z & Hm2 & Hz)]].
  - cbn [app]. rewrite (dropwhile_all_nil _ w Hw). reflexivity.
  - rewrite Hm1. cbn [app dropwhile]. rewrite Hc. change (c :: r ++ w) with ((c :: r) ++ w). rewrite <- Hm1.
    rewrite rev_app_distr. rewrite dropwhile_all by (apply Forall_rev'; exact Hw).
    rewrite Hm2 at 1. rewrite rev_app_distr. cbn [rev app dropwhile]. rewrite Hz.
    change (z :: rev r') with (rev [z] ++ rev r'). rewrite <- rev_app_distr, <- Hm2. apply rev_involutive.
Qed.

(* ---------------- the scanning loops ---------------- *)
Lemma trim_front_spec t junk :
  forall fuel start,
    0 <= start <= zlen t -> (Z.to_nat (zlen t - start) < fuel)%nat ->
    Forall sp (firstn (Z.to_nat start) t) ->
    exists k, trim_front fuel (cstr t junk) start (zlen t - 1) = Ok k /\
              start <= k <= zlen t /\ Forall sp (firstn (Z.to_nat k) t) /\
              (k = zlen t \/ isspace (nth (Z.to_nat k) t 0) = false).
Proof.
  induction fuel as [|f IH]; intros start Hs Hf Hall; [lia|].
  cbn [trim_front].
  destruct (Z.eq_dec start (zlen t)) as [->|Hne].
  - rewrite rd_nul. cbn [bind]. cbn [isspace andb].
    change (isspace 0) with false. cbn [andb]. exists (zlen t). repeat split; try lia; auto.
  - rewrite rd_text by lia. cbn [bind].
    destruct (isspace (nth (Z.to_nat start) t 0)) eqn:E; cbn [andb].
    + destruct (Z.leb_spec start (zlen t - 1)); [|lia].
      destruct (IH (start + 1)) as (k & Hk & Hr & Hall' & Hend); [lia|lia| |].
      * replace (Z.to_nat (start + 1)) with (S (Z.to_nat start)) by lia.
        rewrite (firstn_S_nth t _ 0) by lens. apply Forall_app. split; [assumption|]. now constructor.
      * exists k. repeat split; try lia; auto.
    + exists start. repeat split; try lia; auto.
Qed.

Lemma trim_back_spec t junk k :
  isspace (nth (Z.to_nat k) t 0) = false -> 0 <= k ->
  forall fuel e,
    k <= e <= zlen t - 1 -> (Z.to_nat (e - k) < fuel)%nat ->
    Forall sp (skipn (Z.to_nat (e + 1)) t) ->
    exists e', trim_back fuel (cstr t junk) k e = Ok e' /\
               k <= e' <= e /\ Forall sp (skipn (Z.to_nat (e' + 1)) t) /\
               isspace (nth (Z.to_nat e') t 0) = false.
Proof.
  intros Hk Hk0. induction fuel as [|f IH]; intros e He Hf Hall; [lia|].
  cbn [trim_back]. destruct (Z.ltb_spec k e).
  - rewrite rd_text by lia. cbn [bind].
    destruct (isspace (nth (Z.to_nat e) t 0)) eqn:E.
    + destruct (IH (e - 1)) as (e' & He' & Hr & Hall' & Hns); [lia|lia| |].
      * replace (e - 1 + 1) with e by lia.
        rewrite (skipn_nth_cons t _ 0) by lens. constructor; [exact E|].
        replace (S (Z.to_nat e)) with (Z.to_nat (e + 1)) by lia. assumption.
      * exists e'. repeat split; try lia; auto.
    + exists e. repeat split; try lia; auto.
  - assert (e = k) by lia. subst e. exists k. repeat split; try lia; auto.
Qed.

Lemma nth_skipn' {A} (l : list A) k n d : nth n (skipn k l) d = nth (k + n) l d.
Proof.
  revert l; induction k as [|k IH]; intros l; [reflexivity|].
  destruct l; [now destruct n|]. cbn [skipn Nat.add nth]. apply IH.
Qed.

Lemma skipn_firstn_comm' {A} (l : list A) k n :
  (k <= n)%nat -> skipn k (firstn n l) = firstn (n - k) (skipn k l).
Proof.
  revert k n; induction l as [|x l IH]; intros [|k] [|n] H; cbn; try lia; try reflexivity.
  - now rewrite firstn_nil.
  - apply IH. lia.
Qed.

Lemma trim_ok o t :
  rep o t -> exists o', trim o = Ok (true, o') /\ rep o' (trim_ws t).
Proof.
  intros [Hnz [[-> ->]|[junk ->]]].
  - eexists. split; [reflexivity|apply rep_empty].
  - unfold trim, full. cbn [str_s str_len str_size].
    pose proof (zlen_nonneg t) as Hlen.
    destruct (trim_front_spec t junk (S (Z.to_nat (zlen t + 1))) 0) as (k & -> & Hkr & Hka & Hkend);
      [lia|lia|constructor|]. cbn [bind].
    destruct (Z.eq_dec k (zlen t)) as [->|Hkne].
    + (* nothing but blanks *)
      assert (Hb : trim_back (S (Z.to_nat (zlen t + 1))) (cstr t junk) (zlen t) (zlen t - 1) = Ok (zlen t - 1)).
      { cbn [trim_back]. destruct (Z.ltb_spec (zlen t) (zlen t - 1)); [lia|reflexivity]. }
      rewrite Hb. cbn [bind]. rewrite Z.gtb_ltb. destruct (Z.ltb_spec (zlen t - 1) (zlen t)); [|lia].
      eexists. split; [reflexivity|].
      rewrite to_nat_zlen, firstn_all in Hka.
      rewrite (trim_ws_unique t t [] []); [eapply done_ok; apply rep_full; eassumption| |assumption|constructor|now left].
      now rewrite app_nil_r.
    + assert (Hk : k < zlen t) by lia.
      destruct Hkend as [?|Hkns]; [lia|].
      destruct (trim_back_spec t junk k Hkns ltac:(lia) (S (Z.to_nat (zlen t + 1))) (zlen t - 1))
        as (e & -> & Her & Hea & Hens); [lia|lia| |].
      { replace (zlen t - 1 + 1) with (zlen t) by lia. rewrite to_nat_zlen, skipn_all. constructor. }
      cbn [bind]. rewrite Z.gtb_ltb. destruct (Z.ltb_spec e k); [lia|].
      (* the pieces *)
      set (nk := Z.to_nat k). set (ne := Z.to_nat (e + 1)).
      assert (Hnk : (nk <= ne)%nat) by (subst nk ne; lia).
      assert (Hne : (ne <= length t)%nat) by (subst ne; lens).
      set (m := firstn (ne - nk) (skipn nk t)).
      assert (Hm : length m = (ne - nk)%nat) by (subst m; rewrite firstn_length, skipn_length; lia).
      assert (Hsplit : t = firstn nk t ++ m ++ skipn ne t).
      { subst m. rewrite <- (firstn_skipn nk t) at 1. f_equal.
        rewrite <- (firstn_skipn (ne - nk) (skipn nk t)) at 1. f_equal.
        rewrite skipn_skipn'. f_equal. lia. }
      assert (Htrim : trim_ws t = m).
      { apply (trim_ws_unique t (firstn nk t) m (skipn ne t) Hsplit Hka Hea). right. split.
        - subst m. rewrite (skipn_nth_cons t nk 0) by (subst nk; lens).
          replace (ne - nk)%nat with (S (ne - nk - 1)) by (subst nk ne; lia). cbn [firstn]. eauto.
        - subst m. replace (ne - nk)%nat with (S (ne - nk - 1)) by (subst nk ne; lia).
          rewrite (firstn_S_nth _ _ 0) by (rewrite skipn_length; subst nk ne; lia).
          eexists _, _. split; [reflexivity|]. rewrite nth_skipn'.
          replace (nk + (ne - nk - 1))%nat with (Z.to_nat e) by (subst nk ne; lia). exact Hens. }
      rewrite Htrim.
      (* the buffer operations *)
      rewrite wr_at by lens. fold ne. cbn [bind].
      assert (Hf : firstn ne (cstr t junk) = bytes (firstn ne t)).
      { unfold cstr. rewrite firstn_app, firstn_bytes. replace (ne - length (bytes t))%nat with O by lens.
        cbn [firstn]. now rewrite app_nil_r. }
      rewrite Hf.
      unfold memmovez. rewrite getz_at; [|lia|lia|subst ne; lens].
      fold nk. rewrite skipn_app, skipn_bytes, bytes_length.
      replace (nk - length (firstn ne t))%nat with O by (rewrite firstn_length; lia). cbn [skipn].
      rewrite skipn_firstn_comm' by assumption. fold m.
      replace (Z.to_nat (e + 1 - k + 1)) with (length (bytes m ++ [Some 0])) by (subst nk ne; lens).
      match goal with |- context [firstn _ (bytes m ++ Some 0 :: ?R)] =>
        change (bytes m ++ Some 0 :: R) with (bytes m ++ [Some 0] ++ R) end.
      rewrite app_assoc, firstn_app, firstn_all, Nat.sub_diag. cbn [firstn]. rewrite app_nil_r. cbn [bind].
      rewrite putz_over by (subst nk ne; lens). cbn [bind].
      rewrite realloc_shrink by (subst nk ne; lens). cbn [bind].
      eexists. split; [reflexivity|].
      eapply rep_intro with (c := []);
        [subst m; apply Forall_nz_firstn, Forall_nz_skipn; assumption
        |unfold cstr; reflexivity|subst nk ne; lens|subst nk ne; lens].
Qed.

(* ---------------- reverse: the swap loop of strrev ---------------- *)
Lemma rdn_at a v c : rdn (a ++ Some v :: c) (length a) = Ok v.
Proof. rewrite rdn_app_r by apply Nat.le_refl. now rewrite Nat.sub_diag. Qed.

Lemma wrn_at a x c v : wrn (a ++ x :: c) (length a) v = Ok (a ++ Some v :: c).
Proof.
  rewrite wrn_ok by (rewrite app_length; cbn [length]; lia).
  rewrite upd_app_r by apply Nat.le_refl. now rewrite Nat.sub_diag.
Qed.

Lemma list_ends {A} (l : list A) :
  (2 <= length l)%nat -> exists x m y, l = x :: m ++ [y].
Proof.
  destruct l as [|x l]; cbn; [lia|]. intros H.
  destruct (exists_last (l := l)) as (m & y & ->); [destruct l; cbn in *; [lia|discriminate]|].
  eauto.
Qed.

Lemma rev_loop_spec tail :
  forall fuel mid pre post,
    (length mid < 2 * fuel)%nat ->
    rev_loop (bytes (pre ++ mid ++ post) ++ tail) (length pre)
             (Z.of_nat (length pre) + Z.of_nat (length mid) - 1) fuel =
    Ok (bytes (pre ++ rev mid ++ post) ++ tail).
Proof.
  induction fuel as [|f IH]; intros mid pre post Hf; [lia|].
  cbn [rev_loop].
  destruct (Nat.le_gt_cases 2 (length mid)) as [H2|H2].
  - destruct (list_ends mid H2) as (x & m & y & ->).
    cbn [length] in *. rewrite !app_length in *. cbn [length] in *.
    rewrite Z.gtb_ltb.
    destruct (Z.ltb_spec (Z.of_nat (length pre))
                (Z.of_nat (length pre) + Z.of_nat (S (length m + 1)) - 1)); [|lia].
    (* the buffer, with the two cells to swap exposed *)
    assert (Hb : bytes (pre ++ (x :: m ++ [y]) ++ post) ++ tail
                 = bytes pre ++ Some x :: (bytes m ++ Some y :: (bytes post ++ tail))).
    { rewrite !bytes_app. cbn [bytes map app]. fold (bytes m). fold (bytes post).
      rewrite bytes_app. cbn [bytes map app]. fold (bytes m).
      rewrite <- !app_assoc. cbn [app]. rewrite <- !app_assoc. reflexivity. }
    rewrite Hb. rewrite <- (bytes_length pre) at 1. rewrite rdn_at. cbn [bind].
    assert (Hi : Z.of_nat (length pre) + Z.of_nat (S (length m + 1)) - 1
                 = zlen (bytes pre ++ Some x :: bytes m)) by lens.
    rewrite Hi.
    change (bytes pre ++ Some x :: bytes m ++ Some y :: bytes post ++ tail)
      with (bytes pre ++ (Some x :: bytes m) ++ Some y :: bytes post ++ tail).
    rewrite app_assoc. rewrite rd_app by reflexivity. cbn [bind].
    rewrite <- app_assoc. cbn [app].
    rewrite <- (bytes_length pre) at 1. rewrite wrn_at. cbn [bind].
    change (bytes pre ++ Some y :: bytes m ++ Some y :: bytes post ++ tail)
      with (bytes pre ++ (Some y :: bytes m) ++ Some y :: bytes post ++ tail).
    rewrite app_assoc.
    replace (zlen (bytes pre ++ Some x :: bytes m)) with (zlen (bytes pre ++ Some y :: bytes m)) by lens.
    rewrite wr_app by reflexivity. cbn [bind].
    (* recursion on the inner part *)
    specialize (IH m (pre ++ [y]) (x :: post)).
    assert (Hb2 : (bytes pre ++ Some y :: bytes m) ++ Some x :: bytes post ++ tail
                  = bytes ((pre ++ [y]) ++ m ++ x :: post) ++ tail).
    { rewrite !bytes_app. cbn [bytes map app]. fold (bytes m). fold (bytes post).
      rewrite <- !app_assoc. cbn [app]. reflexivity. }
    unfold buf, cell in *. rewrite Hb2.
    replace (S (length pre)) with (length (pre ++ [y])) by (rewrite app_length; cbn [length]; lia).
    match goal with |- rev_loop _ _ ?i _ = _ =>
      replace i with (Z.of_nat (length (pre ++ [y])) + Z.of_nat (length m) - 1) by lens end.
    rewrite IH by lia. f_equal. f_equal. f_equal.
    cbn [rev]. rewrite rev_app_distr. cbn [rev app]. rewrite <- !app_assoc. cbn [app]. reflexivity.
  - (* zero or one element: nothing to swap *)
    rewrite Z.gtb_ltb.
    destruct (Z.ltb_spec (Z.of_nat (length pre)) (Z.of_nat (length pre) + Z.of_nat (length mid) - 1)); [lia|].
    destruct mid as [|x [|y mid]]; cbn in H2; try lia; reflexivity.
Qed.

Lemma strrev_cstr t junk :
  Forall nz_byte t -> strrev (cstr t junk) = Ok (cstr (rev t) junk).
Proof.
  intros H. unfold strrev. rewrite strlen_cstr by assumption. cbn [bind].
  pose proof (rev_loop_spec (Some 0 :: junk) (S (length t)) t [] []) as L.
  cbn [app length] in L. rewrite !app_nil_r in L. unfold cstr.
  rewrite Z.add_0_l in L. apply L. lia.
Qed.

Lemma Forall_nz_rev t : Forall nz_byte t -> Forall nz_byte (rev t).
Proof. apply Forall_rev'. Qed.

Lemma reverse_ok o t :
  rep o t -> exists b o', reverse o = Ok (b, o') /\ rep o' (rev t) /\ (t <> [] -> b = true).
Proof.
  intros [Hnz [[-> ->]|[junk ->]]].
  - exists false, empty_str. split; [reflexivity|]. split; [apply rep_empty|congruence].
  - unfold reverse, full. cbn [str_s str_len str_size].
    rewrite strrev_cstr by assumption. cbn [bind].
    eexists _, _. split; [reflexivity|]. split; [|reflexivity].
    eapply rep_intro; [now apply Forall_nz_rev|reflexivity|now zl|zl; lia].
Qed.
