(* Shape lemmas for the checked buffer primitives used by the str model: every access is
   described on a buffer presented as  a ++ m ++ c  with the access at offset |a|. *)
From LV Require Import Base.Buf Strings.HelpersModel Strings.HelpersProofs Str.StrModel.
Local Open Scope Z_scope.

Lemma zlen_app {A} (a b : list A) : zlen (a ++ b) = zlen a + zlen b.
Proof. unfold zlen. rewrite app_length. lia. Qed.
Lemma zlen_nonneg {A} (a : list A) : 0 <= zlen a.
Proof. unfold zlen. lia. Qed.
Lemma zlen_bytes t : zlen (bytes t) = zlen t.
Proof. unfold zlen. now rewrite bytes_length. Qed.
Lemma zlen_cons {A} (x : A) l : zlen (x :: l) = 1 + zlen l.
Proof. unfold zlen. cbn [length]. lia. Qed.
Lemma zlen_nil {A} : zlen (@nil A) = 0.
Proof. reflexivity. Qed.
Lemma zlen_repeat {A} (x : A) n : zlen (repeat x n) = Z.of_nat n.
Proof. unfold zlen. now rewrite repeat_length. Qed.
Lemma zlen_map {A B} (f : A -> B) l : zlen (map f l) = zlen l.
Proof. unfold zlen. now rewrite map_length. Qed.
Lemma zlen_rev {A} (l : list A) : zlen (rev l) = zlen l.
Proof. unfold zlen. now rewrite rev_length. Qed.
Lemma to_nat_zlen {A} (l : list A) : Z.to_nat (zlen l) = length l.
Proof. unfold zlen. lia. Qed.
Lemma zlen_cstr_cells t : zlen (cstr_cells t) = zlen t + 1.
Proof. unfold cstr_cells. rewrite zlen_app, zlen_bytes, zlen_cons, zlen_nil. lia. Qed.
Lemma zlen_cstr t r : zlen (cstr t r) = zlen t + 1 + zlen r.
Proof. unfold cstr. rewrite zlen_app, zlen_bytes, zlen_cons. lia. Qed.

Global Hint Rewrite @zlen_app zlen_bytes @zlen_cons @zlen_nil @zlen_repeat @zlen_map @zlen_rev
  zlen_cstr_cells zlen_cstr : zl.

Lemma malloc_ok n : 0 <= n -> malloc n = Ok (repeat None (Z.to_nat n)).
Proof. intros H. unfold malloc. destruct (Z.ltb_spec n 0); [lia|reflexivity]. Qed.

Lemma realloc_some b n :
  0 < n -> realloc (Some b) n = Ok (Some (firstn (Z.to_nat n) b ++ repeat None (Z.to_nat n - length b))).
Proof.
  intros H. unfold realloc. destruct (Z.ltb_spec n 0); [lia|].
  destruct (Z.eqb_spec n 0); [lia|]. reflexivity.
Qed.
Lemma realloc_none n : 0 < n -> realloc None n = Ok (Some (repeat None (Z.to_nat n))).
Proof.
  intros H. unfold realloc. destruct (Z.ltb_spec n 0); [lia|].
  destruct (Z.eqb_spec n 0); [lia|]. reflexivity.
Qed.
(* growing (or keeping) a block: old cells then fresh ones *)
Lemma realloc_grow b n :
  zlen b <= n -> 0 < n ->
  realloc (Some b) n = Ok (Some (b ++ repeat None (Z.to_nat (n - zlen b)))).
Proof.
  intros H H0. rewrite realloc_some by assumption. unfold zlen in *.
  rewrite firstn_all2 by lia. repeat f_equal. lia.
Qed.
(* shrinking to a prefix *)
Lemma realloc_shrink a c n :
  n = zlen a -> 0 < n -> realloc (Some (a ++ c)) n = Ok (Some a).
Proof.
  intros -> H0. rewrite realloc_some by assumption. rewrite to_nat_zlen.
  rewrite firstn_app, firstn_all, Nat.sub_diag. cbn [firstn]. rewrite app_nil_r.
  rewrite app_length. replace (length a - (length a + length c))%nat with O by lia.
  cbn [repeat]. now rewrite app_nil_r.
Qed.

Lemma sub_cells_app a m c : sub_cells (a ++ m ++ c) (length a) (length m) = Ok m.
Proof.
  unfold sub_cells. rewrite !app_length.
  destruct (Nat.leb_spec (length a + length m) (length a + (length m + length c))); [|lia].
  rewrite skipn_app, skipn_all, Nat.sub_diag. cbn [skipn app].
  rewrite firstn_app, firstn_all, Nat.sub_diag. cbn [firstn]. now rewrite app_nil_r.
Qed.

Lemma put_cells_app a m c cs :
  length cs = length m -> put_cells (a ++ m ++ c) (length a) cs = Ok (a ++ cs ++ c).
Proof.
  intros H. unfold put_cells. rewrite !app_length.
  destruct (Nat.leb_spec (length a + length cs) (length a + (length m + length c))); [|lia].
  rewrite firstn_app, firstn_all, Nat.sub_diag. cbn [firstn]. rewrite app_nil_r.
  rewrite skipn_app, skipn_all2 by lia. cbn [app].
  replace (length a + length cs - length a)%nat with (length m) by lia.
  rewrite skipn_app, skipn_all, Nat.sub_diag. cbn [skipn app]. reflexivity.
Qed.

Lemma getz_app a m c off n :
  off = zlen a -> n = zlen m -> getz (a ++ m ++ c) off n = Ok m.
Proof.
  intros -> ->. unfold getz. pose proof (zlen_nonneg a). pose proof (zlen_nonneg m).
  destruct (Z.ltb_spec (zlen a) 0); [lia|]. destruct (Z.ltb_spec (zlen m) 0); [lia|].
  cbn [orb]. rewrite !to_nat_zlen. apply sub_cells_app.
Qed.

Lemma putz_app a m c cs off :
  off = zlen a -> length cs = length m -> putz (a ++ m ++ c) off cs = Ok (a ++ cs ++ c).
Proof.
  intros -> H. unfold putz. pose proof (zlen_nonneg a).
  destruct (Z.ltb_spec (zlen a) 0); [lia|]. rewrite to_nat_zlen. now apply put_cells_app.
Qed.

(* versions for a two-part buffer (access at the front / up to the end) *)
Lemma getz_front m c n : n = zlen m -> getz (m ++ c) 0 n = Ok m.
Proof. intros H. apply (getz_app [] m c); [reflexivity|assumption]. Qed.
Lemma putz_front m c cs : length cs = length m -> putz (m ++ c) 0 cs = Ok (cs ++ c).
Proof. intros H. apply (putz_app [] m c); [reflexivity|assumption]. Qed.

Lemma wr_app a x c i v : i = zlen a -> wr (a ++ x :: c) i v = Ok (a ++ Some v :: c).
Proof.
  intros ->. unfold wr. pose proof (zlen_nonneg a). destruct (Z.ltb_spec (zlen a) 0); [lia|].
  rewrite to_nat_zlen. rewrite wrn_ok by (rewrite app_length; cbn [length]; lia).
  rewrite upd_app_r by lia. rewrite Nat.sub_diag. reflexivity.
Qed.

Lemma rd_app a v c i : i = zlen a -> rd (a ++ Some v :: c) i = Ok v.
Proof.
  intros ->. unfold rd. pose proof (zlen_nonneg a). destruct (Z.ltb_spec (zlen a) 0); [lia|].
  rewrite to_nat_zlen. rewrite rdn_app_r by apply Nat.le_refl. rewrite Nat.sub_diag. reflexivity.
Qed.

Lemma read_cstr_cstr t rest : Forall nz_byte t -> read_cstr (cstr t rest) = Ok t.
Proof.
  unfold cstr, bytes. induction t as [|c t IH]; intros H; cbn [map app read_cstr].
  - reflexivity.
  - inversion H as [|? ? Hc Ht]; subst. rewrite (nz_byte_neq0 c Hc). rewrite IH by assumption. reflexivity.
Qed.

Lemma Forall_nz_app a b : Forall nz_byte a -> Forall nz_byte b -> Forall nz_byte (a ++ b).
Proof. intros. apply Forall_app. split; assumption. Qed.

Lemma repeat_split {A} (x : A) n k : (k <= n)%nat -> repeat x n = repeat x k ++ repeat x (n - k).
Proof. intros H. rewrite <- repeat_app. f_equal. lia. Qed.

(* any list splits at k <= its length *)
Lemma split_at {A} (l : list A) k :
  (k <= length l)%nat -> exists a b, l = a ++ b /\ length a = k.
Proof.
  intros H. exists (firstn k l), (skipn k l). split; [now rewrite firstn_skipn|].
  rewrite firstn_length. lia.
Qed.

(* ---- access at an arbitrary position, result by firstn / skipn ---- *)
Lemma skipn_skipn' {A} (x y : nat) (l : list A) : skipn x (skipn y l) = skipn (y + x) l.
Proof.
  revert l; induction y as [|y IH]; intros l; [reflexivity|].
  destruct l; [now rewrite !skipn_nil|]. cbn [skipn Nat.add]. apply IH.
Qed.
Lemma putz_tail a tail cs off :
  off = zlen a -> (length cs <= length tail)%nat ->
  putz (a ++ tail) off cs = Ok (a ++ cs ++ skipn (length cs) tail).
Proof.
  intros Hoff H. rewrite <- (firstn_skipn (length cs) tail) at 1.
  apply putz_app; [assumption|]. rewrite firstn_length. lia.
Qed.

Lemma putz_at b off cs :
  0 <= off -> off + zlen cs <= zlen b ->
  putz b off cs = Ok (firstn (Z.to_nat off) b ++ cs ++ skipn (Z.to_nat off + length cs) b).
Proof.
  intros H0 H. unfold zlen in H.
  rewrite <- (firstn_skipn (Z.to_nat off) b) at 1.
  rewrite putz_tail.
  - rewrite skipn_skipn'. reflexivity.
  - unfold zlen. rewrite firstn_length. lia.
  - rewrite skipn_length. lia.
Qed.

Lemma getz_at b off n :
  0 <= off -> 0 <= n -> off + n <= zlen b ->
  getz b off n = Ok (firstn (Z.to_nat n) (skipn (Z.to_nat off) b)).
Proof.
  intros H0 H1 H. unfold getz, sub_cells, zlen in *.
  destruct (Z.ltb_spec off 0); [lia|]. destruct (Z.ltb_spec n 0); [lia|]. cbn [orb].
  destruct (Nat.leb_spec (Z.to_nat off + Z.to_nat n) (length b)); [reflexivity|lia].
Qed.

Lemma wr_at b i v :
  0 <= i < zlen b -> wr b i v = Ok (firstn (Z.to_nat i) b ++ Some v :: skipn (S (Z.to_nat i)) b).
Proof.
  intros H. unfold wr, zlen in *. destruct (Z.ltb_spec i 0); [lia|].
  rewrite wrn_ok by lia. rewrite upd_split by lia. reflexivity.
Qed.

Lemma skipn_cons_ex {A} (l : list A) k :
  (k < length l)%nat -> exists x c, skipn k l = x :: c /\ length c = (length l - k - 1)%nat.
Proof.
  intros H. destruct (skipn k l) as [|x c] eqn:E.
  - apply (f_equal (@length A)) in E. rewrite skipn_length in E. cbn in E. lia.
  - exists x, c. split; [reflexivity|]. apply (f_equal (@length A)) in E.
    rewrite skipn_length in E. cbn [length] in E. lia.
Qed.

Lemma firstn_bytes_app t tl : firstn (length t) (bytes t ++ tl) = bytes t.
Proof. rewrite <- (bytes_length t). rewrite firstn_app, firstn_all, Nat.sub_diag. cbn. now rewrite app_nil_r. Qed.
Lemma skipn_bytes_app t tl : skipn (length t) (bytes t ++ tl) = tl.
Proof. rewrite <- (bytes_length t). rewrite skipn_app, skipn_all, Nat.sub_diag. reflexivity. Qed.
