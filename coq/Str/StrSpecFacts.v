(* What the small search / comparison functions of the specification mean: first and last
   occurrence, first match of a substring, "not found" = length, and the order laws of the
   comparison.  These make the statement "every query answers as the ideal sequence would"
   readable without trusting the recursive definitions. *)
From LV Require Import Base.Buf Strings.HelpersModel Str.StrModel Str.StrSpec Str.BufLemmas.
Local Open Scope Z_scope.

Lemma find_byte_spec c t :
  match find_byte c t with
  | Some k => (k < length t)%nat /\ nth k t 0 = c /\ forall j, (j < k)%nat -> nth j t 0 <> c
  | None => ~ In c t
  end.
Proof.
  induction t as [|x t IH]; cbn [find_byte]; [auto|].
  destruct (Z.eqb_spec x c) as [->|Hne].
  - split; [cbn; lia|]. split; [reflexivity|]. intros j Hj. lia.
  - destruct (find_byte c t) as [k|].
    + destruct IH as (Hk & Hn & Hmin). split; [cbn; lia|]. split; [exact Hn|].
      intros [|j] Hj; cbn; [congruence|]. apply Hmin. lia.
    + intros [H|H]; [congruence|contradiction].
Qed.

Lemma rfind_byte_spec c t :
  match rfind_byte c t with
  | Some k => (k < length t)%nat /\ nth k t 0 = c /\
              forall j, (k < j < length t)%nat -> nth j t 0 <> c
  | None => ~ In c t
  end.
Proof.
  induction t as [|x t IH]; cbn [rfind_byte]; [auto|].
  destruct (rfind_byte c t) as [k|].
  - destruct IH as (Hk & Hn & Hmax). split; [cbn; lia|]. split; [exact Hn|].
    intros [|j] Hj; [lia|]. cbn. apply Hmax. cbn in Hj. lia.
  - destruct (Z.eqb_spec x c) as [->|Hne].
    + split; [cbn; lia|]. split; [reflexivity|].
      intros [|j] Hj; [lia|]. cbn. intros E. apply IH. rewrite <- E. apply nth_In. cbn in Hj. lia.
    + intros [H|H]; [congruence|contradiction].
Qed.

Lemma is_prefix_spec p t : is_prefix p t = true <-> exists r, t = p ++ r.
Proof.
  revert t; induction p as [|x p IH]; intros t; cbn [is_prefix].
  - split; [intros _; now exists t|reflexivity].
  - destruct t as [|y t].
    + split; [discriminate|intros [r H]; discriminate].
    + rewrite andb_true_iff, IH. split.
      * intros [E [r ->]]. apply Z.eqb_eq in E. subst. now exists r.
      * intros [r H]. injection H as -> ->. split; [apply Z.eqb_refl|now exists r].
Qed.

Lemma strstr_l_spec needle hay :
  match strstr_l hay needle with
  | Some k => (k <= length hay)%nat /\ is_prefix needle (skipn k hay) = true /\
              forall j, (j < k)%nat -> is_prefix needle (skipn j hay) = false
  | None => forall j, (j <= length hay)%nat -> is_prefix needle (skipn j hay) = false
  end.
Proof.
  induction hay as [|x hay IH]; cbn [strstr_l].
  - destruct (is_prefix needle []) eqn:E.
    + split; [cbn; lia|]. split; [exact E|]. intros j Hj. lia.
    + intros j Hj. cbn in Hj. assert (j = O) by lia. subst. exact E.
  - destruct (is_prefix needle (x :: hay)) eqn:E.
    + split; [cbn; lia|]. split; [exact E|]. intros j Hj. lia.
    + destruct (strstr_l hay needle) as [k|].
      * destruct IH as (Hk & Hp & Hmin). split; [cbn; lia|]. split; [exact Hp|].
        intros [|j] Hj; [exact E|]. cbn [skipn]. apply Hmin. lia.
      * intros [|j] Hj; [exact E|]. cbn [skipn]. apply IH. cbn in Hj. lia.
Qed.

(* 'not found' is reported as the length, and only then *)
Lemma spec_index_notfound t c : spec_index t c = zlen t <-> ~ In c t.
Proof.
  unfold spec_index. pose proof (find_byte_spec c t) as H. destruct (find_byte c t) as [k|].
  - destruct H as (Hk & Hn & _). split; [unfold zlen; lia|].
    intros Hin. exfalso. apply Hin. rewrite <- Hn. now apply nth_In.
  - tauto.
Qed.

Lemma spec_rindex_notfound t c : spec_rindex t c = zlen t <-> ~ In c t.
Proof.
  unfold spec_rindex. pose proof (rfind_byte_spec c t) as H. destruct (rfind_byte c t) as [k|].
  - destruct H as (Hk & Hn & _). split; [unfold zlen; lia|].
    intros Hin. exfalso. apply Hin. rewrite <- Hn. now apply nth_In.
  - tauto.
Qed.

Lemma spec_find_range t x : 0 <= spec_find t x <= zlen t.
Proof.
  unfold spec_find. pose proof (strstr_l_spec x t) as H. destruct (strstr_l t x) as [k|]; unfold zlen; lia.
Qed.

(* ---- comparison: a three-valued total order on byte sequences ---- *)
Lemma strcmp_l_range a b : strcmp_l a b = -1 \/ strcmp_l a b = 0 \/ strcmp_l a b = 1.
Proof.
  revert b; induction a as [|x a IH]; intros [|y b]; cbn; auto.
  destruct (x <? y); auto. destruct (y <? x); auto.
Qed.

Lemma strcmp_l_refl a : strcmp_l a a = 0.
Proof. induction a as [|x a IH]; cbn; [reflexivity|]. now rewrite Z.ltb_irrefl. Qed.

Lemma strcmp_l_eq a b : strcmp_l a b = 0 -> a = b.
Proof.
  revert b; induction a as [|x a IH]; intros [|y b]; cbn; try discriminate; auto.
  destruct (Z.ltb_spec x y) as [?|Hxy]; [discriminate|]. destruct (Z.ltb_spec y x) as [?|Hyx]; [discriminate|].
  intros Hrec. f_equal; [lia|now apply IH].
Qed.

Lemma strcmp_l_antisym a b : strcmp_l b a = - strcmp_l a b.
Proof.
  revert b; induction a as [|x a IH]; intros [|y b]; cbn; auto.
  destruct (Z.ltb_spec x y), (Z.ltb_spec y x); try lia; auto.
Qed.

Lemma strcmp_l_trans a b c : strcmp_l a b = -1 -> strcmp_l b c = -1 -> strcmp_l a c = -1.
Proof.
  revert b c; induction a as [|x a IH]; intros [|y b] [|z c]; cbn; try discriminate; auto.
  destruct (Z.ltb_spec x y), (Z.ltb_spec y x), (Z.ltb_spec y z), (Z.ltb_spec z y),
           (Z.ltb_spec x z), (Z.ltb_spec z x); try discriminate; try lia; auto.
  apply IH.
Qed.

(* ---- decimal text of a number and its numeric value ---- *)
Lemma first_line_no_nl st : Forall (fun c => c <> 10) (first_line st).
Proof.
  induction st as [|c st IH]; cbn; [constructor|].
  destruct (Z.eqb_spec c 10); [constructor|]. now constructor.
Qed.
