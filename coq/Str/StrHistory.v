(* C01, main theorem: every history of operations, from every constructor, runs without a
   fault, returns what the ideal character sequence returns, and ends in a state that
   satisfies the invariant and represents the ideal value.  Induction over the operation
   list on top of the per-method lemmas. *)
From LV Require Import Base.Buf Strings.HelpersModel Strings.HelpersProofs
  Str.StrModel Str.StrSpec Str.BufLemmas Str.StrOps Str.StrLoops Str.StrStream.
Local Open Scope Z_scope.

(* ---------------- the invariant and the abstraction, spelled out ---------------- *)
(* NULL/0/0, or: 0 <= len < size = number of cells of the buffer, the cells below len hold
   non-NUL characters, the cell at len holds NUL *)
Definition inv (o : str) : Prop :=
  (str_s o = None /\ str_len o = 0 /\ str_size o = 0) \/
  exists b, str_s o = Some b /\ 0 <= str_len o < str_size o /\ str_size o = zlen b /\
            (forall i, 0 <= i < str_len o -> exists c, rd b i = Ok c /\ nz_byte c) /\
            rd b (str_len o) = Ok 0.

(* the text of an object: the bytes of its buffer up to the terminator *)
Definition abs (o : str) : list byte := take_str (str_str o).

Lemma rep_inv o t : rep o t -> inv o.
Proof.
  intros [Hnz [[-> ->]|[junk ->]]]; [left; auto|].
  right. exists (cstr t junk). unfold full. cbn [str_s str_len str_size].
  pose proof (zlen_nonneg junk). pose proof (zlen_nonneg t).
  split; [reflexivity|]. split; [lia|]. split; [now zl|]. split.
  - intros i Hi. exists (nth (Z.to_nat i) t 0). split; [now apply rd_text|].
    eapply Forall_forall; [exact Hnz|]. apply nth_In. lens.
  - apply rd_nul.
Qed.

Lemma rep_abs o t : rep o t -> abs o = t.
Proof.
  intros [Hnz [[-> ->]|[junk ->]]]; [reflexivity|].
  unfold abs. rewrite str_str_full. now apply take_str_cstr.
Qed.

(* ---------------- what a history may contain ---------------- *)
Definition ctor_ok (c : ctor) : Prop :=
  match c with
  | CInit => True
  | CPtr None => True
  | CPtr (Some t) => Forall nz_byte t
  | CBuff None n => 0 <= n
  | CBuff (Some b) n => 0 <= n /\ buff_ok b n
  | CFp st => Forall nz_byte st
  | CFd sc => sched_ok sc
  | CNum _ => True
  end.

Definition opt_nz (a : option (list byte)) : Prop :=
  match a with Some x => Forall nz_byte x | None => True end.

Definition op_ok (p : op) : Prop :=
  match p with
  | OReinit c | OOtherNew c => ctor_ok c
  | OAppendPtr a | OPrependPtr a | OSplicePtr _ _ a => opt_nz a
  | OAppendChar c | OPrependChar c | OClear c => nz_byte c
  | OSprintf (FmtText x) => Forall nz_byte x
  | _ => True
  end.

Lemma construct_ok c :
  ctor_ok c -> exists o, construct c = Ok o /\ rep o (spec_construct c).
Proof.
  destruct c as [|[t|]|[b|] n|st|sc|n]; cbn [ctor_ok construct spec_construct]; intros H.
  - eexists. split; [reflexivity|apply rep_empty].
  - now apply init_from_ptr_some.
  - eexists. split; [reflexivity|apply rep_empty].
  - destruct H as [Hn (t & rest & Hnz & -> & Hc)].
    rewrite buff_text by assumption. now apply init_from_buff_some.
  - now apply init_from_buff_none.
  - now apply init_from_fp_ok.
  - now apply init_from_fd_ok.
  - apply init_from_num_ok.
Qed.

(* ---------------- one step ---------------- *)
Definition srep (st : mstate) (ss : sstate) : Prop :=
  rep (fst st) (fst ss) /\ orep (snd st) (snd ss).

Lemma set_same o : set_size (set_len o (get_len o)) (get_size o) = o.
Proof. now destruct o. Qed.

Ltac use L :=
  let o' := fresh "o'" in let H1 := fresh "H1" in let H2 := fresh "H2" in
  destruct L as (o' & H1 & H2); rewrite H1; cbn [bind lift];
  eexists _, _; split; [reflexivity|split; [reflexivity|split; [exact H2|assumption]]].

Lemma step_ok st ss p :
  srep st ss -> op_ok p ->
  exists out st', step st p = Ok (out, st') /\ erase out = fst (sstep ss p) /\ srep st' (snd (sstep ss p)).
Proof.
  destruct st as [o other], ss as [t ot]. intros [Ho Hother] Hp. cbn [fst snd] in *.
  destruct p; cbn [step sstep op_ok] in *; unfold lift.
  - (* OReinit *) destruct (construct_ok c Hp) as (o' & -> & Hr). cbn [bind].
    eexists _, _. split; [reflexivity|]. split; [reflexivity|]. split; assumption.
  - (* ODone *) eexists _, _. split; [reflexivity|]. split; [reflexivity|]. split; [eapply done_ok; eauto|assumption].
  - (* OOtherNull *) eexists _, _. split; [reflexivity|]. split; [reflexivity|]. split; [assumption|exact I].
  - (* OOtherNew *) destruct (construct_ok c Hp) as (x & -> & Hr). cbn [bind].
    eexists _, _. split; [reflexivity|]. split; [reflexivity|]. split; assumption.
  - (* OOtherDup *) destruct (dup_ok o t Ho) as (x & -> & Hr). cbn [bind].
    eexists _, _. split; [reflexivity|]. split; [reflexivity|]. split; assumption.
  - (* OOtherSubstr *) destruct (substr_ok o t idx cnt Ho) as (r & -> & Hr). cbn [bind].
    destruct (spec_substr t idx cnt) as [x|].
    + destruct Hr as (o' & -> & Hr). eexists _, _. split; [reflexivity|]. split; [reflexivity|]. split; assumption.
    + subst r. eexists _, _. split; [reflexivity|]. split; [reflexivity|]. split; [assumption|exact I].
  - (* OSwap *) destruct other as [x|], ot as [xt|]; cbn in Hother; try contradiction;
      eexists _, _; (split; [reflexivity|]); (split; [reflexivity|]); split; cbn; auto.
  - (* OAppend *) destruct other as [x|], ot as [xt|]; cbn in Hother; try contradiction.
    + use (append_ok o t x xt Ho Hother).
    + cbn. eexists _, _. split; [reflexivity|]. split; [reflexivity|]. split; [assumption|exact I].
  - (* OAppendPtr *) destruct t0 as [x|]; cbn in Hp.
    + use (append_from_ptr_ok o t x Ho Hp).
    + cbn. eexists _, _. split; [reflexivity|]. split; [reflexivity|]. split; assumption.
  - (* OAppendChar *) use (append_char_ok o t c Ho Hp).
  - (* OPrepend *) destruct other as [x|], ot as [xt|]; cbn in Hother; try contradiction.
    + use (prepend_ok o t x xt Ho Hother).
    + cbn. eexists _, _. split; [reflexivity|]. split; [reflexivity|]. split; [assumption|exact I].
  - (* OPrependPtr *) destruct t0 as [x|]; cbn in Hp.
    + use (prepend_from_ptr_ok o t x Ho Hp).
    + cbn. eexists _, _. split; [reflexivity|]. split; [reflexivity|]. split; assumption.
  - (* OPrependChar *) use (prepend_char_ok o t c Ho Hp).
  - (* OSplice *) destruct (splice_ok o t idx cnt other ot Ho Hother) as (o' & -> & Hr). cbn [bind].
    destruct (spec_splice t idx cnt (ins_text ot));
      (eexists _, _; split; [reflexivity|]; split; [reflexivity|]; split; assumption).
  - (* OSplicePtr *) destruct (splice_from_ptr_ok o t idx cnt t0 Ho Hp) as (o' & -> & Hr). cbn [bind].
    destruct (spec_splice t idx cnt (ins_text t0));
      (eexists _, _; split; [reflexivity|]; split; [reflexivity|]; split; assumption).
  - (* OTrim *) use (trim_ok o t Ho).
  - (* OReverse *) destruct (reverse_ok o t Ho) as (b & o' & -> & Hr & _). cbn [bind].
    eexists _, _. split; [reflexivity|]. split; [reflexivity|]. split; assumption.
  - (* OUpcase *) unfold upcase. use (case_map_ok toupper o t toupper_nz Ho).
  - (* ODowncase *) unfold downcase. use (case_map_ok tolower o t tolower_nz Ho).
  - (* OClear *) use (clear_ok o t c Ho Hp).
  - (* OSprintf *)
    destruct (sprintf_ok o t f Ho) as (o' & -> & Hr); [destruct f; auto|]. cbn [bind].
    destruct f; (eexists _, _; split; [reflexivity|]; split; [reflexivity|]; split; assumption).
  - (* OSubstrToPtr *) rewrite (substr_to_ptr_ok o t idx cnt Ho). cbn [bind].
    eexists _, _. split; [reflexivity|]. split; [reflexivity|]. split; assumption.
  - (* OCmp *) rewrite (cmp_ok k o t other ot Ho Hother). cbn [bind].
    eexists _, _. split; [reflexivity|]. split; [reflexivity|]. split; assumption.
  - (* OCmpPtr *) rewrite (cmp_with_ptr_ok k o t t0 Ho). cbn [bind].
    eexists _, _. split; [reflexivity|]. split; [reflexivity|]. split; assumption.
  - (* OFind *) rewrite (find_ok o t other ot Ho Hother). cbn [bind].
    eexists _, _. split; [reflexivity|]. split; [reflexivity|]. split; assumption.
  - (* OFindPtr *) rewrite (find_from_ptr_ok o t t0 Ho). cbn [bind].
    eexists _, _. split; [reflexivity|]. split; [reflexivity|]. split; assumption.
  - (* OIndex *) rewrite (index_ok o t c Ho). cbn [bind].
    eexists _, _. split; [reflexivity|]. split; [reflexivity|]. split; assumption.
  - (* ORindex *) rewrite (rindex_ok o t c Ho). cbn [bind].
    eexists _, _. split; [reflexivity|]. split; [reflexivity|]. split; assumption.
  - (* OToNum *) rewrite (to_num_ok o t base Ho). cbn [bind].
    eexists _, _. split; [reflexivity|]. split; [reflexivity|]. split; assumption.
  - (* OToFloat *) rewrite (to_float_ok o t Ho). cbn [bind].
    eexists _, _. split; [reflexivity|]. split; [reflexivity|]. split; assumption.
  - (* OGetLen *) unfold get_len. rewrite (rep_len o t Ho).
    eexists _, _. split; [reflexivity|]. split; [reflexivity|]. split; assumption.
  - (* OGetSize *) eexists _, _. split; [reflexivity|]. split; [reflexivity|]. split; assumption.
  - (* OSetSame *) rewrite set_same.
    eexists _, _. split; [reflexivity|]. split; [reflexivity|]. split; assumption.
Qed.

(* ---------------- all histories ---------------- *)
Lemma run_ok ops :
  forall st ss, srep st ss -> Forall op_ok ops ->
  exists outs st', run st ops = Ok (outs, st') /\
                   map erase outs = fst (srun ss ops) /\ srep st' (snd (srun ss ops)).
Proof.
  induction ops as [|p ps IH]; intros st ss Hs Hok.
  - exists [], st. cbn. auto.
  - inversion Hok as [|? ? Hp Hps]; subst.
    destruct (step_ok st ss p Hs Hp) as (out & st1 & Hstep & Hout & Hs1).
    cbn [run srun]. rewrite Hstep. cbn [bind].
    destruct (sstep ss p) as [r ss1] eqn:E. cbn [fst snd] in *.
    destruct (IH st1 ss1 Hs1 Hps) as (outs & st2 & Hrun & Houts & Hs2).
    rewrite Hrun. cbn [bind].
    destruct (srun ss1 ps) as [rs ss2] eqn:E2. cbn [fst snd] in *.
    exists (out :: outs), st2. split; [reflexivity|]. split; [cbn [map]; now rewrite Hout, Houts|assumption].
Qed.

Definition inv_state (st : mstate) : Prop :=
  inv (fst st) /\ match snd st with Some x => inv x | None => True end.
Definition abs_state (st : mstate) : sstate :=
  (abs (fst st), match snd st with Some x => Some (abs x) | None => None end).

Lemma srep_inv_abs st ss : srep st ss -> inv_state st /\ abs_state st = ss.
Proof.
  destruct st as [o other], ss as [t ot]. intros [Ho Hx]. cbn [fst snd] in *.
  unfold inv_state, abs_state. cbn [fst snd].
  destruct other as [x|], ot as [xt|]; cbn in Hx; try contradiction.
  - split; [split; eapply rep_inv; eauto|]. now rewrite (rep_abs _ _ Ho), (rep_abs _ _ Hx).
  - split; [split; [eapply rep_inv; eauto|exact I]|]. now rewrite (rep_abs _ _ Ho).
Qed.

Theorem str_refines c ops :
  ctor_ok c -> Forall op_ok ops ->
  exists outs st,
    run_model c ops = Ok (outs, st) /\
    map erase outs = fst (spec_run c ops) /\
    abs_state st = snd (spec_run c ops) /\
    inv_state st.
Proof.
  intros Hc Hops. unfold run_model, spec_run.
  destruct (construct_ok c Hc) as (o & -> & Hr). cbn [bind].
  destruct (run_ok ops (o, None) (spec_construct c, None)) as (outs & st & Hrun & Houts & Hs);
    [split; [assumption|exact I]|assumption|].
  destruct (srep_inv_abs _ _ Hs) as [Hinv Habs].
  exists outs, st. auto.
Qed.

Corollary str_no_fault c ops :
  ctor_ok c -> Forall op_ok ops -> is_ok (run_model c ops) = true.
Proof.
  intros Hc Hops. destruct (str_refines c ops Hc Hops) as (outs & st & -> & _). reflexivity.
Qed.

(* ---------------- refusals leave the object as it is ---------------- *)
Lemma norm_idx_outside len idx : idx < - len \/ len <= idx -> norm_idx len idx = None.
Proof. intros H. unfold norm_idx. zcases; try reflexivity; exfalso; lia. Qed.

Theorem str_refused_unchanged o t idx cnt :
  rep o t -> idx < - zlen t \/ zlen t <= idx ->
  (forall a, splice_from_ptr o idx cnt a = Ok (false, o)) /\
  (forall x, splice o idx cnt x = Ok (false, o)) /\
  substr o idx cnt = Ok None /\
  substr_to_ptr o idx cnt = Ok None.
Proof.
  intros Hrep Hout. pose proof (norm_idx_outside _ _ Hout) as Hn.
  repeat split; intros;
    unfold splice_from_ptr, splice, splice_cells, substr, substr_to_ptr;
    rewrite ?(splice_args_spec o t idx cnt Hrep), ?(substr_args_spec o t idx cnt Hrep), Hn; reflexivity.
Qed.

(* any refusal (also a bad count) leaves the value and the very same buffer *)
Theorem str_refusal_exact o t idx cnt ins :
  rep o t -> spec_splice t idx cnt ins = None ->
  forall cells, splice_cells o idx cnt cells = Ok (false, o).
Proof.
  intros Hrep Hs cells. unfold splice_cells. rewrite (splice_args_spec o t idx cnt Hrep).
  unfold spec_splice in Hs. destruct (norm_idx (zlen t) idx); [|reflexivity].
  destruct (splice_cnt (zlen t) z cnt); [discriminate|reflexivity].
Qed.

(* ---------------- the invariant alone determines the representation ---------------- *)
Lemma cells_text n :
  forall b, (forall i, (i < n)%nat -> exists c, rdn b i = Ok c /\ nz_byte c) -> rdn b n = Ok 0 ->
            exists t junk, b = cstr t junk /\ Forall nz_byte t /\ length t = n.
Proof.
  induction n as [|n IH]; intros b Hcells Hnul.
  - destruct b as [|[c|] b]; cbn in Hnul; try discriminate.
    injection Hnul as ->. exists [], b. repeat split. constructor.
  - destruct (Hcells O ltac:(lia)) as (c & Hc & Hnz).
    destruct b as [|[c'|] b]; cbn in Hc; try discriminate. injection Hc as ->.
    destruct (IH b) as (t & junk & -> & Ht & Hl).
    + intros i Hi. destruct (Hcells (S i) ltac:(lia)) as (c' & Hc' & Hnz'). exists c'. split; assumption.
    + exact Hnul.
    + exists (c :: t), junk. repeat split; [now constructor|cbn; now rewrite Hl].
Qed.

Lemma inv_rep o : inv o -> rep o (abs o).
Proof.
  intros [(Hs & Hl & Hz)|(b & Hs & Hrange & Hsize & Hcells & Hnul)].
  - destruct o as [s l z]. cbn in *. subst. cbn. apply rep_empty.
  - destruct (cells_text (Z.to_nat (str_len o)) b) as (t & junk & -> & Hnz & Hlen).
    + intros i Hi. destruct (Hcells (Z.of_nat i) ltac:(lia)) as (c & Hc & Hcnz).
      exists c. split; [|assumption]. unfold rd in Hc.
      destruct (Z.ltb_spec (Z.of_nat i) 0); [lia|]. now rewrite Nat2Z.id in Hc.
    + unfold rd in Hnul. destruct (Z.ltb_spec (str_len o) 0); [lia|]. exact Hnul.
    + destruct o as [s l z]. cbn in *. subst s.
      assert (l = zlen t) by (unfold zlen; lia). subst l.
      unfold abs. cbn [str_str str_s]. rewrite take_str_cstr by assumption.
      eapply rep_intro; [assumption|reflexivity|reflexivity|rewrite Hsize; now zl].
Qed.

Definition oinv (x : option str) : Prop := match x with Some y => inv y | None => True end.
Definition oabs (x : option str) : option (list byte) :=
  match x with Some y => Some (abs y) | None => None end.

Lemma oinv_orep x : oinv x -> orep x (oabs x).
Proof. destruct x; cbn; [apply inv_rep|auto]. Qed.

(* every query, on any object satisfying the invariant, answers as the ideal text does *)
Theorem str_queries o x :
  inv o -> oinv x ->
  let t := abs o in
  get_len o = zlen t /\
  (forall c, index_of o c = Ok (if c =? 0 then zlen t else spec_index t c)) /\
  (forall c, rindex_of o c = Ok (if c =? 0 then zlen t else spec_rindex t c)) /\
  find o x = Ok (match oabs x with Some b => spec_find t b | None => -1 end) /\
  (forall a, find_from_ptr o a = Ok (match a with Some b => spec_find t b | None => -1 end)) /\
  (forall k, cmp k o x = Ok (match oabs x with Some b => cmp_bytes k t b | None => 1 end)) /\
  (forall k a, cmp_with_ptr k o a = Ok (match a with Some b => cmp_bytes k t b | None => 1 end)) /\
  (forall base, to_num o base = Ok (strtoul_l t base)) /\
  to_float_arg o = Ok t /\
  (forall idx cnt, substr_to_ptr o idx cnt =
                   Ok (match spec_substr t idx cnt with Some s => Some (cstr s []) | None => None end)) /\
  (forall idx cnt, exists r, substr o idx cnt = Ok r /\
                   oinv r /\ oabs r = spec_substr t idx cnt).
Proof.
  intros Ho Hx t. pose proof (inv_rep o Ho) as Hr. pose proof (oinv_orep x Hx) as Hxr. fold t in Hr.
  split; [apply (rep_len _ _ Hr)|].
  split; [intros; now apply index_ok|]. split; [intros; now apply rindex_ok|].
  split; [now apply find_ok|]. split; [intros; now apply find_from_ptr_ok|].
  split; [intros; now apply cmp_ok|]. split; [intros; now apply cmp_with_ptr_ok|].
  split; [intros; now apply to_num_ok|]. split; [now apply to_float_ok|].
  split; [intros; now apply substr_to_ptr_ok|].
  intros idx cnt. destruct (substr_ok o t idx cnt Hr) as (r & Hrun & Hspec). exists r. split; [assumption|].
  destruct (spec_substr t idx cnt) as [s|].
  - destruct Hspec as (o' & -> & Ho'). cbn. split; [eapply rep_inv; eauto|]. now rewrite (rep_abs _ _ Ho').
  - subst r. cbn. auto.
Qed.

(* the stream constructors, for every stream / schedule and every chunk size *)
Theorem str_stream_fp inc stream :
  2 <= inc -> Forall nz_byte stream ->
  exists o, init_from_fp_gen inc stream = Ok o /\ inv o /\ abs o = first_line stream.
Proof.
  intros Hinc Hst. destruct (init_from_fp_gen_ok inc Hinc stream Hst) as (o & Ho & Hr).
  exists o. split; [assumption|]. split; [eapply rep_inv; eauto|now apply rep_abs].
Qed.

Theorem str_stream_fd inc sched :
  1 <= inc -> sched_ok sched ->
  exists o, init_from_fd_gen inc sched = Ok o /\ inv o /\ abs o = delivered sched.
Proof.
  intros Hinc Hs. destruct (init_from_fd_gen_ok inc ltac:(lia) sched Hs) as (o & Ho & Hr).
  exists o. split; [assumption|]. split; [eapply rep_inv; eauto|now apply rep_abs].
Qed.

(* the refusal theorem on objects given by the invariant *)
Theorem str_refused_unchanged_inv o idx cnt :
  inv o -> idx < - zlen (abs o) \/ zlen (abs o) <= idx ->
  (forall a, splice_from_ptr o idx cnt a = Ok (false, o)) /\
  (forall x, splice o idx cnt x = Ok (false, o)) /\
  substr o idx cnt = Ok None /\
  substr_to_ptr o idx cnt = Ok None.
Proof. intros Ho. apply str_refused_unchanged. now apply inv_rep. Qed.
