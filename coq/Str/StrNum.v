(* Numeric conversion round trip: the decimal text produced by init_from_num for a non-negative
   number that fits an unsigned long is read back by to_num(…, 10) as that number.  This ties
   the two libc models used by C01 (snprintf "%ld" and strtoul) to each other. *)
From LV Require Import Base.Buf Strings.HelpersModel Str.StrModel Str.StrSpec Str.BufLemmas Str.StrOps.
Local Open Scope Z_scope.

Definition isdig (c : byte) : Prop := 48 <= c <= 57.

Fixpoint val (l : list byte) (a : Z) : Z :=
  match l with [] => a | c :: r => val r (a * 10 + (c - 48)) end.

Lemma val_app l r a : val (l ++ r) a = val r (val l a).
Proof. revert a; induction l as [|c l IH]; intros a; cbn; [reflexivity|apply IH]. Qed.

Lemma val_ge l a : Forall isdig l -> 0 <= a -> a <= val l a.
Proof.
  intros H. revert a. induction H as [|c l Hc Hl IH]; intros a Ha; cbn; [lia|].
  unfold isdig in Hc. specialize (IH (a * 10 + (c - 48)) ltac:(lia)). lia.
Qed.

Lemma digit_val_dig c : isdig c -> digit_val c = Some (c - 48).
Proof.
  unfold isdig, digit_val, isdigit. intros H.
  destruct (Z.leb_spec 48 c); [|lia]. destruct (Z.leb_spec c 57); [|lia]. reflexivity.
Qed.

Lemma strtoul_digits_val l :
  Forall isdig l -> forall a s, 0 <= a -> val l a <= ulong_max ->
  strtoul_digits 10 l a false s = (val l a, false, s || negb (match l with [] => true | _ => false end)).
Proof.
  induction 1 as [|c l Hc Hl IH]; intros a s Ha Hmax; cbn [strtoul_digits val].
  - now rewrite orb_false_r.
  - cbn [val] in Hmax. rewrite (digit_val_dig c Hc). unfold isdig in Hc.
    destruct (Z.ltb_spec (c - 48) 10); [|lia]. cbn [orb].
    assert (Hle : a * 10 + (c - 48) <= val l (a * 10 + (c - 48))) by (apply val_ge; [assumption|lia]).
    rewrite Z.gtb_ltb. destruct (Z.ltb_spec ulong_max (a * 10 + (c - 48))); [lia|].
    rewrite IH by (try assumption; lia). cbn [negb]. rewrite orb_true_r.
    destruct l; cbn; reflexivity.
Qed.

Lemma dec_digits_shape :
  forall fuel n acc, 0 <= n < 10 ^ Z.of_nat (S fuel) ->
  exists D, dec_digits (S fuel) n acc = D ++ acc /\ Forall isdig D /\ D <> [] /\
            forall a, val D a = a * 10 ^ Z.of_nat (length D) + n.
Proof.
  induction fuel as [|f IH]; intros n acc Hn.
  - change (10 ^ Z.of_nat 1) with 10 in Hn. cbn [dec_digits].
    rewrite Z.div_small by lia. cbn [Z.eqb]. rewrite Z.mod_small by lia.
    exists [48 + n]. split; [reflexivity|]. split; [constructor; [unfold isdig; lia|constructor]|].
    split; [congruence|]. intros a. cbn [val length]. change (Z.of_nat 1) with 1. rewrite Z.pow_1_r. lia.
  - cbn [dec_digits]. pose proof (Z.mod_pos_bound n 10 ltac:(lia)) as Hm.
    destruct (Z.eqb_spec (n / 10) 0) as [E|E].
    + assert (n < 10) by (apply Z.div_small_iff in E; lia).
      rewrite Z.mod_small by lia.
      exists [48 + n]. split; [reflexivity|]. split; [constructor; [unfold isdig; lia|constructor]|].
      split; [congruence|]. intros a. cbn [val length]. change (Z.of_nat 1) with 1. rewrite Z.pow_1_r. lia.
    + assert (Hq : 0 <= n / 10 < 10 ^ Z.of_nat (S f)).
      { split; [apply Z.div_pos; lia|]. apply Z.div_lt_upper_bound; [lia|].
        replace (Z.of_nat (S (S f))) with (Z.of_nat (S f) + 1) in Hn by lia.
        rewrite Z.pow_add_r in Hn by lia. lia. }
      destruct (IH (n / 10) ((48 + n mod 10) :: acc) Hq) as (D & HD & Hdig & Hne & Hval).
      cbn [dec_digits] in HD.
      exists (D ++ [48 + n mod 10]). split.
      * cbn [dec_digits]. rewrite HD. now rewrite <- app_assoc.
      * split; [apply Forall_app; split; [assumption|constructor; [unfold isdig; lia|constructor]]|].
        split; [destruct D; cbn; congruence|].
        intros a. rewrite val_app, Hval. cbn [val]. rewrite app_length. cbn [length].
        replace (Z.of_nat (length D + 1)) with (Z.of_nat (length D) + 1) by lia.
        rewrite Z.pow_add_r by lia. pose proof (Z.div_mod n 10 ltac:(lia)). lia.
Qed.

Lemma dropwhile_digit c r : isdig c -> dropwhile isspace (c :: r) = c :: r.
Proof.
  unfold isdig. intros H. cbn [dropwhile]. unfold isspace.
  destruct (Z.leb_spec 9 c), (Z.leb_spec c 13), (Z.eqb_spec c 32); try lia; reflexivity.
Qed.

Theorem num_round_trip n :
  0 <= n <= ulong_max -> strtoul_l (dec_repr n) 10 = n.
Proof.
  intros Hn. unfold dec_repr. destruct (Z.ltb_spec n 0); [lia|].
  destruct (dec_digits_shape 19 n []) as (D & HD & Hdig & Hne & Hval).
  { unfold ulong_max in Hn. change (10 ^ Z.of_nat 20) with 100000000000000000000. lia. }
  rewrite app_nil_r in HD. rewrite HD.
  destruct D as [|c D]; [congruence|].
  inversion Hdig as [|? ? Hc HD']; subst.
  unfold strtoul_l. change ((10 <? 0) || (10 =? 1) || (10 >? 36)) with false. cbv iota.
  rewrite dropwhile_digit by assumption.
  assert (Hc45 : c <> 45 /\ c <> 43) by (unfold isdig in Hc; lia).
  replace (match c :: D with
           | 45 :: r => (true, r)
           | 43 :: r => (false, r)
           | _ => (false, c :: D)
           end) with (false, c :: D).
  2:{ destruct Hc45. unfold isdig in Hc.
      destruct c as [|p|p]; try lia.
      do 6 (destruct p as [p|p|]; try reflexivity; try lia). }
  change (((10 =? 0) || (10 =? 16)) && has_hex_prefix (c :: D)) with false.
  change (10 =? 0) with false. cbv iota beta.
  specialize (Hval 0). rewrite Z.mul_0_l, Z.add_0_l in Hval.
  rewrite strtoul_digits_val by (try assumption; lia). rewrite Hval. reflexivity.
Qed.

(* the same through the objects: to_num (init_from_num n) 10 = n *)
Corollary num_object_round_trip n :
  0 <= n <= ulong_max ->
  exists o, init_from_num n = Ok o /\ to_num o 10 = Ok n.
Proof.
  intros Hn. destruct (init_from_num_ok n) as (o & Ho & Hr).
  exists o. split; [assumption|]. rewrite (to_num_ok o _ 10 Hr). now rewrite num_round_trip.
Qed.
