(* One lemma per str method: from a state representing the text t the repaired code never
   faults, returns what the ideal operation returns, and ends in a state representing the
   ideal result.  rep = the invariant of C01 + the abstraction to the ideal value. *)
From LV Require Import Base.Buf Strings.HelpersModel Strings.HelpersProofs Str.StrModel Str.StrSpec Str.BufLemmas.
Local Open Scope Z_scope.

(* an allocated object holding text t followed by arbitrary cells *)
Definition full (t : list byte) (junk : buf) : str :=
  mkstr (Some (cstr t junk)) (zlen t) (zlen t + 1 + zlen junk).

(* the invariant and the abstraction in one: o represents t *)
Definition rep (o : str) (t : list byte) : Prop :=
  Forall nz_byte t /\ ((o = empty_str /\ t = []) \/ exists junk, o = full t junk).

Lemma rep_full t junk : Forall nz_byte t -> rep (full t junk) t.
Proof. intros H. split; [assumption|]. right. now exists junk. Qed.

Lemma rep_empty : rep empty_str [].
Proof. split; [constructor|]. left. auto. Qed.

Lemma rep_intro b len size t c :
  Forall nz_byte t -> b = cstr t c -> len = zlen t -> size = zlen t + 1 + zlen c ->
  rep (mkstr (Some b) len size) t.
Proof. intros H -> -> ->. now apply rep_full. Qed.

Lemma rep_nz o t : rep o t -> Forall nz_byte t.
Proof. now intros [H _]. Qed.

Ltac lens_rw :=
  repeat rewrite ?app_length, ?repeat_length, ?bytes_length, ?map_length, ?rev_length,
                 ?firstn_length, ?skipn_length in *;
  cbn [length] in *.
Ltac lens :=
  unfold buf, cell, cstr_cells, cstr, zlen in *;
  lens_rw; lens_rw; lens_rw; unfold buf, cell, zlen in *; lia.

Ltac zl := unfold buf, cell in *; autorewrite with zl in *; unfold buf, cell in *.

Lemma cstr_app t x c : bytes t ++ cstr_cells x ++ c = cstr (t ++ x) c.
Proof. unfold cstr, cstr_cells. rewrite bytes_app, <- !app_assoc. reflexivity. Qed.

Lemma cstr_cells_app x c : cstr_cells x ++ c = cstr x c.
Proof. unfold cstr, cstr_cells. rewrite <- app_assoc. reflexivity. Qed.

Lemma str_str_full t junk : str_str (full t junk) = cstr t junk.
Proof. reflexivity. Qed.

(* reading the text of a represented object through SPIF_STR_STR *)
Lemma read_rep o t : rep o t -> read_cstr (str_str o) = Ok t.
Proof.
  intros [Hnz [[-> ->]|[junk ->]]]; [reflexivity|]. now apply read_cstr_cstr.
Qed.

Lemma rep_len o t : rep o t -> str_len o = zlen t.
Proof. intros [_ [[-> ->]|[junk ->]]]; reflexivity. Qed.

(* ---------------- constructors ---------------- *)
Lemma init_from_ptr_some t :
  Forall nz_byte t -> exists o, init_from_ptr (Some t) = Ok o /\ rep o t.
Proof.
  intros H. unfold init_from_ptr. pose proof (zlen_nonneg t).
  rewrite malloc_ok by lia. cbn [bind].
  rewrite <- (app_nil_r (repeat None _)).
  rewrite putz_front by (rewrite repeat_length; unfold cstr_cells; rewrite app_length, bytes_length; cbn [length]; unfold zlen; lia).
  cbn [bind]. eexists. split; [reflexivity|].
  eapply rep_intro with (c := []); [assumption|now rewrite cstr_cells_app|reflexivity|lens].
Qed.

(* ---------------- growing the buffer (append / prepend) ---------------- *)

Lemma nonempty_pos (x : list byte) : x <> [] -> 0 < zlen x.
Proof. destruct x; [congruence|]. intros _. unfold zlen. cbn [length]. lia. Qed.

(* REALLOC to the grown capacity keeps the characters and leaves room for olen more and the NUL *)
Lemma grow_buf o t add olen :
  rep o t -> 0 < olen -> olen <= add ->
  exists tl, realloc (str_s o) (grow_size o add olen) = Ok (Some (bytes t ++ tl)) /\
             zlen tl = grow_size o add olen - zlen t /\
             zlen t + olen + 1 <= grow_size o add olen.
Proof.
  intros [Hnz [[-> ->]|[junk ->]]] Hpos Hadd.
  - unfold grow_size. cbn [str_size str_len empty_str str_s].
    exists (repeat None (Z.to_nat (if 0 + add <=? 0 + olen then 0 + olen + 1 else 0 + add))).
    destruct (Z.leb_spec (0 + add) (0 + olen)); (rewrite realloc_none by lia);
      (split; [reflexivity|split; [lens|lens]]).
  - unfold grow_size, full. cbn [str_size str_len str_s].
    pose proof (zlen_nonneg junk). pose proof (zlen_nonneg t).
    destruct (Z.leb_spec (zlen t + 1 + zlen junk + add) (zlen t + olen)); [lia|].
    rewrite realloc_grow; [| lens | lens].
    eexists. unfold cstr. rewrite <- app_assoc. split; [reflexivity|]. split; lens.
Qed.

(* a grown buffer with the new text x written behind the old one *)
Lemma put_after t tl x :
  zlen x + 1 <= zlen tl ->
  exists c, putz (bytes t ++ tl) (zlen t) (cstr_cells x) = Ok (cstr (t ++ x) c) /\
            zlen c = zlen tl - zlen x - 1.
Proof.
  intros H. exists (skipn (length (cstr_cells x)) tl). split.
  - rewrite putz_tail; [now rewrite cstr_app|now zl|lens].
  - lens.
Qed.

Lemma append_from_ptr_ok o t x :
  rep o t -> Forall nz_byte x ->
  exists o', append_from_ptr o (Some x) = Ok (true, o') /\ rep o' (t ++ x).
Proof.
  intros Hrep Hx. unfold append_from_ptr.
  destruct (Z.eqb_spec (zlen x) 0) as [E|E]; cbn [negb].
  - destruct x; [|zl; pose proof (zlen_nonneg x); lia]. rewrite app_nil_r. eauto.
  - assert (Hp : 0 < zlen x) by (pose proof (zlen_nonneg x); lia).
    destruct (grow_buf o t (zlen x) (zlen x) Hrep Hp ltac:(lia)) as (tl & -> & Htl & Hsz).
    cbn [bind deref]. rewrite (rep_len _ _ Hrep).
    destruct (put_after t tl x ltac:(lia)) as (c & -> & Hc). cbn [bind].
    eexists. split; [reflexivity|].
    eapply rep_intro; [apply Forall_nz_app; [eapply rep_nz; eauto|assumption]|reflexivity|now zl|lens].
Qed.

Lemma str_str_cells x xt : rep x xt -> exists junk, str_str x = cstr_cells xt ++ junk.
Proof.
  intros [_ [[-> ->]|[junk ->]]]; [now exists []|].
  exists junk. cbn. now rewrite cstr_cells_app.
Qed.

Lemma append_ok o t x xt :
  rep o t -> rep x xt ->
  exists o', append o (Some x) = Ok (true, o') /\ rep o' (t ++ xt).
Proof.
  intros Hrep Hx. unfold append.
  destruct Hx as [Hxnz [[-> ->]|[junk ->]]].
  - cbn. rewrite app_nil_r. eauto.
  - unfold full, str_str. cbn [str_size str_len str_s].
    pose proof (zlen_nonneg junk). pose proof (zlen_nonneg xt).
    destruct (Z.eqb_spec (zlen xt + 1 + zlen junk) 0); [lia|]. cbn [negb andb].
    destruct (Z.eqb_spec (zlen xt) 0) as [E|E]; cbn [negb].
    + destruct xt; [|zl; pose proof (zlen_nonneg xt); lia]. rewrite app_nil_r. eauto.
    + destruct (grow_buf o t (zlen xt + 1 + zlen junk - 1) (zlen xt) Hrep ltac:(lia) ltac:(lia))
        as (tl & -> & Htl & Hsz).
      cbn [bind deref]. rewrite <- cstr_cells_app.
      rewrite getz_front by now zl. cbn [bind]. rewrite (rep_len _ _ Hrep).
      destruct (put_after t tl xt ltac:(lia)) as (c & -> & Hc). cbn [bind].
      eexists. split; [reflexivity|].
      eapply rep_intro; [apply Forall_nz_app; [eapply rep_nz; eauto|assumption]|reflexivity|now zl|lens].
Qed.

(* ---------------- append_char / prepend* ---------------- *)
(* the capacity step of append_char / prepend_char *)
Lemma char_buf o t :
  rep o t ->
  exists tl size,
    (if str_size o <=? str_len o + 1
     then (s' <- realloc (str_s o) (str_len o + 1 + 1) ;; Ok (s', str_len o + 1 + 1))
     else Ok (str_s o, str_size o)) = Ok (Some (bytes t ++ tl), size) /\
    zlen tl = size - zlen t /\ zlen t + 2 <= size.
Proof.
  intros [Hnz [[-> ->]|[junk ->]]].
  - cbn [str_size str_len str_s empty_str]. cbn [Z.leb Z.compare Z.add].
    rewrite realloc_none by lia. cbn [bind].
    exists (repeat None (Z.to_nat 2)), 2. split; [reflexivity|]. split; lens.
  - unfold full. cbn [str_size str_len str_s].
    pose proof (zlen_nonneg junk). pose proof (zlen_nonneg t).
    destruct (Z.leb_spec (zlen t + 1 + zlen junk) (zlen t + 1)).
    + rewrite realloc_grow; [| lens | lens]. cbn [bind].
      eexists _, _. unfold cstr. rewrite <- app_assoc. split; [reflexivity|]. split; lens.
    + eexists _, _. unfold cstr. split; [reflexivity|]. split; lens.
Qed.

Lemma append_char_ok o t c :
  rep o t -> nz_byte c ->
  exists o', append_char o c = Ok (true, o') /\ rep o' (t ++ [c]).
Proof.
  intros Hrep Hc. unfold append_char.
  destruct (char_buf o t Hrep) as (tl & size & -> & Htl & Hsz). cbn [bind deref].
  rewrite (rep_len _ _ Hrep).
  destruct tl as [|y [|z c']]; [lens|lens|].
  replace (zlen t + 1 - 1) with (zlen t) by lia.
  rewrite wr_app by now zl. cbn [bind].
  change (bytes t ++ Some c :: z :: c') with (bytes t ++ [Some c] ++ z :: c').
  rewrite app_assoc. rewrite wr_app by (lens). cbn [bind].
  eexists. split; [reflexivity|].
  eapply rep_intro with (c := c');
    [apply Forall_nz_app; [eapply rep_nz; eauto|now constructor]| |lens|lens].
  unfold cstr. rewrite bytes_app. reflexivity.
Qed.

Lemma wr_as_putz b i v : 0 <= i < zlen b -> wr b i v = putz b i [Some v].
Proof.
  intros H. rewrite wr_at by assumption. rewrite putz_at by (lens).
  cbn [length app]. repeat f_equal. lia.
Qed.

(* in a buffer holding t followed by room for x and the NUL: shift t, put x in front, terminate *)
Lemma prepend_tail t tl x :
  zlen x + 1 <= zlen tl ->
  exists b1 b2 c,
    memmovez (bytes t ++ tl) (zlen x) 0 (zlen t) = Ok b1 /\
    putz b1 0 (bytes x) = Ok b2 /\
    0 <= zlen x < zlen b1 /\
    wr b2 (zlen t + zlen x) 0 = Ok (cstr (x ++ t) c) /\
    zlen c = zlen tl - zlen x - 1.
Proof.
  intros H. set (b := bytes t ++ tl). pose proof (zlen_nonneg x). pose proof (zlen_nonneg t).
  assert (Hb : zlen b = zlen t + zlen tl) by (subst b; now zl).
  unfold memmovez. subst b. rewrite getz_front by now zl. cbn [bind]. set (b := bytes t ++ tl) in *.
  rewrite putz_at by (lens). rewrite to_nat_zlen, bytes_length.
  destruct (skipn_cons_ex b (length x + length t)) as (y & c & Hsk & Hc); [lens|].
  rewrite Hsk.
  eexists _, _, c. split; [reflexivity|]. split.
  - apply putz_front. clear Hsk. subst b. lens.
  - split; [clear Hsk; subst b; lens|]. split.
    + rewrite app_assoc. rewrite wr_app by (lens).
      unfold cstr. rewrite bytes_app, <- app_assoc. reflexivity.
    + clear Hsk. subst b. lens.
Qed.

Lemma prepend_from_ptr_ok o t x :
  rep o t -> Forall nz_byte x ->
  exists o', prepend_from_ptr o (Some x) = Ok (true, o') /\ rep o' (x ++ t).
Proof.
  intros Hrep Hx. unfold prepend_from_ptr.
  destruct (Z.eqb_spec (zlen x) 0) as [E|E]; cbn [negb].
  - destruct x; [|zl; pose proof (zlen_nonneg x); lia]. eauto.
  - assert (Hp : 0 < zlen x) by (pose proof (zlen_nonneg x); lia).
    destruct (grow_buf o t (zlen x) (zlen x) Hrep Hp ltac:(lia)) as (tl & -> & Htl & Hsz).
    cbn [bind deref]. rewrite (rep_len _ _ Hrep).
    destruct (prepend_tail t tl x ltac:(lia)) as (b1 & b2 & c & Hmm & Hput & _ & Hwr & Hc).
    rewrite Hmm. cbn [bind]. rewrite Hput. cbn [bind]. rewrite Hwr. cbn [bind].
    eexists. split; [reflexivity|].
    eapply rep_intro; [apply Forall_nz_app; [assumption|eapply rep_nz; eauto]|reflexivity|lens|lens].
Qed.

Lemma prepend_ok o t x xt :
  rep o t -> rep x xt ->
  exists o', prepend o (Some x) = Ok (true, o') /\ rep o' (xt ++ t).
Proof.
  intros Hrep Hx. unfold prepend.
  destruct Hx as [Hxnz [[-> ->]|[junk ->]]].
  - cbn. eauto.
  - unfold full, str_str. cbn [str_size str_len str_s].
    pose proof (zlen_nonneg junk). pose proof (zlen_nonneg xt).
    destruct (Z.eqb_spec (zlen xt + 1 + zlen junk) 0); [lia|]. cbn [negb andb].
    destruct (Z.eqb_spec (zlen xt) 0) as [E|E]; cbn [negb].
    + destruct xt; [|zl; pose proof (zlen_nonneg xt); lia]. eauto.
    + destruct (grow_buf o t (zlen xt + 1 + zlen junk - 1) (zlen xt) Hrep ltac:(lia) ltac:(lia))
        as (tl & -> & Htl & Hsz).
      cbn [bind deref]. rewrite (rep_len _ _ Hrep).
      destruct (prepend_tail t tl xt ltac:(lia)) as (b1 & b2 & c & Hmm & Hput & _ & Hwr & Hc).
      rewrite Hmm. cbn [bind].
      unfold cstr at 1. rewrite getz_front by now zl. cbn [bind].
      rewrite Hput. cbn [bind]. rewrite Hwr. cbn [bind].
      eexists. split; [reflexivity|].
      eapply rep_intro; [apply Forall_nz_app; [assumption|eapply rep_nz; eauto]|reflexivity|lens|lens].
Qed.

Lemma prepend_char_ok o t c :
  rep o t -> nz_byte c ->
  exists o', prepend_char o c = Ok (true, o') /\ rep o' (c :: t).
Proof.
  intros Hrep Hc. unfold prepend_char.
  destruct (char_buf o t Hrep) as (tl & size & -> & Htl & Hsz). cbn [bind deref].
  rewrite (rep_len _ _ Hrep).
  replace (zlen t + 1 - 1) with (zlen t) by lia.
  destruct (prepend_tail t tl [c] ltac:(lens)) as (b1 & b2 & c' & Hmm & Hput & Hrng & Hwr & Hc').
  change (zlen [c]) with 1 in *. rewrite Hmm. cbn [bind].
  rewrite wr_as_putz by lia. change (bytes [c]) with [Some c] in Hput. rewrite Hput. cbn [bind].
  rewrite Hwr. cbn [bind].
  eexists. split; [reflexivity|].
  eapply rep_intro; [constructor; [assumption|eapply rep_nz; eauto]|reflexivity|lens|lens].
Qed.

(* ---------------- done / dup / clear / case / sprintf ---------------- *)
Lemma done_ok o t : rep o t -> rep (str_done o) [].
Proof.
  intros [Hnz [[-> ->]|[junk ->]]]; [apply rep_empty|].
  unfold str_done, full. cbn [str_size]. pose proof (zlen_nonneg junk). pose proof (zlen_nonneg t).
  destruct (Z.eqb_spec (zlen t + 1 + zlen junk) 0); [lia|apply rep_empty].
Qed.

(* a fresh block of n cells, the first ones filled with cs, then a NUL *)
Lemma fill_new n cs :
  zlen cs < n ->
  exists b1, putz (repeat None (Z.to_nat n)) 0 cs = Ok b1 /\
             wr b1 (zlen cs) 0 = Ok (cs ++ Some 0 :: repeat None (Z.to_nat (n - zlen cs - 1))).
Proof.
  intros H. pose proof (zlen_nonneg cs).
  replace (Z.to_nat n) with (length cs + S (Z.to_nat (n - zlen cs - 1)))%nat by (unfold zlen in *; lia).
  rewrite repeat_app. eexists. split.
  - apply putz_front. now rewrite repeat_length.
  - cbn [repeat]. now rewrite wr_app.
Qed.

Lemma dup_ok o t : rep o t -> exists x, dup o = Ok x /\ rep x t.
Proof.
  intros [Hnz [[-> ->]|[junk ->]]].
  - eexists. split; [reflexivity|apply rep_empty].
  - unfold dup, full. cbn [str_s str_len str_size].
    pose proof (zlen_nonneg junk). pose proof (zlen_nonneg t).
    rewrite malloc_ok by lia. cbn [bind].
    rewrite <- cstr_cells_app. rewrite getz_front by now zl. cbn [bind].
    replace (Z.to_nat (zlen t + 1 + zlen junk)) with (length (cstr_cells t) + length junk)%nat by lens.
    rewrite repeat_app. rewrite putz_front by now rewrite repeat_length. cbn [bind].
    eexists. split; [reflexivity|].
    eapply rep_intro; [assumption|now rewrite cstr_cells_app|reflexivity|lens].
Qed.

Lemma bytes_repeat c n : bytes (repeat c n) = repeat (Some c) n.
Proof. unfold bytes. induction n; cbn; [reflexivity|now f_equal]. Qed.

Lemma clear_ok o t c :
  rep o t -> nz_byte c -> exists o', clear o c = Ok (true, o') /\ rep o' (repeat c (length t)).
Proof.
  intros [Hnz [[-> ->]|[junk ->]]] Hc.
  - eexists. split; [reflexivity|apply rep_empty].
  - unfold clear, full. cbn [str_s str_len str_size].
    replace (Z.to_nat (zlen t + 1 + zlen junk)) with (length t + S (length junk))%nat by lens.
    rewrite <- (app_nil_r (cstr t junk)).
    rewrite putz_front by (rewrite repeat_length; lens). cbn [bind].
    rewrite app_nil_r, repeat_app. cbn [repeat].
    rewrite wr_app by (zl; reflexivity). cbn [bind].
    eexists. split; [reflexivity|].
    eapply rep_intro with (c := repeat (Some c) (length junk));
      [apply Forall_forall; intros y Hy; apply repeat_spec in Hy; now subst
      |unfold cstr; now rewrite bytes_repeat|zl; reflexivity|lens].
Qed.

Lemma Forall_nz_map f t : (forall c, nz_byte c -> nz_byte (f c)) -> Forall nz_byte t -> Forall nz_byte (map f t).
Proof. intros Hf H. induction H; cbn; constructor; auto. Qed.

Lemma case_map_ok f o t :
  (forall c, nz_byte c -> nz_byte (f c)) ->
  rep o t -> exists o', case_map f o = Ok (true, o') /\ rep o' (map f t).
Proof.
  intros Hf [Hnz [[-> ->]|[junk ->]]].
  - eexists. split; [reflexivity|apply rep_empty].
  - unfold case_map, full. cbn [str_s str_len str_size].
    rewrite map_str_exact by assumption. cbn [bind].
    eexists. split; [reflexivity|].
    eapply rep_intro; [now apply Forall_nz_map|reflexivity|now zl|lens].
Qed.

Lemma sprintf_reset o t :
  rep o t -> match str_s o with Some _ => str_done o | None => o end = empty_str.
Proof.
  intros [Hnz [[-> ->]|[junk ->]]]; [reflexivity|].
  unfold full, str_done. cbn [str_s str_size]. pose proof (zlen_nonneg junk). pose proof (zlen_nonneg t).
  destruct (Z.eqb_spec (zlen t + 1 + zlen junk) 0); [lia|reflexivity].
Qed.

Lemma new_text_ok t :
  Forall nz_byte t ->
  exists b', (b <- malloc (zlen t + 1) ;; putz b 0 (cstr_cells t)) = Ok b' /\
             rep (mkstr (Some b') (zlen t) (zlen t + 1)) t.
Proof.
  intros H. pose proof (zlen_nonneg t). rewrite malloc_ok by lia. cbn [bind].
  rewrite <- (app_nil_r (repeat None _)).
  rewrite putz_front by (rewrite repeat_length; lens).
  eexists. split; [reflexivity|].
  eapply rep_intro with (c := []); [assumption|now rewrite cstr_cells_app|reflexivity|lens].
Qed.

Lemma sprintf_ok o t f :
  rep o t -> match f with FmtText x => Forall nz_byte x | _ => True end ->
  exists o', sprintf o f = Ok (match f with FmtNull => false | FmtEmpty => true
                                        | FmtText x => negb (match x with [] => true | _ => false end) end, o') /\
             rep o' (match f with FmtText x => x | _ => [] end).
Proof.
  intros Hrep Hf. unfold sprintf. rewrite (sprintf_reset o t Hrep).
  destruct f as [| |x].
  - eexists. split; [reflexivity|apply rep_empty].
  - eexists. split; [reflexivity|apply rep_empty].
  - destruct (Z.leb_spec (zlen x) 0).
    + destruct x; [|zl; pose proof (zlen_nonneg x); lia]. eexists. split; [reflexivity|apply rep_empty].
    + destruct (new_text_ok x Hf) as (b' & Hb & Hr).
      revert Hb. destruct (malloc _) as [b|]; cbn [bind]; [|discriminate]. intros ->. cbn [bind].
      destruct x; [lens|]. eexists. split; [reflexivity|exact Hr].
Qed.

(* ---------------- init_from_buff / substr ---------------- *)
Lemma firstn_bytes n t : firstn n (bytes t) = bytes (firstn n t).
Proof. unfold bytes. apply firstn_map. Qed.
Lemma skipn_bytes n t : skipn n (bytes t) = bytes (skipn n t).
Proof. unfold bytes. apply skipn_map. Qed.
Lemma Forall_nz_firstn n t : Forall nz_byte t -> Forall nz_byte (firstn n t).
Proof. intros H. revert n. induction H; intros [|n]; cbn; constructor; auto. Qed.
Lemma Forall_nz_skipn n t : Forall nz_byte t -> Forall nz_byte (skipn n t).
Proof.
  intros H. apply Forall_forall. intros x Hx. eapply Forall_forall; eauto.
  rewrite <- (firstn_skipn n t). apply in_or_app. now right.
Qed.

(* a counted buffer: the characters t, then either nothing the count reaches, or a terminator *)
Definition buff_ok (b : buf) (n : Z) : Prop :=
  exists t rest, Forall nz_byte t /\ b = bytes t ++ rest /\
                 (n <= zlen t \/ exists rest', rest = Some 0 :: rest').

Lemma buff_strnlen t rest n :
  Forall nz_byte t -> 0 <= n -> (n <= zlen t \/ exists rest', rest = Some 0 :: rest') ->
  strnlen (bytes t ++ rest) (Z.to_nat n) = Ok (Nat.min (Z.to_nat n) (length t)).
Proof.
  intros Hnz Hn [H|[rest' ->]].
  - rewrite strnlen_full by (try assumption; lens). f_equal. lens.
  - destruct (Z.le_gt_cases n (zlen t)).
    + rewrite strnlen_full by (try assumption; lens). f_equal. lens.
    + fold (cstr t rest'). rewrite strnlen_cstr_short by (try assumption; lens). f_equal. lens.
Qed.

Lemma take_str_bytes_app t rest :
  Forall nz_byte t -> take_str (bytes t ++ rest) = t ++ take_str rest.
Proof.
  induction 1 as [|c t Hc Ht IH]; [reflexivity|].
  cbn [bytes map app take_str]. rewrite (nz_byte_neq0 c Hc). fold (bytes t). now rewrite IH.
Qed.

Lemma buff_text t rest n :
  Forall nz_byte t -> 0 <= n -> (n <= zlen t \/ exists rest', rest = Some 0 :: rest') ->
  firstn (Z.to_nat n) (take_str (bytes t ++ rest)) = firstn (Nat.min (Z.to_nat n) (length t)) t.
Proof.
  intros Hnz Hn H. rewrite take_str_bytes_app by assumption.
  destruct H as [H|[rest' ->]].
  - rewrite firstn_app. replace (Z.to_nat n - length t)%nat with O by lens.
    cbn [firstn]. rewrite app_nil_r. f_equal. lens.
  - cbn [take_str]. cbn. rewrite app_nil_r.
    destruct (Z.le_gt_cases n (zlen t)).
    + f_equal. lens.
    + rewrite !firstn_all2 by lens. reflexivity.
Qed.

Lemma init_from_buff_some t rest n :
  Forall nz_byte t -> 0 <= n -> (n <= zlen t \/ exists rest', rest = Some 0 :: rest') ->
  exists o, init_from_buff (Some (bytes t ++ rest)) n = Ok o /\
            rep o (firstn (Nat.min (Z.to_nat n) (length t)) t).
Proof.
  intros Hnz Hn H. unfold init_from_buff.
  rewrite buff_strnlen by assumption. cbn [bind].
  set (k := Nat.min (Z.to_nat n) (length t)).
  set (size := if n =? Z.of_nat k then n + 1 else n).
  assert (Hk : Z.of_nat k < size).
  { subst size k. destruct (Z.eqb_spec n (Z.of_nat (Nat.min (Z.to_nat n) (length t)))); lia. }
  assert (Hkt : (k <= length t)%nat) by (subst k; lia).
  rewrite malloc_ok by lia. cbn [bind].
  rewrite getz_at; [|lia|lia|lens].
  rewrite Nat2Z.id. change (Z.to_nat 0) with O. cbn [skipn]. rewrite firstn_app, firstn_bytes.
  replace (k - length (bytes t))%nat with O by lens. cbn [firstn]. rewrite app_nil_r. cbn [bind].
  destruct (fill_new size (bytes (firstn k t))) as (b1 & Hput & Hwr).
  { zl. unfold zlen. rewrite firstn_length. lia. }
  rewrite Hput. cbn [bind].
  assert (Hz : zlen (bytes (firstn k t)) = Z.of_nat k) by (zl; unfold zlen; rewrite firstn_length; lia).
  rewrite Hz in Hwr. rewrite Hwr. cbn [bind].
  eexists. split; [reflexivity|].
  eapply rep_intro; [now apply Forall_nz_firstn|reflexivity|unfold zlen; rewrite firstn_length; lia|].
  zl. unfold zlen. rewrite firstn_length. lia.
Qed.

Lemma init_from_buff_none n :
  0 <= n -> exists o, init_from_buff None n = Ok o /\ rep o [].
Proof.
  intros Hn. unfold init_from_buff. cbn [bind].
  set (size := if n =? 0 then n + 1 else n).
  assert (0 < size) by (subst size; destruct (Z.eqb_spec n 0); lia).
  rewrite malloc_ok by lia. cbn [bind].
  replace (Z.to_nat size) with (S (Z.to_nat (size - 1))) by lia. cbn [repeat].
  change (None :: repeat None (Z.to_nat (size - 1))) with ([] ++ @None Z :: repeat None (Z.to_nat (size - 1))).
  rewrite wr_app by reflexivity. cbn [bind app]. eexists. split; [reflexivity|].
  eapply rep_intro with (t := []); [constructor|reflexivity|reflexivity|lens].
Qed.

(* ---- positions ---- *)
Ltac zcases1 :=
  rewrite ?Z.gtb_ltb, ?Z.geb_leb in *;
  repeat match goal with
         | |- context [?a <? ?b] => destruct (Z.ltb_spec a b)
         | |- context [?a <=? ?b] => destruct (Z.leb_spec a b)
         | |- context [?a =? ?b] => destruct (Z.eqb_spec a b)
         end; cbn [negb andb orb] in *.
Ltac zcases := zcases1; zcases1; zcases1.

Lemma substr_args_spec o t idx cnt :
  rep o t ->
  substr_args o idx cnt =
  match norm_idx (zlen t) idx with
  | None => None
  | Some i => match substr_cnt (zlen t) i cnt with None => None | Some c => Some (i, c) end
  end.
Proof.
  intros Hrep. unfold substr_args, norm_idx, substr_cnt. rewrite (rep_len _ _ Hrep).
  zcases; try reflexivity; try (exfalso; lia); do 2 f_equal; lia.
Qed.

Lemma norm_idx_range len idx i : norm_idx len idx = Some i -> 0 <= i < len.
Proof. unfold norm_idx. zcases; intros [= <-]; lia. Qed.
Lemma substr_cnt_range len i cnt c : 0 <= i < len -> substr_cnt len i cnt = Some c -> 0 <= c <= len - i.
Proof. unfold substr_cnt. zcases; intros Hi [= <-]; lia. Qed.
Lemma splice_cnt_range len i cnt c : splice_cnt len i cnt = Some c -> 0 <= c <= len - i.
Proof. unfold splice_cnt. zcases; intros [= <-]; lia. Qed.

Lemma rep_nonempty_full o t : rep o t -> 0 < zlen t -> exists junk, o = full t junk.
Proof. intros [_ [[-> ->]|[junk ->]]] H; [cbn in H; lia|eauto]. Qed.

Lemma skipn_cstr i t junk :
  (i <= length t)%nat -> skipn i (cstr t junk) = bytes (skipn i t) ++ Some 0 :: junk.
Proof.
  intros H. unfold cstr. rewrite skipn_app, skipn_bytes, bytes_length.
  replace (i - length t)%nat with O by lia. reflexivity.
Qed.

Lemma min_sub c i (t : list byte) :
  0 <= c <= zlen t - i -> 0 <= i ->
  Nat.min (Z.to_nat c) (length (skipn (Z.to_nat i) t)) = Z.to_nat c.
Proof. intros. rewrite skipn_length. unfold zlen in *. lia. Qed.

Lemma substr_ok o t idx cnt :
  rep o t ->
  exists r, substr o idx cnt = Ok r /\
            match spec_substr t idx cnt with
            | None => r = None
            | Some x => exists o', r = Some o' /\ rep o' x
            end.
Proof.
  intros Hrep. unfold substr, spec_substr. rewrite (substr_args_spec o t idx cnt Hrep).
  destruct (norm_idx (zlen t) idx) as [i|] eqn:Ei; [|eauto].
  destruct (substr_cnt (zlen t) i cnt) as [c|] eqn:Ec; [|eauto].
  pose proof (norm_idx_range _ _ _ Ei) as Hi. pose proof (substr_cnt_range _ _ _ _ Hi Ec) as Hc.
  destruct (rep_nonempty_full o t Hrep ltac:(lia)) as (junk & ->).
  rewrite str_str_full. rewrite skipn_cstr by lens.
  destruct (init_from_buff_some (skipn (Z.to_nat i) t) (Some 0 :: junk) c) as (o' & -> & Ho');
    [apply Forall_nz_skipn; eapply rep_nz; eauto|lia|right; eauto|].
  cbn [bind]. eexists. split; [reflexivity|]. exists o'. split; [reflexivity|].
  unfold sub. rewrite min_sub in Ho' by lia. exact Ho'.
Qed.

Lemma substr_to_ptr_ok o t idx cnt :
  rep o t ->
  substr_to_ptr o idx cnt =
  Ok (match spec_substr t idx cnt with Some x => Some (cstr x []) | None => None end).
Proof.
  intros Hrep. unfold substr_to_ptr, spec_substr. rewrite (substr_args_spec o t idx cnt Hrep).
  destruct (norm_idx (zlen t) idx) as [i|] eqn:Ei; [|reflexivity].
  destruct (substr_cnt (zlen t) i cnt) as [c|] eqn:Ec; [|reflexivity].
  pose proof (norm_idx_range _ _ _ Ei) as Hi. pose proof (substr_cnt_range _ _ _ _ Hi Ec) as Hc.
  destruct (rep_nonempty_full o t Hrep ltac:(lia)) as (junk & ->).
  rewrite str_str_full. rewrite malloc_ok by lia. cbn [bind].
  rewrite getz_at; [|lia|lia|lens]. rewrite skipn_cstr by lens.
  rewrite firstn_app, firstn_bytes.
  replace (Z.to_nat c - length (bytes (skipn (Z.to_nat i) t)))%nat with O by lens.
  cbn [firstn]. rewrite app_nil_r. cbn [bind]. fold (sub t i c).
  assert (Hz : zlen (bytes (sub t i c)) = c) by (unfold sub; lens).
  destruct (fill_new (c + 1) (bytes (sub t i c))) as (b1 & Hput & Hwr); [lia|].
  rewrite Hput. cbn [bind]. rewrite Hz in Hwr. rewrite Hwr. cbn [bind].
  replace (c + 1 - c - 1) with 0 by lia. reflexivity.
Qed.

(* ---------------- splice ---------------- *)
Lemma splice_args_spec o t idx cnt :
  rep o t ->
  splice_args o idx cnt =
  match norm_idx (zlen t) idx with
  | None => None
  | Some i => match splice_cnt (zlen t) i cnt with None => None | Some c => Some (i, c) end
  end.
Proof.
  intros Hrep. unfold splice_args, norm_idx, splice_cnt. rewrite (rep_len _ _ Hrep).
  zcases; try reflexivity; try (exfalso; lia); do 2 f_equal; lia.
Qed.

Lemma skipn_repeat {A} (x : A) m k : skipn m (repeat x k) = repeat x (k - m).
Proof.
  revert m; induction k as [|k IH]; intros [|m]; cbn; auto.
Qed.

(* filling a fresh block piece by piece *)
Lemma putz_fresh a k cs off :
  off = zlen a -> (length cs <= k)%nat ->
  putz (a ++ repeat None k) off cs = Ok ((a ++ cs) ++ repeat None (k - length cs)).
Proof.
  intros Hoff H. rewrite putz_tail by (try assumption; now rewrite repeat_length).
  rewrite skipn_repeat, app_assoc. reflexivity.
Qed.

Lemma putz_fresh0 k cs :
  (length cs <= k)%nat -> putz (repeat None k) 0 cs = Ok (cs ++ repeat None (k - length cs)).
Proof. intros H. apply (putz_fresh [] k cs 0); [reflexivity|assumption]. Qed.

Lemma putz_over cs b :
  (length cs <= length b)%nat -> putz b 0 cs = Ok (cs ++ skipn (length cs) b).
Proof. intros H. apply (putz_tail [] b cs 0); [reflexivity|assumption]. Qed.

Lemma splice_cells_ok o t idx cnt x :
  rep o t -> Forall nz_byte x ->
  exists o', splice_cells o idx cnt (Ok (bytes x)) =
             Ok (match spec_splice t idx cnt x with Some _ => true | None => false end, o') /\
             rep o' (match spec_splice t idx cnt x with Some t' => t' | None => t end).
Proof.
  intros Hrep Hx. unfold splice_cells, spec_splice. rewrite (splice_args_spec o t idx cnt Hrep).
  destruct (norm_idx (zlen t) idx) as [i|] eqn:Ei; [|eauto].
  destruct (splice_cnt (zlen t) i cnt) as [c|] eqn:Ec; [|eauto].
  pose proof (norm_idx_range _ _ _ Ei) as Hi. pose proof (splice_cnt_range _ _ _ _ Ec) as Hc.
  destruct (rep_nonempty_full o t Hrep ltac:(lia)) as (junk & ->).
  pose proof (rep_nz _ _ Hrep) as Hnz.
  cbn [bind]. unfold full. cbn [str_len str_s str_size deref].
  pose proof (zlen_nonneg x). pose proof (zlen_nonneg junk).
  set (ni := Z.to_nat i). set (nc := Z.to_nat c).
  set (p1 := firstn ni t). set (p3 := skipn (ni + nc) t).
  assert (Hp1 : length p1 = ni) by (subst p1 ni; rewrite firstn_length; lens).
  assert (Hp3 : length p3 = (length t - (ni + nc))%nat) by (subst p3; now rewrite skipn_length).
  assert (Hni : (ni + nc <= length t)%nat) by (subst ni nc; lens).
  set (newsize := zlen t + zlen (bytes x) - c + 1).
  assert (Hns : Z.to_nat newsize = (length p1 + length x + (length p3 + 1))%nat) by (subst newsize ni nc; lens).
  rewrite malloc_ok by (subst newsize; lens). cbn [bind]. rewrite Hns.
  (* first piece *)
  match goal with |- context [bind (if i >? 0 then ?A else ?B) _] =>
    assert (Ht1 : (if i >? 0 then A else B) = Ok (bytes p1 ++ repeat None (length x + (length p3 + 1)))) end.
  { rewrite Z.gtb_ltb. destruct (Z.ltb_spec 0 i).
    - rewrite getz_at; [|lia|lia|lens]. change (Z.to_nat 0) with O. cbn [skipn bind]. fold ni.
      unfold cstr. rewrite firstn_app, firstn_bytes. fold p1.
      replace (ni - length (bytes t))%nat with O by lens. cbn [firstn]. rewrite app_nil_r.
      rewrite putz_fresh0 by lens.
      do 3 f_equal. lens.
    - assert (ni = O) by (subst ni; lia). assert (p1 = []) by (subst p1; rewrite H2; reflexivity).
      rewrite H3. reflexivity. }
  rewrite Ht1. cbn [bind].
  rewrite (putz_fresh (bytes p1) _ (bytes x) i) by (try (subst ni; lens); lens). cbn [bind].
  (* the tail of the old text with its terminator *)
  rewrite getz_at; [|lia|lia|lens].
  replace (Z.to_nat (i + c)) with (ni + nc)%nat by (subst ni nc; lia).
  rewrite skipn_cstr by assumption. fold p3.
  replace (Z.to_nat (zlen t - i - c + 1)) with (length (bytes p3 ++ [Some 0])) by (subst ni nc; lens).
  change (bytes p3 ++ Some 0 :: junk) with (bytes p3 ++ [Some 0] ++ junk). rewrite app_assoc.
  rewrite firstn_app, firstn_all, Nat.sub_diag. cbn [firstn]. rewrite app_nil_r. cbn [bind].
  rewrite putz_fresh by (subst ni; lens). cbn [bind].
  match goal with |- context [repeat None ?n] => replace n with O by lens end.
  cbn [repeat]. rewrite app_nil_r.
  set (t' := p1 ++ x ++ p3).
  assert (Htmp : (bytes p1 ++ bytes x) ++ bytes p3 ++ [Some 0] = cstr_cells t').
  { subst t'. unfold cstr_cells. rewrite !bytes_app, <- !app_assoc. reflexivity. }
  unfold buf, cell in *. rewrite Htmp.
  assert (Hnz' : Forall nz_byte t').
  { subst t' p1 p3. repeat apply Forall_nz_app; auto using Forall_nz_firstn, Forall_nz_skipn. }
  assert (Hlen' : zlen t' = newsize - 1) by (subst t' newsize ni nc; lens).
  (* the final copy into the (possibly grown) buffer *)
  destruct (Z.ltb_spec (zlen t + 1 + zlen junk) newsize).
  - rewrite realloc_grow; [| zl; lia | lia]. cbn [bind deref].
    rewrite putz_over by lens. cbn [bind].
    eexists. split; [reflexivity|]. subst ni nc. fold p3 p1 t'. rewrite cstr_cells_app.
    eapply rep_intro; [assumption|reflexivity|lia|lens].
  - cbn [bind deref].
    rewrite putz_over by lens. cbn [bind].
    eexists. split; [reflexivity|]. subst ni nc. fold p3 p1 t'. rewrite cstr_cells_app.
    eapply rep_intro; [assumption|reflexivity|lia|lens].
Qed.

Lemma splice_from_ptr_ok o t idx cnt a :
  rep o t -> match a with Some x => Forall nz_byte x | None => True end ->
  exists o', splice_from_ptr o idx cnt a =
             Ok (match spec_splice t idx cnt (ins_text a) with Some _ => true | None => false end, o') /\
             rep o' (match spec_splice t idx cnt (ins_text a) with Some t' => t' | None => t end).
Proof.
  intros Hrep Ha. unfold splice_from_ptr. destruct a as [x|]; cbn [ins_text].
  - now apply splice_cells_ok.
  - change (@nil cell) with (bytes []). apply splice_cells_ok; [assumption|constructor].
Qed.

Lemma get_text x xt : rep x xt -> getz (str_str x) 0 (str_len x) = Ok (bytes xt).
Proof.
  intros [_ [[-> ->]|[junk ->]]]; [reflexivity|].
  unfold full, str_str. cbn [str_s str_len]. unfold cstr. apply getz_front. now zl.
Qed.

Definition orep (x : option str) (xt : option (list byte)) : Prop :=
  match x, xt with
  | None, None => True
  | Some a, Some b => rep a b
  | _, _ => False
  end.

Lemma splice_ok o t idx cnt x xt :
  rep o t -> orep x xt ->
  exists o', splice o idx cnt x =
             Ok (match spec_splice t idx cnt (ins_text xt) with Some _ => true | None => false end, o') /\
             rep o' (match spec_splice t idx cnt (ins_text xt) with Some t' => t' | None => t end).
Proof.
  intros Hrep Hx. unfold splice. destruct x as [x|], xt as [xt|]; cbn in Hx; try contradiction; cbn [ins_text].
  - rewrite (get_text x xt Hx). apply splice_cells_ok; [assumption|eapply rep_nz; eauto].
  - change (@nil cell) with (bytes []). apply splice_cells_ok; [assumption|constructor].
Qed.

(* ---------------- queries ---------------- *)
Lemma cmp_ok k o t x xt :
  rep o t -> orep x xt ->
  cmp k o x = Ok (match xt with Some b => cmp_bytes k t b | None => 1 end).
Proof.
  intros Hrep Hx. unfold cmp. destruct x as [x|], xt as [xt|]; cbn in Hx; try contradiction; [|reflexivity].
  rewrite (read_rep _ _ Hrep), (read_rep _ _ Hx). reflexivity.
Qed.

Lemma cmp_with_ptr_ok k o t a :
  rep o t -> cmp_with_ptr k o a = Ok (match a with Some b => cmp_bytes k t b | None => 1 end).
Proof.
  intros Hrep. unfold cmp_with_ptr. destruct a; [|reflexivity]. now rewrite (read_rep _ _ Hrep).
Qed.

Lemma find_ok o t x xt :
  rep o t -> orep x xt ->
  find o x = Ok (match xt with Some b => spec_find t b | None => -1 end).
Proof.
  intros Hrep Hx. unfold find, spec_find. destruct x as [x|], xt as [xt|]; cbn in Hx; try contradiction; [|reflexivity].
  rewrite (read_rep _ _ Hrep), (read_rep _ _ Hx), (rep_len _ _ Hrep). reflexivity.
Qed.

Lemma find_from_ptr_ok o t a :
  rep o t -> find_from_ptr o a = Ok (match a with Some b => spec_find t b | None => -1 end).
Proof.
  intros Hrep. unfold find_from_ptr, spec_find. destruct a; [|reflexivity].
  now rewrite (read_rep _ _ Hrep), (rep_len _ _ Hrep).
Qed.

Lemma index_ok o t c :
  rep o t -> index_of o c = Ok (if c =? 0 then zlen t else spec_index t c).
Proof. intros Hrep. unfold index_of, spec_index. now rewrite (read_rep _ _ Hrep), (rep_len _ _ Hrep). Qed.

Lemma rindex_ok o t c :
  rep o t -> rindex_of o c = Ok (if c =? 0 then zlen t else spec_rindex t c).
Proof. intros Hrep. unfold rindex_of, spec_rindex. now rewrite (read_rep _ _ Hrep), (rep_len _ _ Hrep). Qed.

Lemma to_num_ok o t base : rep o t -> to_num o base = Ok (strtoul_l t base).
Proof. intros Hrep. unfold to_num. now rewrite (read_rep _ _ Hrep). Qed.

Lemma to_float_ok o t : rep o t -> to_float_arg o = Ok t.
Proof. intros Hrep. unfold to_float_arg. now apply read_rep. Qed.

(* ---------------- init_from_num ---------------- *)
Lemma dec_digits_nz fuel n acc :
  0 <= n -> Forall nz_byte acc -> Forall nz_byte (dec_digits fuel n acc).
Proof.
  revert n acc. induction fuel as [|f IH]; intros n acc Hn Hacc; cbn [dec_digits]; [assumption|].
  assert (Hd : nz_byte (48 + n mod 10)) by (unfold nz_byte; pose proof (Z.mod_pos_bound n 10 ltac:(lia)); lia).
  destruct (n / 10 =? 0); [now constructor|].
  apply IH; [apply Z.div_pos; lia|now constructor].
Qed.

Lemma dec_repr_nz n : Forall nz_byte (dec_repr n).
Proof.
  unfold dec_repr. destruct (Z.ltb_spec n 0).
  - constructor; [unfold nz_byte; lia|]. apply dec_digits_nz; [lia|constructor].
  - apply dec_digits_nz; [lia|constructor].
Qed.

Lemma init_from_num_ok n : exists o, init_from_num n = Ok o /\ rep o (dec_repr n).
Proof.
  unfold init_from_num. destruct (new_text_ok (dec_repr n) (dec_repr_nz n)) as (b' & Hb & Hr).
  revert Hb. destruct (malloc _) as [b|]; cbn [bind]; [|discriminate]. intros ->. cbn [bind].
  eexists. split; [reflexivity|exact Hr].
Qed.
