(* The ideal object of property C01: a character sequence (list of non-NUL bytes) and the
   meaning of every str / ustr operation on it.  Position rules (negative idx counts from the
   end; positions outside [0,len) are refused; the count rules of splice and substr) are the
   ones the headers and the code define.  No buffers, no capacities here. *)
From LV Require Export Base.Buf Str.StrModel.
Local Open Scope Z_scope.

Definition text := list byte.

(* ---- positions ---- *)
Definition norm_idx (len idx : Z) : option Z :=
  let i := if idx <? 0 then len + idx else idx in
  if (0 <=? i) && (i <? len) then Some i else None.
(* splice: a negative count is idx + len + cnt; the range must lie inside the text *)
Definition splice_cnt (len i cnt : Z) : option Z :=
  let c := if cnt <? 0 then i + len + cnt else cnt in
  if (0 <=? c) && (c <=? len - i) then Some c else None.
(* substr: a count <= 0 is measured from the end; too large a count is clamped *)
Definition substr_cnt (len i cnt : Z) : option Z :=
  let c := if cnt <=? 0 then len - i + cnt else cnt in
  if c <? 0 then None else Some (Z.min c (len - i)).

Definition sub (t : text) (i c : Z) : text := firstn (Z.to_nat c) (skipn (Z.to_nat i) t).

Definition spec_splice (t : text) (idx cnt : Z) (ins : text) : option text :=
  match norm_idx (zlen t) idx with
  | None => None
  | Some i =>
    match splice_cnt (zlen t) i cnt with
    | None => None
    | Some c => Some (firstn (Z.to_nat i) t ++ ins ++ skipn (Z.to_nat (i + c)) t)
    end
  end.

Definition spec_substr (t : text) (idx cnt : Z) : option text :=
  match norm_idx (zlen t) idx with
  | None => None
  | Some i =>
    match substr_cnt (zlen t) i cnt with
    | None => None
    | Some c => Some (sub t i c)
    end
  end.

(* ---- constructors ---- *)
Fixpoint first_line (st : list byte) : text :=
  match st with
  | [] => []
  | c :: r => if c =? 10 then [] else c :: first_line r
  end.

(* what the descriptor delivers until it stops: EINTR is retried, anything else ends it *)
Fixpoint delivered (sched : list rd_event) : text :=
  match sched with
  | Data (c :: l) :: r => (c :: l) ++ delivered r
  | EINTR :: r => delivered r
  | _ => []
  end.

Definition spec_construct (c : ctor) : text :=
  match c with
  | CInit => []
  | CPtr None => []
  | CPtr (Some t) => t
  | CBuff None _ => []
  | CBuff (Some b) n => firstn (Z.to_nat n) (take_str b)
  | CFp st => first_line st
  | CFd sc => delivered sc
  | CNum n => dec_repr n
  end.

(* ---- queries ---- *)
Definition spec_find (t needle : text) : Z :=
  match strstr_l t needle with Some k => Z.of_nat k | None => zlen t end.
Definition spec_index (t : text) (c : byte) : Z :=
  match find_byte c t with Some k => Z.of_nat k | None => zlen t end.
Definition spec_rindex (t : text) (c : byte) : Z :=
  match rfind_byte c t with Some k => Z.of_nat k | None => zlen t end.

(* ---- the machine on ideal values: (self, other) ---- *)
Definition sstate : Type := text * option text.

Definition ins_text (t : option text) : text := match t with Some x => x | None => [] end.

Definition sstep (st : sstate) (p : op) : out * sstate :=
  let '(t, other) := st in
  match p with
  | OReinit c => (RBool true, (spec_construct c, other))
  | ODone => (RBool true, ([], other))
  | OOtherNull => (RUnit, (t, None))
  | OOtherNew c => (RUnit, (t, Some (spec_construct c)))
  | OOtherDup => (RUnit, (t, Some t))
  | OOtherSubstr i c =>
    let r := spec_substr t i c in
    (RBool (match r with Some _ => true | None => false end), (t, r))
  | OSwap => (RUnit, match other with Some x => (x, Some t) | None => (t, None) end)
  | OAppend =>
    match other with Some x => (RBool true, (t ++ x, other)) | None => (RBool false, st) end
  | OAppendPtr a =>
    match a with Some x => (RBool true, (t ++ x, other)) | None => (RBool false, st) end
  | OAppendChar c => (RBool true, (t ++ [c], other))
  | OPrepend =>
    match other with Some x => (RBool true, (x ++ t, other)) | None => (RBool false, st) end
  | OPrependPtr a =>
    match a with Some x => (RBool true, (x ++ t, other)) | None => (RBool false, st) end
  | OPrependChar c => (RBool true, (c :: t, other))
  | OSplice i c =>
    match spec_splice t i c (ins_text other) with
    | Some t' => (RBool true, (t', other))
    | None => (RBool false, st)
    end
  | OSplicePtr i c a =>
    match spec_splice t i c (ins_text a) with
    | Some t' => (RBool true, (t', other))
    | None => (RBool false, st)
    end
  | OTrim => (RBool true, (trim_ws t, other))
  | OReverse => (RUnit, (rev t, other))
  | OUpcase => (RBool true, (map toupper t, other))
  | ODowncase => (RBool true, (map tolower t, other))
  | OClear c => (RBool true, (repeat c (length t), other))
  | OSprintf FmtNull => (RBool false, ([], other))
  | OSprintf FmtEmpty => (RBool true, ([], other))
  | OSprintf (FmtText x) => (RBool (negb (match x with [] => true | _ => false end)), (x, other))
  | OSubstrToPtr i c =>
    (RPtr (match spec_substr t i c with Some x => Some (cstr x []) | None => None end), st)
  | OCmp k => (RInt (match other with Some x => cmp_bytes k t x | None => 1 end), st)
  | OCmpPtr k a => (RInt (match a with Some x => cmp_bytes k t x | None => 1 end), st)
  | OFind => (RInt (match other with Some x => spec_find t x | None => -1 end), st)
  | OFindPtr a => (RInt (match a with Some x => spec_find t x | None => -1 end), st)
  | OIndex c => (RInt (if c =? 0 then zlen t else spec_index t c), st)
  | ORindex c => (RInt (if c =? 0 then zlen t else spec_rindex t c), st)
  | OToNum b => (RInt (strtoul_l t b), st)
  | OToFloat => (RText t, st)
  | OGetLen => (RInt (zlen t), st)
  | OGetSize => (RUnit, st)
  | OSetSame => (RUnit, st)
  end.

Fixpoint srun (st : sstate) (ops : list op) : list out * sstate :=
  match ops with
  | [] => ([], st)
  | p :: ps => let '(r, st') := sstep st p in let '(rs, st'') := srun st' ps in (r :: rs, st'')
  end.

Definition spec_run (c : ctor) (ops : list op) : list out * sstate :=
  srun (spec_construct c, None) ops.

(* the reported capacity is not part of the ideal value *)
Definition erase (r : out) : out := match r with RSize _ | ROpen _ => RUnit | _ => r end.
