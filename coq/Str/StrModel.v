(* Executable model of the str / ustr class (src/str.c, src/ustr.c - the same text after
   renaming; property C01).  The model follows the REPAIRED code (see the `fix:` commits of
   the C01 work package), statement by statement, including the capacity arithmetic.

   An object is the triple of the C struct: text pointer (None = NULL), len, size.  The text
   buffer has exactly as many cells as the allocation; MALLOC yields uninitialised cells;
   REALLOC keeps the common prefix and adds uninitialised cells; every access is checked.
   libc string functions (strlen strcmp strstr index strtoul ...) are modelled as "read the
   NUL-terminated argument (checked), then a pure function on the bytes read".
   No proofs in this file. *)
From LV Require Export Base.Buf Gen.Constants Strings.HelpersModel.
Local Open Scope Z_scope.

Record str : Type := mkstr { str_s : option buf; str_len : Z; str_size : Z }.

Definition empty_str : str := mkstr None 0 0.

(* ---- allocation macros, non-tracking form (DEBUG < DEBUG_MEM) ---- *)
Definition malloc (n : Z) : res buf :=
  if n <? 0 then Fault Int_overflow else Ok (repeat None (Z.to_nat n)).

(* REALLOC(mem, sz) = sz ? (mem ? realloc(mem, sz) : malloc(sz)) : (mem ? (free(mem), NULL) : NULL) *)
Definition realloc (p : option buf) (n : Z) : res (option buf) :=
  if n <? 0 then Fault Int_overflow
  else if n =? 0 then Ok None
  else match p with
       | None => Ok (Some (repeat None (Z.to_nat n)))
       | Some b => Ok (Some (firstn (Z.to_nat n) b ++ repeat None (Z.to_nat n - length b)))
       end.

Definition deref (p : option buf) : res buf :=
  match p with Some b => Ok b | None => Fault Null_deref end.

(* SPIF_STR_STR(obj) for a non-NULL object: its text, or the literal "" when it has none *)
Definition str_str (o : str) : buf :=
  match str_s o with Some b => b | None => [Some 0] end.

(* memcpy / memmove with Z offsets *)
Definition getz (b : buf) (off n : Z) : res (list cell) :=
  if (off <? 0) || (n <? 0) then Fault OOB_read else sub_cells b (Z.to_nat off) (Z.to_nat n).
Definition putz (b : buf) (off : Z) (cs : list cell) : res buf :=
  if off <? 0 then Fault OOB_write else put_cells b (Z.to_nat off) cs.
Definition memmovez (b : buf) (dst src n : Z) : res buf :=
  cs <- getz b src n ;; putz b dst cs.

(* the bytes of a C string starting at the head of b, read up to the terminator *)
Fixpoint read_cstr (b : buf) : res (list byte) :=
  match b with
  | [] => Fault OOB_read
  | None :: _ => Fault Uninit_read
  | Some c :: t => if c =? 0 then Ok [] else (r <- read_cstr t ;; Ok (c :: r))
  end.
Definition read_cstr_at (b : buf) (off : Z) : res (list byte) :=
  if off <? 0 then Fault OOB_read else
  if Z.of_nat (length b) <? off then Fault OOB_read else read_cstr (skipn (Z.to_nat off) b).

Definition zlen {A} (l : list A) : Z := Z.of_nat (length l).
Definition cstr_cells (t : list byte) : list cell := bytes t ++ [Some 0].

(* ================= constructors ================= *)

(* spif_str_init *)
Definition init : res str := Ok empty_str.

(* spif_str_init_from_ptr: old = None is the NULL pointer *)
Definition init_from_ptr (old : option (list byte)) : res str :=
  match old with
  | None => init
  | Some t =>
    let len := zlen t in
    let size := len + 1 in
    b <- malloc size ;;
    b' <- putz b 0 (cstr_cells t) ;;          (* memcpy(self->s, old, self->size) *)
    Ok (mkstr (Some b') len size)
  end.

(* spif_str_init_from_buff: buff = the cells from the pointer to the end of its block *)
Definition init_from_buff (buff : option buf) (size : Z) : res str :=
  len <- match buff with
         | Some b => (n <- strnlen b (Z.to_nat size) ;; Ok (Z.of_nat n))
         | None => Ok 0
         end ;;
  let size := if size =? len then size + 1 else size in
  b <- malloc size ;;
  b1 <- match buff with
        | Some src => (cs <- getz src 0 len ;; putz b 0 cs)
        | None => Ok b
        end ;;
  b2 <- wr b1 len 0 ;;
  Ok (mkstr (Some b2) len size).

(* fgets(p, n, fp) on a stream given as the list of bytes still to come: at most n-1 bytes,
   stops after a newline *)
Fixpoint take_line (k : nat) (st : list byte) : list byte * list byte :=
  match k, st with
  | O, _ => ([], st)
  | _, [] => ([], [])
  | S k', c :: t => if c =? 10 then ([c], t) else let (a, r) := take_line k' t in (c :: a, r)
  end.

(* strchr(p, c) on the bytes of the string at p: offset of the first c *)
Fixpoint find_byte (c : byte) (t : list byte) : option nat :=
  match t with
  | [] => None
  | x :: r => if x =? c then Some O else match find_byte c r with Some k => Some (S k) | None => None end
  end.

(* the loop of spif_str_init_from_fp (repaired: cursor = s + len, re-derived every round):
     for (p = self->s; fgets(p, buff_inc, fp); p = self->s + self->len) {
         if (!(end = strchr(p, '\n'))) { len += strlen(p); size += buff_inc; s = REALLOC(s, size); }
         else { *end = 0; break; } }                                                     *)
Fixpoint fp_loop (inc : Z) (fuel : nat) (o : str) (stream : list byte) : res (str * option Z) :=
  match fuel with
  | O => Fault Out_of_fuel
  | S fuel' =>
    match stream with
    | [] => Ok (o, None)                                   (* fgets returns NULL *)
    | _ =>
      let p := str_len o in
      let (chunk, rest) := take_line (Z.to_nat (inc - 1)) stream in
      b <- deref (str_s o) ;;
      b1 <- putz b p (cstr_cells chunk) ;;
      t <- read_cstr_at b1 p ;;
      match find_byte 10 t with
      | Some k =>
        let e := p + Z.of_nat k in
        b2 <- wr b1 e 0 ;;
        Ok (mkstr (Some b2) (str_len o) (str_size o), Some e)
      | None =>
        let len := str_len o + zlen t in
        let size := str_size o + inc in
        s' <- realloc (Some b1) size ;;
        fp_loop inc fuel' (mkstr s' len size) rest
      end
    end
  end.

Definition init_from_fp_gen (inc : Z) (stream : list byte) : res str :=
  b <- malloc inc ;;
  b0 <- wr b 0 0 ;;                                        (* self->s[0] = 0 (repair) *)
  '(o, e) <- fp_loop inc (S (length stream)) (mkstr (Some b0) 0 inc) stream ;;
  len <- match e with
         | Some e => Ok e
         | None => (b <- deref (str_s o) ;; t <- read_cstr b ;; Ok (zlen t))
         end ;;
  let size := len + 1 in
  s' <- realloc (str_s o) size ;;
  Ok (mkstr s' len size).
Definition init_from_fp := init_from_fp_gen str_buff_inc.

(* ---- read(2) as a schedule of outcomes ---- *)
Inductive rd_event : Type :=
| Data (l : list byte)    (* bytes available; a read delivers at most the requested count *)
| EINTR | EAGAIN | EOF | Err.

Inductive rd_result : Type := RData (l : list byte) | RIntr | RStop.
Definition read_call (n : Z) (sched : list rd_event) : rd_result * list rd_event :=
  match sched with
  | [] => (RStop, [])
  | Data l :: r =>
    match l with
    | [] => (RStop, r)                                      (* read returns 0 *)
    | _ => let a := firstn (Z.to_nat n) l in
           let rest := skipn (Z.to_nat n) l in
           (RData a, match rest with [] => r | _ => Data rest :: r end)
    end
  | EINTR :: r => (RIntr, r)
  | _ :: r => (RStop, r)
  end.

Fixpoint sched_measure (sched : list rd_event) : nat :=
  match sched with
  | [] => O
  | Data l :: r => S (length l + sched_measure r)
  | _ :: r => S (sched_measure r)
  end.

(* the loop of spif_str_init_from_fd (repaired):
     for (p = s; ((n = read(fd, p, buff_inc)) > 0) || ((n < 0) && (errno == EINTR));) {
         if (n > 0) { size += n; s = REALLOC(s, size); p = s + (size - buff_inc); } }       *)
Fixpoint fd_loop (inc : Z) (fuel : nat) (o : str) (p : Z) (sched : list rd_event) : res str :=
  match fuel with
  | O => Fault Out_of_fuel
  | S fuel' =>
    match read_call inc sched with
    | (RStop, _) => Ok o
    | (RIntr, r) => fd_loop inc fuel' o p r
    | (RData a, r) =>
      b <- deref (str_s o) ;;
      b1 <- putz b p (bytes a) ;;
      let size := str_size o + zlen a in
      s' <- realloc (Some b1) size ;;
      fd_loop inc fuel' (mkstr s' (str_len o) size) (size - inc) r
    end
  end.

Definition init_from_fd_gen (inc : Z) (sched : list rd_event) : res str :=
  b <- malloc inc ;;
  o <- fd_loop inc (S (sched_measure sched)) (mkstr (Some b) 0 inc) 0 sched ;;
  let len := str_size o - inc in
  let size := len + 1 in
  s' <- realloc (str_s o) size ;;
  b' <- deref s' ;;
  b'' <- wr b' len 0 ;;
  Ok (mkstr (Some b'') len size).
Definition init_from_fd := init_from_fd_gen str_buff_inc.

(* snprintf(buff, 28, "%ld", num) *)
Fixpoint dec_digits (fuel : nat) (n : Z) (acc : list byte) : list byte :=
  match fuel with
  | O => acc
  | S f => let acc' := (48 + n mod 10) :: acc in
           if n / 10 =? 0 then acc' else dec_digits f (n / 10) acc'
  end.
Definition dec_repr (n : Z) : list byte :=
  if n <? 0 then 45 :: dec_digits 20 (- n) [] else dec_digits 20 n [].

Definition init_from_num (num : Z) : res str :=
  let t := dec_repr num in
  let len := zlen t in
  let size := len + 1 in
  b <- malloc size ;;
  b' <- putz b 0 (cstr_cells t) ;;
  Ok (mkstr (Some b') len size).

(* ================= str_done / dup ================= *)
Definition str_done (o : str) : str :=
  if str_size o =? 0 then o else empty_str.

(* spif_str_dup (repaired): the copy owns a block of `size` cells holding the text *)
Definition dup (o : str) : res str :=
  match str_s o with
  | None => Ok (mkstr None (str_len o) (str_size o))
  | Some b =>
    nb <- malloc (str_size o) ;;
    cs <- getz b 0 (str_len o + 1) ;;
    nb' <- putz nb 0 cs ;;
    Ok (mkstr (Some nb') (str_len o) (str_size o))
  end.

(* ================= append / prepend ================= *)
(* capacity after growing by `add` for `olen` more characters (repaired: never below len+olen+1) *)
Definition grow_size (o : str) (add olen : Z) : Z :=
  let size := str_size o + add in
  if size <=? str_len o + olen then str_len o + olen + 1 else size.

Definition append (o : str) (other : option str) : res (bool * str) :=
  match other with
  | None => Ok (false, o)
  | Some x =>
    if negb (str_size x =? 0) && negb (str_len x =? 0) then
      let size := grow_size o (str_size x - 1) (str_len x) in
      s' <- realloc (str_s o) size ;;
      b <- deref s' ;;
      cs <- getz (str_str x) 0 (str_len x + 1) ;;
      b' <- putz b (str_len o) cs ;;
      Ok (true, mkstr (Some b') (str_len o + str_len x) size)
    else Ok (true, o)
  end.

Definition append_from_ptr (o : str) (other : option (list byte)) : res (bool * str) :=
  match other with
  | None => Ok (false, o)
  | Some t =>
    let len := zlen t in
    if negb (len =? 0) then
      let size := grow_size o len len in
      s' <- realloc (str_s o) size ;;
      b <- deref s' ;;
      b' <- putz b (str_len o) (cstr_cells t) ;;
      Ok (true, mkstr (Some b') (str_len o + len) size)
    else Ok (true, o)
  end.

Definition append_char (o : str) (c : byte) : res (bool * str) :=
  let len := str_len o + 1 in
  '(s', size) <- (if str_size o <=? len
                  then (s' <- realloc (str_s o) (len + 1) ;; Ok (s', len + 1))
                  else Ok (str_s o, str_size o)) ;;
  b <- deref s' ;;
  b1 <- wr b (len - 1) c ;;
  b2 <- wr b1 len 0 ;;
  Ok (true, mkstr (Some b2) len size).

(* prepend (repaired): move the old characters, copy the new ones, write the terminator *)
Definition prepend (o : str) (other : option str) : res (bool * str) :=
  match other with
  | None => Ok (false, o)
  | Some x =>
    if negb (str_size x =? 0) && negb (str_len x =? 0) then
      let size := grow_size o (str_size x - 1) (str_len x) in
      s' <- realloc (str_s o) size ;;
      b <- deref s' ;;
      b1 <- memmovez b (str_len x) 0 (str_len o) ;;
      cs <- getz (str_str x) 0 (str_len x) ;;
      b2 <- putz b1 0 cs ;;
      let len := str_len o + str_len x in
      b3 <- wr b2 len 0 ;;
      Ok (true, mkstr (Some b3) len size)
    else Ok (true, o)
  end.

Definition prepend_from_ptr (o : str) (other : option (list byte)) : res (bool * str) :=
  match other with
  | None => Ok (false, o)
  | Some t =>
    let olen := zlen t in
    if negb (olen =? 0) then
      let size := grow_size o olen olen in
      s' <- realloc (str_s o) size ;;
      b <- deref s' ;;
      b1 <- memmovez b olen 0 (str_len o) ;;
      b2 <- putz b1 0 (bytes t) ;;
      let len := str_len o + olen in
      b3 <- wr b2 len 0 ;;
      Ok (true, mkstr (Some b3) len size)
    else Ok (true, o)
  end.

Definition prepend_char (o : str) (c : byte) : res (bool * str) :=
  let len := str_len o + 1 in
  '(s', size) <- (if str_size o <=? len
                  then (s' <- realloc (str_s o) (len + 1) ;; Ok (s', len + 1))
                  else Ok (str_s o, str_size o)) ;;
  b <- deref s' ;;
  b1 <- memmovez b 1 0 (len - 1) ;;
  b2 <- wr b1 0 c ;;
  b3 <- wr b2 len 0 ;;
  Ok (true, mkstr (Some b3) len size).

(* ================= splice ================= *)
(* common part of splice / splice_from_ptr: ins = the cells to insert (already fetched) *)
(* the REQUIRE_RVAL guards of splice: normalised (idx, cnt), or None when refused *)
Definition splice_args (o : str) (idx cnt : Z) : option (Z * Z) :=
  let idx := if idx <? 0 then str_len o + idx else idx in
  if negb (idx >=? 0) then None else
  if negb (idx <? str_len o) then None else
  let cnt := if cnt <? 0 then idx + str_len o + cnt else cnt in
  if negb (cnt >=? 0) then None else
  if negb (cnt <=? str_len o - idx) then None else
  Some (idx, cnt).

Definition splice_cells (o : str) (idx cnt : Z) (ins : res (list cell)) : res (bool * str) :=
  match splice_args o idx cnt with
  | None => Ok (false, o)
  | Some (idx, cnt) =>
  ins <- ins ;;
  let newsize := str_len o + zlen ins - cnt + 1 in
  tmp <- malloc newsize ;;
  b <- deref (str_s o) ;;
  tmp1 <- (if idx >? 0 then (cs <- getz b 0 idx ;; putz tmp 0 cs) else Ok tmp) ;;
  tmp2 <- putz tmp1 idx ins ;;
  cs <- getz b (idx + cnt) (str_len o - idx - cnt + 1) ;;
  tmp3 <- putz tmp2 (idx + zlen ins) cs ;;
  '(s', size) <- (if str_size o <? newsize
                  then (s' <- realloc (str_s o) newsize ;; Ok (s', newsize))
                  else Ok (str_s o, str_size o)) ;;
  b' <- deref s' ;;
  b'' <- putz b' 0 tmp3 ;;
  Ok (true, mkstr (Some b'') (newsize - 1) size)
  end.

Definition splice (o : str) (idx cnt : Z) (other : option str) : res (bool * str) :=
  splice_cells o idx cnt
    (match other with
     | None => Ok []
     | Some x => getz (str_str x) 0 (str_len x)
     end).

Definition splice_from_ptr (o : str) (idx cnt : Z) (other : option (list byte)) : res (bool * str) :=
  splice_cells o idx cnt (Ok (match other with None => [] | Some t => bytes t end)).

(* ================= substr ================= *)
Definition substr_args (o : str) (idx cnt : Z) : option (Z * Z) :=
  let idx := if idx <? 0 then str_len o + idx else idx in
  if negb (idx >=? 0) then None else
  if negb (idx <? str_len o) then None else
  let cnt := if cnt <=? 0 then str_len o - idx + cnt else cnt in
  if negb (cnt >=? 0) then None else
  let cnt := if cnt >? str_len o - idx then str_len o - idx else cnt in
  Some (idx, cnt).

Definition substr (o : str) (idx cnt : Z) : res (option str) :=
  match substr_args o idx cnt with
  | None => Ok None
  | Some (idx, cnt) =>
    r <- init_from_buff (Some (skipn (Z.to_nat idx) (str_str o))) cnt ;; Ok (Some r)
  end.

Definition substr_to_ptr (o : str) (idx cnt : Z) : res (option buf) :=
  match substr_args o idx cnt with
  | None => Ok None
  | Some (idx, cnt) =>
    nb <- malloc (cnt + 1) ;;
    cs <- getz (str_str o) idx cnt ;;
    nb1 <- putz nb 0 cs ;;
    nb2 <- wr nb1 cnt 0 ;;
    Ok (Some nb2)
  end.

(* ================= in-place mutators ================= *)
(* for (; isspace( *start ) && (start <= end); start++);   (repaired bound) *)
Fixpoint trim_front (fuel : nat) (b : buf) (start e : Z) : res Z :=
  match fuel with
  | O => Fault Out_of_fuel
  | S f =>
    c <- rd b start ;;
    if isspace c && (start <=? e) then trim_front f b (start + 1) e else Ok start
  end.
(* for (; (start < end) && isspace( *end ); end--);        (repaired order) *)
Fixpoint trim_back (fuel : nat) (b : buf) (start e : Z) : res Z :=
  match fuel with
  | O => Fault Out_of_fuel
  | S f =>
    if start <? e then
      c <- rd b e ;;
      if isspace c then trim_back f b start (e - 1) else Ok e
    else Ok e
  end.

Definition trim (o : str) : res (bool * str) :=
  match str_s o with
  | None => Ok (true, o)                                   (* repaired: nothing to trim *)
  | Some b =>
    let fuel := S (Z.to_nat (str_len o + 1)) in
    start <- trim_front fuel b 0 (str_len o - 1) ;;
    e <- trim_back fuel b start (str_len o - 1) ;;
    if start >? e then Ok (true, str_done o)
    else
      let e := e + 1 in
      b1 <- wr b e 0 ;;
      let len := e - start in
      let size := len + 1 in
      b2 <- memmovez b1 0 start size ;;
      s' <- realloc (Some b2) size ;;
      Ok (true, mkstr s' len size)
  end.

Definition reverse (o : str) : res (bool * str) :=
  match str_s o with
  | None => Ok (false, o)                                  (* strrev(NULL) returns NULL *)
  | Some b => b' <- strrev b ;; Ok (true, mkstr (Some b') (str_len o) (str_size o))
  end.

Definition case_map (f : byte -> byte) (o : str) : res (bool * str) :=
  match str_s o with
  | None => Ok (true, o)                                   (* repaired *)
  | Some b => b' <- map_str f b ;; Ok (true, mkstr (Some b') (str_len o) (str_size o))
  end.
Definition upcase := case_map toupper.
Definition downcase := case_map tolower.

Definition clear (o : str) (c : byte) : res (bool * str) :=
  match str_s o with
  | None => Ok (true, o)                                   (* repaired *)
  | Some b =>
    b1 <- putz b 0 (repeat (Some c) (Z.to_nat (str_size o))) ;;
    b2 <- wr b1 (str_len o) 0 ;;
    Ok (true, mkstr (Some b2) (str_len o) (str_size o))
  end.

(* spif_str_sprintf: the formatting itself is libc's; the argument says what vsnprintf produced *)
Inductive fmt_arg : Type :=
| FmtNull                      (* format == NULL *)
| FmtEmpty                     (* *format == 0 *)
| FmtText (t : list byte).     (* the formatted text; c = its length *)

Definition sprintf (o : str) (f : fmt_arg) : res (bool * str) :=
  let o1 := match str_s o with Some _ => str_done o | None => o end in
  match f with
  | FmtNull => Ok (false, o1)
  | FmtEmpty => Ok (true, o1)
  | FmtText t =>
    let c := zlen t in
    if c <=? 0 then Ok (false, o1)
    else
      let size := c + 1 in
      b <- malloc size ;;
      b' <- putz b 0 (cstr_cells t) ;;
      Ok (true, mkstr (Some b') c size)
  end.

(* ================= queries ================= *)
(* strcmp on the bytes read, as the sign SPIF_CMP_FROM_INT keeps: -1 / 0 / 1 *)
Fixpoint strcmp_l (a b : list byte) : Z :=
  match a, b with
  | [], [] => 0
  | [], _ :: _ => -1
  | _ :: _, [] => 1
  | x :: a', y :: b' => if x <? y then -1 else if y <? x then 1 else strcmp_l a' b'
  end.

Inductive cmp_kind : Type := CmpPlain | CmpCase | CmpN (n : Z) | CmpNCase (n : Z).

(* the count is converted to size_t: a negative one compares everything *)
Definition cut (n : Z) (t : list byte) : list byte :=
  if (n <? 0) || (zlen t <=? n) then t else firstn (Z.to_nat n) t.

Definition cmp_bytes (k : cmp_kind) (a b : list byte) : Z :=
  match k with
  | CmpPlain => strcmp_l a b
  | CmpCase => strcmp_l (map tolower a) (map tolower b)
  | CmpN n => strcmp_l (cut n a) (cut n b)
  | CmpNCase n => strcmp_l (map tolower (cut n a)) (map tolower (cut n b))
  end.

(* SPIF_OBJ_COMP_CHECK_NULL(self, other) with self non-NULL: other == NULL gives GREATER *)
Definition cmp (k : cmp_kind) (o : str) (other : option str) : res Z :=
  match other with
  | None => Ok 1
  | Some x => a <- read_cstr (str_str o) ;; b <- read_cstr (str_str x) ;; Ok (cmp_bytes k a b)
  end.
Definition cmp_with_ptr (k : cmp_kind) (o : str) (other : option (list byte)) : res Z :=
  match other with
  | None => Ok 1
  | Some t => a <- read_cstr (str_str o) ;; Ok (cmp_bytes k a t)
  end.

(* strstr: offset of the first occurrence *)
Fixpoint is_prefix (p t : list byte) : bool :=
  match p, t with
  | [], _ => true
  | _ :: _, [] => false
  | x :: p', y :: t' => (x =? y) && is_prefix p' t'
  end.
Fixpoint strstr_l (hay needle : list byte) : option nat :=
  if is_prefix needle hay then Some O
  else match hay with
       | [] => None
       | _ :: h' => match strstr_l h' needle with Some k => Some (S k) | None => None end
       end.

Definition find (o : str) (other : option str) : res Z :=
  match other with
  | None => Ok (-1)
  | Some x =>
    a <- read_cstr (str_str o) ;; b <- read_cstr (str_str x) ;;
    Ok (match strstr_l a b with Some k => Z.of_nat k | None => str_len o end)
  end.
Definition find_from_ptr (o : str) (other : option (list byte)) : res Z :=
  match other with
  | None => Ok (-1)
  | Some t =>
    a <- read_cstr (str_str o) ;;
    Ok (match strstr_l a t with Some k => Z.of_nat k | None => str_len o end)
  end.

(* index(s, c): c = 0 finds the terminator *)
Fixpoint rfind_byte (c : byte) (t : list byte) : option nat :=
  match t with
  | [] => None
  | x :: r => match rfind_byte c r with
              | Some k => Some (S k)
              | None => if x =? c then Some O else None
              end
  end.
Definition index_of (o : str) (c : byte) : res Z :=
  a <- read_cstr (str_str o) ;;
  Ok (if c =? 0 then zlen a
      else match find_byte c a with Some k => Z.of_nat k | None => str_len o end).
Definition rindex_of (o : str) (c : byte) : res Z :=
  a <- read_cstr (str_str o) ;;
  Ok (if c =? 0 then zlen a
      else match rfind_byte c a with Some k => Z.of_nat k | None => str_len o end).

(* strtoul(text, NULL, base) for base 0 and 2..36, 64-bit unsigned long *)
Definition digit_val (c : byte) : option Z :=
  if isdigit c then Some (c - 48)
  else if islower c then Some (c - 97 + 10)
  else if isupper c then Some (c - 65 + 10)
  else None.
Definition ulong_max : Z := 18446744073709551615.
(* returns (value, overflowed, any digit seen) *)
Fixpoint strtoul_digits (base : Z) (t : list byte) (acc : Z) (ovf seen : bool) : Z * bool * bool :=
  match t with
  | [] => (acc, ovf, seen)
  | c :: r =>
    match digit_val c with
    | Some d =>
      if d <? base then
        let acc' := acc * base + d in
        if ovf || (acc' >? ulong_max) then strtoul_digits base r 0 true true
        else strtoul_digits base r acc' false true
      else (acc, ovf, seen)
    | None => (acc, ovf, seen)
    end
  end.
Definition has_hex_prefix (t : list byte) : bool :=
  match t with
  | 48 :: x :: d :: _ => ((x =? 120) || (x =? 88)) &&
                         match digit_val d with Some v => v <? 16 | None => false end
  | _ => false
  end.
Definition strtoul_l (t : list byte) (base : Z) : Z :=
  if (base <? 0) || (base =? 1) || (base >? 36) then 0 else
  let t := dropwhile isspace t in
  let '(neg, t) := match t with
                   | 45 :: r => (true, r)
                   | 43 :: r => (false, r)
                   | _ => (false, t)
                   end in
  let '(base, t) :=
    if ((base =? 0) || (base =? 16)) && has_hex_prefix t then (16, skipn 2 t)
    else if base =? 0 then (match t with 48 :: _ => 8 | _ => 10 end, t)
    else (base, t) in
  let '(v, ovf, seen) := strtoul_digits base t 0 false false in
  if ovf then ulong_max
  else if neg then (- v) mod (ulong_max + 1) else v.

Definition to_num (o : str) (base : Z) : res Z :=
  a <- read_cstr (str_str o) ;; Ok (strtoul_l a base).

(* to_float: what is passed to strtod *)
Definition to_float_arg (o : str) : res (list byte) := read_cstr (str_str o).

Definition get_len (o : str) : Z := str_len o.
Definition get_size (o : str) : Z := str_size o.
Definition set_len (o : str) (n : Z) : str := mkstr (str_s o) n (str_size o).
Definition set_size (o : str) (n : Z) : str := mkstr (str_s o) (str_len o) n.

(* ================= histories: a two-register machine ================= *)
(* `self` is the object under test; `other` is a second object (None = NULL object pointer)
   used as argument of append / prepend / splice / cmp / find and as target of dup / substr. *)
Inductive ctor : Type :=
| CInit
| CPtr (t : option (list byte))
| CBuff (b : option buf) (size : Z)
| CFp (stream : list byte)
| CFd (sched : list rd_event)
| CNum (n : Z).

Definition construct (c : ctor) : res str :=
  match c with
  | CInit => init
  | CPtr t => init_from_ptr t
  | CBuff b n => init_from_buff b n
  | CFp st => init_from_fp st
  | CFd sc => init_from_fd sc
  | CNum n => init_from_num n
  end.

Inductive op : Type :=
| OReinit (c : ctor)            (* spif_str_init* on self again (after str_done) *)
| ODone
| OOtherNull                    (* other := NULL *)
| OOtherNew (c : ctor)          (* other := spif_str_new* *)
| OOtherDup                     (* other := dup(self) *)
| OOtherSubstr (idx cnt : Z)    (* other := substr(self, idx, cnt) *)
| OSwap                         (* exchange the two objects (no-op when other is NULL) *)
| OAppend | OAppendPtr (t : option (list byte)) | OAppendChar (c : byte)
| OPrepend | OPrependPtr (t : option (list byte)) | OPrependChar (c : byte)
| OSplice (idx cnt : Z) | OSplicePtr (idx cnt : Z) (t : option (list byte))
| OTrim | OReverse | OUpcase | ODowncase | OClear (c : byte)
| OSprintf (f : fmt_arg)
| OSubstrToPtr (idx cnt : Z)
| OCmp (k : cmp_kind) | OCmpPtr (k : cmp_kind) (t : option (list byte))
| OFind | OFindPtr (t : option (list byte))
| OIndex (c : byte) | ORindex (c : byte)
| OToNum (base : Z) | OToFloat
| OGetLen | OGetSize
| OSetSame.                     (* set_len(get_len), set_size(get_size) *)

Inductive out : Type :=
| RUnit
| RBool (b : bool)
| RInt (z : Z)
| RSize (z : Z)                 (* reported capacity: not constrained exactly by the property *)
| ROpen (b : bool)              (* return value the ideal value does not determine (reverse of an
                                   empty text: FALSE without a buffer, TRUE with one) *)
| RPtr (p : option buf)         (* substr_to_ptr *)
| RText (t : list byte).        (* argument handed to strtod *)

Definition mstate : Type := str * option str.

Definition lift (r : res (bool * str)) (other : option str) : res (out * mstate) :=
  '(b, o') <- r ;; Ok (RBool b, (o', other)).

Definition step (st : mstate) (p : op) : res (out * mstate) :=
  let '(o, other) := st in
  match p with
  | OReinit c => o' <- construct c ;; Ok (RBool true, (o', other))
  | ODone => Ok (RBool true, (str_done o, other))
  | OOtherNull => Ok (RUnit, (o, None))
  | OOtherNew c => x <- construct c ;; Ok (RUnit, (o, Some x))
  | OOtherDup => x <- dup o ;; Ok (RUnit, (o, Some x))
  | OOtherSubstr i c => x <- substr o i c ;; Ok (RBool (match x with Some _ => true | None => false end), (o, x))
  | OSwap => Ok (RUnit, match other with Some x => (x, Some o) | None => (o, None) end)
  | OAppend => lift (append o other) other
  | OAppendPtr t => lift (append_from_ptr o t) other
  | OAppendChar c => lift (append_char o c) other
  | OPrepend => lift (prepend o other) other
  | OPrependPtr t => lift (prepend_from_ptr o t) other
  | OPrependChar c => lift (prepend_char o c) other
  | OSplice i c => lift (splice o i c other) other
  | OSplicePtr i c t => lift (splice_from_ptr o i c t) other
  | OTrim => lift (trim o) other
  | OReverse => '(b, o') <- reverse o ;; Ok (ROpen b, (o', other))
  | OUpcase => lift (upcase o) other
  | ODowncase => lift (downcase o) other
  | OClear c => lift (clear o c) other
  | OSprintf f => lift (sprintf o f) other
  | OSubstrToPtr i c => r <- substr_to_ptr o i c ;; Ok (RPtr r, st)
  | OCmp k => r <- cmp k o other ;; Ok (RInt r, st)
  | OCmpPtr k t => r <- cmp_with_ptr k o t ;; Ok (RInt r, st)
  | OFind => r <- find o other ;; Ok (RInt r, st)
  | OFindPtr t => r <- find_from_ptr o t ;; Ok (RInt r, st)
  | OIndex c => r <- index_of o c ;; Ok (RInt r, st)
  | ORindex c => r <- rindex_of o c ;; Ok (RInt r, st)
  | OToNum b => r <- to_num o b ;; Ok (RInt r, st)
  | OToFloat => r <- to_float_arg o ;; Ok (RText r, st)
  | OGetLen => Ok (RInt (get_len o), st)
  | OGetSize => Ok (RSize (get_size o), st)
  | OSetSame => Ok (RUnit, (set_size (set_len o (get_len o)) (get_size o), other))
  end.

Fixpoint run (st : mstate) (ops : list op) : res (list out * mstate) :=
  match ops with
  | [] => Ok ([], st)
  | p :: ps => '(r, st') <- step st p ;; '(rs, st'') <- run st' ps ;; Ok (r :: rs, st'')
  end.

Definition run_model (c : ctor) (ops : list op) : res (list out * mstate) :=
  o <- construct c ;; run (o, None) ops.

