(* The chunked readers: spif_str_init_from_fd (read schedule) and spif_str_init_from_fp (fgets
   loop).  Both theorems hold for streams and schedules of any length; the chunk size is a
   parameter (any inc >= 1, resp. >= 2) and is instantiated with the value taken from the
   source (Gen.Constants.str_buff_inc). *)
From LV Require Import Base.Buf Strings.HelpersModel Strings.HelpersProofs
  Str.StrModel Str.StrSpec Str.BufLemmas Str.StrOps.
Local Open Scope Z_scope.

(* ================= init_from_fd ================= *)
Definition sched_ok (sched : list rd_event) : Prop :=
  Forall (fun e => match e with Data l => Forall nz_byte l | _ => True end) sched.

Lemma firstn_nonnil {A} (l : list A) n : l <> [] -> (0 < n)%nat -> firstn n l <> [].
Proof. destruct l, n; cbn; intros; try congruence; lia. Qed.

Section Fd.
Variable inc : Z.
Hypothesis Hinc : 0 < inc.

Definition fd_state (acc : list byte) : str :=
  mkstr (Some (bytes acc ++ repeat None (Z.to_nat inc))) 0 (inc + zlen acc).

Lemma fd_loop_spec :
  forall fuel sched acc,
    sched_ok sched -> Forall nz_byte acc -> (sched_measure sched < fuel)%nat ->
    fd_loop inc fuel (fd_state acc) (zlen acc) sched = Ok (fd_state (acc ++ delivered sched)) /\
    Forall nz_byte (acc ++ delivered sched).
Proof.
  induction fuel as [|f IH]; intros sched acc Hok Hacc Hf; [lia|].
  cbn [fd_loop]. destruct sched as [|ev r].
  - cbn [read_call delivered]. rewrite app_nil_r. auto.
  - inversion Hok as [|? ? Hev Hr]; subst.
    destruct ev as [l| | | |]; cbn [read_call delivered sched_measure] in *.
    + destruct l as [|c l].
      * rewrite app_nil_r. auto.
      * set (l0 := c :: l) in *.
        set (a := firstn (Z.to_nat inc) l0).
        assert (Ha : a <> []) by (subst a l0; apply firstn_nonnil; [congruence|lia]).
        assert (Hal : (length a <= Z.to_nat inc)%nat) by (subst a; rewrite firstn_length; lia).
        assert (Hanz : Forall nz_byte a) by (subst a; now apply Forall_nz_firstn).
        (* the data goes behind the text, the block grows by what was read *)
        cbn [fd_state str_s str_len str_size deref bind].
        rewrite putz_tail by lens. cbn [bind].
        rewrite skipn_repeat, bytes_length.
        rewrite realloc_grow; [|lens|lens]. cbn [bind].
        match goal with |- context [Some (?B ++ repeat None ?N)] =>
          assert (Hbuf : B ++ repeat None N = bytes (acc ++ a) ++ repeat None (Z.to_nat inc)) end.
        { rewrite bytes_app, <- !app_assoc. do 2 f_equal. rewrite <- repeat_app. f_equal. lens. }
        rewrite Hbuf.
        replace (inc + zlen acc + zlen a - inc) with (zlen (acc ++ a)) by (zl; lia).
        replace (inc + zlen acc + zlen a) with (inc + zlen (acc ++ a)) by (zl; lia).
        fold (fd_state (acc ++ a)).
        assert (Hsplit : l0 = a ++ skipn (Z.to_nat inc) l0) by (subst a; now rewrite firstn_skipn).
        destruct (skipn (Z.to_nat inc) l0) as [|c' l'] eqn:Esk.
        -- destruct (IH r (acc ++ a)) as [-> Hnz]; [assumption|now apply Forall_nz_app|lia|].
           rewrite app_nil_r in Hsplit. rewrite <- Hsplit in *. rewrite <- !app_assoc in *. auto.
        -- destruct (IH (Data (c' :: l') :: r) (acc ++ a)) as [-> Hnz].
           ++ constructor; [|assumption]. rewrite <- Esk. now apply Forall_nz_skipn.
           ++ now apply Forall_nz_app.
           ++ cbn [sched_measure]. apply (f_equal (@length Z)) in Hsplit.
              rewrite app_length in Hsplit. destruct a; [congruence|]. cbn [length] in *. lia.
           ++ cbn [delivered] in *. rewrite Hsplit. rewrite <- !app_assoc in *. auto.
    + apply IH; [assumption|assumption|lia].
    + rewrite app_nil_r. auto.
    + rewrite app_nil_r. auto.
    + rewrite app_nil_r. auto.
Qed.

Lemma init_from_fd_gen_ok sched :
  sched_ok sched ->
  exists o, init_from_fd_gen inc sched = Ok o /\ rep o (delivered sched).
Proof.
  intros Hok. unfold init_from_fd_gen. rewrite malloc_ok by lia. cbn [bind].
  destruct (fd_loop_spec (S (sched_measure sched)) sched [] Hok ltac:(constructor) ltac:(lia)) as [Hl Hnz].
  cbn [app] in *. unfold fd_state in Hl at 1. cbn [bytes map app] in Hl. unfold zlen in Hl at 1 2. cbn [length] in Hl.
  change (Z.of_nat 0) with 0 in Hl. rewrite Z.add_0_r in Hl. unfold buf, cell in *. rewrite Hl. cbn [bind].
  set (t := delivered sched) in *. unfold fd_state. cbn [str_s str_size].
  replace (inc + zlen t - inc) with (zlen t) by lia. pose proof (zlen_nonneg t).
  replace (Z.to_nat inc) with (S (Z.to_nat (inc - 1))) by lia. cbn [repeat].
  change (bytes t ++ None :: repeat None (Z.to_nat (inc - 1)))
    with (bytes t ++ [None] ++ repeat None (Z.to_nat (inc - 1))).
  rewrite app_assoc. rewrite realloc_shrink by lens. cbn [bind deref].
  rewrite wr_app by now zl. cbn [bind]. eexists. split; [reflexivity|].
  eapply rep_intro with (c := []); [assumption|reflexivity|reflexivity|lens].
Qed.
End Fd.

(* ================= init_from_fp ================= *)
Definition no_nl (l : list byte) : Prop := Forall (fun c => c <> 10) l.

Lemma find_byte_none l : no_nl l -> find_byte 10 l = None.
Proof.
  induction 1 as [|c l Hc Hl IH]; cbn; [reflexivity|].
  destruct (Z.eqb_spec c 10); [contradiction|]. now rewrite IH.
Qed.

Lemma find_byte_last l : no_nl l -> find_byte 10 (l ++ [10]) = Some (length l).
Proof.
  induction 1 as [|c l Hc Hl IH]; cbn; [reflexivity|].
  destruct (Z.eqb_spec c 10); [contradiction|]. now rewrite IH.
Qed.

Lemma first_line_app l r : no_nl l -> first_line (l ++ r) = l ++ first_line r.
Proof.
  induction 1 as [|c l Hc Hl IH]; cbn; [reflexivity|].
  destruct (Z.eqb_spec c 10); [contradiction|]. now rewrite IH.
Qed.

(* fgets: what one call takes from the stream *)
Lemma take_line_spec :
  forall k st chunk rest,
    take_line k st = (chunk, rest) ->
    st = chunk ++ rest /\ (length chunk <= k)%nat /\
    ((exists line, chunk = line ++ [10] /\ no_nl line) \/ no_nl chunk) /\
    ((0 < k)%nat -> st <> [] -> chunk <> []).
Proof.
  induction k as [|k IH]; intros st chunk rest H.
  - cbn in H. injection H as <- <-.
    split; [reflexivity|]. split; [cbn; lia|]. split; [right; constructor|lia].
  - destruct st as [|c t]; cbn [take_line] in H.
    + injection H as <- <-.
      split; [reflexivity|]. split; [cbn; lia|]. split; [right; constructor|congruence].
    + destruct (Z.eqb_spec c 10) as [->|Hc].
      * injection H as <- <-.
        split; [reflexivity|]. split; [cbn; lia|]. split; [|congruence].
        left. exists []. split; [reflexivity|constructor].
      * destruct (take_line k t) as [a r] eqn:E. injection H as <- <-.
        destruct (IH t a r E) as (Hst & Hlen & Hshape & _).
        split; [now rewrite Hst|]. split; [cbn [length]; lia|]. split; [|congruence].
        destruct Hshape as [(line & -> & Hl)|Hn].
        -- left. exists (c :: line). split; [reflexivity|now constructor].
        -- right. now constructor.
Qed.

Section Fp.
Variable inc : Z.
Hypothesis Hinc : 2 <= inc.

Lemma fp_loop_spec :
  forall fuel stream acc tl,
    Forall nz_byte stream -> Forall nz_byte acc -> inc - 1 <= zlen tl ->
    (length stream < fuel)%nat ->
    exists o e tl',
      fp_loop inc fuel (mkstr (Some (cstr acc tl)) (zlen acc) (zlen acc + 1 + zlen tl)) stream = Ok (o, e) /\
      str_s o = Some (cstr (acc ++ first_line stream) tl') /\
      (e = None \/ e = Some (zlen (acc ++ first_line stream))) /\
      Forall nz_byte (acc ++ first_line stream).
Proof.
  induction fuel as [|f IH]; intros stream acc tl Hst Hacc Htl Hf; [lia|].
  cbn [fp_loop]. destruct stream as [|c0 st0].
  - exists (mkstr (Some (cstr acc tl)) (zlen acc) (zlen acc + 1 + zlen tl)), None, tl.
    cbn [first_line]. rewrite app_nil_r. auto.
  - set (stream := c0 :: st0) in *.
    destruct (take_line (Z.to_nat (inc - 1)) stream) as [chunk rest] eqn:E.
    destruct (take_line_spec _ _ _ _ E) as (Hsplit & Hlen & Hshape & Hne).
    assert (Hchunk : chunk <> []) by (apply Hne; [lia|subst stream; congruence]).
    assert (Hnzs : Forall nz_byte chunk /\ Forall nz_byte rest).
    { rewrite Hsplit in Hst. apply Forall_app in Hst. exact Hst. }
    destruct Hnzs as [Hcnz Hrnz].
    cbn [str_s str_len str_size deref bind].
    (* fgets stores the chunk and a NUL behind the text *)
    unfold cstr at 1.
    rewrite putz_tail by (try (now zl); lens). cbn [bind]. unfold buf, cell in *.
    match goal with |- context [cstr_cells chunk ++ ?X] => set (tl2 := X) end.
    assert (Htl2 : zlen tl2 = zlen tl - zlen chunk) by (subst tl2; lens).
    assert (Hrd : read_cstr_at (bytes acc ++ cstr_cells chunk ++ tl2) (zlen acc) = Ok chunk).
    { unfold read_cstr_at. pose proof (zlen_nonneg acc).
      destruct (Z.ltb_spec (zlen acc) 0); [lia|].
      destruct (Z.ltb_spec (Z.of_nat (length (bytes acc ++ cstr_cells chunk ++ tl2))) (zlen acc)); [lens|].
      rewrite to_nat_zlen, skipn_bytes_app, cstr_cells_app. now apply read_cstr_cstr. }
    unfold buf, cell in *. rewrite Hrd. cbn [bind].
    destruct Hshape as [(line & Hc & Hline)|Hnn].
    + (* the newline is in this chunk *)
      subst chunk. rewrite find_byte_last by assumption.
      assert (Hfl : first_line stream = line).
      { rewrite Hsplit, <- app_assoc, first_line_app by assumption. cbn. now rewrite app_nil_r. }
      assert (Hb : bytes acc ++ cstr_cells (line ++ [10]) ++ tl2
                   = bytes (acc ++ line) ++ Some 10 :: Some 0 :: tl2).
      { unfold cstr_cells. rewrite !bytes_app, <- !app_assoc. reflexivity. }
      unfold buf, cell in *. rewrite Hb. rewrite wr_app by (zl; reflexivity). cbn [bind].
      eexists _, _, (Some 0 :: tl2). split; [reflexivity|]. rewrite Hfl.
      split; [reflexivity|]. split; [right; f_equal; now zl|].
      apply Forall_nz_app; [assumption|]. apply Forall_app in Hcnz. tauto.
    + (* no newline yet: grow by one chunk and go on *)
      rewrite find_byte_none by assumption.
      assert (Hfl : first_line stream = chunk ++ first_line rest)
        by (rewrite Hsplit; now apply first_line_app).
      rewrite cstr_app.
      rewrite realloc_grow; [|zl; lia|zl; pose proof (zlen_nonneg acc); pose proof (zlen_nonneg tl); lia].
      cbn [bind].
      assert (Hb : cstr (acc ++ chunk) tl2 ++
                   repeat None (Z.to_nat (zlen acc + 1 + zlen tl + inc - zlen (cstr (acc ++ chunk) tl2)))
                   = cstr (acc ++ chunk) (tl2 ++ repeat None (Z.to_nat (zlen acc + 1 + zlen tl + inc - zlen (cstr (acc ++ chunk) tl2))))).
      { unfold cstr. now rewrite <- app_assoc. }
      unfold buf, cell in *. rewrite Hb.
      set (tl3 := tl2 ++ repeat None _).
      assert (Htl3 : zlen tl3 = zlen tl - zlen chunk + inc).
      { subst tl3. zl. rewrite Htl2. pose proof (zlen_nonneg chunk). pose proof (zlen_nonneg acc). lia. }
      replace (zlen acc + zlen chunk) with (zlen (acc ++ chunk)) by now zl.
      replace (zlen acc + 1 + zlen tl + inc) with (zlen (acc ++ chunk) + 1 + zlen tl3) by (zl; lia).
      destruct (IH rest (acc ++ chunk) tl3) as (o & e & tl' & Hrun & Hs & He & Hnz);
        [assumption|now apply Forall_nz_app|unfold zlen in *; lia| |].
      { apply (f_equal (@length Z)) in Hsplit. rewrite app_length in Hsplit.
        destruct chunk; [congruence|]. cbn [length] in *. lia. }
      rewrite Hrun. exists o, e, tl'. rewrite Hfl. rewrite <- !app_assoc in *. auto.
Qed.

Lemma init_from_fp_gen_ok stream :
  Forall nz_byte stream ->
  exists o, init_from_fp_gen inc stream = Ok o /\ rep o (first_line stream).
Proof.
  intros Hst. unfold init_from_fp_gen. rewrite malloc_ok by lia. cbn [bind].
  replace (Z.to_nat inc) with (S (Z.to_nat (inc - 1))) by lia. cbn [repeat].
  change (None :: repeat None (Z.to_nat (inc - 1))) with ([] ++ @None Z :: repeat None (Z.to_nat (inc - 1))).
  rewrite wr_app by reflexivity. cbn [bind app].
  destruct (fp_loop_spec (S (length stream)) stream [] (repeat None (Z.to_nat (inc - 1))))
    as (o & e & tl' & Hrun & Hs & He & Hnz); [assumption|constructor|zl; lia|lia|].
  cbn [app] in *. change (Some 0 :: repeat None (Z.to_nat (inc - 1))) with (cstr [] (repeat None (Z.to_nat (inc - 1)))).
  match type of Hrun with context [mkstr _ ?L ?S] =>
    replace S with inc in Hrun by (zl; lia); change L with 0 in Hrun end.
  unfold buf, cell in *. rewrite Hrun. cbn [bind]. rewrite Hs. cbn [deref bind].
  set (t := first_line stream) in *.
  assert (Hlen : match e with
                 | Some e0 => Ok e0
                 | None => t0 <- read_cstr (cstr t tl');; Ok (zlen t0)
                 end = Ok (zlen t)).
  { destruct He as [->| ->]; [|reflexivity]. now rewrite read_cstr_cstr. }
  rewrite Hlen. cbn [bind]. pose proof (zlen_nonneg t).
  rewrite <- cstr_cells_app. rewrite realloc_shrink by (zl; lia). cbn [bind].
  eexists. split; [reflexivity|].
  eapply rep_intro with (c := []); [assumption|reflexivity|reflexivity|lens].
Qed.
End Fp.

(* the chunk size of the source tree *)
Lemma init_from_fd_ok sched :
  sched_ok sched -> exists o, init_from_fd sched = Ok o /\ rep o (delivered sched).
Proof. apply init_from_fd_gen_ok. reflexivity. Qed.

Lemma init_from_fp_ok stream :
  Forall nz_byte stream -> exists o, init_from_fp stream = Ok o /\ rep o (first_line stream).
Proof. apply init_from_fp_gen_ok. unfold str_buff_inc. lia. Qed.

Lemma buff_inc_ok : 2 <= str_buff_inc /\ ustr_buff_inc = str_buff_inc.
Proof. split; [unfold str_buff_inc; lia|reflexivity]. Qed.
