
(** val negb : bool -> bool **)

let negb = function
| true -> false
| false -> true

type nat =
| O
| S of nat

(** val option_map : ('a1 -> 'a2) -> 'a1 option -> 'a2 option **)

let option_map f = function
| Some a -> Some (f a)
| None -> None

(** val fst : ('a1 * 'a2) -> 'a1 **)

let fst = function
| (x, _) -> x

(** val snd : ('a1 * 'a2) -> 'a2 **)

let snd = function
| (_, y) -> y

(** val length : 'a1 list -> nat **)

let rec length = function
| [] -> O
| _ :: l' -> S (length l')

(** val app : 'a1 list -> 'a1 list -> 'a1 list **)

let rec app l m =
  match l with
  | [] -> m
  | a :: l1 -> a :: (app l1 m)

type comparison =
| Eq
| Lt
| Gt

(** val compOpp : comparison -> comparison **)

let compOpp = function
| Eq -> Eq
| Lt -> Gt
| Gt -> Lt

(** val pred : nat -> nat **)

let pred n0 = match n0 with
| O -> n0
| S u -> u

(** val add : nat -> nat -> nat **)

let rec add n0 m =
  match n0 with
  | O -> m
  | S p -> S (add p m)

(** val sub : nat -> nat -> nat **)

let rec sub n0 m =
  match n0 with
  | O -> n0
  | S k -> (match m with
            | O -> n0
            | S l -> sub k l)

(** val eqb : bool -> bool -> bool **)

let eqb b1 b2 =
  if b1 then b2 else if b2 then false else true

module Nat =
 struct
  (** val eqb : nat -> nat -> bool **)

  let rec eqb n0 m =
    match n0 with
    | O -> (match m with
            | O -> true
            | S _ -> false)
    | S n' -> (match m with
               | O -> false
               | S m' -> eqb n' m')

  (** val leb : nat -> nat -> bool **)

  let rec leb n0 m =
    match n0 with
    | O -> true
    | S n' -> (match m with
               | O -> false
               | S m' -> leb n' m')

  (** val ltb : nat -> nat -> bool **)

  let ltb n0 m =
    leb (S n0) m
 end

(** val hd : 'a1 -> 'a1 list -> 'a1 **)

let hd default = function
| [] -> default
| x :: _ -> x

(** val hd_error : 'a1 list -> 'a1 option **)

let hd_error = function
| [] -> None
| x :: _ -> Some x

(** val nth : nat -> 'a1 list -> 'a1 -> 'a1 **)

let rec nth n0 l default =
  match n0 with
  | O -> (match l with
          | [] -> default
          | x :: _ -> x)
  | S m -> (match l with
            | [] -> default
            | _ :: t -> nth m t default)

(** val nth_error : 'a1 list -> nat -> 'a1 option **)

let rec nth_error l = function
| O -> (match l with
        | [] -> None
        | x :: _ -> Some x)
| S n1 -> (match l with
           | [] -> None
           | _ :: l0 -> nth_error l0 n1)

(** val rev : 'a1 list -> 'a1 list **)

let rec rev = function
| [] -> []
| x :: l' -> app (rev l') (x :: [])

(** val concat : 'a1 list list -> 'a1 list **)

let rec concat = function
| [] -> []
| x :: l0 -> app x (concat l0)

(** val map : ('a1 -> 'a2) -> 'a1 list -> 'a2 list **)

let rec map f = function
| [] -> []
| a :: t -> (f a) :: (map f t)

(** val fold_left : ('a1 -> 'a2 -> 'a1) -> 'a2 list -> 'a1 -> 'a1 **)

let rec fold_left f l a0 =
  match l with
  | [] -> a0
  | b :: t -> fold_left f t (f a0 b)

(** val fold_right : ('a2 -> 'a1 -> 'a1) -> 'a1 -> 'a2 list -> 'a1 **)

let rec fold_right f a0 = function
| [] -> a0
| b :: t -> f b (fold_right f a0 t)

(** val existsb : ('a1 -> bool) -> 'a1 list -> bool **)

let rec existsb f = function
| [] -> false
| a :: l0 -> (||) (f a) (existsb f l0)

(** val forallb : ('a1 -> bool) -> 'a1 list -> bool **)

let rec forallb f = function
| [] -> true
| a :: l0 -> (&&) (f a) (forallb f l0)

(** val find : ('a1 -> bool) -> 'a1 list -> 'a1 option **)

let rec find f = function
| [] -> None
| x :: tl -> if f x then Some x else find f tl

(** val firstn : nat -> 'a1 list -> 'a1 list **)

let rec firstn n0 l =
  match n0 with
  | O -> []
  | S n1 -> (match l with
             | [] -> []
             | a :: l0 -> a :: (firstn n1 l0))

(** val skipn : nat -> 'a1 list -> 'a1 list **)

let rec skipn n0 l =
  match n0 with
  | O -> l
  | S n1 -> (match l with
             | [] -> []
             | _ :: l0 -> skipn n1 l0)

(** val seq : nat -> nat -> nat list **)

let rec seq start = function
| O -> []
| S len0 -> start :: (seq (S start) len0)

type positive =
| XI of positive
| XO of positive
| XH

type n =
| N0
| Npos of positive

type z =
| Z0
| Zpos of positive
| Zneg of positive

module Pos =
 struct
  (** val succ : positive -> positive **)

  let rec succ = function
  | XI p -> XO (succ p)
  | XO p -> XI p
  | XH -> XO XH

  (** val add : positive -> positive -> positive **)

  let rec add x y =
    match x with
    | XI p ->
      (match y with
       | XI q -> XO (add_carry p q)
       | XO q -> XI (add p q)
       | XH -> XO (succ p))
    | XO p ->
      (match y with
       | XI q -> XI (add p q)
       | XO q -> XO (add p q)
       | XH -> XI p)
    | XH -> (match y with
             | XI q -> XO (succ q)
             | XO q -> XI q
             | XH -> XO XH)

  (** val add_carry : positive -> positive -> positive **)

  and add_carry x y =
    match x with
    | XI p ->
      (match y with
       | XI q -> XI (add_carry p q)
       | XO q -> XO (add_carry p q)
       | XH -> XI (succ p))
    | XO p ->
      (match y with
       | XI q -> XO (add_carry p q)
       | XO q -> XI (add p q)
       | XH -> XO (succ p))
    | XH ->
      (match y with
       | XI q -> XI (succ q)
       | XO q -> XO (succ q)
       | XH -> XI XH)

  (** val pred_double : positive -> positive **)

  let rec pred_double = function
  | XI p -> XI (XO p)
  | XO p -> XI (pred_double p)
  | XH -> XH

  (** val pred_N : positive -> n **)

  let pred_N = function
  | XI p -> Npos (XO p)
  | XO p -> Npos (pred_double p)
  | XH -> N0

  (** val mul : positive -> positive -> positive **)

  let rec mul x y =
    match x with
    | XI p -> add y (XO (mul p y))
    | XO p -> XO (mul p y)
    | XH -> y

  (** val compare_cont : comparison -> positive -> positive -> comparison **)

  let rec compare_cont r x y =
    match x with
    | XI p ->
      (match y with
       | XI q -> compare_cont r p q
       | XO q -> compare_cont Gt p q
       | XH -> Gt)
    | XO p ->
      (match y with
       | XI q -> compare_cont Lt p q
       | XO q -> compare_cont r p q
       | XH -> Gt)
    | XH -> (match y with
             | XH -> r
             | _ -> Lt)

  (** val compare : positive -> positive -> comparison **)

  let compare =
    compare_cont Eq

  (** val eqb : positive -> positive -> bool **)

  let rec eqb p q =
    match p with
    | XI p0 -> (match q with
                | XI q0 -> eqb p0 q0
                | _ -> false)
    | XO p0 -> (match q with
                | XO q0 -> eqb p0 q0
                | _ -> false)
    | XH -> (match q with
             | XH -> true
             | _ -> false)

  (** val coq_Nsucc_double : n -> n **)

  let coq_Nsucc_double = function
  | N0 -> Npos XH
  | Npos p -> Npos (XI p)

  (** val coq_Ndouble : n -> n **)

  let coq_Ndouble = function
  | N0 -> N0
  | Npos p -> Npos (XO p)

  (** val coq_lor : positive -> positive -> positive **)

  let rec coq_lor p q =
    match p with
    | XI p0 ->
      (match q with
       | XI q0 -> XI (coq_lor p0 q0)
       | XO q0 -> XI (coq_lor p0 q0)
       | XH -> p)
    | XO p0 ->
      (match q with
       | XI q0 -> XI (coq_lor p0 q0)
       | XO q0 -> XO (coq_lor p0 q0)
       | XH -> XI p0)
    | XH -> (match q with
             | XO q0 -> XI q0
             | _ -> q)

  (** val coq_land : positive -> positive -> n **)

  let rec coq_land p q =
    match p with
    | XI p0 ->
      (match q with
       | XI q0 -> coq_Nsucc_double (coq_land p0 q0)
       | XO q0 -> coq_Ndouble (coq_land p0 q0)
       | XH -> Npos XH)
    | XO p0 ->
      (match q with
       | XI q0 -> coq_Ndouble (coq_land p0 q0)
       | XO q0 -> coq_Ndouble (coq_land p0 q0)
       | XH -> N0)
    | XH -> (match q with
             | XO _ -> N0
             | _ -> Npos XH)

  (** val ldiff : positive -> positive -> n **)

  let rec ldiff p q =
    match p with
    | XI p0 ->
      (match q with
       | XI q0 -> coq_Ndouble (ldiff p0 q0)
       | XO q0 -> coq_Nsucc_double (ldiff p0 q0)
       | XH -> Npos (XO p0))
    | XO p0 ->
      (match q with
       | XI q0 -> coq_Ndouble (ldiff p0 q0)
       | XO q0 -> coq_Ndouble (ldiff p0 q0)
       | XH -> Npos p)
    | XH -> (match q with
             | XO _ -> Npos XH
             | _ -> N0)
 end

module N =
 struct
  (** val succ_pos : n -> positive **)

  let succ_pos = function
  | N0 -> XH
  | Npos p -> Pos.succ p

  (** val coq_lor : n -> n -> n **)

  let coq_lor n0 m =
    match n0 with
    | N0 -> m
    | Npos p -> (match m with
                 | N0 -> n0
                 | Npos q -> Npos (Pos.coq_lor p q))

  (** val coq_land : n -> n -> n **)

  let coq_land n0 m =
    match n0 with
    | N0 -> N0
    | Npos p -> (match m with
                 | N0 -> N0
                 | Npos q -> Pos.coq_land p q)

  (** val ldiff : n -> n -> n **)

  let ldiff n0 m =
    match n0 with
    | N0 -> N0
    | Npos p -> (match m with
                 | N0 -> n0
                 | Npos q -> Pos.ldiff p q)
 end

module Z =
 struct
  (** val double : z -> z **)

  let double = function
  | Z0 -> Z0
  | Zpos p -> Zpos (XO p)
  | Zneg p -> Zneg (XO p)

  (** val succ_double : z -> z **)

  let succ_double = function
  | Z0 -> Zpos XH
  | Zpos p -> Zpos (XI p)
  | Zneg p -> Zneg (Pos.pred_double p)

  (** val pred_double : z -> z **)

  let pred_double = function
  | Z0 -> Zneg XH
  | Zpos p -> Zpos (Pos.pred_double p)
  | Zneg p -> Zneg (XI p)

  (** val pos_sub : positive -> positive -> z **)

  let rec pos_sub x y =
    match x with
    | XI p ->
      (match y with
       | XI q -> double (pos_sub p q)
       | XO q -> succ_double (pos_sub p q)
       | XH -> Zpos (XO p))
    | XO p ->
      (match y with
       | XI q -> pred_double (pos_sub p q)
       | XO q -> double (pos_sub p q)
       | XH -> Zpos (Pos.pred_double p))
    | XH ->
      (match y with
       | XI q -> Zneg (XO q)
       | XO q -> Zneg (Pos.pred_double q)
       | XH -> Z0)

  (** val add : z -> z -> z **)

  let add x y =
    match x with
    | Z0 -> y
    | Zpos x' ->
      (match y with
       | Z0 -> x
       | Zpos y' -> Zpos (Pos.add x' y')
       | Zneg y' -> pos_sub x' y')
    | Zneg x' ->
      (match y with
       | Z0 -> x
       | Zpos y' -> pos_sub y' x'
       | Zneg y' -> Zneg (Pos.add x' y'))

  (** val opp : z -> z **)

  let opp = function
  | Z0 -> Z0
  | Zpos x0 -> Zneg x0
  | Zneg x0 -> Zpos x0

  (** val pred : z -> z **)

  let pred x =
    add x (Zneg XH)

  (** val sub : z -> z -> z **)

  let sub m n0 =
    add m (opp n0)

  (** val mul : z -> z -> z **)

  let mul x y =
    match x with
    | Z0 -> Z0
    | Zpos x' ->
      (match y with
       | Z0 -> Z0
       | Zpos y' -> Zpos (Pos.mul x' y')
       | Zneg y' -> Zneg (Pos.mul x' y'))
    | Zneg x' ->
      (match y with
       | Z0 -> Z0
       | Zpos y' -> Zneg (Pos.mul x' y')
       | Zneg y' -> Zpos (Pos.mul x' y'))

  (** val compare : z -> z -> comparison **)

  let compare x y =
    match x with
    | Z0 -> (match y with
             | Z0 -> Eq
             | Zpos _ -> Lt
             | Zneg _ -> Gt)
    | Zpos x' -> (match y with
                  | Zpos y' -> Pos.compare x' y'
                  | _ -> Gt)
    | Zneg x' ->
      (match y with
       | Zneg y' -> compOpp (Pos.compare x' y')
       | _ -> Lt)

  (** val leb : z -> z -> bool **)

  let leb x y =
    match compare x y with
    | Gt -> false
    | _ -> true

  (** val ltb : z -> z -> bool **)

  let ltb x y =
    match compare x y with
    | Lt -> true
    | _ -> false

  (** val gtb : z -> z -> bool **)

  let gtb x y =
    match compare x y with
    | Gt -> true
    | _ -> false

  (** val eqb : z -> z -> bool **)

  let eqb x y =
    match x with
    | Z0 -> (match y with
             | Z0 -> true
             | _ -> false)
    | Zpos p -> (match y with
                 | Zpos q -> Pos.eqb p q
                 | _ -> false)
    | Zneg p -> (match y with
                 | Zneg q -> Pos.eqb p q
                 | _ -> false)

  (** val of_N : n -> z **)

  let of_N = function
  | N0 -> Z0
  | Npos p -> Zpos p

  (** val pos_div_eucl : positive -> z -> z * z **)

  let rec pos_div_eucl a b =
    match a with
    | XI a' ->
      let (q, r) = pos_div_eucl a' b in
      let r' = add (mul (Zpos (XO XH)) r) (Zpos XH) in
      if ltb r' b
      then ((mul (Zpos (XO XH)) q), r')
      else ((add (mul (Zpos (XO XH)) q) (Zpos XH)), (sub r' b))
    | XO a' ->
      let (q, r) = pos_div_eucl a' b in
      let r' = mul (Zpos (XO XH)) r in
      if ltb r' b
      then ((mul (Zpos (XO XH)) q), r')
      else ((add (mul (Zpos (XO XH)) q) (Zpos XH)), (sub r' b))
    | XH -> if leb (Zpos (XO XH)) b then (Z0, (Zpos XH)) else ((Zpos XH), Z0)

  (** val div_eucl : z -> z -> z * z **)

  let div_eucl a b =
    match a with
    | Z0 -> (Z0, Z0)
    | Zpos a' ->
      (match b with
       | Z0 -> (Z0, a)
       | Zpos _ -> pos_div_eucl a' b
       | Zneg b' ->
         let (q, r) = pos_div_eucl a' (Zpos b') in
         (match r with
          | Z0 -> ((opp q), Z0)
          | _ -> ((opp (add q (Zpos XH))), (add b r))))
    | Zneg a' ->
      (match b with
       | Z0 -> (Z0, a)
       | Zpos _ ->
         let (q, r) = pos_div_eucl a' b in
         (match r with
          | Z0 -> ((opp q), Z0)
          | _ -> ((opp (add q (Zpos XH))), (sub b r)))
       | Zneg b' -> let (q, r) = pos_div_eucl a' (Zpos b') in (q, (opp r)))

  (** val modulo : z -> z -> z **)

  let modulo a b =
    let (_, r) = div_eucl a b in r

  (** val coq_lor : z -> z -> z **)

  let coq_lor a b =
    match a with
    | Z0 -> b
    | Zpos a0 ->
      (match b with
       | Z0 -> a
       | Zpos b0 -> Zpos (Pos.coq_lor a0 b0)
       | Zneg b0 -> Zneg (N.succ_pos (N.ldiff (Pos.pred_N b0) (Npos a0))))
    | Zneg a0 ->
      (match b with
       | Z0 -> a
       | Zpos b0 -> Zneg (N.succ_pos (N.ldiff (Pos.pred_N a0) (Npos b0)))
       | Zneg b0 ->
         Zneg (N.succ_pos (N.coq_land (Pos.pred_N a0) (Pos.pred_N b0))))

  (** val coq_land : z -> z -> z **)

  let coq_land a b =
    match a with
    | Z0 -> Z0
    | Zpos a0 ->
      (match b with
       | Z0 -> Z0
       | Zpos b0 -> of_N (Pos.coq_land a0 b0)
       | Zneg b0 -> of_N (N.ldiff (Npos a0) (Pos.pred_N b0)))
    | Zneg a0 ->
      (match b with
       | Z0 -> Z0
       | Zpos b0 -> of_N (N.ldiff (Npos b0) (Pos.pred_N a0))
       | Zneg b0 ->
         Zneg (N.succ_pos (N.coq_lor (Pos.pred_N a0) (Pos.pred_N b0))))

  (** val lnot : z -> z **)

  let lnot a =
    pred (opp a)
 end

type fault =
| OOB_read
| OOB_write
| Uninit_read
| Null_deref
| Use_after_free
| Bad_free
| Out_of_fuel
| Int_overflow
| Abort

type 'a res =
| Ok of 'a
| Fault of fault

(** val bind : 'a1 res -> ('a1 -> 'a2 res) -> 'a2 res **)

let bind r k =
  match r with
  | Ok a -> k a
  | Fault f -> Fault f

(** val num_anchor : ((nat * positive) * n) * z **)

let num_anchor =
  (((O, XH), N0), Z0)

(** val upd : 'a1 list -> nat -> 'a1 -> 'a1 list **)

let rec upd l n0 v =
  match l with
  | [] -> []
  | x :: t -> (match n0 with
               | O -> v :: t
               | S n' -> x :: (upd t n' v))

(** val isspace : z -> bool **)

let isspace c =
  (||)
    ((&&) (Z.leb (Zpos (XI (XO (XO XH)))) c)
      (Z.leb c (Zpos (XI (XO (XI XH))))))
    (Z.eqb c (Zpos (XO (XO (XO (XO (XO XH)))))))

(** val isupper : z -> bool **)

let isupper c =
  (&&) (Z.leb (Zpos (XI (XO (XO (XO (XO (XO XH))))))) c)
    (Z.leb c (Zpos (XO (XI (XO (XI (XI (XO XH))))))))

(** val islower : z -> bool **)

let islower c =
  (&&) (Z.leb (Zpos (XI (XO (XO (XO (XO (XI XH))))))) c)
    (Z.leb c (Zpos (XO (XI (XO (XI (XI (XI XH))))))))

(** val isdigit : z -> bool **)

let isdigit c =
  (&&) (Z.leb (Zpos (XO (XO (XO (XO (XI XH)))))) c)
    (Z.leb c (Zpos (XI (XO (XO (XI (XI XH)))))))

(** val tolower : z -> z **)

let tolower c =
  if isupper c then Z.add c (Zpos (XO (XO (XO (XO (XO XH)))))) else c

(** val flag_boolean : z **)

let flag_boolean =
  Zpos XH

(** val flag_integer : z **)

let flag_integer =
  Zpos (XO (XO (XO (XO (XO XH)))))

(** val flag_string : z **)

let flag_string =
  Zpos (XO (XO (XO (XO (XO (XO XH))))))

(** val flag_arglist : z **)

let flag_arglist =
  Zpos (XO (XO (XO (XO (XO (XO (XO XH)))))))

(** val flag_abstract : z **)

let flag_abstract =
  Zpos (XO (XO (XO (XO (XO (XO (XO (XO (XO (XO XH))))))))))

(** val flag_preparse : z **)

let flag_preparse =
  Zpos (XO (XO (XO (XO (XO (XO (XO (XO (XO (XO (XO XH)))))))))))

(** val flag_typemask_value : z **)

let flag_typemask_value =
  Zpos (XO (XO (XO (XO (XO (XI (XI (XI (XI XH)))))))))

(** val true_vals : z list list **)

let true_vals =
  ((Zpos (XI (XO (XO (XO (XI XH)))))) :: []) :: (((Zpos (XI (XI (XI (XI (XO
    (XI XH))))))) :: ((Zpos (XO (XI (XI (XI (XO (XI
    XH))))))) :: [])) :: (((Zpos (XO (XO (XI (XO (XI (XI XH))))))) :: ((Zpos
    (XO (XI (XO (XO (XI (XI XH))))))) :: ((Zpos (XI (XO (XI (XO (XI (XI
    XH))))))) :: ((Zpos (XI (XO (XI (XO (XO (XI
    XH))))))) :: [])))) :: (((Zpos (XI (XO (XO (XI (XI (XI
    XH))))))) :: ((Zpos (XI (XO (XI (XO (XO (XI XH))))))) :: ((Zpos (XI (XI
    (XO (XO (XI (XI XH))))))) :: []))) :: [])))

(** val false_vals : z list list **)

let false_vals =
  ((Zpos (XO (XO (XO (XO (XI XH)))))) :: []) :: (((Zpos (XI (XI (XI (XI (XO
    (XI XH))))))) :: ((Zpos (XO (XI (XI (XO (XO (XI XH))))))) :: ((Zpos (XO
    (XI (XI (XO (XO (XI XH))))))) :: []))) :: (((Zpos (XO (XI (XI (XO (XO (XI
    XH))))))) :: ((Zpos (XI (XO (XO (XO (XO (XI XH))))))) :: ((Zpos (XO (XO
    (XI (XI (XO (XI XH))))))) :: ((Zpos (XI (XI (XO (XO (XI (XI
    XH))))))) :: ((Zpos (XI (XO (XI (XO (XO (XI
    XH))))))) :: []))))) :: (((Zpos (XO (XI (XI (XI (XO (XI
    XH))))))) :: ((Zpos (XI (XI (XI (XI (XO (XI XH))))))) :: [])) :: [])))

(** val bad_opts_modulus : z **)

let bad_opts_modulus =
  Zpos (XO (XO (XO (XO (XO (XO (XO (XO XH))))))))

(** val mask_modulus : z **)

let mask_modulus =
  Zpos (XO (XO (XO (XO (XO (XO (XO (XO (XO (XO (XO (XO (XO (XO (XO (XO (XO
    (XO (XO (XO (XO (XO (XO (XO (XO (XO (XO (XO (XO (XO (XO (XO
    XH))))))))))))))))))))))))))))))))

type opt = { o_short : z; o_long : z list; o_flags : z; o_slot : nat option;
             o_mask : z }

(** val has : opt -> z -> bool **)

let has o f =
  negb (Z.eqb (Z.coq_land o.o_flags f) Z0)

(** val is_boolean : opt -> bool **)

let is_boolean o =
  has o flag_boolean

(** val is_integer : opt -> bool **)

let is_integer o =
  has o flag_integer

(** val is_string : opt -> bool **)

let is_string o =
  has o flag_string

(** val is_arglist : opt -> bool **)

let is_arglist o =
  has o flag_arglist

(** val is_abstract : opt -> bool **)

let is_abstract o =
  has o flag_abstract

(** val is_preparse : opt -> bool **)

let is_preparse o =
  has o flag_preparse

(** val needs_value : opt -> bool **)

let needs_value o =
  has o flag_typemask_value

type word = z list

type store = { sb : z list; si : z list; ss : word option list;
               sl : word option list option list;
               sa : (nat * word option) list }

(** val set_sb : store -> z list -> store **)

let set_sb s v =
  { sb = v; si = s.si; ss = s.ss; sl = s.sl; sa = s.sa }

(** val set_si : store -> z list -> store **)

let set_si s v =
  { sb = s.sb; si = v; ss = s.ss; sl = s.sl; sa = s.sa }

(** val set_ss : store -> word option list -> store **)

let set_ss s v =
  { sb = s.sb; si = s.si; ss = v; sl = s.sl; sa = s.sa }

(** val set_sl : store -> word option list option list -> store **)

let set_sl s v =
  { sb = s.sb; si = s.si; ss = s.ss; sl = v; sa = s.sa }

(** val set_sa : store -> (nat * word option) list -> store **)

let set_sa s v =
  { sb = s.sb; si = s.si; ss = s.ss; sl = s.sl; sa = v }

(** val slot_upd : 'a1 list -> nat option -> ('a1 -> 'a1) -> 'a1 list res **)

let slot_upd l slot f =
  match slot with
  | Some k ->
    (match nth_error l k with
     | Some v -> Ok (upd l k (f v))
     | None -> Fault OOB_write)
  | None -> Fault Null_deref

type env = { e_tbl : opt list; e_strs : z list list; e_argc : nat;
             e_pre : bool; e_rm : bool; e_allow : z; e_ret : bool }

type st = { st_i : nat; st_argv : nat option list; st_sto : store;
            st_bad : z; st_helps : nat; st_nbad : nat }

(** val set_i : st -> nat -> st **)

let set_i s v =
  { st_i = v; st_argv = s.st_argv; st_sto = s.st_sto; st_bad = s.st_bad;
    st_helps = s.st_helps; st_nbad = s.st_nbad }

(** val set_argv : st -> nat option list -> st **)

let set_argv s v =
  { st_i = s.st_i; st_argv = v; st_sto = s.st_sto; st_bad = s.st_bad;
    st_helps = s.st_helps; st_nbad = s.st_nbad }

(** val set_sto : st -> store -> st **)

let set_sto s v =
  { st_i = s.st_i; st_argv = s.st_argv; st_sto = v; st_bad = s.st_bad;
    st_helps = s.st_helps; st_nbad = s.st_nbad }

type ptr = nat * nat

type outcome =
| Done of bool * st
| Helped of bool * st

(** val str_of : env -> nat -> z list res **)

let str_of e sid =
  match nth_error e.e_strs sid with
  | Some s -> Ok s
  | None -> Fault OOB_read

(** val getc : env -> ptr -> z res **)

let getc e p =
  bind (str_of e (fst p)) (fun s ->
    if Nat.ltb (snd p) (length s)
    then Ok (nth (snd p) s Z0)
    else if Nat.eqb (snd p) (length s) then Ok Z0 else Fault OOB_read)

(** val take_nz : z list -> z list **)

let rec take_nz = function
| [] -> []
| c :: t -> if Z.eqb c Z0 then [] else c :: (take_nz t)

(** val cstr_at : env -> ptr -> z list res **)

let cstr_at e p =
  bind (str_of e (fst p)) (fun s ->
    if Nat.leb (snd p) (length s)
    then Ok (take_nz (skipn (snd p) s))
    else Fault OOB_read)

(** val argv_get : nat option list -> nat -> nat option res **)

let argv_get a k =
  match nth_error a k with
  | Some v -> Ok v
  | None -> Fault OOB_read

(** val argv_set :
    nat option list -> nat -> nat option -> nat option list res **)

let argv_set a k v =
  if Nat.ltb k (length a) then Ok (upd a k v) else Fault OOB_write

(** val tbl_get : env -> nat -> opt res **)

let tbl_get e j =
  match nth_error e.e_tbl j with
  | Some o -> Ok o
  | None -> Fault OOB_read

(** val arg_ptr : nat option -> ptr option **)

let arg_ptr a =
  option_map (fun sid -> (sid, O)) a

(** val ptr_eqb : ptr -> ptr -> bool **)

let ptr_eqb p q =
  (&&) (Nat.eqb (fst p) (fst q)) (Nat.eqb (snd p) (snd q))

(** val optptr_eqb : ptr option -> ptr option -> bool **)

let optptr_eqb p q =
  match p with
  | Some a -> (match q with
               | Some b -> ptr_eqb a b
               | None -> false)
  | None -> (match q with
             | Some _ -> false
             | None -> true)

(** val is_some : 'a1 option -> bool **)

let is_some = function
| Some _ -> true
| None -> false

(** val bytes_eqb : z list -> z list -> bool **)

let rec bytes_eqb a b =
  match a with
  | [] -> (match b with
           | [] -> true
           | _ :: _ -> false)
  | x :: a' ->
    (match b with
     | [] -> false
     | y :: b' -> (&&) (Z.eqb x y) (bytes_eqb a' b'))

(** val lower : z list -> z list **)

let lower s =
  map tolower s

(** val streq_ci : z list -> z list -> bool **)

let streq_ci a b =
  bytes_eqb (lower a) (lower b)

(** val istrue : z list -> bool **)

let istrue v =
  existsb (streq_ci v) true_vals

(** val isfalse : z list -> bool **)

let isfalse v =
  existsb (streq_ci v) false_vals

(** val is_boolean_value : z list -> bool **)

let is_boolean_value v = match v with
| [] -> false
| _ :: _ -> (||) (istrue v) (isfalse v)

(** val long_matches : z list -> z list -> bool **)

let long_matches l name =
  let n0 = length l in
  (&&)
    ((&&) (Nat.leb n0 (length name))
      (bytes_eqb (lower l) (lower (firstn n0 name))))
    (match nth_error name n0 with
     | Some c -> Z.eqb c (Zpos (XI (XO (XI (XI (XI XH))))))
     | None -> true)

(** val find_idx : ('a1 -> bool) -> 'a1 list -> nat -> nat option **)

let rec find_idx f l k =
  match l with
  | [] -> None
  | x :: t -> if f x then Some k else find_idx f t (S k)

(** val find_long : opt list -> z list -> nat option **)

let find_long tbl name =
  find_idx (fun o -> long_matches o.o_long name) tbl O

(** val find_short : opt list -> z -> nat option **)

let find_short tbl c =
  find_idx (fun o -> Z.eqb o.o_short c) tbl O

(** val index_eq : z list -> nat option **)

let rec index_eq = function
| [] -> None
| c :: t ->
  if Z.eqb c (Zpos (XI (XO (XI (XI (XI XH))))))
  then Some O
  else option_map (fun x -> S x) (index_eq t)

(** val skip_ws : z list -> z list **)

let rec skip_ws l = match l with
| [] -> []
| c :: t -> if isspace c then skip_ws t else l

(** val digit_val : z -> z **)

let digit_val c =
  if isdigit c
  then Z.sub c (Zpos (XO (XO (XO (XO (XI XH))))))
  else if islower c
       then Z.sub c (Zpos (XI (XI (XI (XO (XI (XO XH)))))))
       else if isupper c
            then Z.sub c (Zpos (XI (XI (XI (XO (XI XH))))))
            else Zpos (XI (XI (XO (XO (XO (XI XH))))))

(** val acc_digits : z -> z list -> z -> z **)

let rec acc_digits base l v =
  match l with
  | [] -> v
  | c :: t ->
    let d = digit_val c in
    if Z.ltb d base then acc_digits base t (Z.add (Z.mul v base) d) else v

(** val long_max : z **)

let long_max =
  Zpos (XI (XI (XI (XI (XI (XI (XI (XI (XI (XI (XI (XI (XI (XI (XI (XI (XI
    (XI (XI (XI (XI (XI (XI (XI (XI (XI (XI (XI (XI (XI (XI (XI (XI (XI (XI
    (XI (XI (XI (XI (XI (XI (XI (XI (XI (XI (XI (XI (XI (XI (XI (XI (XI (XI
    (XI (XI (XI (XI (XI (XI (XI (XI (XI
    XH))))))))))))))))))))))))))))))))))))))))))))))))))))))))))))))

(** val long_min : z **)

let long_min =
  Zneg (XO (XO (XO (XO (XO (XO (XO (XO (XO (XO (XO (XO (XO (XO (XO (XO (XO
    (XO (XO (XO (XO (XO (XO (XO (XO (XO (XO (XO (XO (XO (XO (XO (XO (XO (XO
    (XO (XO (XO (XO (XO (XO (XO (XO (XO (XO (XO (XO (XO (XO (XO (XO (XO (XO
    (XO (XO (XO (XO (XO (XO (XO (XO (XO (XO
    XH)))))))))))))))))))))))))))))))))))))))))))))))))))))))))))))))

(** val strtol0 : z list -> z **)

let strtol0 s =
  let s0 = skip_ws s in
  (match s0 with
   | [] ->
     let neg = false in
     (match s0 with
      | [] ->
        let base = Zpos (XO (XI (XO XH))) in
        let v = acc_digits base s0 Z0 in
        let v0 = if neg then Z.opp v else v in
        if Z.gtb v0 long_max
        then long_max
        else if Z.ltb v0 long_min then long_min else v0
      | c :: l ->
        (match l with
         | [] ->
           if Z.eqb c (Zpos (XO (XO (XO (XO (XI XH))))))
           then let base = Zpos (XO (XO (XO XH))) in
                let v = acc_digits base s0 Z0 in
                let v0 = if neg then Z.opp v else v in
                if Z.gtb v0 long_max
                then long_max
                else if Z.ltb v0 long_min then long_min else v0
           else let base = Zpos (XO (XI (XO XH))) in
                let v = acc_digits base s0 Z0 in
                let v0 = if neg then Z.opp v else v in
                if Z.gtb v0 long_max
                then long_max
                else if Z.ltb v0 long_min then long_min else v0
         | x :: l0 ->
           (match l0 with
            | [] ->
              if Z.eqb c (Zpos (XO (XO (XO (XO (XI XH))))))
              then let base = Zpos (XO (XO (XO XH))) in
                   let v = acc_digits base s0 Z0 in
                   let v0 = if neg then Z.opp v else v in
                   if Z.gtb v0 long_max
                   then long_max
                   else if Z.ltb v0 long_min then long_min else v0
              else let base = Zpos (XO (XI (XO XH))) in
                   let v = acc_digits base s0 Z0 in
                   let v0 = if neg then Z.opp v else v in
                   if Z.gtb v0 long_max
                   then long_max
                   else if Z.ltb v0 long_min then long_min else v0
            | d :: t ->
              if (&&)
                   ((&&) (Z.eqb c (Zpos (XO (XO (XO (XO (XI XH)))))))
                     ((||) (Z.eqb x (Zpos (XO (XO (XO (XI (XI (XI XH))))))))
                       (Z.eqb x (Zpos (XO (XO (XO (XI (XI (XO XH))))))))))
                   (Z.ltb (digit_val d) (Zpos (XO (XO (XO (XO XH))))))
              then let base = Zpos (XO (XO (XO (XO XH)))) in
                   let s1 = d :: t in
                   let v = acc_digits base s1 Z0 in
                   let v0 = if neg then Z.opp v else v in
                   if Z.gtb v0 long_max
                   then long_max
                   else if Z.ltb v0 long_min then long_min else v0
              else if Z.eqb c (Zpos (XO (XO (XO (XO (XI XH))))))
                   then let base = Zpos (XO (XO (XO XH))) in
                        let v = acc_digits base s0 Z0 in
                        let v0 = if neg then Z.opp v else v in
                        if Z.gtb v0 long_max
                        then long_max
                        else if Z.ltb v0 long_min then long_min else v0
                   else let base = Zpos (XO (XI (XO XH))) in
                        let v = acc_digits base s0 Z0 in
                        let v0 = if neg then Z.opp v else v in
                        if Z.gtb v0 long_max
                        then long_max
                        else if Z.ltb v0 long_min then long_min else v0)))
   | c :: t ->
     if Z.eqb c (Zpos (XI (XO (XI (XI (XO XH))))))
     then let neg = true in
          (match t with
           | [] ->
             let base = Zpos (XO (XI (XO XH))) in
             let v = acc_digits base t Z0 in
             let v0 = if neg then Z.opp v else v in
             if Z.gtb v0 long_max
             then long_max
             else if Z.ltb v0 long_min then long_min else v0
           | c0 :: l ->
             (match l with
              | [] ->
                if Z.eqb c0 (Zpos (XO (XO (XO (XO (XI XH))))))
                then let base = Zpos (XO (XO (XO XH))) in
                     let v = acc_digits base t Z0 in
                     let v0 = if neg then Z.opp v else v in
                     if Z.gtb v0 long_max
                     then long_max
                     else if Z.ltb v0 long_min then long_min else v0
                else let base = Zpos (XO (XI (XO XH))) in
                     let v = acc_digits base t Z0 in
                     let v0 = if neg then Z.opp v else v in
                     if Z.gtb v0 long_max
                     then long_max
                     else if Z.ltb v0 long_min then long_min else v0
              | x :: l0 ->
                (match l0 with
                 | [] ->
                   if Z.eqb c0 (Zpos (XO (XO (XO (XO (XI XH))))))
                   then let base = Zpos (XO (XO (XO XH))) in
                        let v = acc_digits base t Z0 in
                        let v0 = if neg then Z.opp v else v in
                        if Z.gtb v0 long_max
                        then long_max
                        else if Z.ltb v0 long_min then long_min else v0
                   else let base = Zpos (XO (XI (XO XH))) in
                        let v = acc_digits base t Z0 in
                        let v0 = if neg then Z.opp v else v in
                        if Z.gtb v0 long_max
                        then long_max
                        else if Z.ltb v0 long_min then long_min else v0
                 | d :: t0 ->
                   if (&&)
                        ((&&) (Z.eqb c0 (Zpos (XO (XO (XO (XO (XI XH)))))))
                          ((||)
                            (Z.eqb x (Zpos (XO (XO (XO (XI (XI (XI XH))))))))
                            (Z.eqb x (Zpos (XO (XO (XO (XI (XI (XO XH))))))))))
                        (Z.ltb (digit_val d) (Zpos (XO (XO (XO (XO XH))))))
                   then let base = Zpos (XO (XO (XO (XO XH)))) in
                        let s1 = d :: t0 in
                        let v = acc_digits base s1 Z0 in
                        let v0 = if neg then Z.opp v else v in
                        if Z.gtb v0 long_max
                        then long_max
                        else if Z.ltb v0 long_min then long_min else v0
                   else if Z.eqb c0 (Zpos (XO (XO (XO (XO (XI XH))))))
                        then let base = Zpos (XO (XO (XO XH))) in
                             let v = acc_digits base t Z0 in
                             let v0 = if neg then Z.opp v else v in
                             if Z.gtb v0 long_max
                             then long_max
                             else if Z.ltb v0 long_min then long_min else v0
                        else let base = Zpos (XO (XI (XO XH))) in
                             let v = acc_digits base t Z0 in
                             let v0 = if neg then Z.opp v else v in
                             if Z.gtb v0 long_max
                             then long_max
                             else if Z.ltb v0 long_min then long_min else v0)))
     else if Z.eqb c (Zpos (XI (XI (XO (XI (XO XH))))))
          then let neg = false in
               (match t with
                | [] ->
                  let base = Zpos (XO (XI (XO XH))) in
                  let v = acc_digits base t Z0 in
                  let v0 = if neg then Z.opp v else v in
                  if Z.gtb v0 long_max
                  then long_max
                  else if Z.ltb v0 long_min then long_min else v0
                | c0 :: l ->
                  (match l with
                   | [] ->
                     if Z.eqb c0 (Zpos (XO (XO (XO (XO (XI XH))))))
                     then let base = Zpos (XO (XO (XO XH))) in
                          let v = acc_digits base t Z0 in
                          let v0 = if neg then Z.opp v else v in
                          if Z.gtb v0 long_max
                          then long_max
                          else if Z.ltb v0 long_min then long_min else v0
                     else let base = Zpos (XO (XI (XO XH))) in
                          let v = acc_digits base t Z0 in
                          let v0 = if neg then Z.opp v else v in
                          if Z.gtb v0 long_max
                          then long_max
                          else if Z.ltb v0 long_min then long_min else v0
                   | x :: l0 ->
                     (match l0 with
                      | [] ->
                        if Z.eqb c0 (Zpos (XO (XO (XO (XO (XI XH))))))
                        then let base = Zpos (XO (XO (XO XH))) in
                             let v = acc_digits base t Z0 in
                             let v0 = if neg then Z.opp v else v in
                             if Z.gtb v0 long_max
                             then long_max
                             else if Z.ltb v0 long_min then long_min else v0
                        else let base = Zpos (XO (XI (XO XH))) in
                             let v = acc_digits base t Z0 in
                             let v0 = if neg then Z.opp v else v in
                             if Z.gtb v0 long_max
                             then long_max
                             else if Z.ltb v0 long_min then long_min else v0
                      | d :: t0 ->
                        if (&&)
                             ((&&)
                               (Z.eqb c0 (Zpos (XO (XO (XO (XO (XI XH)))))))
                               ((||)
                                 (Z.eqb x (Zpos (XO (XO (XO (XI (XI (XI
                                   XH))))))))
                                 (Z.eqb x (Zpos (XO (XO (XO (XI (XI (XO
                                   XH))))))))))
                             (Z.ltb (digit_val d) (Zpos (XO (XO (XO (XO
                               XH))))))
                        then let base = Zpos (XO (XO (XO (XO XH)))) in
                             let s1 = d :: t0 in
                             let v = acc_digits base s1 Z0 in
                             let v0 = if neg then Z.opp v else v in
                             if Z.gtb v0 long_max
                             then long_max
                             else if Z.ltb v0 long_min then long_min else v0
                        else if Z.eqb c0 (Zpos (XO (XO (XO (XO (XI XH))))))
                             then let base = Zpos (XO (XO (XO XH))) in
                                  let v = acc_digits base t Z0 in
                                  let v0 = if neg then Z.opp v else v in
                                  if Z.gtb v0 long_max
                                  then long_max
                                  else if Z.ltb v0 long_min
                                       then long_min
                                       else v0
                             else let base = Zpos (XO (XI (XO XH))) in
                                  let v = acc_digits base t Z0 in
                                  let v0 = if neg then Z.opp v else v in
                                  if Z.gtb v0 long_max
                                  then long_max
                                  else if Z.ltb v0 long_min
                                       then long_min
                                       else v0)))
          else let neg = false in
               (match s0 with
                | [] ->
                  let base = Zpos (XO (XI (XO XH))) in
                  let v = acc_digits base s0 Z0 in
                  let v0 = if neg then Z.opp v else v in
                  if Z.gtb v0 long_max
                  then long_max
                  else if Z.ltb v0 long_min then long_min else v0
                | c0 :: l ->
                  (match l with
                   | [] ->
                     if Z.eqb c0 (Zpos (XO (XO (XO (XO (XI XH))))))
                     then let base = Zpos (XO (XO (XO XH))) in
                          let v = acc_digits base s0 Z0 in
                          let v0 = if neg then Z.opp v else v in
                          if Z.gtb v0 long_max
                          then long_max
                          else if Z.ltb v0 long_min then long_min else v0
                     else let base = Zpos (XO (XI (XO XH))) in
                          let v = acc_digits base s0 Z0 in
                          let v0 = if neg then Z.opp v else v in
                          if Z.gtb v0 long_max
                          then long_max
                          else if Z.ltb v0 long_min then long_min else v0
                   | x :: l0 ->
                     (match l0 with
                      | [] ->
                        if Z.eqb c0 (Zpos (XO (XO (XO (XO (XI XH))))))
                        then let base = Zpos (XO (XO (XO XH))) in
                             let v = acc_digits base s0 Z0 in
                             let v0 = if neg then Z.opp v else v in
                             if Z.gtb v0 long_max
                             then long_max
                             else if Z.ltb v0 long_min then long_min else v0
                        else let base = Zpos (XO (XI (XO XH))) in
                             let v = acc_digits base s0 Z0 in
                             let v0 = if neg then Z.opp v else v in
                             if Z.gtb v0 long_max
                             then long_max
                             else if Z.ltb v0 long_min then long_min else v0
                      | d :: t0 ->
                        if (&&)
                             ((&&)
                               (Z.eqb c0 (Zpos (XO (XO (XO (XO (XI XH)))))))
                               ((||)
                                 (Z.eqb x (Zpos (XO (XO (XO (XI (XI (XI
                                   XH))))))))
                                 (Z.eqb x (Zpos (XO (XO (XO (XI (XI (XO
                                   XH))))))))))
                             (Z.ltb (digit_val d) (Zpos (XO (XO (XO (XO
                               XH))))))
                        then let base = Zpos (XO (XO (XO (XO XH)))) in
                             let s1 = d :: t0 in
                             let v = acc_digits base s1 Z0 in
                             let v0 = if neg then Z.opp v else v in
                             if Z.gtb v0 long_max
                             then long_max
                             else if Z.ltb v0 long_min then long_min else v0
                        else if Z.eqb c0 (Zpos (XO (XO (XO (XO (XI XH))))))
                             then let base = Zpos (XO (XO (XO XH))) in
                                  let v = acc_digits base s0 Z0 in
                                  let v0 = if neg then Z.opp v else v in
                                  if Z.gtb v0 long_max
                                  then long_max
                                  else if Z.ltb v0 long_min
                                       then long_min
                                       else v0
                             else let base = Zpos (XO (XI (XO XH))) in
                                  let v = acc_digits base s0 Z0 in
                                  let v0 = if neg then Z.opp v else v in
                                  if Z.gtb v0 long_max
                                  then long_max
                                  else if Z.ltb v0 long_min
                                       then long_min
                                       else v0))))

(** val to_int : z -> z **)

let to_int z0 =
  Z.sub
    (Z.modulo
      (Z.add z0 (Zpos (XO (XO (XO (XO (XO (XO (XO (XO (XO (XO (XO (XO (XO (XO
        (XO (XO (XO (XO (XO (XO (XO (XO (XO (XO (XO (XO (XO (XO (XO (XO (XO
        XH))))))))))))))))))))))))))))))))) (Zpos (XO (XO (XO (XO (XO (XO (XO
      (XO (XO (XO (XO (XO (XO (XO (XO (XO (XO (XO (XO (XO (XO (XO (XO (XO (XO
      (XO (XO (XO (XO (XO (XO (XO XH)))))))))))))))))))))))))))))))))) (Zpos
    (XO (XO (XO (XO (XO (XO (XO (XO (XO (XO (XO (XO (XO (XO (XO (XO (XO (XO
    (XO (XO (XO (XO (XO (XO (XO (XO (XO (XO (XO (XO (XO
    XH))))))))))))))))))))))))))))))))

(** val is_quote : z -> bool **)

let is_quote c =
  (||) (Z.eqb c (Zpos (XO (XI (XO (XO (XO XH)))))))
    (Z.eqb c (Zpos (XI (XI (XI (XO (XO XH)))))))

(** val is_delim : z -> z -> bool **)

let is_delim delim c =
  if Z.eqb delim Z0 then isspace c else Z.eqb c delim

(** val nw_go : z list -> z option -> nat -> nat **)

let rec nw_go l mode cnt =
  match l with
  | [] -> cnt
  | c :: t ->
    (match mode with
     | Some d -> if is_delim d c then nw_go t None cnt else nw_go t mode cnt
     | None ->
       if isspace c
       then nw_go t None cnt
       else if is_quote c
            then nw_go t (Some c) (S cnt)
            else nw_go t (Some Z0) (S cnt))

(** val num_words : z list -> nat **)

let num_words s =
  nw_go s None O

type gmode =
| GTop
| GSkip
| GWord of z * z list

(** val gw_go : z list -> gmode -> z list list -> z list list **)

let rec gw_go l m acc =
  match l with
  | [] ->
    (match m with
     | GTop -> rev acc
     | GSkip -> rev ([] :: acc)
     | GWord (_, w) -> rev ((rev w) :: acc))
  | c :: t ->
    (match m with
     | GWord (d, w) ->
       if is_delim d c
       then gw_go t (if Z.eqb d Z0 then GSkip else GTop) ((rev w) :: acc)
       else (match t with
             | [] -> gw_go t (GWord (d, (c :: w))) acc
             | q :: t' ->
               if (&&) (Z.eqb c (Zpos (XO (XO (XI (XI (XI (XO XH))))))))
                    (is_quote q)
               then gw_go t' (GWord (d, (q :: w))) acc
               else gw_go t (GWord (d, (c :: w))) acc)
     | _ ->
       if isspace c
       then gw_go t GSkip acc
       else if is_quote c
            then gw_go t (GWord (c, [])) acc
            else (match t with
                  | [] -> gw_go t (GWord (Z0, (c :: []))) acc
                  | q :: t' ->
                    if (&&) (Z.eqb c (Zpos (XO (XO (XI (XI (XI (XO XH))))))))
                         (is_quote q)
                    then gw_go t' (GWord (Z0, (q :: []))) acc
                    else gw_go t (GWord (Z0, (c :: []))) acc))

(** val get_words : z list -> z list list **)

let get_words s =
  gw_go s GTop []

(** val get_word : nat -> z list -> z list option **)

let get_word index s =
  match index with
  | O -> None
  | S k -> nth_error (get_words s) k

(** val should_parse : env -> opt -> bool **)

let should_parse e o =
  eqb e.e_pre (is_preparse o)

(** val rm_active : env -> bool **)

let rm_active e =
  (&&) (negb e.e_pre) e.e_rm

(** val check_bad : env -> st -> (st -> outcome res) -> outcome res **)

let check_bad e s k =
  let b = Z.modulo (Z.add s.st_bad (Zpos XH)) bad_opts_modulus in
  let s1 = { st_i = s.st_i; st_argv = s.st_argv; st_sto = s.st_sto; st_bad =
    b; st_helps = s.st_helps; st_nbad = (S s.st_nbad) }
  in
  if Z.gtb b e.e_allow
  then let s2 = { st_i = s.st_i; st_argv = s.st_argv; st_sto = s.st_sto;
         st_bad = b; st_helps = (S s.st_helps); st_nbad = (S s.st_nbad) }
       in
       if e.e_ret then k s2 else Ok (Helped (e.e_pre, s2))
  else k s1

(** val is_valid_option :
    env -> z list -> st -> (bool -> st -> outcome res) -> outcome res **)

let is_valid_option e v s k =
  match v with
  | [] -> k false s
  | c :: t ->
    if Z.eqb c (Zpos (XI (XO (XI (XI (XO XH))))))
    then (match t with
          | [] ->
            (match find_short e.e_tbl Z0 with
             | Some _ -> k true s
             | None -> check_bad e s (k false))
          | c2 :: t2 ->
            if Z.eqb c2 (Zpos (XI (XO (XI (XI (XO XH))))))
            then (match find_long e.e_tbl t2 with
                  | Some _ -> k true s
                  | None -> check_bad e s (k false))
            else (match find_short e.e_tbl c2 with
                  | Some _ -> k true s
                  | None -> check_bad e s (k false)))
    else k false s

(** val clear_arg : env -> st -> st res **)

let clear_arg e s =
  if rm_active e
  then bind (argv_set s.st_argv s.st_i None) (fun a -> Ok (set_argv s a))
  else Ok s

(** val clear_from : nat option list -> nat -> nat -> nat option list res **)

let rec clear_from a k = function
| O -> Ok a
| S n' -> bind (argv_set a k None) (fun a' -> clear_from a' (S k) n')

(** val or_mask : opt -> z -> z **)

let or_mask o v =
  Z.coq_lor v (Z.modulo o.o_mask mask_modulus)

(** val clr_mask : opt -> z -> z **)

let clr_mask o v =
  Z.coq_land v (Z.lnot (Z.modulo o.o_mask mask_modulus))

(** val handle_boolean :
    env -> opt -> store -> z list option -> bool -> (store * bool) res **)

let handle_boolean e o sto val0 islong =
  let setb = fun f ->
    if should_parse e o
    then bind (slot_upd sto.sb o.o_slot f) (fun b -> Ok (set_sb sto b))
    else Ok sto
  in
  (match val0 with
   | Some v ->
     if islong
     then if istrue v
          then bind (setb (or_mask o)) (fun s' -> Ok (s', true))
          else if isfalse v
               then bind (setb (clr_mask o)) (fun s' -> Ok (s', true))
               else bind (setb (or_mask o)) (fun s' -> Ok (s', false))
     else bind (setb (or_mask o)) (fun s' -> Ok (s', true))
   | None -> bind (setb (or_mask o)) (fun s' -> Ok (s', true)))

(** val fill_array : nat -> 'a1 list -> 'a1 list res **)

let fill_array alloc ws =
  if Nat.leb (add (length ws) (S O)) alloc then Ok ws else Fault OOB_write

(** val map_res : ('a1 -> 'a2 res) -> 'a1 list -> 'a2 list res **)

let rec map_res f = function
| [] -> Ok []
| x :: t -> bind (f x) (fun y -> bind (map_res f t) (fun r -> Ok (y :: r)))

(** val arglist_words : env -> st -> ptr -> bool -> word option list res **)

let arglist_words e s val0 = function
| true ->
  bind (cstr_at e val0) (fun v ->
    let len = num_words v in
    fill_array (add len (S O)) (map (fun k -> get_word (S k) v) (seq O len)))
| false ->
  let len = sub e.e_argc s.st_i in
  bind
    (map_res (fun k ->
      match k with
      | O -> bind (cstr_at e val0) (fun v -> Ok (Some v))
      | S _ ->
        bind (argv_get s.st_argv (add k s.st_i)) (fun a ->
          match a with
          | Some sid -> bind (cstr_at e (sid, O)) (fun v -> Ok (Some v))
          | None -> Fault Null_deref)) (seq O len)) (fun ws ->
    fill_array (add (sub e.e_argc s.st_i) (S O)) ws)

(** val handle_arglist : env -> opt -> st -> ptr -> bool -> store res **)

let handle_arglist e o s val0 hasequal =
  bind (arglist_words e s val0 hasequal) (fun ws ->
    bind (slot_upd s.st_sto.sl o.o_slot (fun _ -> Some ws)) (fun l -> Ok
      (set_sl s.st_sto l)))

(** val next_arg : (st -> ptr option -> outcome res) -> st -> outcome res **)

let next_arg rec0 s =
  let s' = set_i s (S s.st_i) in
  bind (argv_get s'.st_argv s'.st_i) (fun a -> rec0 s' (arg_ptr a))

(** val next_letter :
    env -> (st -> ptr option -> outcome res) -> st -> ptr -> outcome res **)

let next_letter e rec0 s p =
  bind (getc e ((fst p), (S (snd p)))) (fun c ->
    if Z.eqb c Z0
    then next_arg rec0 s
    else rec0 s (Some ((fst p), (S (snd p)))))

(** val next_loop :
    env -> (st -> ptr option -> outcome res) -> st -> ptr -> bool -> ptr
    option -> outcome res **)

let next_loop e rec0 s p islong val0 =
  if (||) islong (is_some val0)
  then next_arg rec0 s
  else next_letter e rec0 s p

(** val dispatch :
    env -> (st -> ptr option -> outcome res) -> st -> ptr -> opt -> bool ->
    bool -> ptr option -> outcome res **)

let dispatch e rec0 s p o islong hasequal val0 =
  bind
    (match val0 with
     | Some v -> bind (cstr_at e v) (fun x -> Ok (Some x))
     | None -> Ok None) (fun vs ->
    let finish = fun s0 ->
      bind (clear_arg e s0) (fun s' -> next_loop e rec0 s' p islong val0)
    in
    if is_boolean o
    then bind (handle_boolean e o s.st_sto vs islong) (fun x ->
           let (sto, r) = x in
           let s0 = set_sto s sto in
           finish (if r then s0 else set_i s0 (pred s0.st_i)))
    else if is_string o
         then if should_parse e o
              then (match vs with
                    | Some v ->
                      bind (slot_upd s.st_sto.ss o.o_slot (fun _ -> Some v))
                        (fun l -> finish (set_sto s (set_ss s.st_sto l)))
                    | None -> Fault Null_deref)
              else finish s
         else if is_integer o
              then if should_parse e o
                   then (match vs with
                         | Some v ->
                           bind
                             (slot_upd s.st_sto.si o.o_slot (fun _ ->
                               to_int (strtol0 v))) (fun l ->
                             finish (set_sto s (set_si s.st_sto l)))
                         | None -> Fault Null_deref)
                   else finish s
              else if is_arglist o
                   then bind
                          (if should_parse e o
                           then (match val0 with
                                 | Some v ->
                                   bind (handle_arglist e o s v hasequal)
                                     (fun sto -> Ok (set_sto s sto))
                                 | None -> Fault Null_deref)
                           else Ok s) (fun s1 ->
                          if hasequal
                          then finish s1
                          else bind
                                 (if rm_active e
                                  then clear_from s1.st_argv s1.st_i
                                         (sub e.e_argc s1.st_i)
                                  else Ok s1.st_argv) (fun a -> Ok (Done
                                 (e.e_pre, (set_argv s1 a)))))
                   else if is_abstract o
                        then if should_parse e o
                             then (match o.o_slot with
                                   | Some k ->
                                     finish
                                       (set_sto s
                                         (set_sa s.st_sto
                                           (app s.st_sto.sa ((k, vs) :: []))))
                                   | None -> Fault Null_deref)
                             else finish s
                        else finish s)

(** val consume_value :
    env -> st -> ptr -> nat option -> ptr option -> (st * ptr) res **)

let consume_value e s p nxt val0 =
  if (&&) (is_some val0) (optptr_eqb val0 (arg_ptr nxt))
  then bind (cstr_at e p) (fun rest -> Ok ((set_i s (S s.st_i)), ((fst p),
         (add (snd p) (length rest)))))
  else Ok (s, p)

(** val find_value :
    env -> ptr -> nat option -> bool -> (ptr option * bool) res **)

let find_value e p nxt = function
| true ->
  bind (cstr_at e p) (fun name ->
    match index_eq name with
    | Some k -> Ok ((Some ((fst p), (add (add (snd p) k) (S O)))), true)
    | None -> Ok ((arg_ptr nxt), false))
| false ->
  bind (getc e ((fst p), (S (snd p)))) (fun c ->
    if Z.eqb c Z0
    then Ok ((arg_ptr nxt), false)
    else Ok ((Some ((fst p), (S (snd p)))), false))

(** val with_value :
    env -> (st -> ptr option -> outcome res) -> st -> ptr -> opt -> nat
    option -> bool -> bool -> ptr option -> outcome res **)

let with_value e rec0 s p o nxt islong hasequal val0 =
  bind (consume_value e s p nxt val0) (fun x ->
    let (s0, p0) = x in
    if needs_value o
    then (match val0 with
          | Some _ ->
            if is_some o.o_slot
            then dispatch e rec0 s0 p0 o islong hasequal val0
            else next_loop e rec0 s0 p0 islong val0
          | None ->
            check_bad e s0 (fun s1 -> next_loop e rec0 s1 p0 islong val0))
    else if (&&) (is_abstract o) (negb (is_some o.o_slot))
         then next_loop e rec0 s0 p0 islong val0
         else dispatch e rec0 s0 p0 o islong hasequal val0)

(** val after_find :
    env -> (st -> ptr option -> outcome res) -> st -> ptr -> nat -> bool ->
    outcome res **)

let after_find e rec0 s p j islong =
  bind (clear_arg e s) (fun s0 ->
    bind (argv_get s0.st_argv (S s0.st_i)) (fun nxt ->
      bind (find_value e p nxt islong) (fun x ->
        let (val0, hasequal) = x in
        bind (tbl_get e j) (fun o ->
          match val0 with
          | Some v ->
            bind (cstr_at e v) (fun vs ->
              if (&&) (is_boolean o)
                   ((||) (negb islong) (negb (is_boolean_value vs)))
              then with_value e rec0 s0 p o nxt islong hasequal None
              else if is_abstract o
                   then is_valid_option e vs s0 (fun valid s1 ->
                          with_value e rec0 s1 p o nxt islong hasequal
                            (if valid then None else val0))
                   else if (&&) (negb (needs_value o)) (negb (is_boolean o))
                        then with_value e rec0 s0 p o nxt islong hasequal None
                        else with_value e rec0 s0 p o nxt islong hasequal val0)
          | None -> with_value e rec0 s0 p o nxt islong hasequal None))))

(** val lookup :
    env -> (st -> ptr option -> outcome res) -> st -> ptr -> outcome res **)

let lookup e rec0 s p =
  bind (getc e p) (fun c ->
    if Z.eqb c (Zpos (XI (XO (XI (XI (XO XH))))))
    then let p0 = ((fst p), (S (snd p))) in
         bind (cstr_at e p0) (fun name ->
           match find_long e.e_tbl name with
           | Some j -> after_find e rec0 s p0 j true
           | None -> check_bad e s (next_arg rec0))
    else (match find_short e.e_tbl c with
          | Some j -> after_find e rec0 s p j false
          | None -> check_bad e s (fun s0 -> next_letter e rec0 s0 p)))

(** val step :
    env -> (st -> ptr option -> outcome res) -> st -> ptr option -> outcome
    res **)

let step e rec0 s cur =
  if negb (Nat.ltb s.st_i e.e_argc)
  then Ok (Done (e.e_pre, s))
  else (match cur with
        | Some p ->
          bind (argv_get s.st_argv s.st_i) (fun ai ->
            if optptr_eqb (Some p) (arg_ptr ai)
            then bind (getc e p) (fun c ->
                   if negb (Z.eqb c (Zpos (XI (XO (XI (XI (XO XH)))))))
                   then next_arg rec0 s
                   else bind (getc e ((fst p), (S (snd p)))) (fun c1 ->
                          if Z.eqb c1 Z0
                          then next_arg rec0 s
                          else lookup e rec0 s ((fst p), (S (snd p)))))
            else lookup e rec0 s p)
        | None -> Ok (Done (e.e_pre, s)))

(** val loop : nat -> env -> st -> ptr option -> outcome res **)

let rec loop fuel e s cur =
  match fuel with
  | O -> Fault Out_of_fuel
  | S f -> step e (loop f e) s cur

(** val compact :
    nat option list -> nat -> nat -> nat -> (nat option list * nat) res **)

let rec compact a k n0 j =
  match n0 with
  | O -> Ok (a, j)
  | S n' ->
    bind (argv_get a k) (fun v ->
      match v with
      | Some _ -> bind (argv_set a j v) (fun a' -> compact a' (S k) n' (S j))
      | None -> compact a (S k) n' j)

(** val epilogue : env -> st -> outcome res **)

let epilogue e s =
  if e.e_pre
  then Ok (Done (false, s))
  else if e.e_rm
       then bind (compact s.st_argv (S O) (sub e.e_argc (S O)) (S O))
              (fun x ->
              let (a, j) = x in
              bind (if Nat.ltb (S O) j then argv_set a j None else Ok a)
                (fun a' -> Ok (Done (false, (set_argv s a')))))
       else Ok (Done (false, s))

(** val parse_fuel : z list list -> nat **)

let parse_fuel strs =
  S (fold_right (fun s a -> add (add (length s) (S (S O))) a) O strs)

(** val parse_with : nat -> env -> st -> outcome res **)

let parse_with fuel e s =
  if Nat.leb e.e_argc (S O)
  then Ok (Done (e.e_pre, s))
  else bind (argv_get s.st_argv (S O)) (fun a1 ->
         bind (loop fuel e (set_i s (S O)) (arg_ptr a1)) (fun r ->
           match r with
           | Done (_, s') -> epilogue e s'
           | Helped (b, s') -> Ok (Helped (b, s'))))

(** val parse : env -> st -> outcome res **)

let parse e s =
  parse_with (parse_fuel e.e_strs) e s

(** val with_pre : env -> bool -> env **)

let with_pre e b =
  { e_tbl = e.e_tbl; e_strs = e.e_strs; e_argc = e.e_argc; e_pre = b; e_rm =
    e.e_rm; e_allow = e.e_allow; e_ret = e.e_ret }

(** val parse_twice : env -> st -> outcome res **)

let parse_twice e s =
  bind (parse (with_pre e true) s) (fun r ->
    match r with
    | Done (pre', s') -> parse (with_pre e pre') s'
    | Helped (b, s') -> Ok (Helped (b, s')))

(** val init_argv : nat -> nat option list **)

let init_argv argc =
  app (map (fun x -> Some x) (seq O argc)) (None :: [])

(** val init_st : nat -> store -> z -> st **)

let init_st argc sto bad =
  { st_i = (S O); st_argv = (init_argv argc); st_sto = sto; st_bad = bad;
    st_helps = O; st_nbad = O }

type optref =
| ByShort of z
| ByLong of word

type spelling =
| ShortFlag of z
| Bundle of z list
| ShortAttached of z * word
| ShortSep of z * word
| LongFlag of word
| LongEq of word * word
| LongSep of word * word
| BoolWord of word * word
| ArgListRest of optref * word list
| Word of word

(** val ref_arg : optref -> word **)

let ref_arg = function
| ByShort x -> (Zpos (XI (XO (XI (XI (XO XH)))))) :: (x :: [])
| ByLong l ->
  (Zpos (XI (XO (XI (XI (XO XH)))))) :: ((Zpos (XI (XO (XI (XI (XO
    XH)))))) :: l)

(** val render_one : spelling -> word list **)

let render_one = function
| ShortFlag x -> ((Zpos (XI (XO (XI (XI (XO XH)))))) :: (x :: [])) :: []
| Bundle xs -> ((Zpos (XI (XO (XI (XI (XO XH)))))) :: xs) :: []
| ShortAttached (x, v) ->
  ((Zpos (XI (XO (XI (XI (XO XH)))))) :: (x :: v)) :: []
| ShortSep (x, v) ->
  ((Zpos (XI (XO (XI (XI (XO XH)))))) :: (x :: [])) :: (v :: [])
| LongFlag l ->
  ((Zpos (XI (XO (XI (XI (XO XH)))))) :: ((Zpos (XI (XO (XI (XI (XO
    XH)))))) :: l)) :: []
| LongEq (l, v) ->
  ((Zpos (XI (XO (XI (XI (XO XH)))))) :: ((Zpos (XI (XO (XI (XI (XO
    XH)))))) :: (app l ((Zpos (XI (XO (XI (XI (XI XH)))))) :: v)))) :: []
| LongSep (l, v) ->
  ((Zpos (XI (XO (XI (XI (XO XH)))))) :: ((Zpos (XI (XO (XI (XI (XO
    XH)))))) :: l)) :: (v :: [])
| BoolWord (l, w) ->
  ((Zpos (XI (XO (XI (XI (XO XH)))))) :: ((Zpos (XI (XO (XI (XI (XO
    XH)))))) :: l)) :: (w :: [])
| ArgListRest (r, ws) -> (ref_arg r) :: ws
| Word w -> w :: []

(** val render : spelling list -> word list **)

let render sps =
  concat (map render_one sps)

type kind =
| KBool
| KStr
| KInt
| KList
| KAbs
| KNone

(** val kind_of : opt -> kind **)

let kind_of o =
  if is_boolean o
  then KBool
  else if is_string o
       then KStr
       else if is_integer o
            then KInt
            else if is_arglist o
                 then KList
                 else if is_abstract o then KAbs else KNone

(** val find_opt : opt list -> optref -> opt option **)

let find_opt tbl = function
| ByShort x -> find (fun o -> Z.eqb o.o_short x) tbl
| ByLong l -> find (fun o -> streq_ci o.o_long l) tbl

(** val put : 'a1 list -> nat option -> ('a1 -> 'a1) -> 'a1 list **)

let put l slot f =
  match slot with
  | Some k -> (match nth_error l k with
               | Some v -> upd l k (f v)
               | None -> l)
  | None -> l

(** val split_words : word -> word option list **)

let split_words v =
  map (fun k -> get_word (S k) v) (seq O (num_words v))

type optarg =
| AFlag
| AVal of word
| ARest of word list

(** val assign : bool -> opt -> optarg -> store -> store **)

let assign pre o a sto =
  if negb (eqb pre (is_preparse o))
  then sto
  else (match kind_of o with
        | KBool ->
          (match a with
           | AFlag -> set_sb sto (put sto.sb o.o_slot (or_mask o))
           | AVal v ->
             set_sb sto
               (put sto.sb o.o_slot
                 (if istrue v then or_mask o else clr_mask o))
           | ARest _ -> sto)
        | KStr ->
          (match a with
           | AVal v -> set_ss sto (put sto.ss o.o_slot (fun _ -> Some v))
           | _ -> sto)
        | KInt ->
          (match a with
           | AVal v ->
             set_si sto (put sto.si o.o_slot (fun _ -> to_int (strtol0 v)))
           | _ -> sto)
        | KList ->
          (match a with
           | AFlag -> sto
           | AVal v ->
             set_sl sto (put sto.sl o.o_slot (fun _ -> Some (split_words v)))
           | ARest ws ->
             set_sl sto
               (put sto.sl o.o_slot (fun _ -> Some
                 (map (fun x -> Some x) ws))))
        | KAbs ->
          (match a with
           | AVal v ->
             (match o.o_slot with
              | Some k -> set_sa sto (app sto.sa ((k, (Some v)) :: []))
              | None -> sto)
           | _ -> sto)
        | KNone -> sto)

(** val assign_ref :
    bool -> opt list -> optref -> optarg -> store -> store **)

let assign_ref pre tbl r a sto =
  match find_opt tbl r with
  | Some o -> assign pre o a sto
  | None -> sto

(** val ideal_one :
    bool -> opt list -> (store * word list) -> spelling -> store * word list **)

let ideal_one pre tbl acc sp =
  let (sto, ws) = acc in
  (match sp with
   | ShortFlag x -> ((assign_ref pre tbl (ByShort x) AFlag sto), ws)
   | Bundle xs ->
     ((fold_left (fun s x -> assign_ref pre tbl (ByShort x) AFlag s) xs sto),
       ws)
   | ShortAttached (x, v) ->
     ((assign_ref pre tbl (ByShort x) (AVal v) sto), ws)
   | ShortSep (x, v) -> ((assign_ref pre tbl (ByShort x) (AVal v) sto), ws)
   | LongFlag l -> ((assign_ref pre tbl (ByLong l) AFlag sto), ws)
   | LongEq (l, v) -> ((assign_ref pre tbl (ByLong l) (AVal v) sto), ws)
   | LongSep (l, v) -> ((assign_ref pre tbl (ByLong l) (AVal v) sto), ws)
   | BoolWord (l, v) -> ((assign_ref pre tbl (ByLong l) (AVal v) sto), ws)
   | ArgListRest (r, rest) -> ((assign_ref pre tbl r (ARest rest) sto), ws)
   | Word w -> (sto, (app ws (w :: []))))

(** val ideal :
    bool -> opt list -> spelling list -> store -> store * word list **)

let ideal pre tbl sps sto =
  fold_left (ideal_one pre tbl) sps (sto, [])

(** val nz_word : word -> bool **)

let nz_word w =
  forallb (fun c -> negb (Z.eqb c Z0)) w

(** val no_eq : word -> bool **)

let no_eq w =
  forallb (fun c -> negb (Z.eqb c (Zpos (XI (XO (XI (XI (XI XH)))))))) w

(** val letter_ok_b : z -> bool **)

let letter_ok_b x =
  (&&) (negb (Z.eqb x Z0)) (negb (Z.eqb x (Zpos (XI (XO (XI (XI (XO XH))))))))

(** val flag_kind : opt -> bool **)

let flag_kind o =
  (&&) (negb (needs_value o)) (negb (is_abstract o))

(** val value_kind : opt -> word -> bool **)

let value_kind o v =
  (&&) (negb (is_boolean o))
    ((||)
      ((&&) ((&&) (needs_value o) ((||) (is_string o) (is_integer o)))
        (is_some o.o_slot))
      ((&&)
        ((&&) ((&&) (negb (needs_value o)) (is_abstract o))
          (is_some o.o_slot))
        (negb (Z.eqb (hd Z0 v) (Zpos (XI (XO (XI (XI (XO XH))))))))))

(** val list_kind : opt -> bool **)

let list_kind o =
  (&&)
    ((&&)
      ((&&) ((&&) (negb (is_boolean o)) (negb (is_string o)))
        (negb (is_integer o))) (is_arglist o)) (is_some o.o_slot)

(** val bool_kind : opt -> bool **)

let bool_kind o =
  (&&) ((&&) (is_boolean o) (negb (needs_value o))) (negb (is_abstract o))

(** val opt_is : opt list -> optref -> (opt -> bool) -> bool **)

let opt_is tbl r p =
  match find_opt tbl r with
  | Some o -> p o
  | None -> false

(** val name_ok : word -> bool **)

let name_ok l =
  (&&) (nz_word l) (no_eq l)

(** val sp_ok : opt list -> spelling -> word option -> bool **)

let sp_ok tbl sp next =
  match sp with
  | ShortFlag x -> (&&) (letter_ok_b x) (opt_is tbl (ByShort x) flag_kind)
  | Bundle xs ->
    (&&) (negb (match xs with
                | [] -> true
                | _ :: _ -> false))
      (forallb (fun x ->
        (&&) (letter_ok_b x) (opt_is tbl (ByShort x) flag_kind)) xs)
  | ShortAttached (x, v) ->
    (&&)
      ((&&) ((&&) (letter_ok_b x) (nz_word v))
        (negb (match v with
               | [] -> true
               | _ :: _ -> false)))
      (opt_is tbl (ByShort x) (fun o -> value_kind o v))
  | ShortSep (x, v) ->
    (&&) ((&&) (letter_ok_b x) (nz_word v))
      (opt_is tbl (ByShort x) (fun o -> value_kind o v))
  | LongFlag l ->
    (&&) ((&&) (name_ok l) (opt_is tbl (ByLong l) flag_kind))
      ((||) (negb (opt_is tbl (ByLong l) is_boolean))
        (match next with
         | Some w -> negb (is_boolean_value w)
         | None -> true))
  | LongEq (l, v) ->
    (&&) ((&&) (name_ok l) (nz_word v))
      ((||)
        ((||) (opt_is tbl (ByLong l) (fun o -> value_kind o v))
          ((&&) (opt_is tbl (ByLong l) bool_kind) (is_boolean_value v)))
        (opt_is tbl (ByLong l) list_kind))
  | LongSep (l, v) ->
    (&&) ((&&) (name_ok l) (nz_word v))
      (opt_is tbl (ByLong l) (fun o -> value_kind o v))
  | BoolWord (l, w) ->
    (&&)
      ((&&) ((&&) (name_ok l) (nz_word w)) (opt_is tbl (ByLong l) bool_kind))
      (is_boolean_value w)
  | ArgListRest (r, ws) ->
    (&&)
      ((&&)
        ((&&)
          ((&&)
            (match r with
             | ByShort x -> letter_ok_b x
             | ByLong l -> name_ok l) (opt_is tbl r list_kind))
          (negb (match ws with
                 | [] -> true
                 | _ :: _ -> false))) (forallb nz_word ws))
      (match next with
       | Some _ -> false
       | None -> true)
  | Word w ->
    (&&) (nz_word w)
      ((||) (negb (Z.eqb (hd Z0 w) (Zpos (XI (XO (XI (XI (XO XH))))))))
        (match w with
         | [] -> false
         | _ :: l -> (match l with
                      | [] -> true
                      | _ :: _ -> false)))

(** val sps_ok : opt list -> spelling list -> bool **)

let rec sps_ok tbl = function
| [] -> true
| sp :: rest -> (&&) (sp_ok tbl sp (hd_error (render rest))) (sps_ok tbl rest)

(** val names_ok : opt list -> bool **)

let names_ok tbl =
  forallb (fun o -> name_ok o.o_long) tbl
