
val negb : bool -> bool

type nat =
| O
| S of nat

val option_map : ('a1 -> 'a2) -> 'a1 option -> 'a2 option

val fst : ('a1 * 'a2) -> 'a1

val snd : ('a1 * 'a2) -> 'a2

val length : 'a1 list -> nat

val app : 'a1 list -> 'a1 list -> 'a1 list

type comparison =
| Eq
| Lt
| Gt

val compOpp : comparison -> comparison

val pred : nat -> nat

val add : nat -> nat -> nat

val sub : nat -> nat -> nat

val eqb : bool -> bool -> bool

module Nat :
 sig
  val eqb : nat -> nat -> bool

  val leb : nat -> nat -> bool

  val ltb : nat -> nat -> bool
 end

val hd : 'a1 -> 'a1 list -> 'a1

val hd_error : 'a1 list -> 'a1 option

val nth : nat -> 'a1 list -> 'a1 -> 'a1

val nth_error : 'a1 list -> nat -> 'a1 option

val rev : 'a1 list -> 'a1 list

val concat : 'a1 list list -> 'a1 list

val map : ('a1 -> 'a2) -> 'a1 list -> 'a2 list

val fold_left : ('a1 -> 'a2 -> 'a1) -> 'a2 list -> 'a1 -> 'a1

val fold_right : ('a2 -> 'a1 -> 'a1) -> 'a1 -> 'a2 list -> 'a1

val existsb : ('a1 -> bool) -> 'a1 list -> bool

val forallb : ('a1 -> bool) -> 'a1 list -> bool

val find : ('a1 -> bool) -> 'a1 list -> 'a1 option

val firstn : nat -> 'a1 list -> 'a1 list

val skipn : nat -> 'a1 list -> 'a1 list

val seq : nat -> nat -> nat list

type positive =
| XI of positive
| XO of positive
| XH

type n =
| N0
| Npos of positive

type z =
| Z0
| Zpos of positive
| Zneg of positive

module Pos :
 sig
  val succ : positive -> positive

  val add : positive -> positive -> positive

  val add_carry : positive -> positive -> positive

  val pred_double : positive -> positive

  val pred_N : positive -> n

  val mul : positive -> positive -> positive

  val compare_cont : comparison -> positive -> positive -> comparison

  val compare : positive -> positive -> comparison

  val eqb : positive -> positive -> bool

  val coq_Nsucc_double : n -> n

  val coq_Ndouble : n -> n

  val coq_lor : positive -> positive -> positive

  val coq_land : positive -> positive -> n

  val ldiff : positive -> positive -> n
 end

module N :
 sig
  val succ_pos : n -> positive

  val coq_lor : n -> n -> n

  val coq_land : n -> n -> n

  val ldiff : n -> n -> n
 end

module Z :
 sig
  val double : z -> z

  val succ_double : z -> z

  val pred_double : z -> z

  val pos_sub : positive -> positive -> z

  val add : z -> z -> z

  val opp : z -> z

  val pred : z -> z

  val sub : z -> z -> z

  val mul : z -> z -> z

  val compare : z -> z -> comparison

  val leb : z -> z -> bool

  val ltb : z -> z -> bool

  val gtb : z -> z -> bool

  val eqb : z -> z -> bool

  val of_N : n -> z

  val pos_div_eucl : positive -> z -> z * z

  val div_eucl : z -> z -> z * z

  val modulo : z -> z -> z

  val coq_lor : z -> z -> z

  val coq_land : z -> z -> z

  val lnot : z -> z
 end

type fault =
| OOB_read
| OOB_write
| Uninit_read
| Null_deref
| Use_after_free
| Bad_free
| Out_of_fuel
| Int_overflow
| Abort

type 'a res =
| Ok of 'a
| Fault of fault

val bind : 'a1 res -> ('a1 -> 'a2 res) -> 'a2 res

val num_anchor : ((nat * positive) * n) * z

val upd : 'a1 list -> nat -> 'a1 -> 'a1 list

val isspace : z -> bool

val isupper : z -> bool

val islower : z -> bool

val isdigit : z -> bool

val tolower : z -> z

val flag_boolean : z

val flag_integer : z

val flag_string : z

val flag_arglist : z

val flag_abstract : z

val flag_preparse : z

val flag_typemask_value : z

val true_vals : z list list

val false_vals : z list list

val bad_opts_modulus : z

val mask_modulus : z

type opt = { o_short : z; o_long : z list; o_flags : z; o_slot : nat option;
             o_mask : z }

val has : opt -> z -> bool

val is_boolean : opt -> bool

val is_integer : opt -> bool

val is_string : opt -> bool

val is_arglist : opt -> bool

val is_abstract : opt -> bool

val is_preparse : opt -> bool

val needs_value : opt -> bool

type word = z list

type store = { sb : z list; si : z list; ss : word option list;
               sl : word option list option list;
               sa : (nat * word option) list }

val set_sb : store -> z list -> store

val set_si : store -> z list -> store

val set_ss : store -> word option list -> store

val set_sl : store -> word option list option list -> store

val set_sa : store -> (nat * word option) list -> store

val slot_upd : 'a1 list -> nat option -> ('a1 -> 'a1) -> 'a1 list res

type env = { e_tbl : opt list; e_strs : z list list; e_argc : nat;
             e_pre : bool; e_rm : bool; e_allow : z; e_ret : bool }

type st = { st_i : nat; st_argv : nat option list; st_sto : store;
            st_bad : z; st_helps : nat; st_nbad : nat }

val set_i : st -> nat -> st

val set_argv : st -> nat option list -> st

val set_sto : st -> store -> st

type ptr = nat * nat

type outcome =
| Done of bool * st
| Helped of bool * st

val str_of : env -> nat -> z list res

val getc : env -> ptr -> z res

val take_nz : z list -> z list

val cstr_at : env -> ptr -> z list res

val argv_get : nat option list -> nat -> nat option res

val argv_set : nat option list -> nat -> nat option -> nat option list res

val tbl_get : env -> nat -> opt res

val arg_ptr : nat option -> ptr option

val ptr_eqb : ptr -> ptr -> bool

val optptr_eqb : ptr option -> ptr option -> bool

val is_some : 'a1 option -> bool

val bytes_eqb : z list -> z list -> bool

val lower : z list -> z list

val streq_ci : z list -> z list -> bool

val istrue : z list -> bool

val isfalse : z list -> bool

val is_boolean_value : z list -> bool

val long_matches : z list -> z list -> bool

val find_idx : ('a1 -> bool) -> 'a1 list -> nat -> nat option

val find_long : opt list -> z list -> nat option

val find_short : opt list -> z -> nat option

val index_eq : z list -> nat option

val skip_ws : z list -> z list

val digit_val : z -> z

val acc_digits : z -> z list -> z -> z

val long_max : z

val long_min : z

val strtol0 : z list -> z

val to_int : z -> z

val is_quote : z -> bool

val is_delim : z -> z -> bool

val nw_go : z list -> z option -> nat -> nat

val num_words : z list -> nat

type gmode =
| GTop
| GSkip
| GWord of z * z list

val gw_go : z list -> gmode -> z list list -> z list list

val get_words : z list -> z list list

val get_word : nat -> z list -> z list option

val should_parse : env -> opt -> bool

val rm_active : env -> bool

val check_bad : env -> st -> (st -> outcome res) -> outcome res

val is_valid_option :
  env -> z list -> st -> (bool -> st -> outcome res) -> outcome res

val clear_arg : env -> st -> st res

val clear_from : nat option list -> nat -> nat -> nat option list res

val or_mask : opt -> z -> z

val clr_mask : opt -> z -> z

val handle_boolean :
  env -> opt -> store -> z list option -> bool -> (store * bool) res

val fill_array : nat -> 'a1 list -> 'a1 list res

val map_res : ('a1 -> 'a2 res) -> 'a1 list -> 'a2 list res

val arglist_words : env -> st -> ptr -> bool -> word option list res

val handle_arglist : env -> opt -> st -> ptr -> bool -> store res

val next_arg : (st -> ptr option -> outcome res) -> st -> outcome res

val next_letter :
  env -> (st -> ptr option -> outcome res) -> st -> ptr -> outcome res

val next_loop :
  env -> (st -> ptr option -> outcome res) -> st -> ptr -> bool -> ptr option
  -> outcome res

val dispatch :
  env -> (st -> ptr option -> outcome res) -> st -> ptr -> opt -> bool ->
  bool -> ptr option -> outcome res

val consume_value :
  env -> st -> ptr -> nat option -> ptr option -> (st * ptr) res

val find_value : env -> ptr -> nat option -> bool -> (ptr option * bool) res

val with_value :
  env -> (st -> ptr option -> outcome res) -> st -> ptr -> opt -> nat option
  -> bool -> bool -> ptr option -> outcome res

val after_find :
  env -> (st -> ptr option -> outcome res) -> st -> ptr -> nat -> bool ->
  outcome res

val lookup :
  env -> (st -> ptr option -> outcome res) -> st -> ptr -> outcome res

val step :
  env -> (st -> ptr option -> outcome res) -> st -> ptr option -> outcome res

val loop : nat -> env -> st -> ptr option -> outcome res

val compact :
  nat option list -> nat -> nat -> nat -> (nat option list * nat) res

val epilogue : env -> st -> outcome res

val parse_fuel : z list list -> nat

val parse_with : nat -> env -> st -> outcome res

val parse : env -> st -> outcome res

val with_pre : env -> bool -> env

val parse_twice : env -> st -> outcome res

val init_argv : nat -> nat option list

val init_st : nat -> store -> z -> st

type optref =
| ByShort of z
| ByLong of word

type spelling =
| ShortFlag of z
| Bundle of z list
| ShortAttached of z * word
| ShortSep of z * word
| LongFlag of word
| LongEq of word * word
| LongSep of word * word
| BoolWord of word * word
| ArgListRest of optref * word list
| Word of word

val ref_arg : optref -> word

val render_one : spelling -> word list

val render : spelling list -> word list

type kind =
| KBool
| KStr
| KInt
| KList
| KAbs
| KNone

val kind_of : opt -> kind

val find_opt : opt list -> optref -> opt option

val put : 'a1 list -> nat option -> ('a1 -> 'a1) -> 'a1 list

val split_words : word -> word option list

type optarg =
| AFlag
| AVal of word
| ARest of word list

val assign : bool -> opt -> optarg -> store -> store

val assign_ref : bool -> opt list -> optref -> optarg -> store -> store

val ideal_one :
  bool -> opt list -> (store * word list) -> spelling -> store * word list

val ideal : bool -> opt list -> spelling list -> store -> store * word list

val nz_word : word -> bool

val no_eq : word -> bool

val letter_ok_b : z -> bool

val flag_kind : opt -> bool

val value_kind : opt -> word -> bool

val list_kind : opt -> bool

val bool_kind : opt -> bool

val opt_is : opt list -> optref -> (opt -> bool) -> bool

val name_ok : word -> bool

val sp_ok : opt list -> spelling -> word option -> bool

val sps_ok : opt list -> spelling list -> bool

val names_ok : opt list -> bool
