(* Executable model of src/mbuff.c (property C07) and the small byte-sequence spec it is
   compared with.  No proofs in this file.

   An object is {buff; len; size}.  `buff = None` is the NULL pointer; `Some b` is a heap
   block with exactly `length b` cells (the allocation), a cell being `None` while it is
   uninitialised.  There is no global heap: ownership and aliasing are another property.
   Every access is bounds checked (block accessors below, `rd`/`wr` of Base/Buf.v for the
   byte loops), so "no operation reads or writes a byte outside the buffer" is "never Fault".

   The model follows the code AFTER the repairs listed in checks/c07.py (cursor re-derived
   after REALLOC, short reads, signed read count, index/rindex bounds, splice count, cmp
   length tie-break, trim of empty / all-blank buffers ...). *)
From LV Require Export Base.Buf.
From LV Require Import Gen.Constants.
Local Open Scope Z_scope.

Record mb : Type := MB { buff : option buf; len : Z; size : Z }.

Definition buff_inc : Z := mbuff_buff_inc.

(* ------------------------------------------------------------------------------------ *)
(* allocator: MALLOC / REALLOC / FREE in their non-tracking form (DEBUG < DEBUG_MEM)       *)
(* ------------------------------------------------------------------------------------ *)
Definition MALLOC (n : Z) : res (option buf) :=
  if n <? 0 then Fault Int_overflow else Ok (Some (repeat None (Z.to_nat n))).

(* REALLOC(mem, sz) = sz ? (mem ? realloc(mem, sz) : malloc(sz)) : (mem ? (free(mem), NULL) : NULL) *)
Definition REALLOC (p : option buf) (n : Z) : res (option buf) :=
  if n <? 0 then Fault Int_overflow
  else if n =? 0 then Ok None
  else match p with
       | None => MALLOC n
       | Some b => Ok (Some (firstn (Z.to_nat n) b ++ repeat None (Z.to_nat n - length b)))
       end.

(* ------------------------------------------------------------------------------------ *)
(* block access                                                                          *)
(* ------------------------------------------------------------------------------------ *)
(* the n cells of b from offset off (cells are copied as they are, initialised or not) *)
Definition cells_at (b : buf) (off n : Z) : res (list cell) :=
  if (off <? 0) || (n <? 0) || (blen b <? off + n) then Fault OOB_read
  else Ok (firstn (Z.to_nat n) (skipn (Z.to_nat off) b)).

Definition put_at (b : buf) (off : Z) (cs : list cell) : res buf :=
  if (off <? 0) || (blen b <? off + Z.of_nat (length cs)) then Fault OOB_write
  else Ok (firstn (Z.to_nat off) b ++ cs ++ skipn (Z.to_nat off + length cs) b).

(* through a pointer that may be NULL; a zero-length access touches nothing *)
Definition pcells (p : option buf) (off n : Z) : res (list cell) :=
  if n <? 0 then Fault OOB_read
  else if n =? 0 then Ok []
  else match p with None => Fault Null_deref | Some b => cells_at b off n end.

Definition pput (p : option buf) (off : Z) (cs : list cell) : res (option buf) :=
  match cs with
  | [] => Ok p
  | _ => match p with None => Fault Null_deref | Some b => b' <- put_at b off cs ;; Ok (Some b') end
  end.

Fixpoint all_init (cs : list cell) : res (list byte) :=
  match cs with
  | [] => Ok []
  | None :: _ => Fault Uninit_read
  | Some v :: t => r <- all_init t ;; Ok (v :: r)
  end.

(* the n byte VALUES at p+off *)
Definition pbytes (p : option buf) (off n : Z) : res (list byte) :=
  cs <- pcells p off n ;; all_init cs.

(* one byte through a pointer *)
Definition prd (p : option buf) (i : Z) : res byte :=
  match p with None => Fault Null_deref | Some b => rd b i end.

(* libc, modelled: memcpy(d+doff, s+soff, n), memmove inside one block, memset *)
Definition memcpy (d : option buf) (doff : Z) (s : option buf) (soff n : Z) : res (option buf) :=
  cs <- pcells s soff n ;; pput d doff cs.
Definition memmove_in (d : option buf) (doff soff n : Z) : res (option buf) :=
  cs <- pcells d soff n ;; pput d doff cs.
Definition memset (d : option buf) (off : Z) (c : byte) (n : Z) : res (option buf) :=
  if n <? 0 then Fault OOB_write else pput d off (repeat (Some c) (Z.to_nat n)).

(* memcmp on two equally long byte lists: sign of the first difference, bytes unsigned *)
Fixpoint memcmp_l (a b : list byte) : Z :=
  match a, b with
  | x :: a', y :: b' => if x <? y then -1 else if y <? x then 1 else memcmp_l a' b'
  | _, _ => 0
  end.
Definition memcmp (p : option buf) (q : option buf) (n : Z) : res Z :=
  a <- pbytes p 0 n ;; b <- pbytes q 0 n ;; Ok (memcmp_l a b).

(* memmem: offset of the first occurrence of the needle *)
Fixpoint prefixb (n h : list byte) : bool :=
  match n, h with
  | [], _ => true
  | x :: n', y :: h' => (x =? y) && prefixb n' h'
  | _ :: _, [] => false
  end.
Fixpoint search (n h : list byte) (i : Z) : option Z :=
  if prefixb n h then Some i
  else match h with [] => None | _ :: h' => search n h' (i + 1) end.
(* a NULL haystack (only legal with length 0) yields NULL whatever the needle *)
Definition memmem (hay : option buf) (hl : Z) (needle : option buf) (nl : Z) : res (option Z) :=
  h <- pbytes hay 0 hl ;; n <- pbytes needle 0 nl ;;
  match hay with None => Ok None | Some _ => Ok (search n h 0) end.

(* SPIF_CMP_FROM_INT *)
Definition sgn (c : Z) : Z := if c <? 0 then -1 else if 0 <? c then 1 else 0.
Definition cmp_z (a b : Z) : Z := if a <? b then -1 else if b <? a then 1 else 0.

(* ------------------------------------------------------------------------------------ *)
(* input streams: what the kernel hands to successive read() calls                        *)
(* ------------------------------------------------------------------------------------ *)
Inductive ev : Type :=
| Data (bs : list byte)     (* bytes available; a read takes at most its count, the rest stays *)
| Short (bs : list byte)    (* same delivery rule; used by generators for chunks below the count *)
| EINTR                     (* read() = -1, errno EINTR *)
| EOF                       (* read() = 0 *)
| Err.                      (* read() = -1, another errno *)

Inductive rdres : Type := RData (bs : list byte) | REintr | RErr.   (* RData [] is read() = 0 *)

Definition sysread (s : list ev) (n : Z) : rdres * list ev :=
  match s with
  | [] => (RData [], [])
  | Data bs :: r =>
    if Z.of_nat (length bs) <=? n then (RData bs, r)
    else (RData (firstn (Z.to_nat n) bs), Data (skipn (Z.to_nat n) bs) :: r)
  | Short bs :: r =>
    if Z.of_nat (length bs) <=? n then (RData bs, r)
    else (RData (firstn (Z.to_nat n) bs), Short (skipn (Z.to_nat n) bs) :: r)
  | EINTR :: r => (REintr, r)
  | EOF :: r => (RData [], r)
  | Err :: r => (RErr, r)
  end.

Definition ev_weight (e : ev) : nat :=
  match e with Data bs | Short bs => S (length bs) | _ => 1%nat end.
Definition sched_fuel (s : list ev) : nat := S (fold_right (fun e a => (ev_weight e + a)%nat) O s).

(* descriptor kind: what lseek / fseek+ftell answer *)
Inductive fkind : Type :=
| Seekable (pos fsize : Z)   (* current offset, offset of the end *)
| Stream.                    (* lseek fails (pipe, socket, tty) *)

(* fread(p, 1, n, fp) over the schedule: collects until n bytes, end of file or error.
   result: bytes, feof, ferror, rest of the schedule *)
Fixpoint fread (fuel : nat) (s : list ev) (n : Z) (acc : list byte)
  : res (list byte * bool * bool * list ev) :=
  match fuel with
  | O => Fault Out_of_fuel
  | S f =>
    if n <=? 0 then Ok (acc, false, false, s)
    else
      let '(r, s') := sysread s n in
      match r with
      | REintr | RErr => Ok (acc, false, true, s')
      | RData [] => Ok (acc, true, false, s')
      | RData bs => fread f s' (n - Z.of_nat (length bs)) (acc ++ bs)
      end
  end.

(* ------------------------------------------------------------------------------------ *)
(* constructors                                                                          *)
(* ------------------------------------------------------------------------------------ *)
Definition mb_null : mb := MB None 0 0.

(* spif_mbuff_init (mbuff.c:144) *)
Definition init : bool * mb := (true, mb_null).

(* spif_mbuff_init_from_ptr (mbuff.c:156) *)
Definition init_from_ptr (old : option buf) (n : Z) : res (bool * mb) :=
  match old with
  | None => Ok init
  | Some _ =>
    b <- MALLOC n ;;
    b' <- memcpy b 0 old 0 n ;;
    Ok (true, MB b' n n)
  end.

(* spif_mbuff_init_from_buff (mbuff.c:169); the source pointer is p+off *)
Definition init_from_buff_at (p : option buf) (off n sz : Z) : res (bool * mb) :=
  let l := match p with Some _ => n | None => 0 end in
  let s := Z.max sz l in
  b <- MALLOC s ;;
  b' <- match p with Some _ => memcpy b 0 p off l | None => Ok b end ;;
  Ok (true, MB b' l s).
Definition init_from_buff (p : option buf) (n sz : Z) := init_from_buff_at p 0 n sz.

(* tail shared by both streaming readers (mbuff.c:221, 279):
   self->size = self->len; if (self->size) REALLOC(buff, size) else FREE(buff) *)
Definition stream_finish (b : option buf) (ln : Z) : res (bool * mb) :=
  b' <- REALLOC b ln ;; Ok (true, MB b' ln ln).

(* streaming loop of spif_mbuff_init_from_fd (mbuff.c:270), repaired:
     for (p = buff; ((cnt = read(fd, p, buff_inc)) > 0) || ((cnt < 0) && (errno == EINTR));
          p = self->buff + self->len) {
         if (cnt < 0) continue;
         self->len += cnt;
         if (self->size - self->len < buff_inc) { size += buff_inc; REALLOC }
     }
   the cursor is always buff + len, so it is represented by ln *)
Fixpoint fd_loop (fuel : nat) (s : list ev) (b : option buf) (ln sz : Z) : res (option buf * Z) :=
  match fuel with
  | O => Fault Out_of_fuel
  | S f =>
    let '(r, s') := sysread s buff_inc in
    match r with
    | REintr => fd_loop f s' b ln sz
    | RErr => Ok (b, ln)
    | RData [] => Ok (b, ln)
    | RData bs =>
      b1 <- pput b ln (bytes bs) ;;
      let ln' := ln + Z.of_nat (length bs) in
      if sz - ln' <? buff_inc
      then (b2 <- REALLOC b1 (sz + buff_inc) ;; fd_loop f s' b2 ln' (sz + buff_inc))
      else fd_loop f s' b1 ln' sz
    end
  end.

(* spif_mbuff_init_from_fd (mbuff.c:247) *)
Definition init_from_fd (k : fkind) (s : list ev) : res (bool * mb) :=
  let fsize := match k with Seekable _ fs => fs | Stream => -1 end in
  if fsize <? 0 then
    b <- MALLOC buff_inc ;;
    '(b', ln) <- fd_loop (sched_fuel s) s b 0 buff_inc ;;
    stream_finish b' ln
  else
    b <- MALLOC fsize ;;
    let '(r, _) := sysread s fsize in
    match r with
    | REintr | RErr | RData [] => Ok (false, mb_null)          (* FREE(buff); len = size = 0 *)
    | RData bs => b' <- pput b 0 (bytes bs) ;; Ok (true, MB b' (Z.of_nat (length bs)) fsize)
    end.

(* streaming loop of spif_mbuff_init_from_fp (mbuff.c:209), repaired:
     for (p = buff; (cnt = fread(p, 1, buff_inc, fp)) > 0; p = self->buff + self->len) {
         len += cnt; if (feof) break; else if (ferror) break; else { size += buff_inc; REALLOC } } *)
Fixpoint fp_loop (fuel : nat) (s : list ev) (b : option buf) (ln sz : Z) : res (option buf * Z) :=
  match fuel with
  | O => Fault Out_of_fuel
  | S f =>
    '(bs, eof, err, s') <- fread (sched_fuel s) s buff_inc [] ;;
    match bs with
    | [] => Ok (b, ln)
    | _ =>
      b1 <- pput b ln (bytes bs) ;;
      let ln' := ln + Z.of_nat (length bs) in
      if eof || err then Ok (b1, ln')
      else (b2 <- REALLOC b1 (sz + buff_inc) ;; fp_loop f s' b2 ln' (sz + buff_inc))
    end
  end.

(* spif_mbuff_init_from_fp (mbuff.c:188) *)
Definition init_from_fp (k : fkind) (s : list ev) : res (bool * mb) :=
  match k with
  | Stream =>
    b <- MALLOC buff_inc ;;
    '(b', ln) <- fp_loop (sched_fuel s) s b 0 buff_inc ;;
    stream_finish b' ln
  | Seekable _ fsize =>
    if fsize <=? 0 then Ok (false, mb_null)
    else
      b <- MALLOC fsize ;;
      '(bs, _, _, _) <- fread (sched_fuel s) s fsize [] ;;
      match bs with
      | [] => Ok (false, mb_null)
      | _ => b' <- pput b 0 (bytes bs) ;; Ok (true, MB b' (Z.of_nat (length bs)) fsize)
      end
  end.

(* ------------------------------------------------------------------------------------ *)
(* methods                                                                               *)
(* ------------------------------------------------------------------------------------ *)
(* spif_mbuff_done (mbuff.c:298) *)
Definition done (m : mb) : bool * mb :=
  match buff m with None => (true, m) | Some _ => (true, mb_null) end.   (* tests the pointer (repo fix 1b9e71a) *)

(* spif_mbuff_dup (mbuff.c:377) *)
Definition dup (m : mb) : res mb :=
  match buff m with
  | None => Ok (MB None (len m) (size m))       (* no block to copy (repo fix f55e6ee) *)
  | Some _ =>
    b <- MALLOC (size m) ;;
    b' <- memcpy b 0 (buff m) 0 (size m) ;;
    Ok (MB b' (len m) (size m))
  end.

(* spif_mbuff_append (mbuff.c:399) *)
Definition append (m : mb) (other : option mb) : res (bool * mb) :=
  match other with
  | None => Ok (false, m)
  | Some o =>
    if negb (size o =? 0) && negb (len o =? 0) then
      let sz := size m + size o in
      b <- REALLOC (buff m) sz ;;
      b' <- memcpy b (len m) (buff o) 0 (len o) ;;
      Ok (true, MB b' (len m + len o) sz)
    else Ok (true, m)
  end.

(* spif_mbuff_append_from_ptr (mbuff.c:413) *)
Definition append_from_ptr (m : mb) (p : option buf) (n : Z) : res (bool * mb) :=
  match p with
  | None => Ok (false, m)
  | Some _ =>
    if negb (n =? 0) then
      let sz := size m + n in
      b <- REALLOC (buff m) sz ;;
      b' <- memcpy b (len m) p 0 n ;;
      Ok (true, MB b' (len m + n) sz)
    else Ok (true, m)
  end.

(* spif_mbuff_clear (mbuff.c:427) *)
Definition clear (m : mb) (c : byte) : res (bool * mb) :=
  b <- memset (buff m) 0 c (len m) ;; Ok (true, MB b (len m) (size m)).

(* spif_mbuff_cmp (mbuff.c:435), repaired: equal common prefix => the shorter one is less *)
Definition cmp (m : mb) (other : option mb) : res Z :=
  match other with
  | None => Ok 1
  | Some o =>
    c <- memcmp (buff m) (buff o) (Z.min (len m) (len o)) ;;
    if c =? 0 then Ok (cmp_z (len m) (len o)) else Ok (sgn c)
  end.

(* spif_mbuff_cmp_with_ptr (mbuff.c:445), repaired: memcmp over the first n bytes of the buffer,
   never more than the allocation holds; if all of those match and n is larger the object is the
   shorter sequence.  ncmp_with_ptr (mbuff.c:509) is a call of this function. *)
Definition cmp_with_ptr (m : mb) (p : option buf) (n : Z) : res Z :=
  match p with
  | None => Ok 1
  | Some _ =>
    c <- memcmp (buff m) p (Z.min n (size m)) ;;
    if (c =? 0) && (size m <? n) then Ok (-1) else Ok (sgn c)
  end.

(* spif_mbuff_ncmp (mbuff.c:496), repaired: a count that is negative or exceeds either
   length means the whole buffers are compared *)
Definition ncmp (m : mb) (other : option mb) (cnt : Z) : res Z :=
  match other with
  | None => Ok 1
  | Some o =>
    if (cnt <? 0) || (len m <? cnt) || (len o <? cnt) then cmp m other
    else c <- memcmp (buff m) (buff o) cnt ;; Ok (sgn c)
  end.

(* spif_mbuff_find (mbuff.c:455) / find_from_ptr (mbuff.c:470) *)
Definition find_gen (m : mb) (np : option buf) (nl : Z) : res Z :=
  r <- memmem (buff m) (len m) np nl ;;
  match r with Some i => Ok i | None => Ok (len m) end.
Definition find (m : mb) (other : option mb) : res Z :=
  match other with None => Ok (-1) | Some o => find_gen m (buff o) (len o) end.
Definition find_from_ptr (m : mb) (p : option buf) (n : Z) : res Z :=
  match p with None => Ok (-1) | Some _ => find_gen m p n end.

(* spif_mbuff_index (mbuff.c:485), repaired:
   for (tmp = buff, i = 0; (i < len) && ( *tmp != c); i++, tmp++);  return tmp - buff; *)
Fixpoint index_loop (fuel : nat) (b : option buf) (ln : Z) (c : byte) (i : Z) : res Z :=
  match fuel with
  | O => Fault Out_of_fuel
  | S f =>
    if i <? ln then (v <- prd b i ;; if v =? c then Ok i else index_loop f b ln c (i + 1))
    else Ok i
  end.
Definition index (m : mb) (c : byte) : res Z :=
  index_loop (S (Z.to_nat (len m))) (buff m) (len m) c 0.

(* spif_mbuff_rindex (mbuff.c:560), repaired:
   for (i = len - 1; (i >= 0) && (buff[i] != c); i--);  return (i < 0) ? len : i; *)
Fixpoint rindex_loop (fuel : nat) (b : option buf) (ln : Z) (c : byte) (i : Z) : res Z :=
  match fuel with
  | O => Fault Out_of_fuel
  | S f =>
    if 0 <=? i then (v <- prd b i ;; if v =? c then Ok i else rindex_loop f b ln c (i - 1))
    else Ok ln
  end.
Definition rindex (m : mb) (c : byte) : res Z :=
  rindex_loop (S (Z.to_nat (len m))) (buff m) (len m) c (len m - 1).

(* spif_mbuff_prepend (mbuff.c:515) *)
Definition prepend (m : mb) (other : option mb) : res (bool * mb) :=
  match other with
  | None => Ok (false, m)
  | Some o =>
    if negb (size o =? 0) && negb (len o =? 0) then
      let sz := size m + size o in
      b <- REALLOC (buff m) sz ;;
      b1 <- memmove_in b (len o) 0 (len m) ;;
      b2 <- memcpy b1 0 (buff o) 0 (len o) ;;
      Ok (true, MB b2 (len m + len o) sz)
    else Ok (true, m)
  end.

(* spif_mbuff_prepend_from_ptr (mbuff.c:530) *)
Definition prepend_from_ptr (m : mb) (p : option buf) (n : Z) : res (bool * mb) :=
  match p with
  | None => Ok (false, m)
  | Some _ =>
    if negb (n =? 0) then
      let sz := size m + n in
      b <- REALLOC (buff m) sz ;;
      b1 <- memmove_in b n 0 (len m) ;;
      b2 <- memcpy b1 0 p 0 n ;;
      Ok (true, MB b2 (len m + n) sz)
    else Ok (true, m)
  end.

(* spif_mbuff_reverse (mbuff.c:545): for (j = 0, i = len - 1; i > j; i--, j++) SWAP(tmp[j], tmp[i]) *)
Fixpoint rev_loop (fuel : nat) (b : buf) (i j : Z) : res buf :=
  match fuel with
  | O => Fault Out_of_fuel
  | S f =>
    if j <? i then
      x <- rd b j ;; y <- rd b i ;;
      b1 <- wr b j y ;; b2 <- wr b1 i x ;;
      rev_loop f b2 (i - 1) (j + 1)
    else Ok b
  end.
Definition reverse (m : mb) : res (bool * mb) :=
  match buff m with
  | None => Ok (false, m)
  | Some b => b' <- rev_loop (S (Z.to_nat (len m))) b (len m - 1) 0 ;; Ok (true, MB (Some b') (len m) (size m))
  end.

(* position rules shared by splice and splice_from_ptr (mbuff.c:581-590):
   Some (idx, cnt) after normalisation, None when a REQUIRE refuses *)
Definition splice_pos (ln idx cnt : Z) : option (Z * Z) :=
  let idx := if idx <? 0 then ln + idx else idx in
  if idx <? 0 then None
  else if negb (idx <? ln) then None
  else
    let cnt := if cnt <? 0 then idx + ln + cnt else cnt in
    if cnt <? 0 then None
    else if negb (cnt <=? ln - idx) then None
    else Some (idx, cnt).

(* body shared by spif_mbuff_splice (mbuff.c:575, repaired: the tail copy has len-idx-cnt
   bytes) and spif_mbuff_splice_from_ptr (mbuff.c:614); np/nl = the inserted bytes *)
Definition splice_gen (m : mb) (idx cnt : Z) (np : option buf) (nl : Z) : res (bool * mb) :=
  match splice_pos (len m) idx cnt with
  | None => Ok (false, m)
  | Some (idx, cnt) =>
    let newsize := len m + nl - cnt in
    tmp <- MALLOC newsize ;;
    tmp1 <- (if 0 <? idx then memcpy tmp 0 (buff m) 0 idx else Ok tmp) ;;
    tmp2 <- memcpy tmp1 idx np 0 nl ;;
    tmp3 <- memcpy tmp2 (idx + nl) (buff m) (idx + cnt) (len m - idx - cnt) ;;
    '(b, sz) <- (if size m <? newsize
                 then (b <- REALLOC (buff m) newsize ;; Ok (b, newsize))
                 else Ok (buff m, size m)) ;;
    b' <- memcpy b 0 tmp3 0 newsize ;;
    Ok (true, MB b' newsize sz)
  end.
Definition splice (m : mb) (idx cnt : Z) (other : option mb) : res (bool * mb) :=
  match other with
  | None => splice_gen m idx cnt None 0
  | Some o => splice_gen m idx cnt (buff o) (len o)
  end.
Definition splice_from_ptr (m : mb) (idx cnt : Z) (p : option buf) (n : Z) : res (bool * mb) :=
  splice_gen m idx cnt p (match p with None => 0 | Some _ => n end).

(* spif_mbuff_sprintf (mbuff.c:656); the formatted bytes are vsnprintf's answer *)
Inductive fmt : Type :=
| FNull                      (* format == NULL *)
| FEmpty                     (* *format == 0 *)
| FOut (bs : list byte).     (* what vsnprintf produces for the format and arguments *)
Definition sprintf (m : mb) (f : fmt) : res (bool * mb) :=
  let m1 := match buff m with Some _ => snd (done m) | None => m end in
  match f with
  | FNull => Ok (false, m1)
  | FEmpty => Ok (true, m1)
  | FOut bs =>
    let c := Z.of_nat (length bs) in
    if c <=? 0 then Ok (false, m1)
    else
      b <- MALLOC (c + 1) ;;
      b' <- pput b 0 (bytes bs ++ [Some 0]) ;;
      Ok (true, MB b' c (c + 1))
  end.

(* position rules of subbuff / subbuff_to_ptr (mbuff.c:700-709) *)
Definition sub_pos (ln idx cnt : Z) : option (Z * Z) :=
  let idx := if idx <? 0 then ln + idx else idx in
  if idx <? 0 then None
  else if negb (idx <? ln) then None
  else
    let cnt := if cnt <=? 0 then ln - idx + cnt else cnt in
    if cnt <? 0 then None
    else Some (idx, Z.min cnt (ln - idx)).

(* spif_mbuff_subbuff (mbuff.c:697) *)
Definition subbuff (m : mb) (idx cnt : Z) : res (option mb) :=
  match sub_pos (len m) idx cnt with
  | None => Ok None
  | Some (idx, cnt) =>
    match buff m with
    | None => Fault Null_deref
    | Some _ => '(_, o) <- init_from_buff_at (buff m) idx cnt cnt ;; Ok (Some o)
    end
  end.

(* spif_mbuff_subbuff_to_ptr (mbuff.c:714): the new block, cnt bytes and a NUL *)
Definition subbuff_to_ptr (m : mb) (idx cnt : Z) : res (option buf) :=
  match sub_pos (len m) idx cnt with
  | None => Ok None
  | Some (idx, cnt) =>
    b <- MALLOC (cnt + 1) ;;
    b1 <- memcpy b 0 (buff m) idx cnt ;;
    b2 <- pput b1 cnt [Some 0] ;;
    Ok b2
  end.

(* spif_mbuff_trim (mbuff.c:737), repaired:
     if (self->len == 0) return TRUE;
     start = buff; end = buff + len - 1;
     for (; (start <= end) && isspace( *start); start++);
     for (; (start < end) && isspace( *end); end--);
     if (start > end) return done(self); ... *)
Fixpoint trim_fwd (fuel : nat) (b : option buf) (s e : Z) : res Z :=
  match fuel with
  | O => Fault Out_of_fuel
  | S f =>
    if s <=? e then (v <- prd b s ;; if isspace v then trim_fwd f b (s + 1) e else Ok s)
    else Ok s
  end.
Fixpoint trim_bwd (fuel : nat) (b : option buf) (s e : Z) : res Z :=
  match fuel with
  | O => Fault Out_of_fuel
  | S f =>
    if s <? e then (v <- prd b e ;; if isspace v then trim_bwd f b s (e - 1) else Ok e)
    else Ok e
  end.
Definition trim (m : mb) : res (bool * mb) :=
  if len m =? 0 then Ok (true, m)
  else
    let fuel := S (Z.to_nat (len m)) in
    s <- trim_fwd fuel (buff m) 0 (len m - 1) ;;
    e <- trim_bwd fuel (buff m) s (len m - 1) ;;
    if e <? s then Ok (done m)
    else
      let ln := e - s + 1 in
      b1 <- (if 0 <? s then memmove_in (buff m) 0 s ln else Ok (buff m)) ;;
      if negb (size m =? ln) then (b2 <- REALLOC b1 ln ;; Ok (true, MB b2 ln ln))
      else Ok (true, MB b1 ln (size m)).

(* ------------------------------------------------------------------------------------ *)
(* histories                                                                             *)
(* ------------------------------------------------------------------------------------ *)
Definition ptr := option (list byte).          (* caller memory: NULL or initialised bytes *)
Definition pbuf (p : ptr) : option buf := option_map bytes p.

Inductive ctor : Type :=
| CNew
| CPtr (p : ptr) (n : Z)
| CBuff (p : ptr) (n sz : Z)
| CFp (k : fkind) (s : list ev)
| CFd (k : fkind) (s : list ev).

Inductive op : Type :=
| Done | Dup | DupTo
| Append (o : option mb) | AppendPtr (p : ptr) (n : Z)
| Prepend (o : option mb) | PrependPtr (p : ptr) (n : Z)
| Splice (idx cnt : Z) (o : option mb) | SplicePtr (idx cnt : Z) (p : ptr) (n : Z)
| Subbuff (idx cnt : Z) | SubbuffPtr (idx cnt : Z)
| Trim | Reverse | Clear (c : byte)
| Sprintf (f : fmt)
| Cmp (o : option mb) | CmpPtr (p : ptr) (n : Z) | Ncmp (o : option mb) (n : Z) | NcmpPtr (p : ptr) (n : Z)
| Find (o : option mb) | FindPtr (p : ptr) (n : Z)
| Index (c : byte) | Rindex (c : byte)
| GetLen | GetSize | SetLen (n : Z) | SetSize (n : Z).

(* what an operation hands back *)
Inductive mout : Type :=
| MBool (b : bool)
| MIdx (i : Z)
| MCmp (c : Z)
| MObj (o : option mb)         (* a new object or NULL *)
| MPtr (p : option buf)        (* a new block or NULL *)
| MSize (z : Z).               (* get_size: exact capacity, outside the spec *)

Definition run_ctor (c : ctor) : res (bool * mb) :=
  match c with
  | CNew => Ok init
  | CPtr p n => init_from_ptr (pbuf p) n
  | CBuff p n sz => init_from_buff (pbuf p) n sz
  | CFp k s => init_from_fp k s
  | CFd k s => init_from_fd k s
  end.

Definition lift (r : res (bool * mb)) : res (mout * mb) :=
  '(b, m) <- r ;; Ok (MBool b, m).

Definition step (m : mb) (o : op) : res (mout * mb) :=
  match o with
  | Done => lift (Ok (done m))
  | Dup => d <- dup m ;; Ok (MObj (Some d), m)
  | DupTo => d <- dup m ;; Ok (MObj (Some d), d)
  | Append x => lift (append m x)
  | AppendPtr p n => lift (append_from_ptr m (pbuf p) n)
  | Prepend x => lift (prepend m x)
  | PrependPtr p n => lift (prepend_from_ptr m (pbuf p) n)
  | Splice i c x => lift (splice m i c x)
  | SplicePtr i c p n => lift (splice_from_ptr m i c (pbuf p) n)
  | Subbuff i c => r <- subbuff m i c ;; Ok (MObj r, m)
  | SubbuffPtr i c => r <- subbuff_to_ptr m i c ;; Ok (MPtr r, m)
  | Trim => lift (trim m)
  | Reverse => lift (reverse m)
  | Clear c => lift (clear m c)
  | Sprintf f => lift (sprintf m f)
  | Cmp x => r <- cmp m x ;; Ok (MCmp r, m)
  | CmpPtr p n => r <- cmp_with_ptr m (pbuf p) n ;; Ok (MCmp r, m)
  | Ncmp x n => r <- ncmp m x n ;; Ok (MCmp r, m)
  | NcmpPtr p n => r <- cmp_with_ptr m (pbuf p) n ;; Ok (MCmp r, m)
  | Find x => r <- find m x ;; Ok (MIdx r, m)
  | FindPtr p n => r <- find_from_ptr m (pbuf p) n ;; Ok (MIdx r, m)
  | Index c => r <- index m c ;; Ok (MIdx r, m)
  | Rindex c => r <- rindex m c ;; Ok (MIdx r, m)
  | GetLen => Ok (MIdx (len m), m)
  | GetSize => Ok (MSize (size m), m)
  | SetLen n => Ok (MBool true, MB (buff m) n (size m))
  | SetSize n => Ok (MBool true, MB (buff m) (len m) n)
  end.

(* the whole history: outputs in order and the final object *)
Fixpoint run_ops (m : mb) (ops : list op) : res (list mout * mb) :=
  match ops with
  | [] => Ok ([], m)
  | o :: r => '(x, m1) <- step m o ;; '(xs, m2) <- run_ops m1 r ;; Ok (x :: xs, m2)
  end.

Definition run_model (c : ctor) (ops : list op) : res (bool * list mout * mb) :=
  '(b, m) <- run_ctor c ;; '(xs, m') <- run_ops m ops ;; Ok (b, xs, m').

(* methods called with self == NULL: the ASSERT_RVAL / SPIF_OBJ_COMP_CHECK_NULL answers *)
Definition null_self (o : op) : option mout :=
  match o with
  | Done | Append _ | AppendPtr _ _ | Prepend _ | PrependPtr _ _ | Splice _ _ _ | SplicePtr _ _ _ _
  | Trim | Reverse | Clear _ | Sprintf _ => Some (MBool false)
  | Dup | DupTo | Subbuff _ _ => Some (MObj None)
  | SubbuffPtr _ _ => Some (MPtr None)
  | Cmp x | Ncmp x _ => Some (MCmp (match x with None => 0 | Some _ => -1 end))
  | CmpPtr p _ | NcmpPtr p _ => Some (MCmp (match p with None => 0 | Some _ => -1 end))
  | Find _ | FindPtr _ _ | Index _ | Rindex _ => Some (MIdx (-1))
  | GetLen | GetSize | SetLen _ | SetSize _ => None      (* no guard: outside this model *)
  end.

(* the bytes an object holds: cells [0, len) *)
Fixpoint init_prefix (cs : list cell) : list byte :=
  match cs with Some v :: t => v :: init_prefix t | _ => [] end.
Definition abs (m : mb) : list byte :=
  match buff m with None => [] | Some b => init_prefix (firstn (Z.to_nat (len m)) b) end.

(* ------------------------------------------------------------------------------------ *)
(* specification: the ideal byte sequence                                                *)
(* ------------------------------------------------------------------------------------ *)
Definition zlen (s : list byte) : Z := Z.of_nat (length s).

(* unsigned lexicographic order, a proper prefix is less *)
Fixpoint lex (a b : list byte) : Z :=
  match a, b with
  | [], [] => 0
  | [], _ :: _ => -1
  | _ :: _, [] => 1
  | x :: a', y :: b' => if x <? y then -1 else if y <? x then 1 else lex a' b'
  end.

Definition take (n : Z) (s : list byte) := firstn (Z.to_nat n) s.
Definition drop (n : Z) (s : list byte) := skipn (Z.to_nat n) s.

Fixpoint s_index_from (s : list byte) (c : byte) (i : Z) : option Z :=
  match s with [] => None | x :: t => if x =? c then Some i else s_index_from t c (i + 1) end.
Fixpoint s_rindex_from (s : list byte) (c : byte) (i : Z) : option Z :=
  match s with
  | [] => None
  | x :: t => match s_rindex_from t c (i + 1) with Some j => Some j | None => if x =? c then Some i else None end
  end.
Definition or_len (s : list byte) (r : option Z) : Z := match r with Some i => i | None => zlen s end.

Definition s_index (s : list byte) (c : byte) : Z := or_len s (s_index_from s c 0).
Definition s_rindex (s : list byte) (c : byte) : Z := or_len s (s_rindex_from s c 0).
Definition s_find (s n : list byte) : Z := or_len s (search n s 0).

Fixpoint dropwhile (f : byte -> bool) (s : list byte) : list byte :=
  match s with [] => [] | x :: t => if f x then dropwhile f t else s end.
Definition s_trim (s : list byte) : list byte := rev (dropwhile isspace (rev (dropwhile isspace s))).

Definition s_splice (s : list byte) (idx cnt : Z) (ins : list byte) : option (list byte) :=
  match splice_pos (zlen s) idx cnt with
  | None => None
  | Some (i, c) => Some (take i s ++ ins ++ drop (i + c) s)
  end.
Definition s_sub (s : list byte) (idx cnt : Z) : option (list byte) :=
  match sub_pos (zlen s) idx cnt with
  | None => None
  | Some (i, c) => Some (take c (drop i s))
  end.

(* ncmp: a negative count, or one exceeding a length, compares everything *)
Definition s_ncmp (a b : list byte) (n : Z) : Z :=
  if n <? 0 then lex a b else lex (take n a) (take n b).

(* what a reader should deliver: every byte up to the first end-of-file or error;
   interrupted reads are retried by the descriptor reader, stdio gives up on them *)
Fixpoint stream_bytes (retry : bool) (s : list ev) : list byte :=
  match s with
  | [] => []
  | Data [] :: _ | Short [] :: _ => []
  | Data bs :: r | Short bs :: r => bs ++ stream_bytes retry r
  | EINTR :: r => if retry then stream_bytes retry r else []
  | EOF :: _ | Err :: _ => []
  end.
(* seekable descriptor: one read of at most fsize bytes *)
Definition first_read (s : list ev) (n : Z) : list byte :=
  match s with
  | Data bs :: _ | Short bs :: _ => take n bs
  | _ => []
  end.

Definition other_bytes (o : option mb) : list byte := match o with None => [] | Some x => abs x end.
Definition ptr_bytes (p : ptr) (n : Z) : list byte := match p with None => [] | Some s => take n s end.

(* ideal outputs *)
Inductive out : Type :=
| OBool (b : bool) | OIdx (i : Z) | OCmp (c : Z)
| OObj (o : option (list byte)) | OPtr (p : option (list byte)) | OUnit.

Definition out_abs (x : mout) : out :=
  match x with
  | MBool b => OBool b
  | MIdx i => OIdx i
  | MCmp c => OCmp c
  | MObj o => OObj (option_map abs o)
  | MPtr p => OPtr (option_map (fun b => init_prefix b) p)
  | MSize _ => OUnit
  end.

Definition spec_ctor (c : ctor) : bool * list byte :=
  match c with
  | CNew => (true, [])
  | CPtr p n => (true, ptr_bytes p n)
  | CBuff p n _ => (true, ptr_bytes p n)
  | CFd Stream s => (true, stream_bytes true s)
  | CFd (Seekable _ fs) s =>
    if fs <? 0 then (true, stream_bytes true s)
    else match first_read s fs with [] => (false, []) | bs => (true, bs) end
  | CFp Stream s => (true, stream_bytes false s)
  | CFp (Seekable _ fs) s =>
    match take fs (stream_bytes false s) with [] => (false, []) | bs => (true, bs) end
  end.

Definition isnull {A} (o : option A) : bool := match o with None => true | Some _ => false end.

Definition spec_step (s : list byte) (o : op) : out * list byte :=
  match o with
  | Done => (OBool true, [])
  | Dup => (OObj (Some s), s)
  | DupTo => (OObj (Some s), s)
  | Append x => (OBool (negb (isnull x)), s ++ other_bytes x)
  | AppendPtr p n => (OBool (negb (isnull p)), s ++ ptr_bytes p n)
  | Prepend x => (OBool (negb (isnull x)), other_bytes x ++ s)
  | PrependPtr p n => (OBool (negb (isnull p)), ptr_bytes p n ++ s)
  | Splice i c x =>
    match s_splice s i c (other_bytes x) with Some s' => (OBool true, s') | None => (OBool false, s) end
  | SplicePtr i c p n =>
    match s_splice s i c (ptr_bytes p n) with Some s' => (OBool true, s') | None => (OBool false, s) end
  | Subbuff i c => (OObj (s_sub s i c), s)
  | SubbuffPtr i c => (OPtr (option_map (fun x => x ++ [0]) (s_sub s i c)), s)
  | Trim => (OBool true, s_trim s)
  (* FALSE for a NULL buffer, TRUE otherwise: on the empty sequence the answer depends on which
     of the two empty representations the object has, and is left open (OUnit) *)
  | Reverse => (match s with [] => OUnit | _ => OBool true end, rev s)
  | Clear c => (OBool true, repeat c (length s))
  | Sprintf FNull => (OBool false, [])
  | Sprintf FEmpty => (OBool true, [])
  | Sprintf (FOut bs) => (OBool (negb (length bs =? 0)%nat), bs)
  | Cmp x => (OCmp (match x with None => 1 | Some o => lex s (abs o) end), s)
  | CmpPtr p n | NcmpPtr p n => (OCmp (match p with None => 1 | Some q => lex (take n s) (take n q) end), s)
  | Ncmp x n => (OCmp (match x with None => 1 | Some o => s_ncmp s (abs o) n end), s)
  | Find x => (OIdx (match x with None => -1 | Some o => s_find s (abs o) end), s)
  | FindPtr p n => (OIdx (match p with None => -1 | Some q => s_find s (take n q) end), s)
  | Index c => (OIdx (s_index s c), s)
  | Rindex c => (OIdx (s_rindex s c), s)
  | GetLen => (OIdx (zlen s), s)
  | GetSize => (OUnit, s)
  | SetLen n => (OBool true, take n s)
  | SetSize _ => (OBool true, s)
  end.

Fixpoint spec_run (s : list byte) (ops : list op) : list out * list byte :=
  match ops with
  | [] => ([], s)
  | o :: r => let '(x, s1) := spec_step s o in let '(xs, s2) := spec_run s1 r in (x :: xs, s2)
  end.

(* ------------------------------------------------------------------------------------ *)
(* invariant and the domain of the theorems                                              *)
(* ------------------------------------------------------------------------------------ *)
(* m holds exactly the bytes s: either the NULL/0/0 object, or a block whose first len cells
   are the initialised bytes s and whose length (the allocation) is size *)
Definition Rep (m : mb) (s : list byte) : Prop :=
  (buff m = None /\ s = [] /\ len m = 0 /\ size m = 0) \/
  (exists rest, buff m = Some (bytes s ++ rest) /\ len m = zlen s /\
                size m = zlen s + Z.of_nat (length rest)).
Definition Inv (m : mb) : Prop := exists s, Rep m s.

(* caller contracts: a (pointer, length) pair describes a readable block of at least that many
   bytes; another object handed in is a well-formed mbuff *)
Definition ptr_ok (p : ptr) (n : Z) : Prop := forall q, p = Some q -> 0 <= n <= zlen q.
Definition other_ok (o : option mb) : Prop := forall x, o = Some x -> Inv x.

Definition ctor_ok (c : ctor) : Prop :=
  match c with
  | CPtr p n | CBuff p n _ => ptr_ok p n
  | _ => True
  end.

(* s is the ideal content at the moment the operation is issued *)
Definition op_ok (s : list byte) (o : op) : Prop :=
  match o with
  | Append x | Prepend x | Splice _ _ x | Cmp x | Ncmp x _ | Find x => other_ok x
  | AppendPtr p n | PrependPtr p n | SplicePtr _ _ p n | FindPtr p n => ptr_ok p n
  (* cmp_with_ptr reads n bytes of the buffer whatever its length: the count must not exceed it *)
  | CmpPtr p n | NcmpPtr p n => forall q, p = Some q -> 0 <= n <= zlen q /\ n <= zlen s
  | SetLen n => 0 <= n <= zlen s          (* truncation only *)
  | SetSize _ => False                    (* raw capacity write: outside the theorems *)
  | _ => True
  end.

Fixpoint ops_ok (s : list byte) (ops : list op) : Prop :=
  match ops with
  | [] => True
  | o :: r => op_ok s o /\ ops_ok (snd (spec_step s o)) r
  end.

(* an output agrees with the ideal one; OUnit leaves the value open *)
Definition out_ok (x : mout) (y : out) : Prop := y = OUnit \/ out_abs x = y.
