(* Proofs about the mbuff model (property C07): every constructor and every method refines
   the ideal byte sequence of MbuffModel.v and keeps the representation invariant. *)
From LV Require Import Base.Buf Gen.Constants Mbuff.MbuffModel.
Local Open Scope Z_scope.

(* case analysis on the boolean comparisons in the goal, arithmetic closed by lia *)
Ltac zb1 := match goal with
  | |- context [?a <? ?b] => destruct (Z.ltb_spec a b)
  | |- context [?a <=? ?b] => destruct (Z.leb_spec a b)
  | |- context [?a =? ?b] => destruct (Z.eqb_spec a b)
  end.
Ltac zb := repeat (zb1; try lia); cbn [orb andb negb].
Ltac b2p := repeat match goal with
  | H : (_ <? _) = true |- _ => apply Z.ltb_lt in H
  | H : (_ <? _) = false |- _ => apply Z.ltb_ge in H
  | H : (_ <=? _) = true |- _ => apply Z.leb_le in H
  | H : (_ <=? _) = false |- _ => apply Z.leb_gt in H
  | H : (_ =? _) = true |- _ => apply Z.eqb_eq in H
  | H : (_ =? _) = false |- _ => apply Z.eqb_neq in H
  end.
Ltac blia := b2p; lia.
(* replace the first argument of the outermost bind by the right-hand side of equation E (up to conversion) *)
Ltac bind_rw E := match type of E with _ = ?R => match goal with |- context [bind ?X _] => replace X with R by (symmetry; exact E) end end.

(* ------------------------------------------------------------------------------------ *)
(* lists                                                                                 *)
(* ------------------------------------------------------------------------------------ *)
Lemma zlen_nonneg s : 0 <= zlen s.
Proof. unfold zlen. lia. Qed.
Lemma zlen_app s t : zlen (s ++ t) = zlen s + zlen t.
Proof. unfold zlen. rewrite app_length. lia. Qed.
Lemma zlen_nil : zlen [] = 0.
Proof. reflexivity. Qed.
Lemma zlen_0 s : zlen s = 0 -> s = [].
Proof. unfold zlen. destruct s; simpl; [reflexivity|lia]. Qed.

Lemma to_nat_len {A} (l : list A) : Z.to_nat (Z.of_nat (length l)) = length l.
Proof. apply Nat2Z.id. Qed.

Lemma bytes_firstn n s : bytes (firstn n s) = firstn n (bytes s).
Proof. unfold bytes. symmetry. apply firstn_map. Qed.
Lemma bytes_skipn n s : bytes (skipn n s) = skipn n (bytes s).
Proof. unfold bytes. symmetry. apply skipn_map. Qed.
Lemma bytes_rev s : bytes (rev s) = rev (bytes s).
Proof. unfold bytes. apply map_rev. Qed.
Lemma bytes_repeat c n : bytes (repeat c n) = repeat (Some c) n.
Proof. unfold bytes. induction n; simpl; congruence. Qed.

Lemma firstn_app_exact {A} (a b : list A) : firstn (length a) (a ++ b) = a.
Proof. rewrite firstn_app, Nat.sub_diag, firstn_all. simpl. apply app_nil_r. Qed.
Lemma skipn_app_exact {A} (a b : list A) : skipn (length a) (a ++ b) = b.
Proof. rewrite skipn_app, Nat.sub_diag, skipn_all. reflexivity. Qed.

Lemma init_prefix_bytes s rest : init_prefix (bytes s ++ match rest with [] => [] | _ => None :: rest end) = s.
Proof. induction s; simpl; [destruct rest; reflexivity | congruence]. Qed.
Lemma init_prefix_bytes0 s : init_prefix (bytes s) = s.
Proof. induction s; simpl; congruence. Qed.

Lemma all_init_bytes s : all_init (bytes s) = Ok s.
Proof. induction s; simpl; [reflexivity | now rewrite IHs]. Qed.

Lemma take_all s : take (zlen s) s = s.
Proof. unfold take, zlen. rewrite Nat2Z.id. apply firstn_all. Qed.
Lemma take_app s t : take (zlen s) (s ++ t) = s.
Proof. unfold take, zlen. rewrite Nat2Z.id. apply firstn_app_exact. Qed.
Lemma drop_app s t : drop (zlen s) (s ++ t) = t.
Proof. unfold drop, zlen. rewrite Nat2Z.id. apply skipn_app_exact. Qed.
Lemma take_drop n s : take n s ++ drop n s = s.
Proof. apply firstn_skipn. Qed.
Lemma zlen_take n s : 0 <= n <= zlen s -> zlen (take n s) = n.
Proof. unfold zlen, take. intros H. rewrite firstn_length. lia. Qed.
Lemma zlen_drop n s : 0 <= n <= zlen s -> zlen (drop n s) = zlen s - n.
Proof. unfold zlen, drop. intros H. rewrite skipn_length. lia. Qed.
Lemma take_neg n s : n <= 0 -> take n s = [].
Proof. unfold take. intros H. replace (Z.to_nat n) with O by lia. reflexivity. Qed.
Lemma take_ge n s : zlen s <= n -> take n s = s.
Proof. unfold take, zlen. intros H. apply firstn_all2. lia. Qed.

(* ------------------------------------------------------------------------------------ *)
(* block access                                                                          *)
(* ------------------------------------------------------------------------------------ *)
Lemma cells_at_app (a m c : list cell) :
  cells_at (a ++ m ++ c) (Z.of_nat (length a)) (Z.of_nat (length m)) = Ok m.
Proof.
  unfold cells_at, blen. rewrite !app_length. zb.
  rewrite !Nat2Z.id, skipn_app_exact, firstn_app_exact. reflexivity.
Qed.

Lemma put_at_app (a m m' c : list cell) :
  length m' = length m ->
  put_at (a ++ m ++ c) (Z.of_nat (length a)) m' = Ok (a ++ m' ++ c).
Proof.
  intros HL. unfold put_at, blen. rewrite !app_length. zb.
  rewrite Nat2Z.id, firstn_app_exact. f_equal. f_equal. f_equal.
  rewrite HL. rewrite skipn_app. rewrite (skipn_all2 a) by lia. simpl.
  replace (length a + length m - length a)%nat with (length m) by lia.
  apply skipn_app_exact.
Qed.

Lemma pcells_0 p off : pcells p off 0 = Ok [].
Proof. reflexivity. Qed.

Lemma pcells_app (a m c : list cell) :
  pcells (Some (a ++ m ++ c)) (Z.of_nat (length a)) (Z.of_nat (length m)) = Ok m.
Proof.
  unfold pcells. zb.
  - destruct m; [reflexivity | simpl in *; lia].
  - apply cells_at_app.
Qed.

Lemma pput_app (a m m' c : list cell) :
  length m' = length m ->
  pput (Some (a ++ m ++ c)) (Z.of_nat (length a)) m' = Ok (Some (a ++ m' ++ c)).
Proof.
  intros HL. unfold pput. destruct m' as [|x m'].
  - destruct m; [reflexivity | simpl in HL; lia].
  - rewrite (put_at_app a m (x :: m') c HL). reflexivity.
Qed.

(* memcpy between two blocks described by their segments *)
Lemma memcpy_app (a m c x y z : list cell) :
  length y = length m ->
  memcpy (Some (a ++ m ++ c)) (Z.of_nat (length a)) (Some (x ++ y ++ z)) (Z.of_nat (length x)) (Z.of_nat (length m))
  = Ok (Some (a ++ y ++ c)).
Proof.
  intros HL. unfold memcpy. rewrite <- HL, pcells_app. simpl. now apply pput_app.
Qed.

Lemma memcpy_0 d doff s soff : memcpy d doff s soff 0 = Ok d.
Proof. reflexivity. Qed.

Lemma memmove_app (a m c : list cell) :
  (* move the segment m (at |a|) to offset 0 *)
  memmove_in (Some (a ++ m ++ c)) 0 (Z.of_nat (length a)) (Z.of_nat (length m))
  = Ok (Some (m ++ skipn (length m) (a ++ m ++ c))).
Proof.
  unfold memmove_in. rewrite pcells_app. simpl.
  set (b := a ++ m ++ c).
  assert (HL : (length m <= length b)%nat) by (unfold b; rewrite !app_length; lia).
  rewrite <- (firstn_skipn (length m) b) at 1.
  change 0 with (Z.of_nat (@length cell [])).
  change (firstn (length m) b ++ skipn (length m) b) with ([] ++ firstn (length m) b ++ skipn (length m) b).
  rewrite (pput_app [] (firstn (length m) b) m (skipn (length m) b)); [reflexivity|].
  rewrite firstn_length. lia.
Qed.

Lemma MALLOC_ok n : 0 <= n -> MALLOC n = Ok (Some (repeat None (Z.to_nat n))).
Proof. intros H. unfold MALLOC. zb. reflexivity. Qed.

Lemma zlen_bytes s : Z.of_nat (length (bytes s)) = zlen s.
Proof. unfold zlen. now rewrite bytes_length. Qed.

(* growing (or allocating) keeps the bytes: the common step of append/prepend/splice/readers *)
Lemma REALLOC_grow m s n :
  Rep m s -> size m <= n -> 0 < n ->
  exists rest, REALLOC (buff m) n = Ok (Some (bytes s ++ rest)) /\ Z.of_nat (length rest) = n - zlen s.
Proof.
  intros [(Hb & Hs & Hl & Hz) | (rest & Hb & Hl & Hz)] Hn Hp; unfold REALLOC; zb; rewrite Hb.
  - subst s. rewrite MALLOC_ok by lia. exists (repeat None (Z.to_nat n)). split; [reflexivity|].
    rewrite repeat_length, zlen_nil. lia.
  - pose proof (zlen_nonneg s) as Hs0.
    exists (rest ++ repeat None (Z.to_nat n - length (bytes s ++ rest))).
    assert (HL : (length (bytes s ++ rest) <= Z.to_nat n)%nat).
    { rewrite app_length, bytes_length. unfold zlen in *. lia. }
    rewrite firstn_all2 by exact HL. split.
    + now rewrite app_assoc.
    + rewrite app_length, repeat_length, app_length, bytes_length. unfold zlen in *. lia.
Qed.

Lemma rep_abs m s : Rep m s -> abs m = s.
Proof.
  intros [(Hb & Hs & Hl & Hz) | (rest & Hb & Hl & Hz)]; unfold abs; rewrite Hb; [now subst|].
  rewrite Hl. unfold zlen. rewrite Nat2Z.id. rewrite <- (bytes_length s), firstn_app_exact.
  apply init_prefix_bytes0.
Qed.

Lemma rep_len m s : Rep m s -> len m = zlen s.
Proof. intros [(Hb & Hs & Hl & Hz) | (rest & Hb & Hl & Hz)]; [subst; now rewrite Hl | exact Hl]. Qed.

Lemma rep_null : Rep mb_null [].
Proof. left. repeat split. Qed.

Lemma rep_size_len m s : Rep m s -> len m <= size m.
Proof. intros [(Hb & Hs & Hl & Hz) | (rest & Hb & Hl & Hz)]; lia. Qed.

(* reading the bytes of a represented object through its pointer *)
Lemma pbytes_rep m s : Rep m s -> pbytes (buff m) 0 (zlen s) = Ok s.
Proof.
  intros [(Hb & Hs & Hl & Hz) | (rest & Hb & Hl & Hz)]; unfold pbytes.
  - subst s. rewrite zlen_nil. reflexivity.
  - rewrite Hb. rewrite <- zlen_bytes.
    change 0 with (Z.of_nat (@length cell [])).
    change (bytes s ++ rest) with ([] ++ bytes s ++ rest).
    rewrite pcells_app. simpl. apply all_init_bytes.
Qed.

(* a prefix / a middle segment of a represented object *)
Lemma pbytes_rep_seg m a b c :
  Rep m (a ++ b ++ c) -> pbytes (buff m) (zlen a) (zlen b) = Ok b.
Proof.
  intros [(Hb & Hs & Hl & Hz) | (rest & Hb & Hl & Hz)]; unfold pbytes.
  - destruct a; [|discriminate]. destruct b; [|discriminate]. reflexivity.
  - rewrite Hb, !bytes_app, <- !app_assoc, <- !zlen_bytes, pcells_app. simpl. apply all_init_bytes.
Qed.

(* ------------------------------------------------------------------------------------ *)
(* flexible forms: offsets and counts given up to arithmetic                              *)
(* ------------------------------------------------------------------------------------ *)
Ltac len_tac :=
  repeat (rewrite ?app_length, ?bytes_length, ?repeat_length, ?firstn_length, ?skipn_length, ?rev_length in * );
  unfold zlen, take, drop in *; simpl length in *; lia.

Lemma pcells_seg a m c off n :
  off = Z.of_nat (length a) -> n = Z.of_nat (length m) -> pcells (Some (a ++ m ++ c)) off n = Ok m.
Proof. intros -> ->. apply pcells_app. Qed.
Lemma pput_seg a m m' c off :
  off = Z.of_nat (length a) -> length m' = length m ->
  pput (Some (a ++ m ++ c)) off m' = Ok (Some (a ++ m' ++ c)).
Proof. intros -> H. now apply pput_app. Qed.

(* p points to (at least) the bytes t; NULL only for no bytes *)
Definition Src (p : option buf) (t : list byte) : Prop :=
  (p = None /\ t = []) \/ (exists z, p = Some (bytes t ++ z)).

Lemma src_rep o t : Rep o t -> Src (buff o) t.
Proof. intros [(Hb & Hs & _) | (rest & Hb & _)]; [left; auto | right; eauto]. Qed.
Lemma src_ptr q n : 0 <= n <= zlen q -> Src (pbuf (Some q)) (take n q).
Proof.
  intros H. right. exists (bytes (drop n q)). simpl. f_equal.
  rewrite <- bytes_app. now rewrite take_drop.
Qed.
Lemma src_nil p : Src p [].
Proof. destruct p as [b|]; [right; exists b; reflexivity | left; auto]. Qed.

Lemma pcells_src p t : Src p t -> pcells p 0 (zlen t) = Ok (bytes t).
Proof.
  intros [(-> & ->) | (z & ->)]; [reflexivity|].
  change (bytes t ++ z) with ([] ++ bytes t ++ z). apply pcells_seg; [reflexivity | len_tac].
Qed.
Lemma pbytes_src p t : Src p t -> pbytes p 0 (zlen t) = Ok t.
Proof. intros H. unfold pbytes. rewrite (pcells_src _ _ H). simpl. apply all_init_bytes. Qed.

Lemma memcpy_src a m c p t off n :
  Src p t -> off = Z.of_nat (length a) -> n = zlen t -> length m = length t ->
  memcpy (Some (a ++ m ++ c)) off p 0 n = Ok (Some (a ++ bytes t ++ c)).
Proof.
  intros Hs -> -> HL. unfold memcpy. rewrite (pcells_src _ _ Hs). simpl.
  apply pput_seg; [reflexivity | len_tac].
Qed.
(* destination = a whole fresh block *)
Lemma memcpy_src_whole m p t n :
  Src p t -> n = zlen t -> length m = length t ->
  memcpy (Some m) 0 p 0 n = Ok (Some (bytes t)).
Proof.
  intros Hs Hn HL.
  replace (Some m) with (Some ([] ++ m ++ [])) by (simpl; now rewrite app_nil_r).
  rewrite (memcpy_src [] m [] p t 0 n Hs) by (try reflexivity; assumption).
  simpl. now rewrite app_nil_r.
Qed.

Lemma memcpy_src_prefix m c p t n :
  Src p t -> n = zlen t -> length m = length t ->
  memcpy (Some (m ++ c)) 0 p 0 n = Ok (Some (bytes t ++ c)).
Proof. intros Hs Hn HL. change (m ++ c) with ([] ++ m ++ c). now rewrite (memcpy_src [] m c p t 0 n Hs). Qed.

(* splitting the spare cells of a block *)
Lemma split_rest {A} (rest : list A) n :
  (n <= length rest)%nat -> rest = firstn n rest ++ skipn n rest /\ length (firstn n rest) = n.
Proof. intros H. split; [symmetry; apply firstn_skipn | rewrite firstn_length; lia]. Qed.

(* ------------------------------------------------------------------------------------ *)
(* constructors from memory                                                              *)
(* ------------------------------------------------------------------------------------ *)
Lemma init_from_buff_at_ok (b : list cell) (pre t : list byte) (post : list cell) sz :
  b = bytes pre ++ bytes t ++ post ->
  exists m, init_from_buff_at (Some b) (zlen pre) (zlen t) sz = Ok (true, m) /\ Rep m t /\ size m = Z.max sz (zlen t).
Proof.
  intros ->. unfold init_from_buff_at. pose proof (zlen_nonneg t) as Ht.
  rewrite MALLOC_ok by lia.
  set (s := Z.max sz (zlen t)).
  assert (Hsplit : repeat (@None Z) (Z.to_nat s) = repeat None (length t) ++ repeat None (Z.to_nat s - length t)).
  { rewrite <- repeat_app. f_equal. unfold zlen in *. lia. }
  cbn [bind]. unfold memcpy.
  rewrite (pcells_seg (bytes pre) (bytes t) post) by len_tac. cbn [bind].
  rewrite Hsplit.
  change (repeat None (length t) ++ repeat None (Z.to_nat s - length t))
    with ([] ++ repeat (@None Z) (length t) ++ repeat None (Z.to_nat s - length t)).
  rewrite (pput_seg [] _ (bytes t)) by (try reflexivity; len_tac).
  cbn [bind app]. eexists. split; [reflexivity|]. split; [|reflexivity].
  right. eexists. cbn [buff len size]. repeat split. rewrite repeat_length. unfold zlen in *. lia.
Qed.

Lemma init_from_ptr_ok (p : ptr) n :
  (forall q, p = Some q -> 0 <= n <= zlen q) ->
  exists m, init_from_ptr (pbuf p) n = Ok (true, m) /\ Rep m (ptr_bytes p n).
Proof.
  intros H. destruct p as [q|]; simpl.
  - specialize (H q eq_refl). rewrite MALLOC_ok by lia. cbn [bind].
    pose proof (src_ptr q n H) as Hs. simpl in Hs.
    assert (Hn : n = zlen (take n q)) by (symmetry; now apply zlen_take).
    rewrite (memcpy_src_whole _ _ (take n q) n Hs Hn) by len_tac.
    cbn [bind]. eexists. split; [reflexivity|].
    right. exists []. cbn [buff len size]. rewrite app_nil_r. repeat split; simpl; lia.
  - eexists. split; [reflexivity | apply rep_null].
Qed.

Lemma init_from_buff_ok (p : ptr) n sz :
  (forall q, p = Some q -> 0 <= n <= zlen q) ->
  exists m, init_from_buff (pbuf p) n sz = Ok (true, m) /\ Rep m (ptr_bytes p n).
Proof.
  intros H. destruct p as [q|]; simpl.
  - specialize (H q eq_refl). unfold init_from_buff.
    assert (Hq : bytes q = bytes [] ++ bytes (take n q) ++ bytes (drop n q) :> list cell).
    { simpl. rewrite <- bytes_app. now rewrite take_drop. }
    destruct (init_from_buff_at_ok (bytes q) [] (take n q) (bytes (drop n q)) sz Hq) as (m & E & R & _).
    rewrite zlen_nil, zlen_take in E by lia. eauto.
  - unfold init_from_buff, init_from_buff_at. simpl.
    assert (0 <= Z.max sz 0) by lia. rewrite MALLOC_ok by lia. cbn [bind].
    eexists. split; [reflexivity|]. right. eexists. cbn [buff len size]. simpl.
    repeat split. rewrite repeat_length. lia.
Qed.

(* ------------------------------------------------------------------------------------ *)
(* done, dup                                                                             *)
(* ------------------------------------------------------------------------------------ *)
Lemma done_ok m s : Rep m s -> fst (done m) = true /\ Rep (snd (done m)) [].
Proof.
  intros R. unfold done.
  destruct R as [(Hb & Hs & Hl & Hz) | (rest & Hb & Hl & Hz)]; rewrite Hb; simpl; split; auto using rep_null.
  subst s. left. auto.
Qed.

Lemma pcells_whole (b : buf) n : n = Z.of_nat (length b) -> pcells (Some b) 0 n = Ok b.
Proof.
  intros ->. replace (Some b) with (Some ([] ++ b ++ [])) by (simpl; now rewrite app_nil_r).
  now apply pcells_seg.
Qed.
Lemma pput_whole (m m' : list cell) : length m' = length m -> pput (Some m) 0 m' = Ok (Some m').
Proof.
  intros H. replace (Some m) with (Some ([] ++ m ++ [])) by (simpl; now rewrite app_nil_r).
  rewrite (pput_seg [] m m' [] 0) by (try reflexivity; assumption). simpl. now rewrite app_nil_r.
Qed.

Lemma dup_ok m s : Rep m s -> exists d, dup m = Ok d /\ Rep d s.
Proof.
  intros R. unfold dup. pose proof (zlen_nonneg s) as H3.
  destruct R as [(Hb & Hs & Hl & Hz) | (rest & Hb & Hl & Hz)].
  - subst s. rewrite Hz, Hb, Hl. simpl. eexists. split; [reflexivity|].
    left. simpl. repeat split; reflexivity.
  - rewrite Hb. rewrite MALLOC_ok by lia. cbn [bind]. unfold memcpy.
    rewrite pcells_whole by len_tac. cbn [bind].
    rewrite pput_whole by len_tac. cbn [bind].
    eexists. split; [reflexivity|]. right. exists rest. cbn [buff len size]. auto.
Qed.

(* ------------------------------------------------------------------------------------ *)
(* append / prepend                                                                      *)
(* ------------------------------------------------------------------------------------ *)
Lemma append_core m s p t extra n :
  Rep m s -> Src p t -> n = zlen t -> 0 < zlen t <= extra ->
  exists m',
    (b <- REALLOC (buff m) (size m + extra) ;;
     b' <- memcpy b (len m) p 0 n ;;
     Ok (true, MB b' (len m + n) (size m + extra))) = Ok (true, m') /\ Rep m' (s ++ t).
Proof.
  intros R Hs -> Ht. pose proof (rep_size_len m s R) as H1. pose proof (rep_len m s R) as H2.
  pose proof (zlen_nonneg s) as H3.
  destruct (REALLOC_grow m s (size m + extra) R) as (rest & -> & Hr); try lia.
  cbn [bind].
  destruct (split_rest rest (length t)) as (Hsp & Hfl); [len_tac|].
  rewrite Hsp.
  rewrite (memcpy_src (bytes s) _ _ p t (len m) (zlen t) Hs) by (try reflexivity; len_tac).
  cbn [bind]. eexists. split; [reflexivity|].
  right. exists (skipn (length t) rest). cbn [buff len size].
  rewrite bytes_app, <- app_assoc, zlen_app. repeat split; try lia. len_tac.
Qed.

Lemma append_ok m s o :
  Rep m s -> (forall x, o = Some x -> Inv x) ->
  exists m', append m o = Ok (negb (isnull o), m') /\ Rep m' (s ++ other_bytes o).
Proof.
  intros R Ho. destruct o as [x|]; simpl.
  - destruct (Ho x eq_refl) as (t & Rx). rewrite (rep_abs x t Rx).
    pose proof (rep_size_len x t Rx) as H1. pose proof (rep_len x t Rx) as H2. pose proof (zlen_nonneg t) as H3.
    destruct (Z.eqb_spec (size x) 0) as [E|E]; cbn [negb andb].
    { assert (t = []) by (apply zlen_0; lia). subst t. rewrite app_nil_r. eauto. }
    destruct (Z.eqb_spec (len x) 0) as [E2|E2]; cbn [negb andb].
    { assert (t = []) by (apply zlen_0; lia). subst t. rewrite app_nil_r. eauto. }
    apply append_core; auto using src_rep. lia.
  - rewrite app_nil_r. eauto.
Qed.

Lemma append_from_ptr_ok m s (p : ptr) n :
  Rep m s -> (forall q, p = Some q -> 0 <= n <= zlen q) ->
  exists m', append_from_ptr m (pbuf p) n = Ok (negb (isnull p), m') /\ Rep m' (s ++ ptr_bytes p n).
Proof.
  intros R Hp. destruct p as [q|]; simpl.
  - specialize (Hp q eq_refl).
    destruct (Z.eqb_spec n 0) as [E|E]; cbn [negb].
    { subst n. rewrite take_neg by lia. rewrite app_nil_r. eauto. }
    pose proof (src_ptr q n Hp) as Hs. simpl in Hs.
    assert (Hn : n = zlen (take n q)) by (symmetry; now apply zlen_take).
    apply append_core; auto. lia.
  - rewrite app_nil_r. eauto.
Qed.

Lemma pput_def (B : buf) off cs :
  0 <= off -> off + Z.of_nat (length cs) <= Z.of_nat (length B) ->
  pput (Some B) off cs = Ok (Some (firstn (Z.to_nat off) B ++ cs ++ skipn (Z.to_nat off + length cs) B)).
Proof.
  intros H0 H1. unfold pput. destruct cs as [|x cs].
  - simpl. rewrite Nat.add_0_r, firstn_skipn. reflexivity.
  - unfold put_at, blen. zb. reflexivity.
Qed.

Lemma pcells_prefix (m c : list cell) n : n = Z.of_nat (length m) -> pcells (Some (m ++ c)) 0 n = Ok m.
Proof. intros H. change (m ++ c) with ([] ++ m ++ c). now apply pcells_seg. Qed.

Lemma prepend_core m s p t extra n :
  Rep m s -> Src p t -> n = zlen t -> 0 < zlen t <= extra ->
  exists m',
    (b <- REALLOC (buff m) (size m + extra) ;;
     b1 <- memmove_in b n 0 (len m) ;;
     b2 <- memcpy b1 0 p 0 n ;;
     Ok (true, MB b2 (len m + n) (size m + extra))) = Ok (true, m') /\ Rep m' (t ++ s).
Proof.
  intros R Hs -> Ht. pose proof (rep_size_len m s R) as H1. pose proof (rep_len m s R) as H2.
  pose proof (zlen_nonneg s) as H3.
  destruct (REALLOC_grow m s (size m + extra) R) as (rest & -> & Hr); try lia.
  cbn [bind]. unfold memmove_in.
  rewrite (pcells_prefix (bytes s) rest (len m)) by len_tac. cbn [bind].
  rewrite pput_def by len_tac. cbn [bind].
  set (B := bytes s ++ rest).
  assert (HB : Z.of_nat (length B) = size m + extra) by (unfold B; len_tac).
  rewrite (memcpy_src_prefix (firstn (Z.to_nat (zlen t)) B) _ p t (zlen t) Hs) by (try reflexivity; len_tac).
  cbn [bind]. eexists. split; [reflexivity|].
  right. exists (skipn (Z.to_nat (zlen t) + length (bytes s)) B). cbn [buff len size].
  rewrite bytes_app, <- app_assoc, zlen_app. repeat split; try lia. len_tac.
Qed.

Lemma prepend_ok m s o :
  Rep m s -> (forall x, o = Some x -> Inv x) ->
  exists m', prepend m o = Ok (negb (isnull o), m') /\ Rep m' (other_bytes o ++ s).
Proof.
  intros R Ho. destruct o as [x|]; simpl.
  - destruct (Ho x eq_refl) as (t & Rx). rewrite (rep_abs x t Rx).
    pose proof (rep_size_len x t Rx) as H1. pose proof (rep_len x t Rx) as H2. pose proof (zlen_nonneg t) as H3.
    destruct (Z.eqb_spec (size x) 0) as [E|E]; cbn [negb andb].
    { assert (t = []) by (apply zlen_0; lia). subst t. eauto. }
    destruct (Z.eqb_spec (len x) 0) as [E2|E2]; cbn [negb andb].
    { assert (t = []) by (apply zlen_0; lia). subst t. eauto. }
    apply prepend_core; auto using src_rep. lia.
  - eauto.
Qed.

Lemma prepend_from_ptr_ok m s (p : ptr) n :
  Rep m s -> (forall q, p = Some q -> 0 <= n <= zlen q) ->
  exists m', prepend_from_ptr m (pbuf p) n = Ok (negb (isnull p), m') /\ Rep m' (ptr_bytes p n ++ s).
Proof.
  intros R Hp. destruct p as [q|]; simpl.
  - specialize (Hp q eq_refl).
    destruct (Z.eqb_spec n 0) as [E|E]; cbn [negb].
    { subst n. rewrite take_neg by lia. eauto. }
    pose proof (src_ptr q n Hp) as Hs. simpl in Hs.
    assert (Hn : n = zlen (take n q)) by (symmetry; now apply zlen_take).
    apply prepend_core; auto. lia.
  - eauto.
Qed.

(* ------------------------------------------------------------------------------------ *)
(* clear                                                                                 *)
(* ------------------------------------------------------------------------------------ *)
Lemma clear_ok m s c :
  Rep m s -> exists m', clear m c = Ok (true, m') /\ Rep m' (repeat c (length s)).
Proof.
  intros R. unfold clear, memset. pose proof (zlen_nonneg s) as H3.
  destruct R as [(Hb & Hs & Hl & Hz) | (rest & Hb & Hl & Hz)].
  - subst s. rewrite Hb, Hl. simpl. eexists. split; [reflexivity|]. left. cbn [buff len size]. auto.
  - rewrite Hb, Hl. zb.
    replace (Some (bytes s ++ rest)) with (Some ([] ++ bytes s ++ rest)) by reflexivity.
    rewrite (pput_seg [] (bytes s) _ rest 0) by (try reflexivity; len_tac).
    cbn [bind app]. eexists. split; [reflexivity|]. right. exists rest. cbn [buff len size].
    unfold zlen in *. rewrite Nat2Z.id, bytes_repeat, repeat_length. auto.
Qed.

(* ------------------------------------------------------------------------------------ *)
(* comparison                                                                            *)
(* ------------------------------------------------------------------------------------ *)
Lemma memcmp_l_range a b : memcmp_l a b = -1 \/ memcmp_l a b = 0 \/ memcmp_l a b = 1.
Proof. revert b; induction a as [|x a IH]; intros [|y b]; simpl; auto. zb; auto. Qed.
Lemma sgn_memcmp_l a b : sgn (memcmp_l a b) = memcmp_l a b.
Proof. unfold sgn. destruct (memcmp_l_range a b) as [H|[H|H]]; rewrite H; reflexivity. Qed.

Lemma lex_eqlen a b : length a = length b -> lex a b = memcmp_l a b.
Proof.
  revert b; induction a as [|x a IH]; intros [|y b] H; simpl in *; try lia; auto.
  rewrite IH by lia. reflexivity.
Qed.

Lemma lex_firstn_min a b :
  lex a b = (let c := memcmp_l (firstn (Nat.min (length a) (length b)) a) (firstn (Nat.min (length a) (length b)) b) in
             if c =? 0 then cmp_z (zlen a) (zlen b) else sgn c).
Proof.
  revert b; induction a as [|x a IH]; intros [|y b]; cbn [lex length Nat.min firstn memcmp_l].
  - reflexivity.
  - unfold cmp_z, zlen. simpl length. cbn. zb. reflexivity.
  - unfold cmp_z, zlen. simpl length. cbn. zb. reflexivity.
  - rewrite IH. cbv zeta. destruct (Z.ltb_spec x y); [reflexivity|]. destruct (Z.ltb_spec y x); [reflexivity|].
    unfold cmp_z, zlen. simpl length. rewrite !Nat2Z.inj_succ.
    destruct (memcmp_l _ _ =? 0); [|reflexivity]. zb; reflexivity.
Qed.

Lemma lex_firstn_ge k a b :
  (length a < k \/ length b < k)%nat -> lex (firstn k a) (firstn k b) = lex a b.
Proof.
  revert k b; induction a as [|x a IH]; intros k [|y b] H.
  - now rewrite !firstn_nil.
  - rewrite firstn_nil. destruct k; [simpl in H; lia|]. reflexivity.
  - rewrite firstn_nil. destruct k; [simpl in H; lia|]. reflexivity.
  - destruct k; [simpl in H; lia|]. simpl. rewrite IH by (simpl in H; lia). reflexivity.
Qed.

Lemma pbytes_prefix p t k : Src p t -> 0 <= k <= zlen t -> pbytes p 0 k = Ok (take k t).
Proof.
  intros Hs Hk. rewrite <- (zlen_take k t Hk) at 1. apply pbytes_src.
  destruct Hs as [(-> & ->) | (z & ->)].
  - left. split; [reflexivity|]. unfold take. now rewrite firstn_nil.
  - right. exists (bytes (drop k t) ++ z). rewrite app_assoc, <- bytes_app, take_drop. reflexivity.
Qed.

Lemma memcmp_prefix p q s t k :
  Src p s -> Src q t -> 0 <= k <= zlen s -> k <= zlen t ->
  memcmp p q k = Ok (memcmp_l (take k s) (take k t)).
Proof.
  intros Hp Hq H1 H2. unfold memcmp. rewrite (pbytes_prefix p s k Hp H1), (pbytes_prefix q t k Hq) by lia.
  reflexivity.
Qed.

Lemma cmp_core m s x t : Rep m s -> Rep x t -> cmp m (Some x) = Ok (lex s t).
Proof.
  intros R Rx. unfold cmp. rewrite (rep_len m s R), (rep_len x t Rx).
  pose proof (zlen_nonneg s). pose proof (zlen_nonneg t).
  rewrite (memcmp_prefix _ _ s t) by (auto using src_rep; lia). cbn [bind].
  rewrite (lex_firstn_min s t). cbv zeta. unfold take.
  replace (Z.to_nat (Z.min (zlen s) (zlen t))) with (Nat.min (length s) (length t)) by (unfold zlen; lia).
  destruct (memcmp_l _ _ =? 0); reflexivity.
Qed.

Lemma cmp_ok m s o :
  Rep m s -> (forall x, o = Some x -> Inv x) ->
  cmp m o = Ok (match o with None => 1 | Some x => lex s (abs x) end).
Proof.
  intros R Ho. destruct o as [x|]; [|reflexivity].
  destruct (Ho x eq_refl) as (t & Rx). rewrite (rep_abs x t Rx). now apply cmp_core.
Qed.

Lemma ncmp_ok m s o n :
  Rep m s -> (forall x, o = Some x -> Inv x) ->
  ncmp m o n = Ok (match o with None => 1 | Some x => s_ncmp s (abs x) n end).
Proof.
  intros R Ho. destruct o as [x|]; [|reflexivity].
  destruct (Ho x eq_refl) as (t & Rx). rewrite (rep_abs x t Rx).
  unfold ncmp, s_ncmp. rewrite (rep_len m s R), (rep_len x t Rx).
  pose proof (zlen_nonneg s). pose proof (zlen_nonneg t).
  destruct (Z.ltb_spec n 0) as [Hn|Hn]; cbn [orb]; [now apply cmp_core|].
  destruct (Z.ltb_spec (zlen s) n) as [H1|H1]; cbn [orb].
  { rewrite (cmp_core m s x t R Rx). unfold take. rewrite lex_firstn_ge; [reflexivity | unfold zlen in *; lia]. }
  destruct (Z.ltb_spec (zlen t) n) as [H2|H2]; cbn [orb].
  { rewrite (cmp_core m s x t R Rx). unfold take. rewrite lex_firstn_ge; [reflexivity | unfold zlen in *; lia]. }
  rewrite (memcmp_prefix _ _ s t) by (auto using src_rep; lia). cbn [bind].
  rewrite sgn_memcmp_l, lex_eqlen; [reflexivity|]. unfold take. rewrite !firstn_length. unfold zlen in *. lia.
Qed.

Lemma cmp_with_ptr_ok m s (p : ptr) n :
  Rep m s -> (forall q, p = Some q -> 0 <= n <= zlen q /\ n <= zlen s) ->
  cmp_with_ptr m (pbuf p) n = Ok (match p with None => 1 | Some q => lex (take n s) (take n q) end).
Proof.
  intros R Hp. destruct p as [q|]; [|reflexivity]. destruct (Hp q eq_refl) as (H1 & H2). simpl.
  assert (Hq : Src (Some (bytes q)) q) by (right; exists []; now rewrite app_nil_r).
  pose proof (rep_size_len m s R) as Hsl. pose proof (rep_len m s R) as Hl.
  replace (Z.min n (size m)) with n by lia.
  rewrite (memcmp_prefix _ _ s q) by (auto using src_rep; lia). cbn [bind].
  destruct (Z.ltb_spec (size m) n); [lia|]. rewrite andb_false_r.
  rewrite sgn_memcmp_l, lex_eqlen; [reflexivity|]. unfold take. rewrite !firstn_length. unfold zlen in *. lia.
Qed.

(* an object without spare cells (size = len): any count up to the caller's block is answered as the
   ideal sequence would, the object being the shorter operand when the count exceeds it *)
Lemma cmp_with_ptr_exact m s (q : list byte) n :
  Rep m s -> size m = zlen s -> zlen s < n <= zlen q ->
  cmp_with_ptr m (pbuf (Some q)) n = Ok (lex (take n s) (take n q)).
Proof.
  intros R Hsz Hn. simpl.
  assert (Hq : Src (Some (bytes q)) q) by (right; exists []; now rewrite app_nil_r).
  pose proof (zlen_nonneg s) as Hs0.
  replace (Z.min n (size m)) with (zlen s) by lia.
  rewrite (memcmp_prefix _ _ s q) by (auto using src_rep; lia). cbn [bind].
  destruct (Z.ltb_spec (size m) n); [|lia]. rewrite andb_true_r.
  rewrite (take_ge n s) by lia. rewrite take_all.
  rewrite (lex_firstn_min s (take n q)). cbv zeta.
  assert (Hlq : length (take n q) = Z.to_nat n) by (unfold take; rewrite firstn_length; unfold zlen in *; lia).
  replace (Nat.min (length s) (length (take n q))) with (length s) by (rewrite Hlq; unfold zlen in *; lia).
  assert (Hf : firstn (length s) (take n q) = take (zlen s) q).
  { unfold take. rewrite firstn_firstn. f_equal. unfold zlen in *. lia. }
  rewrite firstn_all, Hf.
  destruct (Z.eqb_spec (memcmp_l s (take (zlen s) q)) 0) as [E|E].
  - unfold cmp_z. assert (Hz : zlen (take n q) = n) by (apply zlen_take; lia). rewrite Hz.
    destruct (Z.ltb_spec (zlen s) n); [reflexivity | lia].
  - reflexivity.
Qed.

(* ------------------------------------------------------------------------------------ *)
(* find                                                                                  *)
(* ------------------------------------------------------------------------------------ *)
Lemma search_nil n i : search n [] i = Some i \/ search n [] i = None.
Proof. simpl. destruct (prefixb n []); auto. Qed.

Lemma find_gen_ok m s np t nl :
  Rep m s -> Src np t -> nl = zlen t -> find_gen m np nl = Ok (s_find s t).
Proof.
  intros R Hs ->. unfold find_gen, memmem, s_find. rewrite (rep_len m s R).
  rewrite (pbytes_src _ _ (src_rep m s R)). cbn [bind]. rewrite (pbytes_src _ _ Hs). cbn [bind].
  destruct R as [(Hb & -> & Hl & Hz) | (rest & Hb & Hl & Hz)]; rewrite Hb; cbn [bind].
  - simpl. destruct (prefixb t []); reflexivity.
  - unfold or_len. destruct (search t s 0); reflexivity.
Qed.

Lemma find_ok m s o :
  Rep m s -> (forall x, o = Some x -> Inv x) ->
  find m o = Ok (match o with None => -1 | Some x => s_find s (abs x) end).
Proof.
  intros R Ho. destruct o as [x|]; [|reflexivity].
  destruct (Ho x eq_refl) as (t & Rx). rewrite (rep_abs x t Rx). simpl.
  apply find_gen_ok; auto using src_rep. apply (rep_len x t Rx).
Qed.

Lemma find_from_ptr_ok m s (p : ptr) n :
  Rep m s -> (forall q, p = Some q -> 0 <= n <= zlen q) ->
  find_from_ptr m (pbuf p) n = Ok (match p with None => -1 | Some q => s_find s (take n q) end).
Proof.
  intros R Hp. destruct p as [q|]; [|reflexivity]. specialize (Hp q eq_refl). simpl.
  apply find_gen_ok; auto. { apply (src_ptr q n Hp). } symmetry. now apply zlen_take.
Qed.

(* ------------------------------------------------------------------------------------ *)
(* byte loops: single accesses                                                           *)
(* ------------------------------------------------------------------------------------ *)
Lemma rd_mid (a : list cell) v c : rd (a ++ Some v :: c) (Z.of_nat (length a)) = Ok v.
Proof.
  unfold rd. zb. unfold rdn. rewrite Nat2Z.id, nth_error_app2, Nat.sub_diag by lia. reflexivity.
Qed.
Lemma wr_mid (a : list cell) u c v : wr (a ++ u :: c) (Z.of_nat (length a)) v = Ok (a ++ Some v :: c).
Proof.
  unfold wr. zb. unfold wrn. rewrite Nat2Z.id, app_length. simpl length.
  destruct (Nat.ltb_spec (length a) (length a + S (length c))) as [Hlt|Hlt]; [|lia].
  rewrite upd_app_r, Nat.sub_diag by lia. reflexivity.
Qed.

Lemma prd_seg (pre : list byte) x (suf : list byte) rest i :
  i = zlen pre -> prd (Some (bytes (pre ++ x :: suf) ++ rest)) i = Ok x.
Proof.
  intros ->. unfold prd. rewrite bytes_app. simpl. rewrite <- app_assoc. simpl.
  unfold zlen. rewrite <- (bytes_length pre). apply rd_mid.
Qed.

(* ------------------------------------------------------------------------------------ *)
(* index / rindex                                                                        *)
(* ------------------------------------------------------------------------------------ *)
Lemma index_loop_ok c rest suf : forall pre fuel,
  (length suf < fuel)%nat ->
  index_loop fuel (Some (bytes (pre ++ suf) ++ rest)) (zlen (pre ++ suf)) c (zlen pre)
  = Ok (match s_index_from suf c (zlen pre) with Some j => j | None => zlen (pre ++ suf) end).
Proof.
  induction suf as [|x suf IH]; intros pre fuel Hf; (destruct fuel as [|f]; [simpl in Hf; lia|]); cbn [index_loop s_index_from].
  - rewrite app_nil_r. zb. reflexivity.
  - assert (Hlt : (zlen pre <? zlen (pre ++ x :: suf)) = true).
    { apply Z.ltb_lt. rewrite zlen_app. unfold zlen. simpl length. lia. }
    rewrite Hlt. rewrite prd_seg by reflexivity. cbn [bind].
    destruct (Z.eqb_spec x c); [reflexivity|].
    replace (pre ++ x :: suf) with ((pre ++ [x]) ++ suf) by (now rewrite <- app_assoc).
    replace (zlen pre + 1) with (zlen (pre ++ [x])) by (rewrite zlen_app; reflexivity).
    apply IH. simpl in Hf. lia.
Qed.

Lemma index_ok m s c : Rep m s -> index m c = Ok (s_index s c).
Proof.
  intros R. unfold index, s_index, or_len. rewrite (rep_len m s R).
  destruct R as [(Hb & -> & Hl & Hz) | (rest & Hb & Hl & Hz)]; rewrite Hb.
  - reflexivity.
  - apply (index_loop_ok c rest s []). unfold zlen. lia.
Qed.

Lemma s_rindex_snoc c x l : forall i,
  s_rindex_from (l ++ [x]) c i = if x =? c then Some (i + zlen l) else s_rindex_from l c i.
Proof.
  induction l as [|y l IH]; intros i; cbn [app s_rindex_from].
  - rewrite zlen_nil, Z.add_0_r. destruct (x =? c); reflexivity.
  - rewrite IH. destruct (x =? c).
    + f_equal. unfold zlen. simpl length. lia.
    + reflexivity.
Qed.

Lemma rindex_loop_ok c rest ln pre : forall suf fuel,
  (length pre < fuel)%nat ->
  rindex_loop fuel (Some (bytes (pre ++ suf) ++ rest)) ln c (zlen pre - 1)
  = Ok (match s_rindex_from pre c 0 with Some j => j | None => ln end).
Proof.
  induction pre as [|x l IH] using rev_ind; intros suf fuel Hf; (destruct fuel as [|f]; [simpl in Hf; lia|]); cbn [rindex_loop].
  - reflexivity.
  - assert (Hi : zlen (l ++ [x]) - 1 = zlen l) by (rewrite zlen_app; unfold zlen; simpl length; lia).
    rewrite Hi.
    assert (Hge : (0 <=? zlen l) = true) by (apply Z.leb_le; apply zlen_nonneg).
    rewrite Hge. rewrite <- app_assoc. cbn [app].
    rewrite prd_seg by reflexivity. cbn [bind]. rewrite s_rindex_snoc.
    destruct (Z.eqb_spec x c); [reflexivity|].
    apply IH. rewrite app_length in Hf. simpl in Hf. lia.
Qed.

Lemma rindex_ok m s c : Rep m s -> rindex m c = Ok (s_rindex s c).
Proof.
  intros R. unfold rindex, s_rindex, or_len. rewrite (rep_len m s R).
  destruct R as [(Hb & -> & Hl & Hz) | (rest & Hb & Hl & Hz)]; rewrite Hb.
  - reflexivity.
  - rewrite <- (app_nil_r s) at 2. apply (rindex_loop_ok c rest (zlen s) s []). unfold zlen. lia.
Qed.

(* ------------------------------------------------------------------------------------ *)
(* reverse                                                                               *)
(* ------------------------------------------------------------------------------------ *)
Lemma rev_loop_ok : forall n (mid : list byte) (pre post : list cell) fuel,
  (length mid <= n)%nat -> (length mid < fuel)%nat ->
  rev_loop fuel (pre ++ bytes mid ++ post) (Z.of_nat (length pre) + zlen mid - 1) (Z.of_nat (length pre))
  = Ok (pre ++ bytes (rev mid) ++ post).
Proof.
  induction n as [|n IH]; intros mid pre post fuel Hn Hf; (destruct fuel as [|f]; [lia|]); cbn [rev_loop].
  - destruct mid; [|simpl in Hn; lia]. rewrite zlen_nil. zb. reflexivity.
  - destruct mid as [|x mid]; [rewrite zlen_nil; zb; reflexivity|].
    destruct (rev mid) as [|y rm] eqn:Erev.
    + (* one element *)
      assert (mid = []) by (apply (f_equal (@rev Z)) in Erev; rewrite rev_involutive in Erev; exact Erev).
      subst mid. unfold zlen. simpl length. zb. reflexivity.
    + assert (Hmid : mid = rev rm ++ [y]).
      { apply (f_equal (@rev Z)) in Erev. rewrite rev_involutive in Erev. exact Erev. }
      subst mid. clear Erev.
      set (mm := rev rm).
      assert (Hlen : zlen (x :: mm ++ [y]) = zlen mm + 2) by (unfold zlen; simpl length; rewrite app_length; simpl; lia).
      rewrite Hlen. pose proof (zlen_nonneg mm). zb.
      (* the buffer with both ends exposed *)
      assert (HB : pre ++ bytes (x :: mm ++ [y]) ++ post
                   = pre ++ Some x :: ((bytes mm) ++ Some y :: post)).
      { simpl. rewrite bytes_app. simpl. rewrite <- app_assoc. reflexivity. }
      rewrite HB. rewrite rd_mid. cbn [bind].
      assert (HB2 : pre ++ Some x :: bytes mm ++ Some y :: post
                    = (pre ++ Some x :: bytes mm) ++ Some y :: post).
      { rewrite <- app_assoc. reflexivity. }
      assert (Hi : Z.of_nat (length pre) + (zlen mm + 2) - 1 = Z.of_nat (length (pre ++ Some x :: bytes mm))).
      { rewrite app_length. simpl length. rewrite bytes_length. unfold zlen. lia. }
      rewrite Hi. rewrite HB2 at 1. rewrite rd_mid. cbn [bind].
      rewrite wr_mid. cbn [bind].
      assert (HB3 : pre ++ Some y :: bytes mm ++ Some y :: post
                    = (pre ++ Some y :: bytes mm) ++ Some y :: post).
      { rewrite <- app_assoc. reflexivity. }
      rewrite HB3.
      assert (Hi2 : Z.of_nat (length (pre ++ Some x :: bytes mm)) = Z.of_nat (length (pre ++ Some y :: bytes mm))).
      { rewrite !app_length. reflexivity. }
      rewrite Hi2, wr_mid. cbn [bind].
      (* recursive call on the middle *)
      assert (HB4 : (pre ++ Some y :: bytes mm) ++ Some x :: post
                    = (pre ++ [Some y]) ++ bytes mm ++ (Some x :: post)).
      { rewrite <- !app_assoc. reflexivity. }
      rewrite HB4.
      replace (Z.of_nat (length (pre ++ Some y :: bytes mm)) - 1)
        with (Z.of_nat (length (pre ++ [Some y])) + zlen mm - 1)
        by (rewrite !app_length; simpl length; rewrite bytes_length; unfold zlen; lia).
      replace (Z.of_nat (length pre) + 1) with (Z.of_nat (length (pre ++ [Some y])))
        by (rewrite app_length; simpl length; lia).
      rewrite IH.
      * f_equal.
        assert (Hr : rev (x :: mm ++ [y]) = y :: rev mm ++ [x]) by (simpl; rewrite rev_app_distr; reflexivity).
        rewrite Hr. unfold bytes. simpl map. rewrite map_app. simpl. rewrite <- !app_assoc. reflexivity.
      * unfold mm in *. simpl in Hn. rewrite app_length in Hn. simpl in Hn. lia.
      * unfold mm in *. simpl in Hf. rewrite app_length in Hf. simpl in Hf. lia.
Qed.

Lemma rev_loop_whole s (rest : list cell) fuel :
  (length s < fuel)%nat -> rev_loop fuel (bytes s ++ rest) (zlen s - 1) 0 = Ok (bytes (rev s) ++ rest).
Proof.
  intros Hf. pose proof (rev_loop_ok (length s) s [] rest fuel (le_n _) Hf) as H'.
  cbn [length app Z.of_nat] in H'. replace (0 + zlen s - 1) with (zlen s - 1) in H' by lia. exact H'.
Qed.

Lemma reverse_ok m s :
  Rep m s ->
  exists b m', reverse m = Ok (b, m') /\ Rep m' (rev s) /\ (s <> [] -> b = true).
Proof.
  intros R. unfold reverse. destruct R as [(Hb & -> & Hl & Hz) | (rest & Hb & Hl & Hz)]; rewrite Hb.
  - exists false, m. split; [reflexivity|]. split; [left; auto | congruence].
  - rewrite Hl. rewrite rev_loop_whole by (unfold zlen; lia).
    cbn [bind]. eexists _, _. split; [reflexivity|]. split; [|auto].
    right. exists rest. cbn [buff len size]. unfold zlen in *. rewrite rev_length. auto.
Qed.

(* ------------------------------------------------------------------------------------ *)
(* trim                                                                                  *)
(* ------------------------------------------------------------------------------------ *)
Definition sp (x : byte) : Prop := isspace x = true.

Lemma dropwhile_split f s : exists pre, s = pre ++ dropwhile f s /\ Forall (fun x => f x = true) pre.
Proof.
  induction s as [|x s (pre & E & F)]; [exists []; auto|]. simpl. destruct (f x) eqn:Ex.
  - exists (x :: pre). split; [simpl; congruence | constructor; auto].
  - exists []. auto.
Qed.
Lemma dropwhile_head f s : match dropwhile f s with [] => True | x :: _ => f x = false end.
Proof. induction s as [|x s IH]; simpl; [exact I|]. destruct (f x) eqn:Ex; [exact IH | exact Ex]. Qed.
Lemma dropwhile_snoc f l x : f x = false -> dropwhile f (l ++ [x]) <> [].
Proof. intros Hx. induction l as [|y l IH]; simpl; [rewrite Hx; discriminate|]. destruct (f y); [exact IH | discriminate]. Qed.

Lemma prd_at s rest (a : list byte) x c i :
  s = a ++ x :: c -> i = zlen a -> prd (Some (bytes s ++ rest)) i = Ok x.
Proof. intros -> ->. now apply prd_seg. Qed.

Lemma trim_fwd_ok s rest : forall p2 p1 d fuel,
  s = p1 ++ p2 ++ d -> Forall sp p2 ->
  match d with [] => True | x :: _ => isspace x = false end ->
  (length p2 < fuel)%nat ->
  trim_fwd fuel (Some (bytes s ++ rest)) (zlen p1) (zlen s - 1) = Ok (zlen p1 + zlen p2).
Proof.
  induction p2 as [|y p2 IH]; intros p1 d fuel Hs Hsp Hd Hf; (destruct fuel as [|f]; [simpl in Hf; lia|]); cbn [trim_fwd].
  - rewrite zlen_nil, Z.add_0_r. simpl in Hs. destruct d as [|x d].
    + rewrite app_nil_r in Hs. subst s. zb. reflexivity.
    + assert (Hle : (zlen p1 <=? zlen s - 1) = true).
      { apply Z.leb_le. subst s. rewrite zlen_app. unfold zlen. simpl length. lia. }
      rewrite Hle, (prd_at s rest p1 x d) by auto. cbn [bind]. rewrite Hd. reflexivity.
  - assert (Hle : (zlen p1 <=? zlen s - 1) = true).
    { apply Z.leb_le. subst s. rewrite zlen_app. unfold zlen. simpl length. lia. }
    rewrite Hle, (prd_at s rest p1 y (p2 ++ d)) by auto. cbn [bind].
    inversion Hsp as [|? ? Hy Hsp']; subst. unfold sp in Hy. rewrite Hy.
    replace (zlen p1 + 1) with (zlen (p1 ++ [y])) by (rewrite zlen_app; reflexivity).
    rewrite (IH (p1 ++ [y]) d f); auto.
    + rewrite zlen_app. unfold zlen. simpl length. f_equal. lia.
    + rewrite <- app_assoc. reflexivity.
    + simpl in Hf. lia.
Qed.

Lemma trim_bwd_ok s rest pre core y : forall q1 q2 fuel,
  s = pre ++ (core ++ [y]) ++ q1 ++ q2 -> isspace y = false -> Forall sp q1 ->
  (length q1 < fuel)%nat ->
  trim_bwd fuel (Some (bytes s ++ rest)) (zlen pre) (zlen pre + zlen core + zlen q1) = Ok (zlen pre + zlen core).
Proof.
  pose proof (zlen_nonneg pre) as Hp0. pose proof (zlen_nonneg core) as Hc0.
  induction q1 as [|x l IH] using rev_ind; intros q2 fuel Hs Hy Hsp Hf; (destruct fuel as [|f]; [simpl in Hf; lia|]); cbn [trim_bwd].
  - rewrite zlen_nil, Z.add_0_r. destruct (Z.ltb_spec (zlen pre) (zlen pre + zlen core)); [|reflexivity].
    rewrite (prd_at s rest (pre ++ core) y q2).
    + cbn [bind]. rewrite Hy. reflexivity.
    + rewrite Hs. simpl. rewrite <- !app_assoc. reflexivity.
    + now rewrite zlen_app.
  - pose proof (zlen_nonneg l) as Hl0.
    assert (Hlt : (zlen pre <? zlen pre + zlen core + zlen (l ++ [x])) = true).
    { apply Z.ltb_lt. rewrite zlen_app. unfold zlen. simpl length. lia. }
    rewrite Hlt.
    rewrite (prd_at s rest (pre ++ (core ++ [y]) ++ l) x q2).
    + cbn [bind]. apply Forall_app in Hsp. destruct Hsp as (Hl & Hx). inversion Hx as [|? ? Hx' _]; subst.
      unfold sp in Hx'. rewrite Hx'.
      replace (zlen pre + zlen core + zlen (l ++ [x]) - 1) with (zlen pre + zlen core + zlen l)
        by (rewrite zlen_app; unfold zlen; simpl length; lia).
      apply (IH (x :: q2)); auto.
      * rewrite <- !app_assoc. reflexivity.
      * rewrite app_length in Hf. simpl in Hf. lia.
    + rewrite Hs. rewrite <- !app_assoc. reflexivity.
    + rewrite !zlen_app. unfold zlen. simpl length. lia.
Qed.

Lemma s_trim_nil : s_trim [] = [].
Proof. reflexivity. Qed.

Lemma trim_ok m s : Rep m s -> exists m', trim m = Ok (true, m') /\ Rep m' (s_trim s).
Proof.
  intros R. unfold trim. pose proof (rep_len m s R) as Hlen. pose proof (zlen_nonneg s) as Hs0.
  destruct (Z.eqb_spec (len m) 0) as [E|E].
  { assert (s = []) by (apply zlen_0; lia). subst s. eauto. }
  destruct R as [(Hb & -> & Hl & Hz) | (rest & Hb & Hl & Hz)]; [rewrite zlen_nil in Hlen; lia|].
  rewrite Hb, Hl.
  destruct (dropwhile_split isspace s) as (pre & Hsplit & Hpre).
  pose proof (dropwhile_head isspace s) as Hhead.
  unfold s_trim. set (d := dropwhile isspace s) in *.
  assert (Hfuel : (length pre < S (Z.to_nat (zlen s)))%nat).
  { rewrite Hsplit. unfold zlen. rewrite app_length. lia. }
  rewrite (trim_fwd_ok s rest pre [] d) by auto. rewrite zlen_nil, Z.add_0_l. cbn [bind].
  destruct d as [|x d'] eqn:Ed.
  - (* only white space *)
    rewrite app_nil_r in Hsplit. subst pre. cbn [trim_bwd]. zb. cbn [bind]. zb.
    unfold done. rewrite Hb.
    eexists. split; [reflexivity|]. simpl. apply rep_null.
  - (* a core that starts with x *)
    destruct (dropwhile_split isspace (rev (x :: d'))) as (post' & Hsplit2 & Hpost').
    pose proof (dropwhile_head isspace (rev (x :: d'))) as Hhead2.
    assert (Hne : dropwhile isspace (rev (x :: d')) <> []).
    { simpl rev. now apply dropwhile_snoc. }
    destruct (dropwhile isspace (rev (x :: d'))) as [|y dd'] eqn:Edd; [contradiction|].
    assert (Hd : x :: d' = (rev dd' ++ [y]) ++ rev post').
    { rewrite <- (rev_involutive (x :: d')), Hsplit2, rev_app_distr. simpl. reflexivity. }
    set (core := rev dd') in *. set (q := rev post') in *.
    assert (Hq : Forall sp q) by (unfold q; now apply Forall_rev).
    assert (Hs : s = pre ++ (core ++ [y]) ++ q ++ []).
    { rewrite app_nil_r, Hsplit, Hd. reflexivity. }
    assert (He : zlen s - 1 = zlen pre + zlen core + zlen q).
    { rewrite Hs, app_nil_r, !zlen_app. unfold zlen. simpl length. lia. }
    rewrite He.
    assert (Hfuel2 : (length q < S (Z.to_nat (zlen s)))%nat).
    { rewrite Hs. unfold zlen. rewrite !app_length. lia. }
    rewrite (trim_bwd_ok s rest pre core y q [] _ Hs Hhead2 Hq Hfuel2). cbn [bind].
    pose proof (zlen_nonneg pre) as Hp0. pose proof (zlen_nonneg core) as Hc0.
    destruct (Z.ltb_spec (zlen pre + zlen core) (zlen pre)); [lia|].
    replace (zlen pre + zlen core - zlen pre + 1) with (zlen (core ++ [y])) by (rewrite zlen_app; unfold zlen; simpl length; lia).
    set (cy := core ++ [y]) in *.
    assert (Hrev : rev (y :: dd') = cy) by reflexivity. rewrite Hrev.
    set (B := bytes s ++ rest).
    assert (HB : B = bytes pre ++ bytes cy ++ (bytes q ++ rest)).
    { unfold B. rewrite Hs, app_nil_r, !bytes_app, <- !app_assoc. reflexivity. }
    assert (Hb1 : (if 0 <? zlen pre then memmove_in (Some B) 0 (zlen pre) (zlen cy) else Ok (Some B))
                  = Ok (Some (bytes cy ++ skipn (length (bytes cy)) B))).
    { destruct (Z.ltb_spec 0 (zlen pre)).
      - rewrite HB at 1. rewrite <- !zlen_bytes, memmove_app. rewrite <- HB. reflexivity.
      - assert (pre = []) by (apply zlen_0; lia). subst pre. f_equal. f_equal. rewrite HB. simpl.
        now rewrite skipn_app_exact. }
    match goal with |- context [bind ?X _] => replace X with (Ok (Some (bytes cy ++ skipn (length (bytes cy)) B)) : res (option buf)) by (symmetry; exact Hb1) end.
    cbn [bind].
    assert (HBlen : Z.of_nat (length B) = size m) by (unfold B; len_tac).
    assert (Hcy : 0 < zlen cy) by (unfold cy; rewrite zlen_app; unfold zlen; simpl length; lia).
    assert (Hcyle : zlen cy <= size m).
    { rewrite <- HBlen, HB. len_tac. }
    destruct (Z.eqb_spec (size m) (zlen cy)) as [Esz|Esz]; cbn [negb].
    + eexists. split; [reflexivity|]. right. eexists. cbn [buff len size]. repeat split.
      rewrite skipn_length, bytes_length. unfold zlen in *. lia.
    + unfold REALLOC. zb. cbn [bind]. eexists. split; [reflexivity|].
      right. exists []. cbn [buff len size]. rewrite app_nil_r. repeat split; [|simpl; lia].
      f_equal. unfold zlen. rewrite Nat2Z.id, <- (bytes_length cy), firstn_app_exact.
      rewrite app_length, bytes_length.
      replace (length cy - (length cy + _))%nat with O by lia. simpl. now rewrite app_nil_r.
Qed.

(* ------------------------------------------------------------------------------------ *)
(* splice                                                                                *)
(* ------------------------------------------------------------------------------------ *)
Lemma memcpy_seg a m c x y z doff soff n :
  doff = Z.of_nat (length a) -> soff = Z.of_nat (length x) -> n = Z.of_nat (length m) -> length y = length m ->
  memcpy (Some (a ++ m ++ c)) doff (Some (x ++ y ++ z)) soff n = Ok (Some (a ++ y ++ c)).
Proof. intros -> -> -> H. now apply memcpy_app. Qed.

Lemma splice_pos_range ln idx cnt i c :
  splice_pos ln idx cnt = Some (i, c) -> 0 <= i < ln /\ 0 <= c <= ln - i.
Proof.
  unfold splice_pos.
  set (i0 := if idx <? 0 then ln + idx else idx).
  destruct (Z.ltb_spec i0 0); [discriminate|].
  destruct (Z.ltb_spec i0 ln); cbn [negb]; [|discriminate].
  set (c0 := if cnt <? 0 then i0 + ln + cnt else cnt).
  destruct (Z.ltb_spec c0 0); [discriminate|].
  destruct (Z.leb_spec c0 (ln - i0)); cbn [negb]; [|discriminate].
  intros E. inversion E; subst. lia.
Qed.

Lemma skipn_skipn_add {A} x y (l : list A) : skipn x (skipn y l) = skipn (y + x) l.
Proof. revert l; induction y as [|y IH]; intros l; [reflexivity|]. destruct l; [now rewrite !skipn_nil | apply IH]. Qed.

Lemma split3 (s : list byte) i c :
  0 <= i -> 0 <= c -> i + c <= zlen s ->
  s = take i s ++ take c (drop i s) ++ drop (i + c) s /\
  zlen (take i s) = i /\ zlen (take c (drop i s)) = c /\ zlen (drop (i + c) s) = zlen s - i - c.
Proof.
  intros Hi Hc Hl.
  assert (Hd : drop (i + c) s = drop c (drop i s)).
  { unfold drop. rewrite skipn_skipn_add. f_equal. lia. }
  rewrite Hd. repeat split.
  - now rewrite take_drop, take_drop.
  - apply zlen_take. lia.
  - apply zlen_take. rewrite zlen_drop by lia. lia.
  - rewrite !zlen_drop; try lia. rewrite zlen_drop by lia. lia.
Qed.

Lemma repeat_app3 {A} (x : A) a b c n :
  n = (a + b + c)%nat -> repeat x n = repeat x a ++ repeat x b ++ repeat x c.
Proof. intros ->. now rewrite !repeat_app, app_assoc. Qed.

Lemma splice_gen_ok m s idx cnt np t nl :
  Rep m s -> Src np t -> nl = zlen t ->
  match s_splice s idx cnt t with
  | Some s' => exists m', splice_gen m idx cnt np nl = Ok (true, m') /\ Rep m' s'
  | None => splice_gen m idx cnt np nl = Ok (false, m)
  end.
Proof.
  intros R Hsrc ->. unfold s_splice, splice_gen. rewrite (rep_len m s R).
  destruct (splice_pos (zlen s) idx cnt) as [[i c]|] eqn:Epos; [|reflexivity].
  destruct (splice_pos_range _ _ _ _ _ Epos) as (Hi & Hc).
  destruct (split3 s i c) as (Hs & L1 & L2 & L3); try lia.
  set (s1 := take i s) in *. set (s2 := take c (drop i s)) in *. set (s3 := drop (i + c) s) in *.
  pose proof (zlen_nonneg t) as Ht0.
  destruct R as [(Hb & -> & Hl & Hz) | (rest & Hb & Hl & Hz)]; [rewrite zlen_nil in Hi; lia|].
  assert (HB : buff m = Some (bytes s1 ++ bytes s2 ++ bytes s3 ++ rest)).
  { rewrite Hb, Hs at 1. rewrite !bytes_app, <- !app_assoc. reflexivity. }
  set (N := zlen s + zlen t - c).
  assert (HN : N = zlen (s1 ++ t ++ s3)) by (rewrite !zlen_app; unfold N; lia).
  rewrite MALLOC_ok by lia. cbn [bind].
  rewrite (repeat_app3 None (length s1) (length t) (length s3)) by (unfold N, zlen in *; lia).
  (* head *)
  assert (H1 : (if 0 <? i then memcpy (Some (repeat None (length s1) ++ repeat None (length t) ++ repeat None (length s3))) 0 (buff m) 0 i
                else Ok (Some (repeat None (length s1) ++ repeat None (length t) ++ repeat None (length s3))))
               = Ok (Some (bytes s1 ++ repeat None (length t) ++ repeat None (length s3)))).
  { destruct (Z.ltb_spec 0 i).
    - apply memcpy_src_prefix; [|lia|len_tac]. rewrite HB. right. eauto.
    - assert (s1 = []) by (apply zlen_0; lia). rewrite H0. reflexivity. }
  match goal with |- context [bind ?X _] =>
    replace X with (Ok (Some (bytes s1 ++ repeat None (length t) ++ repeat None (length s3))) : res (option buf))
      by (symmetry; exact H1) end.
  cbn [bind].
  (* inserted bytes *)
  rewrite (memcpy_src (bytes s1) _ _ np t i (zlen t) Hsrc) by len_tac. cbn [bind].
  (* tail *)
  assert (H3 : memcpy (Some (bytes s1 ++ bytes t ++ repeat None (length s3))) (i + zlen t) (buff m) (i + c) (zlen s - i - c)
               = Ok (Some (bytes (s1 ++ t ++ s3)))).
  { rewrite HB.
    rewrite (app_assoc (bytes s1) (bytes t)), (app_assoc (bytes s1) (bytes s2)).
    rewrite <- (app_nil_r (repeat None (length s3))).
    rewrite (memcpy_seg (bytes s1 ++ bytes t) (repeat None (length s3)) [] (bytes s1 ++ bytes s2) (bytes s3) rest) by len_tac.
    rewrite app_nil_r, <- app_assoc, <- !bytes_app. reflexivity. }
  rewrite H3. cbn [bind]. rewrite Hb.
  (* destination *)
  assert (H2 : exists B sz,
             (if size m <? N then (b <- REALLOC (Some (bytes s ++ rest)) N ;; Ok (b, N)) else Ok (Some (bytes s ++ rest), size m))
             = Ok (Some B, sz) /\ Z.of_nat (length B) = sz /\ N <= sz).
  { destruct (Z.ltb_spec (size m) N).
    - destruct (REALLOC_grow m s N) as (rest' & E & Hr); [right; eauto | lia | lia |].
      rewrite Hb in E. rewrite E. cbn [bind]. eexists _, _. split; [reflexivity|]. split; [len_tac | lia].
    - eexists _, _. split; [reflexivity|]. split; [len_tac | lia]. }
  destruct H2 as (B & sz & E2 & HBl & Hsz).
  match goal with |- context [bind ?X _] => replace X with (Ok (Some B, sz) : res (option buf * Z)) by (symmetry; exact E2) end.
  cbn [bind].
  rewrite <- (firstn_skipn (Z.to_nat N) B).
  assert (Hsrc2 : Src (Some (bytes (s1 ++ t ++ s3))) (s1 ++ t ++ s3)) by (right; exists []; now rewrite app_nil_r).
  rewrite (memcpy_src_prefix _ _ _ _ N Hsrc2 HN) by (rewrite firstn_length; unfold zlen in *; lia).
  cbn [bind]. eexists. split; [reflexivity|].
  right. eexists. cbn [buff len size]. repeat split; [exact HN|].
  rewrite skipn_length. unfold zlen in *. lia.
Qed.

Lemma splice_ok m s idx cnt o :
  Rep m s -> (forall x, o = Some x -> Inv x) ->
  match s_splice s idx cnt (other_bytes o) with
  | Some s' => exists m', splice m idx cnt o = Ok (true, m') /\ Rep m' s'
  | None => splice m idx cnt o = Ok (false, m)
  end.
Proof.
  intros R Ho. destruct o as [x|]; simpl.
  - destruct (Ho x eq_refl) as (t & Rx). rewrite (rep_abs x t Rx).
    apply splice_gen_ok; auto using src_rep. apply (rep_len x t Rx).
  - apply splice_gen_ok; auto using src_nil.
Qed.

Lemma splice_from_ptr_ok m s idx cnt (p : ptr) n :
  Rep m s -> (forall q, p = Some q -> 0 <= n <= zlen q) ->
  match s_splice s idx cnt (ptr_bytes p n) with
  | Some s' => exists m', splice_from_ptr m idx cnt (pbuf p) n = Ok (true, m') /\ Rep m' s'
  | None => splice_from_ptr m idx cnt (pbuf p) n = Ok (false, m)
  end.
Proof.
  intros R Hp. unfold splice_from_ptr. destruct p as [q|]; simpl.
  - specialize (Hp q eq_refl). apply splice_gen_ok; auto.
    + apply (src_ptr q n Hp).
    + symmetry. now apply zlen_take.
  - apply splice_gen_ok; auto using src_nil.
Qed.

(* ------------------------------------------------------------------------------------ *)
(* subbuff, subbuff_to_ptr, sprintf                                                      *)
(* ------------------------------------------------------------------------------------ *)
Lemma sub_pos_range ln idx cnt i c :
  sub_pos ln idx cnt = Some (i, c) -> 0 <= i < ln /\ 0 <= c <= ln - i.
Proof.
  unfold sub_pos.
  set (i0 := if idx <? 0 then ln + idx else idx).
  destruct (Z.ltb_spec i0 0); [discriminate|].
  destruct (Z.ltb_spec i0 ln); cbn [negb]; [|discriminate].
  set (c0 := if cnt <=? 0 then ln - i0 + cnt else cnt).
  destruct (Z.ltb_spec c0 0); [discriminate|].
  intros E. inversion E; subst. lia.
Qed.

Lemma subbuff_ok m s idx cnt :
  Rep m s ->
  exists r, subbuff m idx cnt = Ok r /\
            match s_sub s idx cnt with
            | Some t => exists o, r = Some o /\ Rep o t
            | None => r = None
            end.
Proof.
  intros R. unfold subbuff, s_sub. rewrite (rep_len m s R).
  destruct (sub_pos (zlen s) idx cnt) as [[i c]|] eqn:Epos; [|eauto].
  destruct (sub_pos_range _ _ _ _ _ Epos) as (Hi & Hc).
  destruct (split3 s i c) as (Hs & L1 & L2 & L3); try lia.
  destruct R as [(Hb & -> & Hl & Hz) | (rest & Hb & Hl & Hz)]; [rewrite zlen_nil in Hi; lia|].
  rewrite Hb.
  destruct (init_from_buff_at_ok (bytes s ++ rest) (take i s) (take c (drop i s)) (bytes (drop (i + c) s) ++ rest) c)
    as (o & E & Ro & _).
  { rewrite Hs at 1. rewrite !bytes_app, <- !app_assoc. reflexivity. }
  rewrite L1, L2 in E. rewrite E. cbn [bind]. eauto.
Qed.

Lemma subbuff_to_ptr_ok m s idx cnt :
  Rep m s ->
  subbuff_to_ptr m idx cnt = Ok (option_map (fun t => bytes (t ++ [0])) (s_sub s idx cnt)).
Proof.
  intros R. unfold subbuff_to_ptr, s_sub. rewrite (rep_len m s R).
  destruct (sub_pos (zlen s) idx cnt) as [[i c]|] eqn:Epos; [|reflexivity].
  destruct (sub_pos_range _ _ _ _ _ Epos) as (Hi & Hc).
  destruct (split3 s i c) as (Hs & L1 & L2 & L3); try lia.
  set (s1 := take i s) in *. set (s2 := take c (drop i s)) in *. set (s3 := drop (i + c) s) in *.
  destruct R as [(Hb & -> & Hl & Hz) | (rest & Hb & Hl & Hz)]; [rewrite zlen_nil in Hi; lia|].
  rewrite MALLOC_ok by lia. cbn [bind option_map].
  assert (Hrep : repeat (@None Z) (Z.to_nat (c + 1)) = [] ++ repeat None (length s2) ++ [None]).
  { simpl. replace (Z.to_nat (c + 1)) with (length s2 + 1)%nat by (unfold zlen in *; lia).
    now rewrite repeat_app. }
  assert (HB : buff m = Some (bytes s1 ++ bytes s2 ++ bytes s3 ++ rest)).
  { rewrite Hb, Hs at 1. rewrite !bytes_app, <- !app_assoc. reflexivity. }
  rewrite Hrep, HB.
  rewrite (memcpy_seg [] (repeat None (length s2)) [None] (bytes s1) (bytes s2) (bytes s3 ++ rest)) by len_tac.
  cbn [bind app].
  rewrite <- (app_nil_r [None]).
  rewrite (pput_seg (bytes s2) [None] [Some 0] []) by len_tac.
  cbn [bind]. rewrite bytes_app. reflexivity.
Qed.

Lemma sprintf_ok m s f :
  Rep m s ->
  exists b m', sprintf m f = Ok (b, m') /\
    match f with
    | FNull => b = false /\ Rep m' []
    | FEmpty => b = true /\ Rep m' []
    | FOut bs => b = negb (length bs =? 0)%nat /\ Rep m' bs
    end.
Proof.
  intros R. unfold sprintf.
  set (m1 := match buff m with Some _ => snd (done m) | None => m end).
  assert (R1 : Rep m1 []).
  { unfold m1. destruct (buff m) eqn:Eb.
    - apply (done_ok m s R).
    - destruct R as [(Hb & -> & Hl & Hz) | (rest & Hb & Hl & Hz)]; [left; auto | congruence]. }
  destruct f as [| |bs].
  - eauto.
  - eauto.
  - destruct bs as [|x bs]; [simpl; eauto|].
    set (l := x :: bs). assert (Hl : 0 < Z.of_nat (length l)) by (unfold l; simpl length; lia).
    destruct (Z.leb_spec (Z.of_nat (length l)) 0); [lia|].
    rewrite MALLOC_ok by lia. cbn [bind].
    rewrite pput_whole by (rewrite repeat_length, app_length, bytes_length; simpl; lia).
    cbn [bind]. eexists _, _. split; [reflexivity|]. split; [reflexivity|].
    right. exists [Some 0]. cbn [buff len size]. unfold zlen. simpl length. repeat split; lia.
Qed.

(* ------------------------------------------------------------------------------------ *)
(* readers                                                                               *)
(* ------------------------------------------------------------------------------------ *)
Lemma inc_pos : 0 < buff_inc.
Proof. unfold buff_inc, mbuff_buff_inc. lia. Qed.

Definition weight (s : list ev) : nat := fold_right (fun e a => (ev_weight e + a)%nat) O s.
Lemma sched_fuel_weight s : sched_fuel s = S (weight s).
Proof. reflexivity. Qed.
Lemma weight_cons e s : weight (e :: s) = (ev_weight e + weight s)%nat.
Proof. reflexivity. Qed.

Lemma stream_bytes_data r bs s : bs <> [] -> stream_bytes r (Data bs :: s) = bs ++ stream_bytes r s.
Proof. destruct bs; [congruence | reflexivity]. Qed.
Lemma stream_bytes_short r bs s : bs <> [] -> stream_bytes r (Short bs :: s) = bs ++ stream_bytes r s.
Proof. destruct bs; [congruence | reflexivity]. Qed.

Lemma firstn_nonempty {A} (l : list A) n : (0 < n)%nat -> l <> [] -> firstn n l <> [].
Proof. destruct n; [lia|]. destruct l; [congruence | discriminate]. Qed.
Lemma skipn_nonempty {A} (l : list A) n : (n < length l)%nat -> skipn n l <> [].
Proof. intros H E. apply (f_equal (@length A)) in E. rewrite skipn_length in E. simpl in E. lia. Qed.

(* what one read() does to the stream, in terms of the ideal content *)
Lemma sysread_spec s n r : 0 < n ->
  match sysread s n with
  | (RData [], s') => stream_bytes r s = []
  | (RData bs, s') => stream_bytes r s = bs ++ stream_bytes r s' /\ zlen bs <= n /\
                      (weight s' + length bs <= weight s)%nat /\ (weight s' < weight s)%nat
  | (REintr, s') => (weight s' < weight s)%nat /\ stream_bytes r s = (if r then stream_bytes r s' else [])
  | (RErr, s') => stream_bytes r s = []
  end.
Proof.
  intros Hn. destruct s as [|e s]; [reflexivity|].
  destruct e as [bs|bs| | |]; cbn [sysread].
  - destruct (Z.leb_spec (Z.of_nat (length bs)) n).
    + destruct bs as [|x bs]; [reflexivity|].
      rewrite stream_bytes_data by discriminate. rewrite !weight_cons; cbn [ev_weight]. unfold zlen. repeat split; lia.
    + assert (Hne : bs <> []) by (destruct bs; [simpl in *; lia | discriminate]).
      assert (Hf : firstn (Z.to_nat n) bs <> []) by (apply firstn_nonempty; [lia | exact Hne]).
      assert (Hs : skipn (Z.to_nat n) bs <> []) by (apply skipn_nonempty; lia).
      destruct (firstn (Z.to_nat n) bs) as [|y f] eqn:Ef; [congruence|]. rewrite <- Ef.
      rewrite (stream_bytes_data r bs) by exact Hne. rewrite (stream_bytes_data r _ s Hs).
      rewrite app_assoc, firstn_skipn. rewrite !weight_cons; cbn [ev_weight].
      unfold zlen. rewrite firstn_length, skipn_length. repeat split; lia.
  - destruct (Z.leb_spec (Z.of_nat (length bs)) n).
    + destruct bs as [|x bs]; [reflexivity|].
      rewrite stream_bytes_short by discriminate. rewrite !weight_cons; cbn [ev_weight]. unfold zlen. repeat split; lia.
    + assert (Hne : bs <> []) by (destruct bs; [simpl in *; lia | discriminate]).
      assert (Hf : firstn (Z.to_nat n) bs <> []) by (apply firstn_nonempty; [lia | exact Hne]).
      assert (Hs : skipn (Z.to_nat n) bs <> []) by (apply skipn_nonempty; lia).
      destruct (firstn (Z.to_nat n) bs) as [|y f] eqn:Ef; [congruence|]. rewrite <- Ef.
      rewrite (stream_bytes_short r bs) by exact Hne. rewrite (stream_bytes_short r _ s Hs).
      rewrite app_assoc, firstn_skipn. rewrite !weight_cons; cbn [ev_weight].
      unfold zlen. rewrite firstn_length, skipn_length. repeat split; lia.
  - rewrite !weight_cons; cbn [ev_weight]. split; [lia|]. reflexivity.
  - reflexivity.
  - reflexivity.
Qed.

Lemma write_chunk acc (rest : list cell) bs off :
  off = zlen acc -> (length bs <= length rest)%nat ->
  pput (Some (bytes acc ++ rest)) off (bytes bs) = Ok (Some (bytes (acc ++ bs) ++ skipn (length bs) rest)).
Proof.
  intros -> H. rewrite <- (firstn_skipn (length bs) rest) at 1.
  rewrite (pput_seg (bytes acc) (firstn (length bs) rest) (bytes bs)) by len_tac.
  now rewrite bytes_app, <- app_assoc.
Qed.

Lemma rep_mk acc (rest : list cell) sz :
  sz = zlen acc + Z.of_nat (length rest) -> Rep (MB (Some (bytes acc ++ rest)) (zlen acc) sz) acc.
Proof. intros ->. right. exists rest. auto. Qed.

Lemma fd_loop_ok : forall fuel s acc (rest : list cell) sz,
  (weight s < fuel)%nat -> sz = zlen acc + Z.of_nat (length rest) -> buff_inc <= Z.of_nat (length rest) ->
  exists rest',
    fd_loop fuel s (Some (bytes acc ++ rest)) (zlen acc) sz
    = Ok (Some (bytes (acc ++ stream_bytes true s) ++ rest'), zlen (acc ++ stream_bytes true s)).
Proof.
  pose proof inc_pos as Hinc.
  induction fuel as [|f IH]; intros s acc rest sz Hf Hsz Hroom; [lia|]. cbn [fd_loop].
  pose proof (sysread_spec s buff_inc true Hinc) as Hsp.
  destruct (sysread s buff_inc) as [x s']. destruct x as [bs| |].
  - destruct bs as [|b0 bs'].
    + rewrite Hsp, app_nil_r. eauto.
    + set (bs := b0 :: bs') in *. destruct Hsp as (Hst & Hle & Hw & Hw').
      rewrite write_chunk by (try reflexivity; unfold zlen in *; lia). cbn [bind].
      rewrite Hst, app_assoc.
      replace (zlen acc + Z.of_nat (length bs)) with (zlen (acc ++ bs)) by (rewrite zlen_app; reflexivity).
      set (acc' := acc ++ bs). set (rest1 := skipn (length bs) rest).
      assert (Hr1 : Z.of_nat (length rest1) = sz - zlen acc').
      { unfold rest1, acc'. rewrite skipn_length, zlen_app. unfold zlen in *. lia. }
      destruct (Z.ltb_spec (sz - zlen acc') buff_inc).
      * destruct (REALLOC_grow (MB (Some (bytes acc' ++ rest1)) (zlen acc') sz) acc' (sz + buff_inc)) as (rest2 & E & Hr2);
          [apply rep_mk; lia | simpl; lia | pose proof (zlen_nonneg acc'); lia |].
        cbn [buff] in E. rewrite E. cbn [bind].
        apply IH; lia.
      * apply IH; lia.
  - destruct Hsp as (Hw & Hst). rewrite Hst. apply IH; lia.
  - rewrite Hsp, app_nil_r. eauto.
Qed.

Lemma stream_finish_ok acc (rest : list cell) :
  exists m, stream_finish (Some (bytes acc ++ rest)) (zlen acc) = Ok (true, m) /\ Rep m acc.
Proof.
  unfold stream_finish, REALLOC. pose proof (zlen_nonneg acc).
  destruct (Z.ltb_spec (zlen acc) 0); [lia|].
  destruct (Z.eqb_spec (zlen acc) 0) as [E|E]; cbn [bind].
  - eexists. split; [reflexivity|]. left. cbn [buff len size]. rewrite E. auto using zlen_0.
  - eexists. split; [reflexivity|]. right. exists []. cbn [buff len size].
    unfold zlen. rewrite Nat2Z.id, <- (bytes_length acc), firstn_app_exact, app_length.
    replace (length (bytes acc) - (length (bytes acc) + length rest))%nat with O by lia.
    simpl. repeat split; simpl; lia.
Qed.

Lemma fresh_block n : 0 <= n -> repeat (@None Z) (Z.to_nat n) = bytes [] ++ repeat None (Z.to_nat n).
Proof. reflexivity. Qed.

Lemma init_from_fd_stream_ok k s :
  (match k with Stream => True | Seekable _ fs => fs < 0 end) ->
  exists m, init_from_fd k s = Ok (true, m) /\ Rep m (stream_bytes true s).
Proof.
  intros Hk. unfold init_from_fd. pose proof inc_pos as Hinc.
  assert (Hneg : (match k with Seekable _ fs => fs | Stream => -1 end <? 0) = true).
  { destruct k; apply Z.ltb_lt; lia. }
  rewrite Hneg. rewrite MALLOC_ok by lia. cbn [bind].
  destruct (fd_loop_ok (sched_fuel s) s [] (repeat None (Z.to_nat buff_inc)) buff_inc) as (rest' & E).
  { rewrite sched_fuel_weight. lia. }
  { rewrite repeat_length, zlen_nil. lia. }
  { rewrite repeat_length. lia. }
  rewrite zlen_nil in E.
  change (bytes [] ++ repeat None (Z.to_nat buff_inc)) with (repeat (@None Z) (Z.to_nat buff_inc)) in E.
  bind_rw E. cbn [bind app]. apply stream_finish_ok.
Qed.

Lemma sysread_first s n : 0 <= n ->
  match fst (sysread s n) with
  | RData bs => bs = first_read s n
  | _ => first_read s n = []
  end.
Proof.
  intros Hn. destruct s as [|e s]; [reflexivity|]. destruct e as [bs|bs| | |]; cbn [sysread first_read]; try reflexivity.
  - destruct (Z.leb_spec (Z.of_nat (length bs)) n); cbn [fst]; [symmetry; now apply take_ge | reflexivity].
  - destruct (Z.leb_spec (Z.of_nat (length bs)) n); cbn [fst]; [symmetry; now apply take_ge | reflexivity].
Qed.

Lemma first_read_len s n : 0 <= n -> zlen (first_read s n) <= n.
Proof.
  intros Hn. destruct s as [|e s]; [cbn [first_read]; rewrite zlen_nil; lia|]. destruct e; cbn [first_read]; try (rewrite zlen_nil; lia);
    unfold take, zlen; rewrite firstn_length; lia.
Qed.

Lemma fill_fresh bs n :
  zlen bs <= n ->
  exists rest, pput (Some (repeat None (Z.to_nat n))) 0 (bytes bs) = Ok (Some (bytes bs ++ rest)) /\
               Z.of_nat (length rest) = n - zlen bs.
Proof.
  intros H. pose proof (zlen_nonneg bs).
  change (repeat None (Z.to_nat n)) with (bytes [] ++ repeat (@None Z) (Z.to_nat n)).
  rewrite (write_chunk [] _ bs 0) by (try reflexivity; rewrite repeat_length; unfold zlen in *; lia).
  eexists. split; [reflexivity|]. rewrite skipn_length, repeat_length. unfold zlen in *. lia.
Qed.

Lemma init_from_fd_seek_ok pos fs s :
  0 <= fs ->
  exists m, init_from_fd (Seekable pos fs) s = Ok (fst (spec_ctor (CFd (Seekable pos fs) s)), m) /\
            Rep m (snd (spec_ctor (CFd (Seekable pos fs) s))).
Proof.
  intros Hfs. unfold init_from_fd, spec_ctor.
  destruct (Z.ltb_spec fs 0); [lia|]. rewrite MALLOC_ok by lia. cbn [bind].
  pose proof (sysread_first s fs Hfs) as Hfirst. pose proof (first_read_len s fs Hfs) as Hlen.
  destruct (sysread s fs) as [x s']. cbn [fst] in Hfirst.
  destruct x as [bs| |].
  - rewrite <- Hfirst in *. destruct bs as [|b0 bs'].
    + eexists. split; [reflexivity | apply rep_null].
    + destruct (fill_fresh (b0 :: bs') fs Hlen) as (rest & E & Hr). rewrite E. cbn [bind].
      eexists. split; [reflexivity|]. right. exists rest. cbn [buff len size snd]. repeat split. unfold zlen in *. lia.
  - rewrite Hfirst. eexists. split; [reflexivity | apply rep_null].
  - rewrite Hfirst. eexists. split; [reflexivity | apply rep_null].
Qed.

Lemma take_app_ge a b n : zlen a <= n -> take n (a ++ b) = a ++ take (n - zlen a) b.
Proof.
  intros H. unfold take. rewrite firstn_app. rewrite firstn_all2 by (unfold zlen in *; lia).
  f_equal. f_equal. unfold zlen in *. lia.
Qed.

Lemma take_nil n : take n [] = [].
Proof. unfold take. apply firstn_nil. Qed.

Lemma fread_ok : forall fuel s n acc,
  (weight s < fuel)%nat -> 0 <= n ->
  exists bs eof err s',
    fread fuel s n acc = Ok (acc ++ bs, eof, err, s') /\ zlen bs <= n /\
    take n (stream_bytes false s) = bs /\
    (if eof || err then stream_bytes false s = bs
     else zlen bs = n /\ stream_bytes false s = bs ++ stream_bytes false s' /\ (weight s' + length bs <= weight s)%nat).
Proof.
  induction fuel as [|f IH]; intros s n acc Hf Hn; [lia|]. cbn [fread].
  destruct (Z.leb_spec n 0).
  - exists [], false, false, s. rewrite app_nil_r, zlen_nil. repeat split; try lia; try (simpl; lia). apply take_neg. lia.
  - pose proof (sysread_spec s n false) as Hsp. specialize (Hsp ltac:(lia)).
    destruct (sysread s n) as [x s']. destruct x as [bs1| |].
    + destruct bs1 as [|b0 bs'].
      * exists [], true, false, s'. rewrite app_nil_r, zlen_nil, Hsp, take_nil. cbn [orb]. repeat split; lia.
      * set (bs1 := b0 :: bs') in *. destruct Hsp as (Hst & Hle & Hw & Hw').
        destruct (IH s' (n - Z.of_nat (length bs1)) (acc ++ bs1)) as (bs2 & eof & err & s'' & E & Hl2 & Ht2 & Hfl);
          [lia | unfold zlen in *; lia |].
        exists (bs1 ++ bs2), eof, err, s''. rewrite E, <- app_assoc. split; [reflexivity|].
        split; [rewrite zlen_app; unfold zlen in *; lia|].
        split; [rewrite Hst, take_app_ge by exact Hle; unfold zlen at 1; now rewrite Ht2|].
        destruct (eof || err).
        -- rewrite Hst, Hfl. reflexivity.
        -- destruct Hfl as (H1 & H2 & H3). repeat split.
           ++ rewrite zlen_app. unfold zlen in *. lia.
           ++ rewrite Hst, H2, app_assoc. reflexivity.
           ++ rewrite app_length. lia.
    + destruct Hsp as (Hw & Hst). exists [], false, true, s'. rewrite app_nil_r, zlen_nil, Hst, take_nil. cbn [orb].
      repeat split; lia.
    + exists [], false, true, s'. rewrite app_nil_r, zlen_nil, Hsp, take_nil. cbn [orb].
      repeat split; lia.
Qed.

Lemma fp_loop_ok : forall fuel s acc (rest : list cell) sz,
  (weight s < fuel)%nat -> sz = zlen acc + Z.of_nat (length rest) -> buff_inc <= Z.of_nat (length rest) ->
  exists rest',
    fp_loop fuel s (Some (bytes acc ++ rest)) (zlen acc) sz
    = Ok (Some (bytes (acc ++ stream_bytes false s) ++ rest'), zlen (acc ++ stream_bytes false s)).
Proof.
  pose proof inc_pos as Hinc.
  induction fuel as [|f IH]; intros s acc rest sz Hf Hsz Hroom; [lia|]. cbn [fp_loop].
  destruct (fread_ok (sched_fuel s) s buff_inc []) as (bs & eof & err & s' & E & Hl & Ht & Hfl);
    [rewrite sched_fuel_weight; lia | lia |].
  cbn [app] in E. rewrite E. cbn [bind].
  destruct bs as [|b0 bs'].
  - assert (Hnil : stream_bytes false s = []).
    { destruct (eof || err); [exact Hfl | destruct Hfl as (H1 & _); rewrite zlen_nil in H1; lia]. }
    rewrite Hnil, app_nil_r. eauto.
  - set (bs := b0 :: bs') in *.
    rewrite write_chunk by (try reflexivity; unfold zlen in *; lia). cbn [bind].
    replace (zlen acc + Z.of_nat (length bs)) with (zlen (acc ++ bs)) by (rewrite zlen_app; reflexivity).
    destruct (eof || err).
    + rewrite Hfl. eauto.
    + destruct Hfl as (H1 & H2 & H3).
      set (acc' := acc ++ bs). set (rest1 := skipn (length bs) rest).
      assert (Hr1 : Z.of_nat (length rest1) = sz - zlen acc').
      { unfold rest1, acc'. rewrite skipn_length, zlen_app. unfold zlen in *. lia. }
      destruct (REALLOC_grow (MB (Some (bytes acc' ++ rest1)) (zlen acc') sz) acc' (sz + buff_inc)) as (rest2 & E2 & Hr2);
        [apply rep_mk; lia | simpl; lia | pose proof (zlen_nonneg acc'); lia |].
      cbn [buff] in E2. rewrite E2. cbn [bind].
      rewrite H2, app_assoc. apply IH; try (unfold acc' in *; lia). unfold bs in *. simpl length in *. lia.
Qed.

Lemma init_from_fp_ok k s :
  exists m, init_from_fp k s = Ok (fst (spec_ctor (CFp k s)), m) /\ Rep m (snd (spec_ctor (CFp k s))).
Proof.
  pose proof inc_pos as Hinc. unfold init_from_fp, spec_ctor. destruct k as [pos fs|].
  - destruct (Z.leb_spec fs 0).
    + rewrite take_neg by lia. eexists. split; [reflexivity | apply rep_null].
    + rewrite MALLOC_ok by lia. cbn [bind].
      destruct (fread_ok (sched_fuel s) s fs []) as (bs & eof & err & s' & E & Hl & Ht & Hfl);
        [rewrite sched_fuel_weight; lia | lia |].
      cbn [app] in E. rewrite E. cbn [bind]. rewrite Ht.
      destruct bs as [|b0 bs'].
      * eexists. split; [reflexivity | apply rep_null].
      * destruct (fill_fresh (b0 :: bs') fs Hl) as (rest & E2 & Hr). rewrite E2. cbn [bind].
        eexists. split; [reflexivity|]. right. exists rest. cbn [buff len size snd]. repeat split. unfold zlen in *. lia.
  - rewrite MALLOC_ok by lia. cbn [bind fst snd].
    destruct (fp_loop_ok (sched_fuel s) s [] (repeat None (Z.to_nat buff_inc)) buff_inc) as (rest' & E).
    { rewrite sched_fuel_weight. lia. }
    { rewrite repeat_length, zlen_nil. lia. }
    { rewrite repeat_length. lia. }
    rewrite zlen_nil in E.
    change (bytes [] ++ repeat None (Z.to_nat buff_inc)) with (repeat (@None Z) (Z.to_nat buff_inc)) in E.
    bind_rw E. cbn [bind app]. apply stream_finish_ok.
Qed.

(* ------------------------------------------------------------------------------------ *)
(* one step, whole histories                                                             *)
(* ------------------------------------------------------------------------------------ *)
Lemma setlen_ok m s n :
  Rep m s -> 0 <= n <= zlen s -> Rep (MB (buff m) n (size m)) (take n s).
Proof.
  intros [(Hb & -> & Hl & Hz) | (rest & Hb & Hl & Hz)] Hn.
  - rewrite zlen_nil in Hn. left. cbn [buff len size]. rewrite take_nil. repeat split; auto; lia.
  - right. exists (bytes (drop n s) ++ rest). cbn [buff len size].
    rewrite app_assoc, <- bytes_app, take_drop. repeat split; [exact Hb | symmetry; now apply zlen_take |].
    rewrite app_length, bytes_length. pose proof (zlen_drop n s Hn). rewrite zlen_take by exact Hn.
    unfold zlen in *. lia.
Qed.

Lemma step_ok m s o :
  Rep m s -> op_ok s o ->
  exists x m', step m o = Ok (x, m') /\ out_ok x (fst (spec_step s o)) /\ Rep m' (snd (spec_step s o)).
Proof.
  intros R Hok. destruct o; cbn [op_ok] in Hok; cbn [step spec_step fst snd].
  - (* Done *) destruct (done_ok m s R) as (Hb & Hr). destruct (done m) as [b m'] eqn:E. cbn [fst snd] in *. subst b.
    cbn [lift bind]. eexists _, _. split; [reflexivity|]. split; [right; reflexivity | exact Hr].
  - (* Dup *) destruct (dup_ok m s R) as (d & E & Rd). rewrite E. cbn [bind].
    eexists _, _. split; [reflexivity|]. split; [right; cbn [out_abs option_map]; now rewrite (rep_abs d s Rd) | exact R].
  - (* DupTo *) destruct (dup_ok m s R) as (d & E & Rd). rewrite E. cbn [bind].
    eexists _, _. split; [reflexivity|]. split; [right; cbn [out_abs option_map]; now rewrite (rep_abs d s Rd) | exact Rd].
  - destruct (append_ok m s o R Hok) as (m' & E & R'). rewrite E. cbn [lift bind].
    eexists _, _. split; [reflexivity|]. split; [right; reflexivity | exact R'].
  - destruct (append_from_ptr_ok m s p n R Hok) as (m' & E & R'). rewrite E. cbn [lift bind].
    eexists _, _. split; [reflexivity|]. split; [right; reflexivity | exact R'].
  - destruct (prepend_ok m s o R Hok) as (m' & E & R'). rewrite E. cbn [lift bind].
    eexists _, _. split; [reflexivity|]. split; [right; reflexivity | exact R'].
  - destruct (prepend_from_ptr_ok m s p n R Hok) as (m' & E & R'). rewrite E. cbn [lift bind].
    eexists _, _. split; [reflexivity|]. split; [right; reflexivity | exact R'].
  - (* Splice *) pose proof (splice_ok m s idx cnt o R Hok) as H.
    destruct (s_splice s idx cnt (other_bytes o)) as [s'|].
    + destruct H as (m' & E & R'). rewrite E. cbn [lift bind fst snd].
      eexists _, _. split; [reflexivity|]. split; [right; reflexivity | exact R'].
    + rewrite H. cbn [lift bind fst snd]. eexists _, _. split; [reflexivity|]. split; [right; reflexivity | exact R].
  - (* SplicePtr *) pose proof (splice_from_ptr_ok m s idx cnt p n R Hok) as H.
    destruct (s_splice s idx cnt (ptr_bytes p n)) as [s'|].
    + destruct H as (m' & E & R'). rewrite E. cbn [lift bind fst snd].
      eexists _, _. split; [reflexivity|]. split; [right; reflexivity | exact R'].
    + rewrite H. cbn [lift bind fst snd]. eexists _, _. split; [reflexivity|]. split; [right; reflexivity | exact R].
  - (* Subbuff *) destruct (subbuff_ok m s idx cnt R) as (r & E & H). rewrite E. cbn [bind].
    eexists _, _. split; [reflexivity|]. split; [|exact R]. right. cbn [out_abs].
    destruct (s_sub s idx cnt) as [t|].
    + destruct H as (o & -> & Ro). cbn [option_map]. now rewrite (rep_abs o t Ro).
    + subst r. reflexivity.
  - (* SubbuffPtr *) rewrite (subbuff_to_ptr_ok m s idx cnt R). cbn [bind].
    eexists _, _. split; [reflexivity|]. split; [|exact R]. right. cbn [out_abs].
    destruct (s_sub s idx cnt) as [t|]; cbn [option_map]; [|reflexivity]. now rewrite init_prefix_bytes0.
  - (* Trim *) destruct (trim_ok m s R) as (m' & E & R'). rewrite E. cbn [lift bind].
    eexists _, _. split; [reflexivity|]. split; [right; reflexivity | exact R'].
  - (* Reverse *) destruct (reverse_ok m s R) as (b & m' & E & R' & Hb). rewrite E. cbn [lift bind].
    eexists _, _. split; [reflexivity|]. split; [|exact R'].
    destruct s as [|x s]; [left; reflexivity|]. right. cbn [out_abs]. now rewrite Hb by discriminate.
  - (* Clear *) destruct (clear_ok m s c R) as (m' & E & R'). rewrite E. cbn [lift bind].
    eexists _, _. split; [reflexivity|]. split; [right; reflexivity | exact R'].
  - (* Sprintf *) destruct (sprintf_ok m s f R) as (b & m' & E & H). rewrite E. cbn [lift bind].
    eexists _, _. split; [reflexivity|]. destruct f as [| |bs]; destruct H as (-> & R'); cbn [fst snd]; (split; [right; reflexivity | exact R']).
  - (* Cmp *) rewrite (cmp_ok m s o R Hok). cbn [bind]. eexists _, _. split; [reflexivity|]. split; [right; reflexivity | exact R].
  - (* CmpPtr *) rewrite (cmp_with_ptr_ok m s p n R Hok). cbn [bind]. eexists _, _. split; [reflexivity|]. split; [right; reflexivity | exact R].
  - (* Ncmp *) rewrite (ncmp_ok m s o n R Hok). cbn [bind]. eexists _, _. split; [reflexivity|]. split; [right; reflexivity | exact R].
  - (* NcmpPtr *) rewrite (cmp_with_ptr_ok m s p n R Hok). cbn [bind]. eexists _, _. split; [reflexivity|]. split; [right; reflexivity | exact R].
  - (* Find *) rewrite (find_ok m s o R Hok). cbn [bind]. eexists _, _. split; [reflexivity|]. split; [right; reflexivity | exact R].
  - (* FindPtr *) rewrite (find_from_ptr_ok m s p n R Hok). cbn [bind]. eexists _, _. split; [reflexivity|]. split; [right; reflexivity | exact R].
  - (* Index *) rewrite (index_ok m s c R). cbn [bind]. eexists _, _. split; [reflexivity|]. split; [right; reflexivity | exact R].
  - (* Rindex *) rewrite (rindex_ok m s c R). cbn [bind]. eexists _, _. split; [reflexivity|]. split; [right; reflexivity | exact R].
  - (* GetLen *) eexists _, _. split; [reflexivity|]. split; [right; cbn [out_abs]; now rewrite (rep_len m s R) | exact R].
  - (* GetSize *) eexists _, _. split; [reflexivity|]. split; [left; reflexivity | exact R].
  - (* SetLen *) eexists _, _. split; [reflexivity|]. split; [right; reflexivity | now apply setlen_ok].
  - (* SetSize *) contradiction.
Qed.

Lemma run_ops_ok : forall ops m s,
  Rep m s -> ops_ok s ops ->
  exists xs m', run_ops m ops = Ok (xs, m') /\
                Forall2 out_ok xs (fst (spec_run s ops)) /\ Rep m' (snd (spec_run s ops)).
Proof.
  induction ops as [|o ops IH]; intros m s R Hok; cbn [run_ops spec_run].
  - exists [], m. repeat split; [constructor | exact R].
  - destruct Hok as (Ho & Hr).
    destruct (step_ok m s o R Ho) as (x & m1 & E & Hx & R1). rewrite E. cbn [bind].
    destruct (spec_step s o) as [y s1] eqn:Es. cbn [fst snd] in *.
    destruct (IH m1 s1 R1 Hr) as (xs & m2 & E2 & Hxs & R2). rewrite E2. cbn [bind].
    destruct (spec_run s1 ops) as [ys s2]. cbn [fst snd] in *.
    exists (x :: xs), m2. repeat split; [constructor; assumption | exact R2].
Qed.

Lemma run_ctor_ok c :
  ctor_ok c -> exists m, run_ctor c = Ok (fst (spec_ctor c), m) /\ Rep m (snd (spec_ctor c)).
Proof.
  intros Hc. destruct c as [|p n|p n sz|k s|k s]; cbn [run_ctor ctor_ok] in *.
  - exists mb_null. split; [reflexivity | apply rep_null].
  - apply (init_from_ptr_ok p n Hc).
  - apply (init_from_buff_ok p n sz Hc).
  - apply init_from_fp_ok.
  - destruct k as [pos fs|].
    + destruct (Z.ltb_spec fs 0) as [Hneg|Hpos].
      * destruct (init_from_fd_stream_ok (Seekable pos fs) s Hneg) as (m & E & R).
        exists m. cbn [spec_ctor]. destruct (Z.ltb_spec fs 0); [|lia]. auto.
      * apply (init_from_fd_seek_ok pos fs s Hpos).
    + destruct (init_from_fd_stream_ok Stream s I) as (m & E & R). exists m. auto.
Qed.

(* every constructor, every finite history *)
Theorem refines c ops :
  ctor_ok c -> ops_ok (snd (spec_ctor c)) ops ->
  exists xs m,
    run_model c ops = Ok (fst (spec_ctor c), xs, m) /\
    Forall2 out_ok xs (fst (spec_run (snd (spec_ctor c)) ops)) /\
    abs m = snd (spec_run (snd (spec_ctor c)) ops) /\ Inv m.
Proof.
  intros Hc Hops. unfold run_model.
  destruct (run_ctor_ok c Hc) as (m0 & E & R0). rewrite E. cbn [bind].
  destruct (run_ops_ok ops m0 _ R0 Hops) as (xs & m & E2 & Hxs & R). rewrite E2. cbn [bind].
  exists xs, m. repeat split; [exact Hxs | now apply rep_abs | eexists; exact R].
Qed.

Corollary no_fault c ops :
  ctor_ok c -> ops_ok (snd (spec_ctor c)) ops -> is_ok (run_model c ops) = true.
Proof. intros Hc Hops. destruct (refines c ops Hc Hops) as (xs & m & E & _). now rewrite E. Qed.

(* ------------------------------------------------------------------------------------ *)
(* the comparison is a total order on byte sequences                                     *)
(* ------------------------------------------------------------------------------------ *)
Lemma lex_range a b : lex a b = -1 \/ lex a b = 0 \/ lex a b = 1.
Proof. revert b; induction a as [|x a IH]; intros [|y b]; cbn [lex]; auto. zb; auto. Qed.
Lemma lex_refl a : lex a a = 0.
Proof. induction a as [|x a IH]; cbn [lex]; [reflexivity|]. zb; try exact IH. Qed.
Lemma lex_antisym a b : lex b a = - lex a b.
Proof. revert b; induction a as [|x a IH]; intros [|y b]; cbn [lex]; try reflexivity. zb; auto. Qed.
Lemma lex_eq a b : lex a b = 0 <-> a = b.
Proof.
  split; [|intros ->; apply lex_refl].
  revert b; induction a as [|x a IH]; intros [|y b]; cbn [lex]; try discriminate; auto.
  destruct (Z.ltb_spec x y); [discriminate|]. destruct (Z.ltb_spec y x); [discriminate|].
  intros H1. f_equal; [lia | now apply IH].
Qed.
Lemma lex_trans a b c : lex a b <= 0 -> lex b c <= 0 -> lex a c <= 0.
Proof.
  revert b c; induction a as [|x a IH]; intros [|y b] [|z c]; cbn [lex]; try lia.
  destruct (Z.ltb_spec x y), (Z.ltb_spec y x), (Z.ltb_spec y z), (Z.ltb_spec z y), (Z.ltb_spec x z), (Z.ltb_spec z x);
    try lia. apply IH.
Qed.
(* a proper prefix is strictly smaller: equal-prefix buffers of different length are never EQUAL *)
Lemma lex_prefix a x t : lex a (a ++ x :: t) = -1 /\ lex (a ++ x :: t) a = 1.
Proof.
  induction a as [|y a IH]; cbn [lex app]; [split; reflexivity|]. zb; try exact IH.
Qed.

(* ------------------------------------------------------------------------------------ *)
(* what index / rindex / find return                                                     *)
(* ------------------------------------------------------------------------------------ *)
Lemma s_index_from_spec c s : forall i,
  match s_index_from s c i with
  | Some j => exists pre post, s = pre ++ c :: post /\ ~ In c pre /\ j = i + zlen pre
  | None => ~ In c s
  end.
Proof.
  induction s as [|x s IH]; intros i; cbn [s_index_from]; [auto|].
  destruct (Z.eqb_spec x c) as [->|Hne].
  - exists [], s. rewrite zlen_nil. repeat split; auto. lia.
  - specialize (IH (i + 1)). destruct (s_index_from s c (i + 1)) as [j|].
    + destruct IH as (pre & post & -> & Hn & ->). exists (x :: pre), post. repeat split.
      * intros [H|H]; [congruence | contradiction].
      * unfold zlen. simpl length. lia.
    + intros [H|H]; [congruence | contradiction].
Qed.

Lemma s_rindex_from_spec c s : forall i,
  match s_rindex_from s c i with
  | Some j => exists pre post, s = pre ++ c :: post /\ ~ In c post /\ j = i + zlen pre
  | None => ~ In c s
  end.
Proof.
  induction s as [|x s IH]; intros i; cbn [s_rindex_from]; [auto|].
  specialize (IH (i + 1)). destruct (s_rindex_from s c (i + 1)) as [j|].
  - destruct IH as (pre & post & -> & Hn & ->). exists (x :: pre), post. repeat split; auto.
    unfold zlen. simpl length. lia.
  - destruct (Z.eqb_spec x c) as [->|Hne].
    + exists [], s. rewrite zlen_nil. repeat split; auto. lia.
    + intros [H|H]; [congruence | contradiction].
Qed.

Lemma index_absent s c : ~ In c s -> s_index s c = zlen s /\ s_rindex s c = zlen s.
Proof.
  intros Hn. unfold s_index, s_rindex, or_len.
  pose proof (s_index_from_spec c s 0) as H1. pose proof (s_rindex_from_spec c s 0) as H2.
  destruct (s_index_from s c 0); [destruct H1 as (pre & post & -> & _); exfalso; apply Hn, in_elt|].
  destruct (s_rindex_from s c 0); [destruct H2 as (pre & post & -> & _); exfalso; apply Hn, in_elt|].
  auto.
Qed.

Lemma index_present s c :
  In c s ->
  (exists pre post, s = pre ++ c :: post /\ ~ In c pre /\ s_index s c = zlen pre) /\
  (exists pre post, s = pre ++ c :: post /\ ~ In c post /\ s_rindex s c = zlen pre).
Proof.
  intros Hin. unfold s_index, s_rindex, or_len.
  pose proof (s_index_from_spec c s 0) as H1. pose proof (s_rindex_from_spec c s 0) as H2.
  destruct (s_index_from s c 0); [|contradiction]. destruct (s_rindex_from s c 0); [|contradiction].
  destruct H1 as (p1 & q1 & E1 & N1 & ->). destruct H2 as (p2 & q2 & E2 & N2 & ->).
  split; [exists p1, q1 | exists p2, q2]; repeat split; auto.
Qed.

Lemma prefixb_spec n h : prefixb n h = true <-> exists t, h = n ++ t.
Proof.
  revert h; induction n as [|x n IH]; intros h; cbn [prefixb].
  - split; [intros _; exists h; reflexivity | auto].
  - destruct h as [|y h].
    + split; [discriminate | intros (t & H); discriminate].
    + destruct (Z.eqb_spec x y) as [->|Hne]; cbn [andb].
      * rewrite IH. split; intros (t & H); exists t; [simpl; congruence | simpl in H; congruence].
      * split; [discriminate | intros (t & H); simpl in H; congruence].
Qed.

Lemma search_spec n h : forall i,
  match search n h i with
  | Some j => exists pre post, h = pre ++ n ++ post /\ j = i + zlen pre /\
                               (forall p q, h = p ++ n ++ q -> zlen pre <= zlen p)
  | None => forall p q, h <> p ++ n ++ q
  end.
Proof.
  induction h as [|y h IH]; intros i; cbn [search].
  - destruct (prefixb n []) eqn:E.
    + apply prefixb_spec in E. destruct E as (t & E). exists [], t. rewrite zlen_nil. repeat split; auto; try lia.
      intros. apply zlen_nonneg.
    + intros p q H. assert (Hp : prefixb n [] = true).
      { apply prefixb_spec. destruct p; [|discriminate]. simpl in H. eauto. }
      congruence.
  - destruct (prefixb n (y :: h)) eqn:E.
    + apply prefixb_spec in E. destruct E as (t & E). exists [], t. rewrite zlen_nil. repeat split; auto; try lia.
      intros. apply zlen_nonneg.
    + specialize (IH (i + 1)). destruct (search n h (i + 1)) as [j|].
      * destruct IH as (pre & post & -> & -> & Hmin). exists (y :: pre), post. repeat split.
        -- unfold zlen. simpl length. lia.
        -- intros p q H. destruct p as [|y' p].
           ++ exfalso. assert (Hp : prefixb n (y :: pre ++ n ++ post) = true) by (apply prefixb_spec; simpl in H; eauto).
              congruence.
           ++ simpl in H. inversion H as [[Hy Ht]]. specialize (Hmin p q Ht). unfold zlen in *. simpl length. lia.
      * intros p q H. destruct p as [|y' p].
        -- assert (Hp : prefixb n (y :: h) = true) by (apply prefixb_spec; simpl in H; eauto). congruence.
        -- simpl in H. inversion H as [[Hy Ht]]. apply (IH p q Ht).
Qed.

Lemma find_absent s n : (forall p q, s <> p ++ n ++ q) -> s_find s n = zlen s.
Proof.
  intros Hn. unfold s_find, or_len. pose proof (search_spec n s 0) as H.
  destruct (search n s 0); [|reflexivity]. destruct H as (pre & post & E & _). exfalso. apply (Hn pre post E).
Qed.

Lemma find_present s n p q :
  s = p ++ n ++ q ->
  exists pre post, s = pre ++ n ++ post /\ s_find s n = zlen pre /\ zlen pre <= zlen p.
Proof.
  intros Hs. unfold s_find, or_len. pose proof (search_spec n s 0) as H.
  destruct (search n s 0).
  - destruct H as (pre & post & E & -> & Hmin). exists pre, post. repeat split; eauto.
  - exfalso. apply (H p q Hs).
Qed.

(* on the model *)
Lemma model_absent_is_len m s :
  Rep m s ->
  (forall c, ~ In c s -> index m c = Ok (len m) /\ rindex m c = Ok (len m)) /\
  (forall x t, Rep x t -> (forall p q, s <> p ++ t ++ q) -> find m (Some x) = Ok (len m)) /\
  (forall (q : list byte) n, 0 <= n <= zlen q -> (forall p r, s <> p ++ take n q ++ r) ->
                             find_from_ptr m (pbuf (Some q)) n = Ok (len m)).
Proof.
  intros R. rewrite (rep_len m s R). repeat split.
  - rewrite (index_ok m s c R). f_equal. now apply index_absent.
  - rewrite (rindex_ok m s c R). f_equal. now apply index_absent.
  - intros x t Rx Hn. rewrite (find_ok m s (Some x) R) by (intros ? [= <-]; eexists; eauto).
    rewrite (rep_abs x t Rx). f_equal. now apply find_absent.
  - intros q n Hq Hn. rewrite (find_from_ptr_ok m s (Some q) n R) by (intros ? [= <-]; exact Hq).
    f_equal. now apply find_absent.
Qed.

(* ------------------------------------------------------------------------------------ *)
(* refusal leaves the object as it is                                                    *)
(* ------------------------------------------------------------------------------------ *)
Definition norm_idx (ln idx : Z) : Z := if idx <? 0 then ln + idx else idx.

Lemma outside_refused ln idx cnt :
  norm_idx ln idx < 0 \/ ln <= norm_idx ln idx ->
  splice_pos ln idx cnt = None /\ sub_pos ln idx cnt = None.
Proof.
  unfold norm_idx, splice_pos, sub_pos. intros H.
  destruct (Z.ltb_spec idx 0); zb; auto.
Qed.

Lemma refused_unchanged m s :
  Rep m s ->
  (forall idx cnt x, other_ok x -> s_splice s idx cnt (other_bytes x) = None ->
                     step m (Splice idx cnt x) = Ok (MBool false, m)) /\
  (forall idx cnt p n, ptr_ok p n -> s_splice s idx cnt (ptr_bytes p n) = None ->
                       step m (SplicePtr idx cnt p n) = Ok (MBool false, m)) /\
  (forall idx cnt, s_sub s idx cnt = None -> step m (Subbuff idx cnt) = Ok (MObj None, m)) /\
  (forall idx cnt, s_sub s idx cnt = None -> step m (SubbuffPtr idx cnt) = Ok (MPtr None, m)) /\
  (step m (Append None) = Ok (MBool false, m) /\ step m (Prepend None) = Ok (MBool false, m) /\
   forall n, step m (AppendPtr None n) = Ok (MBool false, m) /\ step m (PrependPtr None n) = Ok (MBool false, m)).
Proof.
  intros R. repeat split.
  - intros idx cnt x Hx Hn. pose proof (splice_ok m s idx cnt x R Hx) as H. rewrite Hn in H.
    cbn [step]. now rewrite H.
  - intros idx cnt p n Hp Hn. pose proof (splice_from_ptr_ok m s idx cnt p n R Hp) as H. rewrite Hn in H.
    cbn [step]. now rewrite H.
  - intros idx cnt Hn. destruct (subbuff_ok m s idx cnt R) as (r & E & H). rewrite Hn in H. subst r.
    cbn [step]. now rewrite E.
  - intros idx cnt Hn. cbn [step]. rewrite (subbuff_to_ptr_ok m s idx cnt R), Hn. reflexivity.
Qed.

(* ------------------------------------------------------------------------------------ *)
(* readers: the content is the concatenation of the delivered chunks                      *)
(* ------------------------------------------------------------------------------------ *)
Lemma stream_bytes_chunks r chunks tail :
  Forall (fun c => c <> []) chunks ->
  stream_bytes r (map Data chunks ++ EOF :: tail) = concat chunks /\
  stream_bytes r (map Short chunks ++ Err :: tail) = concat chunks /\
  stream_bytes r (map Data chunks) = concat chunks.
Proof.
  induction 1 as [|c chunks Hc _ IH]; [repeat split; reflexivity|].
  destruct IH as (I1 & I2 & I3). cbn [map app concat].
  rewrite !stream_bytes_data, stream_bytes_short by exact Hc. rewrite I1, I2, I3. auto.
Qed.

Lemma stream_bytes_eintr s1 s2 : stream_bytes true (s1 ++ EINTR :: s2) = stream_bytes true (s1 ++ s2) \/
                                 stream_bytes true (s1 ++ EINTR :: s2) = stream_bytes true s1.
Proof.
  induction s1 as [|e s1 IH]; [left; reflexivity|].
  destruct e as [bs|bs| | |]; cbn [app].
  - destruct bs as [|b bs]; [right; reflexivity|]. rewrite !stream_bytes_data by discriminate.
    destruct IH as [-> | ->]; auto.
  - destruct bs as [|b bs]; [right; reflexivity|]. rewrite !stream_bytes_short by discriminate.
    destruct IH as [-> | ->]; auto.
  - cbn [stream_bytes]. exact IH.
  - right; reflexivity.
  - right; reflexivity.
Qed.

Theorem stream_chunks :
  (* non-seekable descriptor: everything up to end of file / error, interrupted reads retried *)
  (forall s, exists m, run_ctor (CFd Stream s) = Ok (true, m) /\ Rep m (stream_bytes true s)) /\
  (* non-seekable stdio stream *)
  (forall s, exists m, run_ctor (CFp Stream s) = Ok (true, m) /\ Rep m (stream_bytes false s)) /\
  (* regular file of fsize bytes at offset pos, the kernel delivering the remaining bytes in one read *)
  (forall pre data, data <> [] ->
     exists m, run_ctor (CFd (Seekable (zlen pre) (zlen (pre ++ data))) [Data data]) = Ok (true, m) /\ Rep m data) /\
  (forall pre data, data <> [] ->
     exists m, run_ctor (CFp (Seekable (zlen pre) (zlen (pre ++ data))) [Data data]) = Ok (true, m) /\ Rep m data).
Proof.
  repeat split.
  - intros s. apply (run_ctor_ok (CFd Stream s) I).
  - intros s. apply (run_ctor_ok (CFp Stream s) I).
  - intros pre data Hd. destruct (run_ctor_ok (CFd (Seekable (zlen pre) (zlen (pre ++ data))) [Data data]) I) as (m & E & R).
    exists m. cbn [spec_ctor first_read] in *. pose proof (zlen_nonneg pre). pose proof (zlen_nonneg data).
    rewrite zlen_app in *.
    destruct (Z.ltb_spec (zlen pre + zlen data) 0); [lia|].
    rewrite take_ge in * by lia. destruct data; [congruence|]. auto.
  - intros pre data Hd. destruct (run_ctor_ok (CFp (Seekable (zlen pre) (zlen (pre ++ data))) [Data data]) I) as (m & E & R).
    exists m. cbn [spec_ctor] in *. pose proof (zlen_nonneg pre). pose proof (zlen_nonneg data).
    rewrite zlen_app in *.
    rewrite stream_bytes_data in * by exact Hd. cbn [stream_bytes] in *. rewrite app_nil_r in *.
    rewrite take_ge in * by lia. destruct data; [congruence|]. auto.
Qed.
