
type nat =
| O
| S of nat

(** val length : 'a1 list -> nat **)

let rec length = function
| [] -> O
| _ :: l' -> S (length l')

(** val app : 'a1 list -> 'a1 list -> 'a1 list **)

let rec app l m =
  match l with
  | [] -> m
  | a :: l1 -> a :: (app l1 m)

type comparison =
| Eq
| Lt
| Gt

(** val compOpp : comparison -> comparison **)

let compOpp = function
| Eq -> Eq
| Lt -> Gt
| Gt -> Lt

(** val add : nat -> nat -> nat **)

let rec add n0 m =
  match n0 with
  | O -> m
  | S p -> S (add p m)

(** val sub : nat -> nat -> nat **)

let rec sub n0 m =
  match n0 with
  | O -> n0
  | S k -> (match m with
            | O -> n0
            | S l -> sub k l)

module Nat =
 struct
  (** val eqb : nat -> nat -> bool **)

  let rec eqb n0 m =
    match n0 with
    | O -> (match m with
            | O -> true
            | S _ -> false)
    | S n' -> (match m with
               | O -> false
               | S m' -> eqb n' m')

  (** val leb : nat -> nat -> bool **)

  let rec leb n0 m =
    match n0 with
    | O -> true
    | S n' -> (match m with
               | O -> false
               | S m' -> leb n' m')

  (** val ltb : nat -> nat -> bool **)

  let ltb n0 m =
    leb (S n0) m
 end

(** val nth : nat -> 'a1 list -> 'a1 -> 'a1 **)

let rec nth n0 l default =
  match n0 with
  | O -> (match l with
          | [] -> default
          | x :: _ -> x)
  | S m -> (match l with
            | [] -> default
            | _ :: t -> nth m t default)

(** val nth_error : 'a1 list -> nat -> 'a1 option **)

let rec nth_error l = function
| O -> (match l with
        | [] -> None
        | x :: _ -> Some x)
| S n1 -> (match l with
           | [] -> None
           | _ :: l0 -> nth_error l0 n1)

(** val map : ('a1 -> 'a2) -> 'a1 list -> 'a2 list **)

let rec map f = function
| [] -> []
| a :: t -> (f a) :: (map f t)

(** val forallb : ('a1 -> bool) -> 'a1 list -> bool **)

let rec forallb f = function
| [] -> true
| a :: l0 -> (&&) (f a) (forallb f l0)

(** val firstn : nat -> 'a1 list -> 'a1 list **)

let rec firstn n0 l =
  match n0 with
  | O -> []
  | S n1 -> (match l with
             | [] -> []
             | a :: l0 -> a :: (firstn n1 l0))

(** val skipn : nat -> 'a1 list -> 'a1 list **)

let rec skipn n0 l =
  match n0 with
  | O -> l
  | S n1 -> (match l with
             | [] -> []
             | _ :: l0 -> skipn n1 l0)

type positive =
| XI of positive
| XO of positive
| XH

type n =
| N0
| Npos of positive

type z =
| Z0
| Zpos of positive
| Zneg of positive

module Pos =
 struct
  (** val succ : positive -> positive **)

  let rec succ = function
  | XI p -> XO (succ p)
  | XO p -> XI p
  | XH -> XO XH

  (** val add : positive -> positive -> positive **)

  let rec add x y =
    match x with
    | XI p ->
      (match y with
       | XI q -> XO (add_carry p q)
       | XO q -> XI (add p q)
       | XH -> XO (succ p))
    | XO p ->
      (match y with
       | XI q -> XI (add p q)
       | XO q -> XO (add p q)
       | XH -> XI p)
    | XH -> (match y with
             | XI q -> XO (succ q)
             | XO q -> XI q
             | XH -> XO XH)

  (** val add_carry : positive -> positive -> positive **)

  and add_carry x y =
    match x with
    | XI p ->
      (match y with
       | XI q -> XI (add_carry p q)
       | XO q -> XO (add_carry p q)
       | XH -> XI (succ p))
    | XO p ->
      (match y with
       | XI q -> XO (add_carry p q)
       | XO q -> XI (add p q)
       | XH -> XO (succ p))
    | XH ->
      (match y with
       | XI q -> XI (succ q)
       | XO q -> XO (succ q)
       | XH -> XI XH)

  (** val pred_double : positive -> positive **)

  let rec pred_double = function
  | XI p -> XI (XO p)
  | XO p -> XI (pred_double p)
  | XH -> XH

  (** val mul : positive -> positive -> positive **)

  let rec mul x y =
    match x with
    | XI p -> add y (XO (mul p y))
    | XO p -> XO (mul p y)
    | XH -> y

  (** val compare_cont : comparison -> positive -> positive -> comparison **)

  let rec compare_cont r x y =
    match x with
    | XI p ->
      (match y with
       | XI q -> compare_cont r p q
       | XO q -> compare_cont Gt p q
       | XH -> Gt)
    | XO p ->
      (match y with
       | XI q -> compare_cont Lt p q
       | XO q -> compare_cont r p q
       | XH -> Gt)
    | XH -> (match y with
             | XH -> r
             | _ -> Lt)

  (** val compare : positive -> positive -> comparison **)

  let compare =
    compare_cont Eq

  (** val eqb : positive -> positive -> bool **)

  let rec eqb p q =
    match p with
    | XI p0 -> (match q with
                | XI q0 -> eqb p0 q0
                | _ -> false)
    | XO p0 -> (match q with
                | XO q0 -> eqb p0 q0
                | _ -> false)
    | XH -> (match q with
             | XH -> true
             | _ -> false)
 end

module Z =
 struct
  (** val double : z -> z **)

  let double = function
  | Z0 -> Z0
  | Zpos p -> Zpos (XO p)
  | Zneg p -> Zneg (XO p)

  (** val succ_double : z -> z **)

  let succ_double = function
  | Z0 -> Zpos XH
  | Zpos p -> Zpos (XI p)
  | Zneg p -> Zneg (Pos.pred_double p)

  (** val pred_double : z -> z **)

  let pred_double = function
  | Z0 -> Zneg XH
  | Zpos p -> Zpos (Pos.pred_double p)
  | Zneg p -> Zneg (XI p)

  (** val pos_sub : positive -> positive -> z **)

  let rec pos_sub x y =
    match x with
    | XI p ->
      (match y with
       | XI q -> double (pos_sub p q)
       | XO q -> succ_double (pos_sub p q)
       | XH -> Zpos (XO p))
    | XO p ->
      (match y with
       | XI q -> pred_double (pos_sub p q)
       | XO q -> double (pos_sub p q)
       | XH -> Zpos (Pos.pred_double p))
    | XH ->
      (match y with
       | XI q -> Zneg (XO q)
       | XO q -> Zneg (Pos.pred_double q)
       | XH -> Z0)

  (** val add : z -> z -> z **)

  let add x y =
    match x with
    | Z0 -> y
    | Zpos x' ->
      (match y with
       | Z0 -> x
       | Zpos y' -> Zpos (Pos.add x' y')
       | Zneg y' -> pos_sub x' y')
    | Zneg x' ->
      (match y with
       | Z0 -> x
       | Zpos y' -> pos_sub y' x'
       | Zneg y' -> Zneg (Pos.add x' y'))

  (** val opp : z -> z **)

  let opp = function
  | Z0 -> Z0
  | Zpos x0 -> Zneg x0
  | Zneg x0 -> Zpos x0

  (** val sub : z -> z -> z **)

  let sub m n0 =
    add m (opp n0)

  (** val mul : z -> z -> z **)

  let mul x y =
    match x with
    | Z0 -> Z0
    | Zpos x' ->
      (match y with
       | Z0 -> Z0
       | Zpos y' -> Zpos (Pos.mul x' y')
       | Zneg y' -> Zneg (Pos.mul x' y'))
    | Zneg x' ->
      (match y with
       | Z0 -> Z0
       | Zpos y' -> Zneg (Pos.mul x' y')
       | Zneg y' -> Zpos (Pos.mul x' y'))

  (** val compare : z -> z -> comparison **)

  let compare x y =
    match x with
    | Z0 -> (match y with
             | Z0 -> Eq
             | Zpos _ -> Lt
             | Zneg _ -> Gt)
    | Zpos x' -> (match y with
                  | Zpos y' -> Pos.compare x' y'
                  | _ -> Gt)
    | Zneg x' ->
      (match y with
       | Zneg y' -> compOpp (Pos.compare x' y')
       | _ -> Lt)

  (** val leb : z -> z -> bool **)

  let leb x y =
    match compare x y with
    | Gt -> false
    | _ -> true

  (** val ltb : z -> z -> bool **)

  let ltb x y =
    match compare x y with
    | Lt -> true
    | _ -> false

  (** val eqb : z -> z -> bool **)

  let eqb x y =
    match x with
    | Z0 -> (match y with
             | Z0 -> true
             | _ -> false)
    | Zpos p -> (match y with
                 | Zpos q -> Pos.eqb p q
                 | _ -> false)
    | Zneg p -> (match y with
                 | Zneg q -> Pos.eqb p q
                 | _ -> false)

  (** val pos_div_eucl : positive -> z -> z * z **)

  let rec pos_div_eucl a b =
    match a with
    | XI a' ->
      let (q, r) = pos_div_eucl a' b in
      let r' = add (mul (Zpos (XO XH)) r) (Zpos XH) in
      if ltb r' b
      then ((mul (Zpos (XO XH)) q), r')
      else ((add (mul (Zpos (XO XH)) q) (Zpos XH)), (sub r' b))
    | XO a' ->
      let (q, r) = pos_div_eucl a' b in
      let r' = mul (Zpos (XO XH)) r in
      if ltb r' b
      then ((mul (Zpos (XO XH)) q), r')
      else ((add (mul (Zpos (XO XH)) q) (Zpos XH)), (sub r' b))
    | XH -> if leb (Zpos (XO XH)) b then (Z0, (Zpos XH)) else ((Zpos XH), Z0)

  (** val div_eucl : z -> z -> z * z **)

  let div_eucl a b =
    match a with
    | Z0 -> (Z0, Z0)
    | Zpos a' ->
      (match b with
       | Z0 -> (Z0, a)
       | Zpos _ -> pos_div_eucl a' b
       | Zneg b' ->
         let (q, r) = pos_div_eucl a' (Zpos b') in
         (match r with
          | Z0 -> ((opp q), Z0)
          | _ -> ((opp (add q (Zpos XH))), (add b r))))
    | Zneg a' ->
      (match b with
       | Z0 -> (Z0, a)
       | Zpos _ ->
         let (q, r) = pos_div_eucl a' b in
         (match r with
          | Z0 -> ((opp q), Z0)
          | _ -> ((opp (add q (Zpos XH))), (sub b r)))
       | Zneg b' -> let (q, r) = pos_div_eucl a' (Zpos b') in (q, (opp r)))

  (** val div : z -> z -> z **)

  let div a b =
    let (q, _) = div_eucl a b in q

  (** val modulo : z -> z -> z **)

  let modulo a b =
    let (_, r) = div_eucl a b in r
 end

type fault =
| OOB_read
| OOB_write
| Uninit_read
| Null_deref
| Use_after_free
| Bad_free
| Out_of_fuel
| Int_overflow
| Abort

type 'a res =
| Ok of 'a
| Fault of fault

(** val bind : 'a1 res -> ('a1 -> 'a2 res) -> 'a2 res **)

let bind r k =
  match r with
  | Ok a -> k a
  | Fault f -> Fault f

(** val num_anchor : ((nat * positive) * n) * z **)

let num_anchor =
  (((O, XH), N0), Z0)

type cell = z option

type buf = cell list

(** val rdn : buf -> nat -> z res **)

let rdn b i =
  match nth_error b i with
  | Some c -> (match c with
               | Some v -> Ok v
               | None -> Fault Uninit_read)
  | None -> Fault OOB_read

(** val strlen : buf -> nat res **)

let rec strlen = function
| [] -> Fault OOB_read
| c0 :: t ->
  (match c0 with
   | Some c ->
     if Z.eqb c Z0 then Ok O else bind (strlen t) (fun n0 -> Ok (S n0))
   | None -> Fault Uninit_read)

(** val isupper : z -> bool **)

let isupper c =
  (&&) (Z.leb (Zpos (XI (XO (XO (XO (XO (XO XH))))))) c)
    (Z.leb c (Zpos (XO (XI (XO (XI (XI (XO XH))))))))

(** val islower : z -> bool **)

let islower c =
  (&&) (Z.leb (Zpos (XI (XO (XO (XO (XO (XI XH))))))) c)
    (Z.leb c (Zpos (XO (XI (XO (XI (XI (XI XH))))))))

(** val isalpha : z -> bool **)

let isalpha c =
  (||) (isupper c) (islower c)

(** val isdigit : z -> bool **)

let isdigit c =
  (&&) (Z.leb (Zpos (XO (XO (XO (XO (XI XH)))))) c)
    (Z.leb c (Zpos (XI (XO (XO (XI (XI XH)))))))

(** val isalnum : z -> bool **)

let isalnum c =
  (||) (isalpha c) (isdigit c)

(** val read_bytes : buf -> nat -> nat -> z list res **)

let rec read_bytes b start = function
| O -> Ok []
| S n' ->
  bind (rdn b start) (fun c ->
    bind (read_bytes b (S start) n') (fun r -> Ok (c :: r)))

type comps = { c_proto : z list option; c_user : z list option;
               c_passwd : z list option; c_host : z list option;
               c_port : z list option; c_path : z list option;
               c_query : z list option }

type lookup_result =
| LProto
| LServ of z * bool
| LNone

(** val ch_colon : z **)

let ch_colon =
  Zpos (XO (XI (XO (XI (XI XH)))))

(** val ch_slash : z **)

let ch_slash =
  Zpos (XI (XI (XI (XI (XO XH)))))

(** val ch_quest : z **)

let ch_quest =
  Zpos (XI (XI (XI (XI (XI XH)))))

(** val ch_at : z **)

let ch_at =
  Zpos (XO (XO (XO (XO (XO (XO XH))))))

(** val digit : z -> z **)

let digit d =
  Z.add (Zpos (XO (XO (XO (XO (XI XH)))))) d

(** val strip0 : z list -> z list **)

let rec strip0 l = match l with
| [] -> Z0 :: []
| d :: t ->
  (match t with
   | [] -> d :: []
   | _ :: _ -> if Z.eqb d Z0 then strip0 t else l)

(** val dec5 : z -> z list **)

let dec5 n0 =
  map digit
    (strip0
      ((Z.modulo
         (Z.div n0 (Zpos (XO (XO (XO (XO (XI (XO (XO (XO (XI (XI (XI (XO (XO
           XH))))))))))))))) (Zpos (XO (XI (XO XH))))) :: ((Z.modulo
                                                             (Z.div n0 (Zpos
                                                               (XO (XO (XO
                                                               (XI (XO (XI
                                                               (XI (XI (XI
                                                               XH)))))))))))
                                                             (Zpos (XO (XI
                                                             (XO XH))))) :: (
      (Z.modulo (Z.div n0 (Zpos (XO (XO (XI (XO (XO (XI XH)))))))) (Zpos (XO
        (XI (XO XH))))) :: ((Z.modulo (Z.div n0 (Zpos (XO (XI (XO XH)))))
                              (Zpos (XO (XI (XO XH))))) :: ((Z.modulo n0
                                                              (Zpos (XO (XI
                                                              (XO XH))))) :: []))))))

(** val strchr_go : buf -> nat -> z -> nat option res **)

let rec strchr_go b pos c =
  match b with
  | [] -> Fault OOB_read
  | c0 :: t ->
    (match c0 with
     | Some x ->
       if Z.eqb x Z0
       then Ok None
       else if Z.eqb x c then Ok (Some pos) else strchr_go t (S pos) c
     | None -> Fault Uninit_read)

(** val strchr_from : buf -> nat -> z -> nat option res **)

let strchr_from b start c =
  if Nat.leb start (length b)
  then strchr_go (skipn start b) start c
  else Fault OOB_read

(** val alnum_scan : buf -> nat -> nat -> nat res **)

let rec alnum_scan b pstr = function
| O -> Ok pstr
| S n' ->
  bind (rdn b pstr) (fun c ->
    if isalnum c then alnum_scan b (S pstr) n' else Ok pstr)

(** val read_str_go : buf -> z list res **)

let rec read_str_go = function
| [] -> Fault OOB_read
| c :: t ->
  (match c with
   | Some x ->
     if Z.eqb x Z0 then Ok [] else bind (read_str_go t) (fun r -> Ok (x :: r))
   | None -> Fault Uninit_read)

(** val read_str : buf -> nat -> z list res **)

let read_str b start =
  if Nat.leb start (length b)
  then read_str_go (skipn start b)
  else Fault OOB_read

(** val resolve_port : bool -> lookup_result -> (bool * z list option) res **)

let resolve_port fixed = function
| LProto -> if fixed then Ok (true, None) else Fault Uninit_read
| LServ (port, ok) ->
  if ok then Ok (true, (Some (dec5 port))) else Ok (false, None)
| LNone -> Ok (true, None)

(** val url_parse_gen :
    bool -> buf -> (z list -> lookup_result) -> (bool * comps) res **)

let url_parse_gen fixed b lookup =
  bind (strchr_from b O ch_colon) (fun pend0 ->
    bind
      (match pend0 with
       | Some pe ->
         bind (alnum_scan b O pe) (fun stop ->
           if Nat.eqb stop pe
           then bind (read_bytes b O pe) (fun p -> Ok ((Some p), (S pe)))
           else Ok (None, O))
       | None -> Ok (None, O)) (fun x ->
      let (proto, pstr) = x in
      bind (rdn b pstr) (fun c0 ->
        bind
          (if Z.eqb c0 ch_slash
           then bind (rdn b (S pstr)) (fun c1 -> Ok
                  (if Z.eqb c1 ch_slash then add pstr (S (S O)) else pstr))
           else Ok pstr) (fun pstr0 ->
          bind (strchr_from b pstr0 ch_slash) (fun sl ->
            bind
              (match sl with
               | Some pe ->
                 bind (strchr_from b pe ch_quest) (fun q ->
                   match q with
                   | Some t ->
                     bind (read_str b (S t)) (fun qs ->
                       bind (read_bytes b pe (sub t pe)) (fun pa -> Ok
                         (((Some pa), (Some qs)), pe)))
                   | None ->
                     bind (read_str b pe) (fun pa -> Ok (((Some pa), None),
                       pe)))
               | None ->
                 bind (strchr_from b pstr0 ch_quest) (fun q ->
                   match q with
                   | Some pe ->
                     bind (read_str b (S pe)) (fun qs -> Ok ((None, (Some
                       qs)), pe))
                   | None ->
                     bind (strlen (skipn pstr0 b)) (fun l -> Ok ((None,
                       None), (add pstr0 l))))) (fun x0 ->
              let (p, pend) = x0 in
              let (path, query) = p in
              bind (strchr_from b pstr0 ch_at) (fun at_ ->
                bind
                  (match at_ with
                   | Some pt ->
                     if Nat.ltb pt pend
                     then bind (strchr_from b pstr0 ch_colon) (fun co ->
                            match co with
                            | Some t ->
                              if Nat.ltb t pt
                              then bind (read_bytes b pstr0 (sub t pstr0))
                                     (fun u ->
                                     bind
                                       (read_bytes b (S t)
                                         (sub (sub pt t) (S O))) (fun pw ->
                                       Ok (((Some u), (Some pw)), (S pt))))
                              else bind (read_bytes b pstr0 (sub pt pstr0))
                                     (fun u -> Ok (((Some u), None), (S pt)))
                            | None ->
                              bind (read_bytes b pstr0 (sub pt pstr0))
                                (fun u -> Ok (((Some u), None), (S pt))))
                     else Ok ((None, None), pstr0)
                   | None -> Ok ((None, None), pstr0)) (fun x1 ->
                  let (p0, pstr1) = x1 in
                  let (user, passwd) = p0 in
                  bind (strchr_from b pstr1 ch_colon) (fun co ->
                    bind
                      (match co with
                       | Some pt ->
                         if Nat.ltb pt pend
                         then bind (read_bytes b pstr1 (sub pt pstr1))
                                (fun h ->
                                bind
                                  (read_bytes b (S pt)
                                    (sub (sub pend pt) (S O))) (fun po -> Ok
                                  ((Some h), (Some po))))
                         else if Nat.eqb pstr1 pend
                              then Ok (None, None)
                              else bind (read_bytes b pstr1 (sub pend pstr1))
                                     (fun h -> Ok ((Some h), None))
                       | None ->
                         if Nat.eqb pstr1 pend
                         then Ok (None, None)
                         else bind (read_bytes b pstr1 (sub pend pstr1))
                                (fun h -> Ok ((Some h), None))) (fun x2 ->
                      let (host, port) = x2 in
                      (match port with
                       | Some _ ->
                         Ok (true, { c_proto = proto; c_user = user;
                           c_passwd = passwd; c_host = host; c_port = port;
                           c_path = path; c_query = query })
                       | None ->
                         (match proto with
                          | Some pw ->
                            bind (resolve_port fixed (lookup pw)) (fun x3 ->
                              let (ok, po) = x3 in
                              Ok (ok, { c_proto = proto; c_user = user;
                              c_passwd = passwd; c_host = host; c_port = po;
                              c_path = path; c_query = query }))
                          | None ->
                            Ok (true, { c_proto = proto; c_user = user;
                              c_passwd = passwd; c_host = host; c_port =
                              port; c_path = path; c_query = query })))))))))))))

(** val find_go : z -> z list -> nat -> nat option **)

let rec find_go c s pos =
  match s with
  | [] -> None
  | x :: t -> if Z.eqb x c then Some pos else find_go c t (S pos)

(** val find_from : z -> z list -> nat -> nat option **)

let find_from c s start =
  find_go c (skipn start s) start

(** val sub0 : z list -> nat -> nat -> z list **)

let sub0 s a b =
  firstn (sub b a) (skipn a s)

(** val nthz : z list -> nat -> z **)

let nthz s i =
  nth i s Z0

(** val stage1 : z list -> z list option * nat **)

let stage1 s =
  match find_from ch_colon s O with
  | Some pe ->
    if forallb isalnum (sub0 s O pe)
    then ((Some (sub0 s O pe)), (S pe))
    else (None, O)
  | None -> (None, O)

(** val stage2 : z list -> nat -> nat **)

let stage2 s pstr =
  if (&&) (Z.eqb (nthz s pstr) ch_slash) (Z.eqb (nthz s (S pstr)) ch_slash)
  then add pstr (S (S O))
  else pstr

(** val stage3 : z list -> nat -> (z list option * z list option) * nat **)

let stage3 s pstr =
  match find_from ch_slash s pstr with
  | Some pe ->
    (match find_from ch_quest s pe with
     | Some t -> (((Some (sub0 s pe t)), (Some (skipn (S t) s))), pe)
     | None -> (((Some (skipn pe s)), None), pe))
  | None ->
    (match find_from ch_quest s pstr with
     | Some pe -> ((None, (Some (skipn (S pe) s))), pe)
     | None -> ((None, None), (length s)))

(** val stage4 :
    z list -> nat -> nat -> (z list option * z list option) * nat **)

let stage4 s pstr pend =
  match find_from ch_at s pstr with
  | Some pt ->
    if Nat.ltb pt pend
    then (match find_from ch_colon s pstr with
          | Some t ->
            if Nat.ltb t pt
            then (((Some (sub0 s pstr t)), (Some (sub0 s (S t) pt))), (S pt))
            else (((Some (sub0 s pstr pt)), None), (S pt))
          | None -> (((Some (sub0 s pstr pt)), None), (S pt)))
    else ((None, None), pstr)
  | None -> ((None, None), pstr)

(** val stage5 : z list -> nat -> nat -> z list option * z list option **)

let stage5 s pstr pend =
  match find_from ch_colon s pstr with
  | Some pt ->
    if Nat.ltb pt pend
    then ((Some (sub0 s pstr pt)), (Some (sub0 s (S pt) pend)))
    else if Nat.eqb pstr pend
         then (None, None)
         else ((Some (sub0 s pstr pend)), None)
  | None ->
    if Nat.eqb pstr pend
    then (None, None)
    else ((Some (sub0 s pstr pend)), None)

(** val finish : (z list -> lookup_result) -> comps -> bool * comps **)

let finish lookup c =
  match c.c_port with
  | Some _ -> (true, c)
  | None ->
    (match c.c_proto with
     | Some pw ->
       (match lookup pw with
        | LServ (p, proto_ok) ->
          if proto_ok
          then (true, { c_proto = c.c_proto; c_user = c.c_user; c_passwd =
                 c.c_passwd; c_host = c.c_host; c_port = (Some (dec5 p));
                 c_path = c.c_path; c_query = c.c_query })
          else (false, c)
        | _ -> (true, c))
     | None -> (true, c))

(** val parse_pure : z list -> (z list -> lookup_result) -> bool * comps **)

let parse_pure s lookup =
  let (proto, pstr) = stage1 s in
  let pstr0 = stage2 s pstr in
  let (p, pend) = stage3 s pstr0 in
  let (path, query) = p in
  let (p0, pstr1) = stage4 s pstr0 pend in
  let (user, passwd) = p0 in
  let (host, port) = stage5 s pstr1 pend in
  finish lookup { c_proto = proto; c_user = user; c_passwd = passwd; c_host =
    host; c_port = port; c_path = path; c_query = query }

(** val opt_app : z list option -> (z list -> z list) -> z list **)

let opt_app o f =
  match o with
  | Some x -> f x
  | None -> []

(** val render : comps -> bool -> z list **)

let render c slashes =
  app (opt_app c.c_proto (fun p -> app p (ch_colon :: [])))
    (app (if slashes then ch_slash :: (ch_slash :: []) else [])
      (app
        (opt_app c.c_user (fun u ->
          app u
            (app (opt_app c.c_passwd (fun pw -> ch_colon :: pw))
              (ch_at :: []))))
        (app
          (opt_app c.c_host (fun h ->
            app h (opt_app c.c_port (fun po -> ch_colon :: po))))
          (app (opt_app c.c_path (fun p -> p))
            (opt_app c.c_query (fun q -> ch_quest :: q))))))

(** val localhost : z list **)

let localhost =
  (Zpos (XO (XO (XI (XI (XO (XI XH))))))) :: ((Zpos (XI (XI (XI (XI (XO (XI
    XH))))))) :: ((Zpos (XI (XI (XO (XO (XO (XI XH))))))) :: ((Zpos (XI (XO
    (XO (XO (XO (XI XH))))))) :: ((Zpos (XO (XO (XI (XI (XO (XI
    XH))))))) :: ((Zpos (XO (XO (XO (XI (XO (XI XH))))))) :: ((Zpos (XI (XI
    (XI (XI (XO (XI XH))))))) :: ((Zpos (XI (XI (XO (XO (XI (XI
    XH))))))) :: ((Zpos (XO (XO (XI (XO (XI (XI XH))))))) :: []))))))))

(** val canon : comps -> comps **)

let canon c =
  match c.c_port with
  | Some _ ->
    (match c.c_host with
     | Some _ -> c
     | None ->
       { c_proto = c.c_proto; c_user = c.c_user; c_passwd = c.c_passwd;
         c_host = (Some localhost); c_port = c.c_port; c_path = c.c_path;
         c_query = c.c_query })
  | None -> c

(** val unparse_text : comps -> z list **)

let unparse_text c =
  let c0 = canon c in
  app (opt_app c0.c_proto (fun p -> app p (ch_colon :: [])))
    (app
      (match c0.c_host with
       | Some _ -> ch_slash :: (ch_slash :: [])
       | None -> [])
      (app
        (opt_app c0.c_user (fun u ->
          app u
            (app (opt_app c0.c_passwd (fun pw -> ch_colon :: pw))
              (ch_at :: []))))
        (app
          (opt_app c0.c_host (fun h ->
            app h (opt_app c0.c_port (fun po -> ch_colon :: po))))
          (app (opt_app c0.c_path (fun p -> p))
            (opt_app c0.c_query (fun q -> ch_quest :: q))))))

(** val fill_port : comps -> (z list -> lookup_result) -> bool * comps **)

let fill_port c lookup =
  finish lookup c
