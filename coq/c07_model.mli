
val negb : bool -> bool

type nat =
| O
| S of nat

val option_map : ('a1 -> 'a2) -> 'a1 option -> 'a2 option

val snd : ('a1 * 'a2) -> 'a2

val length : 'a1 list -> nat

val app : 'a1 list -> 'a1 list -> 'a1 list

type comparison =
| Eq
| Lt
| Gt

val compOpp : comparison -> comparison

val add : nat -> nat -> nat

val sub : nat -> nat -> nat

module Nat :
 sig
  val eqb : nat -> nat -> bool

  val leb : nat -> nat -> bool

  val ltb : nat -> nat -> bool
 end

val nth_error : 'a1 list -> nat -> 'a1 option

val rev : 'a1 list -> 'a1 list

val map : ('a1 -> 'a2) -> 'a1 list -> 'a2 list

val fold_right : ('a2 -> 'a1 -> 'a1) -> 'a1 -> 'a2 list -> 'a1

val firstn : nat -> 'a1 list -> 'a1 list

val skipn : nat -> 'a1 list -> 'a1 list

val repeat : 'a1 -> nat -> 'a1 list

type positive =
| XI of positive
| XO of positive
| XH

type n =
| N0
| Npos of positive

type z =
| Z0
| Zpos of positive
| Zneg of positive

module Pos :
 sig
  val succ : positive -> positive

  val add : positive -> positive -> positive

  val add_carry : positive -> positive -> positive

  val pred_double : positive -> positive

  val compare_cont : comparison -> positive -> positive -> comparison

  val compare : positive -> positive -> comparison

  val eqb : positive -> positive -> bool

  val iter_op : ('a1 -> 'a1 -> 'a1) -> positive -> 'a1 -> 'a1

  val to_nat : positive -> nat

  val of_succ_nat : nat -> positive
 end

module Z :
 sig
  val double : z -> z

  val succ_double : z -> z

  val pred_double : z -> z

  val pos_sub : positive -> positive -> z

  val add : z -> z -> z

  val opp : z -> z

  val sub : z -> z -> z

  val compare : z -> z -> comparison

  val leb : z -> z -> bool

  val ltb : z -> z -> bool

  val eqb : z -> z -> bool

  val max : z -> z -> z

  val min : z -> z -> z

  val to_nat : z -> nat

  val of_nat : nat -> z
 end

type fault =
| OOB_read
| OOB_write
| Uninit_read
| Null_deref
| Use_after_free
| Bad_free
| Out_of_fuel
| Int_overflow
| Abort

type 'a res =
| Ok of 'a
| Fault of fault

val bind : 'a1 res -> ('a1 -> 'a2 res) -> 'a2 res

val num_anchor : ((nat * positive) * n) * z

type cell = z option

type buf = cell list

val blen : buf -> z

val rdn : buf -> nat -> z res

val upd : 'a1 list -> nat -> 'a1 -> 'a1 list

val wrn : buf -> nat -> z -> buf res

val rd : buf -> z -> z res

val wr : buf -> z -> z -> buf res

val bytes : z list -> buf

val isspace : z -> bool

val mbuff_buff_inc : z

type mb = { buff : buf option; len : z; size : z }

val buff_inc : z

val mALLOC : z -> buf option res

val rEALLOC : buf option -> z -> buf option res

val cells_at : buf -> z -> z -> cell list res

val put_at : buf -> z -> cell list -> buf res

val pcells : buf option -> z -> z -> cell list res

val pput : buf option -> z -> cell list -> buf option res

val all_init : cell list -> z list res

val pbytes : buf option -> z -> z -> z list res

val prd : buf option -> z -> z res

val memcpy : buf option -> z -> buf option -> z -> z -> buf option res

val memmove_in : buf option -> z -> z -> z -> buf option res

val memset : buf option -> z -> z -> z -> buf option res

val memcmp_l : z list -> z list -> z

val memcmp : buf option -> buf option -> z -> z res

val prefixb : z list -> z list -> bool

val search : z list -> z list -> z -> z option

val memmem : buf option -> z -> buf option -> z -> z option res

val sgn : z -> z

val cmp_z : z -> z -> z

type ev =
| Data of z list
| Short of z list
| EINTR
| EOF
| Err

type rdres =
| RData of z list
| REintr
| RErr

val sysread : ev list -> z -> rdres * ev list

val ev_weight : ev -> nat

val sched_fuel : ev list -> nat

type fkind =
| Seekable of z * z
| Stream

val fread :
  nat -> ev list -> z -> z list -> (((z list * bool) * bool) * ev list) res

val mb_null : mb

val init : bool * mb

val init_from_ptr : buf option -> z -> (bool * mb) res

val init_from_buff_at : buf option -> z -> z -> z -> (bool * mb) res

val init_from_buff : buf option -> z -> z -> (bool * mb) res

val stream_finish : buf option -> z -> (bool * mb) res

val fd_loop : nat -> ev list -> buf option -> z -> z -> (buf option * z) res

val init_from_fd : fkind -> ev list -> (bool * mb) res

val fp_loop : nat -> ev list -> buf option -> z -> z -> (buf option * z) res

val init_from_fp : fkind -> ev list -> (bool * mb) res

val done0 : mb -> bool * mb

val dup : mb -> mb res

val append : mb -> mb option -> (bool * mb) res

val append_from_ptr : mb -> buf option -> z -> (bool * mb) res

val clear : mb -> z -> (bool * mb) res

val cmp : mb -> mb option -> z res

val cmp_with_ptr : mb -> buf option -> z -> z res

val ncmp : mb -> mb option -> z -> z res

val find_gen : mb -> buf option -> z -> z res

val find : mb -> mb option -> z res

val find_from_ptr : mb -> buf option -> z -> z res

val index_loop : nat -> buf option -> z -> z -> z -> z res

val index : mb -> z -> z res

val rindex_loop : nat -> buf option -> z -> z -> z -> z res

val rindex : mb -> z -> z res

val prepend : mb -> mb option -> (bool * mb) res

val prepend_from_ptr : mb -> buf option -> z -> (bool * mb) res

val rev_loop : nat -> buf -> z -> z -> buf res

val reverse : mb -> (bool * mb) res

val splice_pos : z -> z -> z -> (z * z) option

val splice_gen : mb -> z -> z -> buf option -> z -> (bool * mb) res

val splice : mb -> z -> z -> mb option -> (bool * mb) res

val splice_from_ptr : mb -> z -> z -> buf option -> z -> (bool * mb) res

type fmt =
| FNull
| FEmpty
| FOut of z list

val sprintf : mb -> fmt -> (bool * mb) res

val sub_pos : z -> z -> z -> (z * z) option

val subbuff : mb -> z -> z -> mb option res

val subbuff_to_ptr : mb -> z -> z -> buf option res

val trim_fwd : nat -> buf option -> z -> z -> z res

val trim_bwd : nat -> buf option -> z -> z -> z res

val trim : mb -> (bool * mb) res

type ptr = z list option

val pbuf : ptr -> buf option

type ctor =
| CNew
| CPtr of ptr * z
| CBuff of ptr * z * z
| CFp of fkind * ev list
| CFd of fkind * ev list

type op =
| Done
| Dup
| DupTo
| Append of mb option
| AppendPtr of ptr * z
| Prepend of mb option
| PrependPtr of ptr * z
| Splice of z * z * mb option
| SplicePtr of z * z * ptr * z
| Subbuff of z * z
| SubbuffPtr of z * z
| Trim
| Reverse
| Clear of z
| Sprintf of fmt
| Cmp of mb option
| CmpPtr of ptr * z
| Ncmp of mb option * z
| NcmpPtr of ptr * z
| Find of mb option
| FindPtr of ptr * z
| Index of z
| Rindex of z
| GetLen
| GetSize
| SetLen of z
| SetSize of z

type mout =
| MBool of bool
| MIdx of z
| MCmp of z
| MObj of mb option
| MPtr of buf option
| MSize of z

val run_ctor : ctor -> (bool * mb) res

val lift : (bool * mb) res -> (mout * mb) res

val step : mb -> op -> (mout * mb) res

val null_self : op -> mout option

val init_prefix : cell list -> z list

val abs : mb -> z list

val zlen : z list -> z

val lex : z list -> z list -> z

val take : z -> z list -> z list

val drop : z -> z list -> z list

val s_index_from : z list -> z -> z -> z option

val s_rindex_from : z list -> z -> z -> z option

val or_len : z list -> z option -> z

val s_index : z list -> z -> z

val s_rindex : z list -> z -> z

val s_find : z list -> z list -> z

val dropwhile : (z -> bool) -> z list -> z list

val s_trim : z list -> z list

val s_splice : z list -> z -> z -> z list -> z list option

val s_sub : z list -> z -> z -> z list option

val s_ncmp : z list -> z list -> z -> z

val stream_bytes : bool -> ev list -> z list

val first_read : ev list -> z -> z list

val other_bytes : mb option -> z list

val ptr_bytes : ptr -> z -> z list

type out =
| OBool of bool
| OIdx of z
| OCmp of z
| OObj of z list option
| OPtr of z list option
| OUnit

val out_abs : mout -> out

val spec_ctor : ctor -> bool * z list

val isnull : 'a1 option -> bool

val spec_step : z list -> op -> out * z list
