
val negb : bool -> bool

type nat =
| O
| S of nat

val length : 'a1 list -> nat

val app : 'a1 list -> 'a1 list -> 'a1 list

type comparison =
| Eq
| Lt
| Gt

val compOpp : comparison -> comparison

val sub : nat -> nat -> nat

module Nat :
 sig
  val eqb : nat -> nat -> bool

  val leb : nat -> nat -> bool

  val ltb : nat -> nat -> bool
 end

val tl : 'a1 list -> 'a1 list

val map : ('a1 -> 'a2) -> 'a1 list -> 'a2 list

val existsb : ('a1 -> bool) -> 'a1 list -> bool

val repeat : 'a1 -> nat -> 'a1 list

type positive =
| XI of positive
| XO of positive
| XH

type n =
| N0
| Npos of positive

type z =
| Z0
| Zpos of positive
| Zneg of positive

module Pos :
 sig
  val succ : positive -> positive

  val add : positive -> positive -> positive

  val add_carry : positive -> positive -> positive

  val pred_double : positive -> positive

  val compare_cont : comparison -> positive -> positive -> comparison

  val compare : positive -> positive -> comparison

  val eqb : positive -> positive -> bool
 end

module Z :
 sig
  val double : z -> z

  val succ_double : z -> z

  val pred_double : z -> z

  val pos_sub : positive -> positive -> z

  val add : z -> z -> z

  val opp : z -> z

  val sub : z -> z -> z

  val compare : z -> z -> comparison

  val leb : z -> z -> bool

  val ltb : z -> z -> bool

  val gtb : z -> z -> bool

  val eqb : z -> z -> bool
 end

type fault =
| OOB_read
| OOB_write
| Uninit_read
| Null_deref
| Use_after_free
| Bad_free
| Out_of_fuel
| Int_overflow
| Abort

type 'a res =
| Ok of 'a
| Fault of fault

val bind : 'a1 res -> ('a1 -> 'a2 res) -> 'a2 res

val num_anchor : ((nat * positive) * n) * z

type cell = z option

type buf = cell list

val upd : 'a1 list -> nat -> 'a1 -> 'a1 list

val wrn : buf -> nat -> z -> buf res

val bytes : z list -> buf

val cstr : z list -> buf -> buf

val isupper : z -> bool

val islower : z -> bool

val isalpha : z -> bool

val isdigit : z -> bool

val isalnum : z -> bool

val tolower : z -> z

val vc_bufsz1 : nat

val vc_bufsz2 : nat

val vc_default1 : z

val vc_default2 : z

val vc_arbitrary : z

val vc_words1 : (z list * z) list

val vc_words2 : (z list * z) list

val vc_tail1 : z list list

val vc_tail1_yes : comparison

val vc_tail1_no : comparison

val vc_tail2 : z list list

val vc_tail2_yes : comparison

val vc_tail2_no : comparison

val map_str : (z -> z) -> buf -> buf res

val downcase_str : buf -> buf res

val cmp_of_int : z -> comparison

val peek : z list -> z

val ispunct' : z -> bool

val strcmp_c : (z -> z) -> buf -> buf -> z res

val idb : z -> z

val strcasecmp_l : z list -> z list -> z

val strncmp_l : z list -> z list -> nat -> z

val beg_ci : z list -> z list -> bool

val copy_run :
  bool -> (z -> bool) -> z list -> buf -> nat -> ((z list * buf) * nat) res

val copy_runs :
  bool -> (z -> bool) -> z list -> z list -> buf -> buf -> (((z list * z
  list) * buf) * buf) res

val word_rank : (z list * z) list -> z -> buf -> z res

val skip_zeros : z list -> z list

val span_digits : z list -> z list * z list

val tail_rule :
  z list list -> comparison -> comparison -> z list -> comparison

val vc_loop :
  bool -> bool -> nat -> z list -> z list -> buf -> buf -> comparison res

val fresh : nat -> buf

val vercmp_gen : bool -> bool -> z list -> z list -> comparison res

val vercmp : z list -> z list -> comparison res
